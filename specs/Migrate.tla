------------------------------- MODULE Migrate -------------------------------
(***************************************************************************)
(* C13 -- upgrading a configuration file never panics, reaches the current *)
(* schema, and does not depend on the path taken.                          *)
(*                                                                         *)
(* A YAML document is abstracted to a SHAPE: a function from keys to       *)
(* cells.  A key is a dotted path ("dns.bind_host"); a cell is             *)
(*      [t |-> type, v |-> symbolic value]                                 *)
(* with t in absent / null / int / str / bool / float / list / obj / time  *)
(* plus three Go-only types that exist between two steps of one run and    *)
(* that YAML forgets (dur = timeutil.Duration, umode =                     *)
(* dnsforward.UpstreamMode, strs = []string; see Ser).  The value v is     *)
(* symbolic, so that the real result can be checked against the real       *)
(* input without the spec knowing any concrete string:                     *)
(*      "sec"          a map whose children are cells of their own         *)
(*      "cl"           the client list; its elements are the pseudo        *)
(*                     sections cl0, cl1, cl2 (steps 4, 6, 19, 22 map over *)
(*                     the elements)                                       *)
(*      "lit:<yaml>"   this literal (the spec branches on a few of them)   *)
(*      "src:<key>"    whatever the INPUT document holds at <key>          *)
(*      "<f>:<value>"  a value built by a step from another value          *)
(*                     (wrap, days, hours, ss, edns, bsvc, users, ...);    *)
(*                     the harness knows how to evaluate each f            *)
(*                                                                         *)
(* The universe of valid documents is not invented: baselines.ndjson is    *)
(* the abstraction of the repository's own golden files (one per schema    *)
(* version), produced by the harness from the current working tree.  TLC   *)
(* deviates from them (one key, or two in the pairs configuration): key    *)
(* absent, null, of an unexpected type, another value, unknown extra key.  *)
(*                                                                         *)
(* Each of the 29 steps is transcribed as an operator from a shape to a    *)
(* SET of outcomes.  On well-typed input a step is deterministic.  Where a *)
(* step meets null or a wrong type the statement is silent, so the spec    *)
(* admits every reasonable reading (FV below): fail with an error, treat   *)
(* the key as absent, or go on with the zero value of the expected type    *)
(* (a null section then behaves as an empty one and comes into being when  *)
(* the step writes into it).  There is no outcome "panic": a run of the    *)
(* real code that panics matches nothing.                                  *)
(***************************************************************************)
EXTENDS Sequences, Integers, FiniteSets, TLC, Json

CONSTANTS
    Pairs       \* TRUE: two simultaneous deviations, FALSE: one (and the baselines)

VARIABLES st, vec
vars == <<st, vec>>

Last == 29
Base == ndJsonDeserialize("baselines.ndjson")    \* Base[v+1] = [v, cells]

\* ------------------------------------------------------------------- keys
K0(s, n) == IF s = "" THEN n ELSE s \o "." \o n

\* Keys a step mentions (section |-> names).  Everything else that occurs in
\* a golden file is a key no step concerns.
StepNames == [
  top |-> {"schema_version", "coredns", "dns", "clients", "auth_name", "auth_pass", "users", "dhcp",
           "rlimit_nofile", "os", "querylog", "statistics", "bind_host", "bind_port",
           "web_session_ttl", "http", "log_file", "log_max_backups", "log_max_size", "log_max_age",
           "log_compress", "log_localtime", "verbose", "log", "debug_pprof", "filtering", "filters",
           "cl0", "cl1", "cl2", "fl0", "zz_extra", "whitelist_filters",
           "@env.workdir", "@env.dnsfilter", "@env.corefile"},
  dns |-> {"bootstrap_dns", "bind_host", "bind_hosts", "autohost_tld", "local_domain_name",
           "upstream_dns", "local_ptr_upstreams", "querylog_interval", "resolve_clients",
           "querylog_enabled", "querylog_file_enabled", "querylog_size_memory",
           "statistics_interval", "edns_client_subnet", "safe_search", "safesearch_enabled",
           "blocked_services", "all_servers", "fastest_addr", "upstream_mode",
           "filtering_enabled", "filters_update_interval", "parental_enabled",
           "safebrowsing_enabled", "safebrowsing_cache_size", "safesearch_cache_size",
           "parental_cache_size", "rewrites", "protection_enabled", "blocking_mode",
           "blocking_ipv4", "blocking_ipv6", "blocked_response_ttl", "protection_disabled_until",
           "parental_block_host", "safebrowsing_block_host", "zz_extra"},
  cl0 |-> {"use_global_blocked_services", "ip", "mac", "ids", "safesearch_enabled", "safe_search",
           "blocked_services", "zz_extra"},
  fl0 |-> {"url"},
  dhcp |-> {"dhcpv4", "gateway_ip", "subnet_mask", "range_start", "range_end", "lease_duration",
            "icmp_timeout_msec", "local_domain_name"},
  dhcpv4 |-> {"gateway_ip", "subnet_mask", "range_start", "range_end", "lease_duration",
              "icmp_timeout_msec"},
  os |-> {"group", "rlimit_nofile", "user"},
  clients |-> {"persistent", "runtime_sources"},
  querylog |-> {"ignored", "enabled", "file_enabled", "interval", "size_memory"},
  statistics |-> {"enabled", "interval", "ignored"},
  http |-> {"address", "session_ttl", "pprof"},
  log |-> {"file", "max_backups", "max_size", "max_age", "compress", "local_time", "verbose"},
  filtering |-> {"filtering_enabled", "filters_update_interval", "parental_enabled",
           "safebrowsing_enabled", "safebrowsing_cache_size", "safesearch_cache_size",
           "parental_cache_size", "safe_search", "rewrites", "blocked_services",
           "protection_enabled", "blocking_mode", "blocking_ipv4", "blocking_ipv6",
           "blocked_response_ttl", "protection_disabled_until", "parental_block_host",
           "safebrowsing_block_host", "safe_fs_patterns"} ]

SecKey(f) == IF f = "top" THEN "" ELSE IF f = "dhcpv4" THEN "dhcp.dhcpv4" ELSE f

StepPairs == UNION {{<<SecKey(f), n>> : n \in StepNames[f]} : f \in DOMAIN StepNames}
BasePairs == UNION {{<<Base[i].cells[j].p, Base[i].cells[j].n>> : j \in DOMAIN Base[i].cells} : i \in DOMAIN Base}
\* The client list is a list of records: its elements are the pseudo sections
\* cl0, cl1, cl2 with the same children (the golden files have one client;
\* documents with two and three clients of different shapes are built from
\* it, see FamDoc).
ElemSeq   == <<"cl0", "cl1", "cl2">>
ElemKeys  == {"cl0", "cl1", "cl2"}
ElNames   == {p[2] : p \in {q \in StepPairs \cup BasePairs : q[1] = "cl0"}}
AllPairs  == StepPairs \cup BasePairs \cup {<<e, n>> : e \in ElemKeys, n \in ElNames}
Keys      == {K0(p[1], p[2]) : p \in AllPairs}
Secs      == {p[1] : p \in AllPairs} \ {""}
\* String concatenation interns the result under a global lock in TLC: the
\* key of (section, name) is looked up in a table built once.
KTab      == [s \in Secs |-> [n \in {p[2] : p \in {q \in AllPairs : q[1] = s}} |-> K0(s, n)]]
K(s, n)   == IF s = "" THEN n ELSE KTab[s][n]
ChildMap  == [s \in Secs |-> {K0(p[1], p[2]) : p \in {q \in AllPairs : q[1] = s}}]
Kids(k)   == IF k \in Secs THEN ChildMap[k] ELSE {}
\* Descendants (sections nest at most two deep).
DescMap   == [k \in Keys |-> Kids(k) \cup UNION {Kids(c) : c \in Kids(k)}]
D(k)      == DescMap[k]
ClSub     == ElemKeys \cup UNION {D(e) : e \in ElemKeys}
ElK(ns)   == {K0(e, n) : e \in ElemKeys, n \in ns}

\* ------------------------------------------------------------------ cells
C(t, v) == [t |-> t, v |-> v]
Absent  == C("absent", "")
Null    == C("null", "lit:null")
SecC    == C("obj", "sec")
ZS      == "lit:\"\""
Zero(T) == CASE T = "int"  -> C("int", "lit:0")
             [] T = "str"  -> C("str", ZS)
             [] T = "bool" -> C("bool", "lit:false")
             [] T = "list" -> C("list", "lit:[]")
             [] T = "obj"  -> C("obj", "lit:{}")
\* Values outside the domain of a conversion a step performs (uint16 port,
\* days / hours as nanoseconds): the statement admits an error or going on;
\* what the converted value then is, it does not say ("any:").
Huge     == "lit:9223372036854775807"
OddInt   == {"lit:-1", Huge}
OddPort  == OddInt \cup {"lit:65536"}
AnyV(t)   == C(t, "any:")
\* Lists with elements that are neither strings nor objects.
BadElems == {"lit:[1.5,null]"}
\* (NotAllStr / NotAllObj: list literals some element of which is not a
\* string / not an object; steps that walk a list may refuse those.)
\* Degenerate strings for the places where a step looks INTO a string
\* (upstream entries at step 10, the address at 23, ip / mac at 6, the
\* password at 5, the filter URL at 29, the ignored hosts at 27).  They are
\* named, not spelled: the harness owns the spelling ("deg:tab" is a tab,
\* "deglist:" the list of about thirty such strings: empty, blanks, tab,
\* "#", indented comments, "[", "[/", "[//]", "[/x/]", "://", "quic://"
\* without host, padded upstreams, ...).  Nothing in the spec depends on
\* their content except that none of them is an IP address.
DegKinds == {"blank", "tab", "hash", "lbr", "lbrs", "lbrss", "scheme", "quicnohost", "padded"}
\* Multi-line strings that the YAML encoder of the code cannot write in a form
\* that reads back as the same string (first character a tab; line breaks
\* only; leading line break), put into keys no step touches.  The ideal
\* outcome keeps them; since the encoder cannot, refusing the upgrade with
\* the file unchanged is the other admissible outcome (Unwritable below).
\* (indnl: a line break followed by an INDENTED line, "\n  x\n": written as a
\* block scalar that reads back without the empty first line and is written
\* the same way again -- a stable but wrong form.)
MLKinds  == {"tabml", "nlonly", "nl2", "leadnl", "indnl"}
DegLit   == [k \in DegKinds \cup MLKinds |-> "deg:" \o k]
\* (Minus zero, -0.0, is in the same class: the encoder writes "-0", which
\* reads back as the integer 0 and is written as "0" the next time.)
UnwritableV == {DegLit[k] : k \in MLKinds} \cup {"mllist:", "negz:", "nlkey:"}
\* "nlkey:" stands for an unknown top-level setting whose KEY is a text the encoder
\* does not write back faithfully ("\n x\n", with the value 7): the same two outcomes
\* are admissible as for an unwritable value -- preserved, or an error with the file
\* unchanged -- and a silently renamed key is neither (seeded change C13-16).
OddStrs  == "deglist:"
DotList  == "lit:[\".\",\"a\",1.5]"
\* Lists of records with elements of different shapes.  The three filter
\* records (URL, absolute path, no URL) come in all six orders; users,
\* rewrites and allow-list filters get three records with different key sets.
FA == "{\"url\":\"https://a.example/f.txt\",\"name\":\"A\",\"enabled\":true,\"id\":1}"
FB == "{\"url\":\"/path/to/file.txt\",\"name\":\"B\",\"enabled\":false,\"id\":2}"
FC == "{\"name\":\"C\",\"enabled\":true,\"id\":3}"
L3(a, b, c) == "lit:[" \o a \o "," \o b \o "," \o c \o "]"
Perms == [perm1 |-> L3(FA, FB, FC), perm2 |-> L3(FA, FC, FB), perm3 |-> L3(FB, FA, FC),
          perm4 |-> L3(FB, FC, FA), perm5 |-> L3(FC, FA, FB), perm6 |-> L3(FC, FB, FA)]
RecsLit(k) ==
    CASE k = "users" -> L3("{\"name\":\"u1\",\"password\":\"p1\"}", "{\"name\":\"u2\"}",
                           "{\"name\":\"u3\",\"password\":\"p3\",\"zz_extra\":\"zz\"}")
      [] k = "whitelist_filters" -> L3(FB, FC, FA)
      [] OTHER -> L3("{\"domain\":\"a.example\",\"answer\":\"1.2.3.4\"}", "{\"domain\":\"b.example\"}",
                     "{\"domain\":\"*.c.example\",\"answer\":\"a.example\",\"zz_extra\":\"zz\"}")
RecKeys(v) == {"users", "whitelist_filters"} \cup (IF v < 26 THEN {"dns.rewrites"} ELSE {"filtering.rewrites"})
NotAllStr == BadElems \cup {DotList}
NotAllObj == BadElems \cup {DotList, OddStrs}
\* A password longer than bcrypt accepts (80 bytes).
LongStr  == "lit:\"0123456789012345678901234567890123456789012345678901234567890123456789_123456789\""
True  == C("bool", "lit:true")
False == C("bool", "lit:false")

BaseDocs == [v \in 0..Last |->
    LET cs == Base[v + 1].cells IN
    [k \in Keys |-> IF \E i \in DOMAIN cs : cs[i].k = k
                      THEN LET c == cs[CHOOSE i \in DOMAIN cs : cs[i].k = k] IN C(c.t, c.v)
                      ELSE Absent]]

\* What YAML remembers of a Go value.
\* (ifloat: a float with a small integral value, 7.0 / 1e3 / !!float 5 / -0.0:
\* the YAML encoder writes it without a fractional part, so a file written in
\* between reads it back as an integer.  bfloat: an integral float from 1e6
\* on, which the encoder writes in exponent form: it stays a float.)
SerT == [dur |-> "str", umode |-> "str", strs |-> "list", ifloat |-> "int"]
Ser(d) == [k \in Keys |-> IF d[k].t \in DOMAIN SerT
                             THEN C(SerT[d[k].t], IF d[k].v = "negz:" THEN "lit:0" ELSE d[k].v)
                           ELSE d[k]]

\* --------------------------------------------------------------- outcomes
ErrO  == [e |-> TRUE]
Ok(d) == [e |-> FALSE, d |-> d]
Bind(O, F(_)) == UNION {IF o.e THEN {o} ELSE F(o.d) : o \in O}

(***************************************************************************)
(* fieldVal[T](obj, key) seen from the statement.  Present and well typed: *)
(* the value.  Absent: absent.  Null or another type: the statement does   *)
(* not say, so error / as if absent / zero value of T are all admissible   *)
(* (the code today yields the zero value for null and an error for a wrong *)
(* type, and a few steps ignore that error).  T = "any" accepts all.       *)
(***************************************************************************)
VErr    == [k |-> "err"]
VNo     == [k |-> "no"]
VYes(c) == [k |-> "yes", c |-> c]
FV(c, T) ==
    IF c.t = "absent" THEN {VNo}
    ELSE IF T = "any" THEN {VYes(c)}
    ELSE IF c.t = T THEN {VYes(c)}
    \* A small integral float IS an integer on every path that writes the file
    \* before the step that reads it: the only reading that does not depend on
    \* the path is the integer.  (A large one stays a float on every path:
    \* refusing it or taking the integer are both path-independent.)
    ELSE IF T = "int" /\ c.t = "ifloat" THEN {VYes(C("int", IF c.v = "negz:" THEN "lit:0" ELSE c.v))}
    ELSE IF T = "int" /\ c.t = "bfloat" THEN {VErr, VYes(C("int", c.v))}
    ELSE {VErr, VNo, VYes(Zero(T))}
VOf(w) == IF w.k = "yes" THEN w.c.v ELSE "none"

\* Writing a child brings its section into being (a null section that a step
\* went on with as an empty one).
Put(d, s, n, c) == IF s = "" THEN [d EXCEPT ![n] = c] ELSE [d EXCEPT ![K(s, n)] = c, ![s] = SecC]
Del(d, s, n)    == [d EXCEPT ![K(s, n)] = Absent]
Clear(d, ks)    == [k \in Keys |-> IF k \in ks THEN Absent ELSE d[k]]
Fresh(d, sec)   == Clear(d, {sec} \cup D(sec))
Restore(r, d0, sec) == [k \in Keys |-> IF k \in {sec} \cup D(sec) THEN d0[k] ELSE r[k]]

RECURSIVE PutAll(_, _, _)
PutAll(d, s, kvs) == IF kvs = <<>> THEN d ELSE PutAll(Put(d, s, Head(kvs)[1], Head(kvs)[2]), s, Tail(kvs))

\* "obj, ok, err := fieldVal[yobj](diskConf, sec); if !ok { return err }".
WithSec(d, sec, Body(_)) ==
    UNION {CASE w.k = "err" -> {ErrO} [] w.k = "no" -> {Ok(d)} [] OTHER -> Body(d) : w \in FV(d[sec], "obj")}

\* moveVal[T](src, dst, srcKey, dstKey).
M(ss, sn, ds, dn, T) == <<ss, sn, ds, dn, T>>
Move(d, m) ==
    {CASE w.k = "err" -> ErrO
       [] w.k = "no" -> Ok(d)
       [] OTHER -> Ok(Put(Del(d, m[1], m[2]), m[3], m[4], w.c)) : w \in FV(d[K(m[1], m[2])], m[5])}
RECURSIVE MoveSeq(_, _)
MoveSeq(O, ms) == IF ms = <<>> THEN O ELSE MoveSeq(Bind(O, LAMBDA x : Move(x, Head(ms))), Tail(ms))

\* The element of the client list, if the list is there and not empty.
HasElem(d, listCell) == listCell.v = "cl" /\ d["cl0"].t # "absent"
ElemObj(d) == d["cl0"].t = "obj"
\* The steps that walk the client list do the same to every element, in order.
El(d, e, Op(_, _)) == IF d[e].t = "absent" THEN {Ok(d)} ELSE Op(d, e)
MapElems(d, Op(_, _)) ==
    Bind(Bind(El(d, "cl0", Op), LAMBDA x : El(x, "cl1", Op)), LAMBDA y : El(y, "cl2", Op))
\* A client list that is not the tracked one (a literal put there by a
\* deviation): a non-object element is {error, skip} like for cl0.
Untracked(d, listCell) == IF listCell.v \in NotAllObj THEN {Ok(d), ErrO} ELSE {Ok(d)}

\* ------------------------------------------------------------------ steps
(***************************************************************************)
(* Environment.  Steps 1 and 2 also delete an obsolete file from the       *)
(* working directory (dnsfilter.txt, Corefile) and only log a failure.     *)
(* The state of that part of the file system is carried in three cells     *)
(* that are not keys of the YAML document: @env.workdir (dir / notdir = a  *)
(* regular file stands where the directory should be / looplink = a        *)
(* symlink loop / dangling = a dangling symlink / toolong = a path         *)
(* component longer than the OS accepts) and, inside a real directory, the *)
(* state of each legacy file (absent / file / emptydir / nonemptydir /     *)
(* dangling symlink / selfloop symlink).  Whatever the environment, the    *)
(* outcome of the step on the DOCUMENT is the same -- no error, and a      *)
(* panic is not an outcome; the cell records what unlink() leaves behind   *)
(* (documentation of the mechanism; the harness does not compare it, the   *)
(* statement does not name the file).                                      *)
(***************************************************************************)
EnvKeys   == {"@env.workdir", "@env.dnsfilter", "@env.corefile"}
WorkDirs  == {"dir", "notdir", "looplink", "dangling", "toolong"}
FileStates == {"absent", "file", "emptydir", "nonemptydir", "dangling", "selfloop"}
Unlink(d, fk) ==
    IF d[fk].t = "absent" THEN d
    ELSE IF d["@env.workdir"].v = "dir" /\ d[fk].v \in {"file", "emptydir", "dangling", "selfloop"}
      THEN [d EXCEPT ![fk] = C("env", "absent")]
    ELSE d      \* not there, not removable, or not reachable: logged, go on

S1(d) == {Ok(Unlink(d, "@env.dnsfilter"))}

\* moveVal[any](diskConf, diskConf, "coredns", "dns").  The children of the
\* DNS section are named dns.* whichever of the two keys holds them.
S2(d0) == LET d == Unlink(d0, "@env.corefile") IN
          IF d["coredns"].t = "absent" THEN {Ok(d)}
          ELSE {Ok([d EXCEPT !["dns"] = d["coredns"], !["coredns"] = Absent])}

S3(d) == WithSec(d, "dns", LAMBDA x :
           {IF w.k = "yes" THEN Ok(Put(x, "dns", "bootstrap_dns", C("list", "wrap:" \o w.c.v))) ELSE Ok(x)
              : w \in FV(x["dns.bootstrap_dns"], "any")})

E4(d, e) == IF d[e].t = "obj" THEN {Ok(Put(d, e, "use_global_blocked_services", True))} ELSE {Ok(d), ErrO}
S4(d) == UNION {CASE w.k = "err" -> {ErrO}
                  [] w.k = "no" -> {Ok(d)}
                  [] OTHER -> IF HasElem(d, w.c) THEN MapElems(d, E4) ELSE Untracked(d, w.c)
                : w \in FV(d["clients"], "list")}

S5(d) == UNION {IF n.k = "err" \/ p.k = "err" THEN {ErrO}
                ELSE LET d1 == IF n.k = "yes" THEN Del(d, "", "auth_name") ELSE d IN
                     IF p.k = "no" THEN {Ok(d1)}
                     ELSE (IF p.c.v = LongStr THEN {ErrO} ELSE {}) \cup
                          {Ok([Del(d1, "", "auth_pass") EXCEPT
                               !["users"] = C("list", "users:" \o VOf(n) \o "|" \o p.c.v)])}
                : n \in FV(d["auth_name"], "str"), p \in FV(d["auth_pass"], "str")}

E6(d, e) == IF d[e].t = "obj"
              THEN UNION {IF i.k = "err" \/ m.k = "err" THEN {ErrO}
                          ELSE {Ok(Put(d, e, "ids", C("list", "ids:" \o VOf(i) \o "|" \o VOf(m))))}
                          : i \in FV(d[K(e, "ip")], "str"), m \in FV(d[K(e, "mac")], "str")}
              ELSE {ErrO, Ok(d)}
S6(d) == UNION {CASE w.k = "err" -> {ErrO}
                  [] w.k = "no" -> {Ok(d)}
                  [] OTHER ->
                     IF HasElem(d, w.c) THEN MapElems(d, E6) ELSE Untracked(d, w.c)
                : w \in FV(d["clients"], "list")}

S7(d) == WithSec(d, "dhcp", LAMBDA y :
           LET x == Put(Fresh(y, "dhcp.dhcpv4"), "dhcp", "dhcpv4", SecC) IN
           MoveSeq({Ok(x)}, <<M("dhcp", "gateway_ip", "dhcp.dhcpv4", "gateway_ip", "str"),
                              M("dhcp", "subnet_mask", "dhcp.dhcpv4", "subnet_mask", "str"),
                              M("dhcp", "range_start", "dhcp.dhcpv4", "range_start", "str"),
                              M("dhcp", "range_end", "dhcp.dhcpv4", "range_end", "str"),
                              M("dhcp", "lease_duration", "dhcp.dhcpv4", "lease_duration", "int"),
                              M("dhcp", "icmp_timeout_msec", "dhcp.dhcpv4", "icmp_timeout_msec", "int")>>))

S8(d) == WithSec(d, "dns", LAMBDA x :
           {CASE w.k = "err" -> ErrO
              [] w.k = "no" -> Ok(x)
              [] OTHER -> Ok(Put(Del(x, "dns", "bind_host"), "dns", "bind_hosts", C("list", "wrap:" \o w.c.v)))
              : w \in FV(x["dns.bind_host"], "str")})

S9(d) == WithSec(d, "dns", LAMBDA x : Move(x, M("dns", "autohost_tld", "dns", "local_domain_name", "str")))

\* Default port of QUIC upstreams: the list is rewritten in place; what
\* happens to one entry is value-level behaviour that is not modelled.
Quic(O, n) == Bind(O, LAMBDA x :
    UNION {CASE w.k = "err" -> {ErrO}
             [] w.k = "no" -> {Ok(x)}
             [] OTHER -> (IF w.c.v \in NotAllStr THEN {ErrO} ELSE {})
                         \cup {Ok(Put(x, "dns", n, C("list", "quic:" \o w.c.v)))}
           : w \in FV(x[K("dns", n)], "list")})
S10(d) == WithSec(d, "dns", LAMBDA x : Quic(Quic({Ok(x)}, "upstream_dns"), "local_ptr_upstreams"))

S11(d) == {IF w.k = "err" THEN ErrO
           ELSE Ok(PutAll(Fresh(Del(d, "", "rlimit_nofile"), "os"), "os",
                          <<<<"group", C("str", ZS)>>,
                            <<"rlimit_nofile", IF w.k = "yes" THEN w.c ELSE Zero("int")>>,
                            <<"user", C("str", ZS)>>>>))
           : w \in FV(d["rlimit_nofile"], "int")}

S12(d) == WithSec(d, "dns", LAMBDA x :
            UNION {IF w.k = "err" THEN {ErrO}
                   ELSE IF w.k = "yes" /\ w.c.v \in OddInt
                     THEN {ErrO, Ok(Put(x, "dns", "querylog_interval", AnyV("dur")))}
                   ELSE {Ok(Put(x, "dns", "querylog_interval",
                                IF w.k = "yes" THEN C("dur", "days:" \o w.c.v) ELSE C("dur", "lit:2160h")))}
                   : w \in FV(x["dns.querylog_interval"], "int")})

S13(d) == WithSec(d, "dns", LAMBDA x : WithSec(x, "dhcp", LAMBDA y :
            Move(y, M("dns", "local_domain_name", "dhcp", "local_domain_name", "str"))))

S14(d) == UNION {IF w.k = "err" THEN {ErrO}
                 ELSE LET pers == IF w.k = "yes" THEN w.c ELSE C("list", "lit:[]")
                          x0 == Clear(d, D("clients") \cup (IF pers.v = "cl" THEN {} ELSE ClSub))
                          x1 == PutAll([x0 EXCEPT !["clients"] = SecC], "clients",
                                       <<<<"persistent", pers>>, <<"runtime_sources", C("obj", "rts:lit:false")>>>>)
                      IN UNION {CASE s.k = "err" -> {ErrO}
                                  [] s.k = "no" -> {Ok(x1)}
                                  [] OTHER -> {CASE r.k = "err" -> ErrO
                                                 [] r.k = "no" -> Ok(x1)
                                                 [] OTHER -> Ok(Put(Del(x1, "dns", "resolve_clients"), "clients",
                                                                    "runtime_sources", C("obj", "rts:" \o r.c.v)))
                                               : r \in FV(x1["dns.resolve_clients"], "bool")}
                                : s \in FV(x1["dns"], "obj")}
                 : w \in FV(d["clients"], "list")}

S15(d) == WithSec(d, "dns", LAMBDA x :
            LET q == PutAll([Fresh(x, "querylog") EXCEPT !["querylog"] = SecC], "querylog",
                            <<<<"ignored", C("list", "lit:[]")>>, <<"enabled", True>>, <<"file_enabled", True>>,
                              <<"interval", C("str", "lit:2160h")>>, <<"size_memory", C("int", "lit:1000")>>>>)
            IN MoveSeq({Ok(q)}, <<M("dns", "querylog_enabled", "querylog", "enabled", "bool"),
                                  M("dns", "querylog_file_enabled", "querylog", "file_enabled", "bool"),
                                  M("dns", "querylog_interval", "querylog", "interval", "any"),
                                  M("dns", "querylog_size_memory", "querylog", "size_memory", "int")>>))

S16(d) == WithSec(d, "dns", LAMBDA x :
            LET s == PutAll([Fresh(x, "statistics") EXCEPT !["statistics"] = SecC], "statistics",
                            <<<<"enabled", True>>, <<"interval", C("int", "lit:1")>>, <<"ignored", C("list", "lit:[]")>>>>)
            IN {CASE w.k = "err" -> ErrO
                  [] w.k = "no" -> Ok(s)
                  [] OTHER -> Ok(Del(IF w.c.v = "lit:0" THEN Put(s, "statistics", "enabled", False)
                                     ELSE Put(s, "statistics", "interval", w.c), "dns", "statistics_interval"))
                : w \in FV(s["dns.statistics_interval"], "int")})

S17(d) == WithSec(d, "dns", LAMBDA x :
            {IF w.k = "err" THEN ErrO
             ELSE Ok(Put(x, "dns", "edns_client_subnet",
                         C("obj", "edns:" \o (IF w.k = "yes" THEN w.c.v ELSE "lit:false"))))
             : w \in FV(x["dns.edns_client_subnet"], "bool")})

S18(d) == WithSec(d, "dns", LAMBDA x :
            {CASE w.k = "err" -> ErrO
               [] w.k = "no" -> Ok(Put(x, "dns", "safe_search", C("obj", "ss:lit:true")))
               [] OTHER -> Ok(Put(Del(x, "dns", "safesearch_enabled"), "dns", "safe_search", C("obj", "ss:" \o w.c.v)))
             : w \in FV(x["dns.safesearch_enabled"], "bool")})

E19(d, e) == IF d[e].t = "obj"
               THEN {CASE w.k = "err" -> ErrO
                       [] w.k = "no" -> Ok(Put(d, e, "safe_search", C("obj", "ss:lit:true")))
                       [] OTHER -> Ok(Put(Del(d, e, "safesearch_enabled"), e, "safe_search", C("obj", "ss:" \o w.c.v)))
                     : w \in FV(d[K(e, "safesearch_enabled")], "bool")}
               ELSE {Ok(d), ErrO}
S19(d) == WithSec(d, "clients", LAMBDA x :
    UNION {CASE p.k = "err" -> {ErrO}
             [] p.k = "no" -> {Ok(x)}
             [] OTHER ->
                IF HasElem(x, p.c) THEN MapElems(x, E19) ELSE Untracked(x, p.c)
           : p \in FV(x["clients.persistent"], "list")})

S20(d) == WithSec(d, "statistics", LAMBDA x :
            UNION {IF w.k = "err" THEN {ErrO}
                   ELSE IF w.k = "yes" /\ w.c.v \in OddInt
                     THEN {ErrO, Ok(Put(x, "statistics", "interval", AnyV("dur")))}
                   ELSE {Ok(Put(x, "statistics", "interval",
                                IF w.k = "yes" /\ w.c.v # "lit:0" THEN C("dur", "days:" \o w.c.v)
                                ELSE C("dur", "lit:24h")))}
                   : w \in FV(x["statistics.interval"], "int")})

S21(d) == WithSec(d, "dns", LAMBDA x :
            {IF w.k = "err" THEN ErrO
             ELSE Ok(Put(x, "dns", "blocked_services", C("obj", "bsvc:" \o VOf(w))))
             : w \in FV(x["dns.blocked_services"], "list")})

E22(d, e) == IF d[e].t = "obj"
               THEN {CASE w.k = "err" -> ErrO
                       [] w.k = "no" -> Ok(d)
                       [] OTHER -> Ok(Put(d, e, "blocked_services", C("obj", "bsvc:" \o w.c.v)))
                     : w \in FV(d[K(e, "blocked_services")], "list")}
               ELSE {ErrO, Ok(d)}
S22(d) == WithSec(d, "clients", LAMBDA x :
    UNION {CASE p.k = "err" -> {ErrO}
             [] p.k = "no" -> {Ok(x)}
             [] OTHER ->
                IF HasElem(x, p.c) THEN MapElems(x, E22) ELSE Untracked(x, p.c)
           : p \in FV(x["clients.persistent"], "list")})

\* Strings the spec knows not to be IP addresses (step 23 fails on them).
\* (all the strings of the deviation vocabulary that are not addresses)
NotIP == {ZS, "lit:\"zz\"", "lit:\"127.0.0.1:80\"", LongStr} \cup {DegLit[k] : k \in DegKinds}
S23(d) == UNION {CASE h.k = "err" -> {ErrO}
                   [] h.k = "no" -> {Ok(d)}
                   [] OTHER ->
                      IF h.c.v \in NotIP THEN {ErrO}
                      ELSE UNION {IF p.k = "err" \/ s.k = "err" THEN {ErrO}
                                  ELSE LET oddP == p.k = "yes" /\ p.c.v \in OddPort
                                           oddS == s.k = "yes" /\ s.c.v \in OddInt IN
                                    (IF oddP \/ oddS THEN {ErrO} ELSE {}) \cup
                                    {Ok(PutAll([Clear(Fresh(d, "http"), {"bind_host", "bind_port", "web_session_ttl"})
                                                     EXCEPT !["http"] = SecC], "http",
                                          <<<<"address", IF oddP THEN AnyV("str")
                                                         ELSE C("str", "addr:" \o h.c.v \o "|" \o VOf(p))>>,
                                            <<"session_ttl", IF oddS THEN AnyV("str")
                                                             ELSE C("str", "hours:" \o (IF s.k = "yes" THEN s.c.v ELSE "lit:0"))>>>>))}
                                  : p \in FV(d["bind_port"], "int"), s \in FV(d["web_session_ttl"], "int")}
                 : h \in FV(d["bind_host"], "str")}

\* "if len(obj) != 0 { diskConf[sec] = obj }": an existing section survives
\* when nothing was moved.
IntoNew(d, sec, ms) ==
    {IF o.e THEN o ELSE IF o.d[sec].t = "absent" THEN Ok(Restore(o.d, d, sec)) ELSE o
       : o \in MoveSeq({Ok(Fresh(d, sec))}, ms)}

S24(d) == IntoNew(d, "log", <<M("", "log_file", "log", "file", "str"),
                             M("", "log_max_backups", "log", "max_backups", "int"),
                             M("", "log_max_size", "log", "max_size", "int"),
                             M("", "log_max_age", "log", "max_age", "int"),
                             M("", "log_compress", "log", "compress", "bool"),
                             M("", "log_localtime", "log", "local_time", "bool"),
                             M("", "verbose", "log", "verbose", "bool")>>)

S25(d) == WithSec(d, "http", LAMBDA x :
            {IF w.k = "err" THEN ErrO
             ELSE Ok(Put(IF w.k = "yes" THEN Del(x, "", "debug_pprof") ELSE x, "http", "pprof",
                         C("obj", "pprof:" \o (IF w.k = "yes" THEN w.c.v ELSE "lit:false"))))
             : w \in FV(x["debug_pprof"], "bool")})

F26 == <<<<"filtering_enabled", "bool">>, <<"filters_update_interval", "int">>, <<"parental_enabled", "bool">>,
         <<"safebrowsing_enabled", "bool">>, <<"safebrowsing_cache_size", "int">>,
         <<"safesearch_cache_size", "int">>, <<"parental_cache_size", "int">>, <<"safe_search", "obj">>,
         <<"rewrites", "list">>, <<"blocked_services", "obj">>, <<"protection_enabled", "bool">>,
         <<"blocking_mode", "str">>, <<"blocking_ipv4", "str">>, <<"blocking_ipv6", "str">>,
         <<"blocked_response_ttl", "int">>, <<"protection_disabled_until", "any">>,
         <<"parental_block_host", "str">>, <<"safebrowsing_block_host", "str">>>>
S26(d) == WithSec(d, "dns", LAMBDA x :
            IntoNew(x, "filtering", [i \in DOMAIN F26 |-> M("dns", F26[i][1], "filtering", F26[i][1], F26[i][2])]))

Dots(O, sec) == Bind(O, LAMBDA x :
    UNION {CASE s.k = "err" -> {ErrO}
             [] s.k = "no" -> {Ok(x)}
             [] OTHER -> {CASE w.k = "err" -> ErrO
                            [] w.k = "no" -> Ok(x)
                            [] OTHER -> IF x[K(sec, "ignored")].t = "list"
                                          THEN Ok(Put(x, sec, "ignored", C("list", "dots:" \o w.c.v)))
                                          ELSE Ok(x)
                          : w \in FV(x[K(sec, "ignored")], "list")}
           : s \in FV(x[sec], "obj")})
S27(d) == Dots(Dots({Ok(d)}, "querylog"), "statistics")

S28(d) == WithSec(d, "dns", LAMBDA x :
    UNION {IF a.k = "err" \/ f.k = "err" THEN {ErrO}
           ELSE LET mode == IF a.k = "yes" /\ a.c.v = "lit:true" THEN "parallel"
                            ELSE IF f.k = "yes" /\ f.c.v = "lit:true" THEN "fastest_addr"
                            ELSE "load_balance"
                IN {Ok(Put(Clear(x, {"dns.all_servers", "dns.fastest_addr"}), "dns", "upstream_mode",
                           C("umode", "lit:" \o mode)))}
           : a \in FV(x["dns.all_servers"], "bool"), f \in FV(x["dns.fastest_addr"], "bool")})

S29(d) == UNION {CASE w.k = "err" -> {ErrO}
                   [] w.k = "no" -> {Ok(d)}
                   [] OTHER ->
                      (IF (d["filters"].t = "list" /\ d["fl0"].t \notin {"absent", "obj"}) \/ w.c.v \in NotAllObj
                         THEN {ErrO} ELSE {})
                      \cup UNION {CASE s.k = "err" -> {ErrO}
                                    [] s.k = "no" -> {Ok(d)}
                                    [] OTHER -> {Ok(Put(d, "filtering", "safe_fs_patterns", C("strs", "paths:" \o w.c.v)))}
                                  : s \in FV(d["filtering"], "obj")}
                 : w \in FV(d["filters"], "list")}

VerLit(i) == "lit:" \o ToString(i)
Stamp(d, i) == [d EXCEPT !["schema_version"] = C("int", VerLit(i))]

\* Step(i, d): the step that takes schema i-1 to schema i.
Step(i, d0) ==
    LET d == Stamp(d0, i) IN
    CASE i = 1 -> S1(d)   [] i = 2 -> S2(d)   [] i = 3 -> S3(d)   [] i = 4 -> S4(d)   [] i = 5 -> S5(d)
      [] i = 6 -> S6(d)   [] i = 7 -> S7(d)   [] i = 8 -> S8(d)   [] i = 9 -> S9(d)   [] i = 10 -> S10(d)
      [] i = 11 -> S11(d) [] i = 12 -> S12(d) [] i = 13 -> S13(d) [] i = 14 -> S14(d) [] i = 15 -> S15(d)
      [] i = 16 -> S16(d) [] i = 17 -> S17(d) [] i = 18 -> S18(d) [] i = 19 -> S19(d) [] i = 20 -> S20(d)
      [] i = 21 -> S21(d) [] i = 22 -> S22(d) [] i = 23 -> S23(d) [] i = 24 -> S24(d) [] i = 25 -> S25(d)
      [] i = 26 -> S26(d) [] i = 27 -> S27(d) [] i = 28 -> S28(d) [] i = 29 -> S29(d)

\* What each step concerns (independent of the operators above: the
\* invariant UnconcernedKeysPreserved plays one against the other).
DnsKeys(ns) == {"dns"} \cup {K("dns", n) : n \in ns}
Concern == [i \in 1..Last |->
    CASE i = 1 -> {"@env.dnsfilter"}
      [] i = 2 -> {"coredns", "dns", "@env.corefile"}
      [] i = 3 -> DnsKeys({"bootstrap_dns"})
      [] i = 4 -> {"clients"} \cup ElemKeys \cup ElK({"use_global_blocked_services"})
      [] i = 5 -> {"auth_name", "auth_pass", "users"}
      [] i = 6 -> {"clients"} \cup ElemKeys \cup ElK({"ip", "mac", "ids"})
      [] i = 7 -> {"dhcp"} \cup D("dhcp")
      [] i = 8 -> DnsKeys({"bind_host", "bind_hosts"})
      [] i = 9 -> DnsKeys({"autohost_tld", "local_domain_name"})
      [] i = 10 -> DnsKeys({"upstream_dns", "local_ptr_upstreams"})
      [] i = 11 -> {"rlimit_nofile", "os"} \cup D("os")
      [] i = 12 -> DnsKeys({"querylog_interval"})
      [] i = 13 -> DnsKeys({"local_domain_name"}) \cup {"dhcp", "dhcp.local_domain_name"}
      [] i = 14 -> {"clients"} \cup D("clients") \cup ClSub \cup DnsKeys({"resolve_clients"})
      [] i = 15 -> {"querylog"} \cup D("querylog")
                     \cup DnsKeys({"querylog_enabled", "querylog_file_enabled", "querylog_interval", "querylog_size_memory"})
      [] i = 16 -> {"statistics"} \cup D("statistics") \cup DnsKeys({"statistics_interval"})
      [] i = 17 -> DnsKeys({"edns_client_subnet"})
      [] i = 18 -> DnsKeys({"safe_search", "safesearch_enabled"})
      [] i = 19 -> {"clients", "clients.persistent"} \cup ElemKeys \cup ElK({"safesearch_enabled", "safe_search"})
      [] i = 20 -> {"statistics", "statistics.interval"}
      [] i = 21 -> DnsKeys({"blocked_services"})
      [] i = 22 -> {"clients", "clients.persistent"} \cup ElemKeys \cup ElK({"blocked_services"})
      [] i = 23 -> {"bind_host", "bind_port", "web_session_ttl", "http"} \cup D("http")
      [] i = 24 -> {"log"} \cup D("log") \cup {"log_file", "log_max_backups", "log_max_size", "log_max_age",
                                                "log_compress", "log_localtime", "verbose"}
      [] i = 25 -> {"http", "http.pprof", "debug_pprof"}
      [] i = 26 -> {"filtering"} \cup D("filtering") \cup DnsKeys({F26[j][1] : j \in DOMAIN F26})
      [] i = 27 -> {"querylog", "querylog.ignored", "statistics", "statistics.ignored"}
      [] i = 28 -> DnsKeys({"all_servers", "fastest_addr", "upstream_mode"})
      [] i = 29 -> {"filters", "fl0", "fl0.url", "filtering", "filtering.safe_fs_patterns"}]
ConcFrom == [v \in 0..Last |-> {"schema_version"} \cup UNION {Concern[i] : i \in (v + 1)..Last}]
ConcernedFrom(v) == ConcFrom[v]

\* ------------------------------------------------------------ whole runs
RECURSIVE Run(_, _, _)
Run(O, i, j) == IF i >= j THEN O ELSE Run(Bind(O, LAMBDA d : Step(i + 1, d)), i + 1, j)

OkDocs(O) == {o.d : o \in {p \in O : ~p.e}}
HasErr(O) == ErrO \in O

\* The version the stamp stands for; -1 = not a historical version (only an
\* error is admissible).  A null stamp may also be read as "no stamp".
VerOf(d) == LET c == d["schema_version"] IN
            IF c.t \in {"absent", "null"} THEN 0
            ELSE IF c.t = "int" /\ \E i \in 0..Last : c.v = VerLit(i) THEN CHOOSE i \in 0..Last : c.v = VerLit(i)
            ELSE -1
StampErr(d) == d["schema_version"].t \notin {"absent", "int"} \/ VerOf(d) = -1

\* Migrator.Migrate(body, target) on shape d:
\*   [err: an error with the bytes unchanged is admissible,
\*    same: "not upgraded, no error" is admissible,
\*    oks: the admissible upgraded documents (as serialised)].
\* (TLC re-evaluates LET definitions and operator arguments at every use;
\* a variable bound over a singleton set holds a value.  Hence the
\* "\in {e}" idiom wherever an expensive value is used more than once.)
Migrate(d, target) ==
    LET s == VerOf(d) IN
    CHOOSE r \in {[err |-> StampErr(d) \/ s > target \/ HasErr(O)
                             \/ (s >= 0 /\ s < target /\ \E k \in Keys : d[k].v \in UnwritableV),
                   same |-> s = target,
                   oks |-> {Ser(x) : x \in OkDocs(O)}]
                  : O \in {IF s >= 0 /\ s < target THEN Run({Ok(d)}, s, target) ELSE {}}} : TRUE

\* ------------------------------------------------------------- deviations
SectionKeys == {"coredns", "dns", "dhcp", "dhcp.dhcpv4", "clients", "querylog", "statistics", "http", "log",
                "filtering", "os", "cl0"}

DevKinds(v, k) ==
    LET c == BaseDocs[v][k] IN
    IF k = "schema_version" THEN {"null", "float", "future", "neg", "huge", "estr"}
                                   \cup (IF c.t = "absent" THEN {} ELSE {"absent"})
                                   \cup (IF v > 0 THEN {"zero"} ELSE {})
    ELSE IF k = "fl0" THEN (IF c.t = "absent" THEN {} ELSE {"null", "float"})
    ELSE IF c.t = "absent" THEN
        \* a key the golden file does not have but a later step looks at,
        \* or a key nobody knows
        (IF k \in RecKeys(v) THEN {"recs"} ELSE {}) \cup
        (IF k = "zz_extra" THEN {"nlkey"} ELSE {}) \cup
        (IF k \in {"zz_extra", "dns.zz_extra", "cl0.zz_extra"} THEN {"str"} \cup MLKinds
         ELSE IF k \in ConcernedFrom(v)
           THEN {"null", "float"} \cup (IF k \in SectionKeys THEN {"empty"} ELSE {})
                  \* lists a step walks that the golden file happens not to have
                  \cup (IF k \in {"dns.upstream_dns", "dns.local_ptr_upstreams", "dns.blocked_services",
                                   "querylog.ignored", "statistics.ignored"} THEN {"oddstrs", "badelem"} ELSE {})
         ELSE {})
    ELSE {"absent", "null", "float"}
           \cup (IF c.t = "bool" THEN {"flip"} ELSE {})
           \cup (IF c.t = "int" THEN (IF c.v = "lit:0" THEN {"seven"} ELSE {"zero"}) ELSE {})
           \* value classes, for the keys a later step reads: integers a step
           \* converts or multiplies, strings a step parses or hashes, lists a
           \* step walks
           \cup (IF c.t = "int" /\ k \in ConcFrom[v] THEN {"neg", "p65535", "p65536", "huge"} ELSE {})
           \* integers in float spelling
           \cup (IF c.t = "int" /\ k \in ConcFrom[v] THEN {"fdot", "fexp", "ftag", "fnegzero", "fbig"} ELSE {})
           \cup (IF c.t = "int" /\ k \in {"dns.port", "dns.parental_sensitivity"} THEN {"fdot"} ELSE {})
           \cup (IF k = "cl0.name" THEN MLKinds ELSE {})
           \cup (IF k = "user_rules" THEN {"mllist"} ELSE {})
           \cup (IF c.t = "str" /\ k \in ConcFrom[v] THEN {"estr", "blank"} ELSE {})
           \cup (IF c.t = "str" /\ k \in ConcFrom[v]
                     /\ k \in {"bind_host", "auth_pass", "auth_name", "cl0.ip", "cl0.mac", "fl0.url"}
                   THEN DegKinds ELSE {})
           \cup (IF k = "bind_host" THEN {"str", "v6", "hostport"} ELSE {})
           \cup (IF k = "auth_pass" THEN {"long", "indnl"} ELSE {})
           \cup (IF k \in RecKeys(v) THEN {"recs"} ELSE {})
           \cup (IF k = "filters" THEN DOMAIN Perms ELSE {})
           \cup (IF c.t = "list" /\ k \in ConcFrom[v]
                   THEN {"badelem", "oddstrs"} ELSE {})
           \cup (IF k \in {"querylog.ignored", "statistics.ignored"} THEN {"dotlist"} ELSE {})
           \cup (IF c.v = "sec" THEN {"empty"} ELSE {})
           \cup (IF c.t = "list" THEN {"emptylist"} ELSE {})

\* The parent of a deviated key must be a map in the golden file.
Placeable(v, k) ==
    LET b == BaseDocs[v] IN
    /\ k \notin ElemKeys \cup {"coredns"} \/ b[k].t # "absent"
    /\ \A s \in Secs : k \in ChildMap[s] =>
         IF s = "dns" /\ v < 2 THEN b["coredns"].v = "sec" ELSE b[s].v = "sec"
    /\ (v < 2 => k # "dns")
    /\ k \notin EnvKeys

\* ({} put where a section lives is a section without children; elsewhere it
\* is an opaque value that steps may move or wrap.)
DevCell(k, c, kind) ==
    CASE kind = "absent" -> Absent
      [] kind = "null" -> Null
      [] kind = "float" -> C("float", "lit:1.5")
      [] kind = "str" -> C("str", "lit:\"zz\"")
      [] kind = "empty" -> IF k \in Secs \cup {"coredns"} THEN SecC ELSE C("obj", "lit:{}")
      [] kind = "emptylist" -> C("list", "lit:[]")
      [] kind = "zero" -> C("int", "lit:0")
      [] kind = "seven" -> C("int", "lit:7")
      [] kind = "flip" -> IF c.v = "lit:true" THEN False ELSE True
      [] kind = "true" -> True
      [] kind = "false" -> False
      [] kind = "p65535" -> C("int", "lit:65535")
      [] kind = "p65536" -> C("int", "lit:65536")
      [] kind = "huge" -> C("int", Huge)
      [] kind = "estr" -> C("str", ZS)
      [] kind \in DegKinds \cup MLKinds -> C("str", DegLit[kind])
      [] kind = "mllist" -> C("list", "mllist:")
      [] kind = "nlkey" -> C("int", "nlkey:")
      [] kind = "fdot" -> C("ifloat", "lit:7")
      [] kind = "fexp" -> C("ifloat", "lit:1000")
      [] kind = "ftag" -> C("ifloat", "lit:5")
      [] kind = "fnegzero" -> C("ifloat", "negz:")
      [] kind = "fbig" -> C("bfloat", "lit:2000000")
      [] kind = "v6" -> C("str", "lit:\"::1\"")
      [] kind = "hostport" -> C("str", "lit:\"127.0.0.1:80\"")
      [] kind = "long" -> C("str", LongStr)
      [] kind = "badelem" -> C("list", "lit:[1.5,null]")
      [] kind = "recs" -> C("list", RecsLit(k))
      [] kind \in DOMAIN Perms -> C("list", Perms[kind])
      [] kind = "oddstrs" -> C("list", OddStrs)
      [] kind = "dotlist" -> C("list", DotList)
      [] kind = "future" -> C("int", "lit:30")
      [] kind = "neg" -> C("int", "lit:-1")

\* Everything that lives inside the value at k.
Inside(v, k) ==
    D(k) \cup (IF k = "coredns" THEN D("dns") ELSE {})
         \cup (IF k \in {"clients", "clients.persistent"} THEN ClSub ELSE {})
         \cup (IF k = "filters" THEN {"fl0", "fl0.url"} ELSE {})

ApplyDev(d, v, dev) ==
    LET ins == Inside(v, dev.k) IN
    [k \in Keys |-> IF k = dev.k THEN (IF k \in EnvKeys THEN C("env", dev.d) ELSE DevCell(k, d[k], dev.d))
                    ELSE IF k \in ins THEN Absent ELSE d[k]]

RECURSIVE ApplyDevs(_, _, _)
ApplyDevs(d, v, devs) == IF devs = <<>> THEN d ELSE ApplyDevs(ApplyDev(d, v, Head(devs)), v, Tail(devs))

DevKeys(v) == {k \in Keys : Placeable(v, k) /\ DevKinds(v, k) # {}}
\* Pairs: a section or list that a later step concerns (null or empty)
\* together with a key outside it that the golden file has and a later step
\* concerns (null or of a wrong type).
Hot(v) == {k \in DevKeys(v) \cap ConcFrom[v] :
             /\ k \in SectionKeys \cup {"clients", "clients.persistent", "filters"}
             /\ BaseDocs[v][k].t # "absent"}

\* ------------------------------------------------------------- analysis
Splits(s) == IF s < 0 THEN {} ELSE (s + 1)..(Last - 1)

(***************************************************************************)
(* Path independence.  "Migrate to k, write the file, read it, migrate on" *)
(* differs from one run only in that YAML forgets the Go types (Ser).  The *)
(* check below walks the versions once and demands, for every document m   *)
(* reachable at version i by ANY mixture of steps and serialisations, that *)
(* step i+1 does the same to m and to Ser(m) up to Ser.  By induction from *)
(* the last version backwards this gives: every way of cutting the range   *)
(* into partial runs ends in the same set of documents as the single run.  *)
(***************************************************************************)
SerOks(O) == {Ser(x) : x \in OkDocs(O)}
StepBoth(m, i) == \* step i+1 on m and on what YAML keeps of m
    CHOOSE p \in {[a |-> a, b |-> IF sm = m THEN a ELSE Step(i + 1, sm)] : a \in {Step(i + 1, m)}, sm \in {Ser(m)}} : TRUE
RECURSIVE Commutes(_, _)
Commutes(X, i) ==
    IF i >= Last \/ X = {} THEN TRUE
    ELSE \A P \in {{StepBoth(m, i) : m \in X}} :
           /\ \A p \in P : SerOks(p.a) = SerOks(p.b) /\ HasErr(p.a) = HasErr(p.b)
           /\ \A Y \in {UNION {OkDocs(p.a) \cup OkDocs(p.b) : p \in P}} : Commutes(Y, i + 1)

Diff(f, b) == [k \in {x \in Keys : f[x] # b[x]} \cup {"schema_version"} |-> f[k]]
NonAbsent(f) == [k \in {x \in Keys : f[x].t # "absent"} |-> f[k]]

Analyse3(devs, d0, sd0, s, one) ==
    [one |-> one, start |-> s,
     stamps |-> \A f \in one.oks : f["schema_version"] = C("int", VerLit(Last)),
     pres |-> \A f \in one.oks : \A k \in Keys \ ConcFrom[IF s < 0 THEN Last ELSE s] : f[k] = sd0[k],
     pi |-> s < 0 \/ Commutes({d0}, s),
     idem |-> \A f \in one.oks : \A m \in {Migrate(f, Last)} : m.same /\ ~m.err /\ m.oks = {},
     valid |-> (devs # <<>> /\ devs[1].k # "@clients") \/ (s = Last /\ one.same)
                 \/ (~one.err /\ Cardinality(one.oks) = 1)]
AnalyseDoc(dd, devs) ==
    CHOOSE r \in UNION {{Analyse3(devs, d0, sd0, VerOf(d0), one) : sd0 \in {Ser(d0)}, one \in {Migrate(d0, Last)}}
                          : d0 \in {dd}} : TRUE
Analyse(v, devs) == AnalyseDoc(ApplyDevs(BaseDocs[v], v, devs), devs)

(***************************************************************************)
(* Document-level shapes.  A file that holds no mapping: nothing at all,   *)
(* only a comment, an explicit null ("null", "~"), a scalar, a list; and a *)
(* mapping that holds nothing but the stamp.  The first three are the      *)
(* empty schema-0 document (no key, no stamp); the statement leaves open   *)
(* whether a non-mapping is refused or read as the empty document, so both *)
(* are admissible for all of them -- a panic is not.                       *)
(***************************************************************************)
EmptyDoc == [k \in Keys |-> Absent]
DocClasses == {"empty", "comment", "null", "tilde", "scalar", "strdoc", "list"}

(***************************************************************************)
(* Families of valid documents with two or three clients of DIFFERENT      *)
(* shapes, in every order.  An element is the golden client with its own   *)
(* name and address and two optional settings present or absent in the     *)
(* form of the document's schema: blocked services (a list before schema   *)
(* 22, an object with a schedule from 22 on) and safe search (a flag       *)
(* before schema 19, an object from 19 on).  These are valid documents:    *)
(* ValidUpgrades demands exactly one result and no error, and the harness  *)
(* additionally hands every one of them to the real loader.                *)
(***************************************************************************)
Feats    == {[bs |-> b, ss |-> x] : b, x \in BOOLEAN}
FamSeqs  == {<<a, b>> : a, b \in Feats} \cup {<<a, b, c>> : a, b, c \in Feats}
Distinct(fs) == \A i, j \in DOMAIN fs : i # j => fs[i] # fs[j]
FeatCode(f) == (IF f.bs THEN "b" ELSE "-") \o (IF f.ss THEN "s" ELSE "-")
FamCode(fs) == IF Len(fs) = 2 THEN FeatCode(fs[1]) \o "," \o FeatCode(fs[2])
               ELSE FeatCode(fs[1]) \o "," \o FeatCode(fs[2]) \o "," \o FeatCode(fs[3])
NameLit == <<"lit:\"c0\"", "lit:\"c1\"", "lit:\"c2\"">>
IPLit   == <<"lit:\"10.0.0.1\"", "lit:\"10.0.0.2\"", "lit:\"10.0.0.3\"">>
IdsLit  == <<"lit:[\"10.0.0.1\"]", "lit:[\"10.0.0.2\"]", "lit:[\"10.0.0.3\"]">>
BsLit   == "lit:[\"500px\"]"
ElemCell(v, i, f, n) ==
    LET bc == BaseDocs[v][K("cl0", n)] IN
    CASE n = "name" -> C("str", NameLit[i])
      [] n = "ip" /\ v < 6 -> C("str", IPLit[i])
      [] n = "ids" /\ v >= 6 -> C("list", IdsLit[i])
      [] n = "blocked_services" ->
           IF f.bs THEN (IF v < 22 THEN C("list", BsLit) ELSE C("obj", "bsvc:" \o BsLit)) ELSE Absent
      [] n = "safesearch_enabled" /\ v < 19 -> IF f.ss THEN True ELSE Absent
      [] n = "safe_search" /\ v >= 19 -> IF f.ss THEN C("obj", "ss:lit:true") ELSE Absent
      [] OTHER -> IF bc.v = "src:" \o K("cl0", n) THEN C(bc.t, "src:" \o K(ElemSeq[i], n)) ELSE bc
\* (element index, child name) of an element key
ElKeyInfo == [k \in UNION {ChildMap[e] : e \in ElemKeys} |->
                CHOOSE pr \in {<<i, n>> : i \in 1..3, n \in ElNames} : K0(ElemSeq[pr[1]], pr[2]) = k]
FamDoc(v, fs) ==
    [k \in Keys |-> IF k \in DOMAIN ElKeyInfo
                      THEN (IF ElKeyInfo[k][1] <= Len(fs)
                              THEN ElemCell(v, ElKeyInfo[k][1], fs[ElKeyInfo[k][1]], ElKeyInfo[k][2]) ELSE Absent)
                    ELSE IF \E i \in 1..Len(fs) : k = ElemSeq[i] THEN SecC
                    ELSE BaseDocs[v][k]]

Emit(kind, v, devs, r, basef) ==
    PrintT(<<"@@V", ToJson([kind |-> kind, v |-> v, devs |-> devs,
                            err |-> r.one.err \/ (kind = "doc" /\ devs[1].d \in DocClasses), start |-> r.start,
                            oks |-> IF kind \in {"base", "doc"} THEN {NonAbsent(f) : f \in r.one.oks}
                                    ELSE {Diff(f, basef) : f \in r.one.oks},
                            ks |-> Splits(r.start)])>>)

BaseFinals == [v \in 0..Last |-> IF v = Last THEN Ser(BaseDocs[v])
                                   ELSE LET o == Migrate(BaseDocs[v], Last).oks IN CHOOSE f \in o : TRUE]

FinishDoc(kind, v, devs, dd) ==
    \E r \in {AnalyseDoc(dd, devs)} :
    /\ vec' = [v |-> v, devs |-> devs, stamps |-> r.stamps, pres |-> r.pres, pi |-> r.pi, idem |-> r.idem,
               valid |-> r.valid, nout |-> Cardinality(r.one.oks), err |-> r.one.err, same |-> r.one.same]
    /\ st' = "done"
    /\ Emit(kind, v, devs, r, IF kind \in {"base", "doc"} THEN <<>> ELSE BaseFinals[v])
Finish(kind, v, devs) ==
    FinishDoc(kind, v, devs,
              IF kind = "doc" THEN (IF devs[1].d = "stamp" THEN Stamp(EmptyDoc, v) ELSE EmptyDoc)
              ELSE ApplyDevs(BaseDocs[v], v, devs))

\* The enumeration fans out in three levels (version, key, kind) so that
\* TLC's workers share it.
PickVer == st = "pick" /\ \E v \in 0..Last : st' = "ver" /\ vec' = [v |-> v]
PickKey == /\ st = "ver"
           /\ \/ st' = "base" /\ vec' = vec
              \/ \E k \in DevKeys(vec.v) : st' = "key" /\ vec' = [v |-> vec.v, k |-> k]

PickBase == st = "base" /\ ~Pairs /\ Finish("base", vec.v, <<>>)

\* "@clients" is not a key either: the deviation names the shapes of the clients.
PickFam == /\ st = "base" /\ ~Pairs /\ BaseDocs[vec.v]["cl0"].v = "sec"
           /\ \E fs \in FamSeqs : Distinct(fs) /\
                FinishDoc("fam", vec.v, <<[k |-> "@clients", d |-> FamCode(fs)]>>, FamDoc(vec.v, fs))

\* The environment of the side-effecting steps 0->1 and 1->2 (schema 2 as a
\* control: no step looks at it any more).
PickEnv == /\ st = "base" /\ ~Pairs /\ vec.v <= 2
           /\ \E w \in WorkDirs : \E f1, f2 \in FileStates :
                /\ (w # "dir" => f1 = "absent" /\ f2 = "absent")
                \* the two files belong to two steps: one at a time, or both alike
                /\ (f1 = "absent" \/ f2 = "absent" \/ f1 = f2)
                /\ Finish("vec", vec.v, <<[k |-> "@env.workdir", d |-> w], [k |-> "@env.dnsfilter", d |-> f1],
                                           [k |-> "@env.corefile", d |-> f2]>>)

\* "@doc" is not a key: the deviation names the class of the whole file.
PickDoc == /\ st = "base" /\ ~Pairs
           /\ \E c \in {"stamp"} \cup (IF vec.v = 0 THEN DocClasses ELSE {}) :
                Finish("doc", vec.v, <<[k |-> "@doc", d |-> c]>>)

PickSingle == /\ st = "key" /\ ~Pairs
              /\ \E kd \in DevKinds(vec.v, vec.k) : Finish("vec", vec.v, <<[k |-> vec.k, d |-> kd]>>)

\* Two deviations: a hot key (section, list, stamp) with a key outside it
\* that a later step concerns.
PickPair == /\ st = "key" /\ Pairs
            /\ LET v == vec.v  k == vec.k IN
               /\ k \in ConcFrom[v] /\ BaseDocs[v][k].t # "absent"
               /\ \E h \in Hot(v) \ ({k} \cup Inside(v, k)) :
                    /\ k \notin Inside(v, h)
                    /\ \E hd \in DevKinds(v, h) \cap {"null", "empty"} :
                       \E kd \in DevKinds(v, k) \cap {"null", "float"} :
                         Finish("vec", v, <<[k |-> h, d |-> hd], [k |-> k, d |-> kd]>>)

Init == st = "pick" /\ vec = [v |-> 0 - 1]
Next == PickVer \/ PickKey \/ PickBase \/ PickFam \/ PickEnv \/ PickDoc \/ PickSingle \/ PickPair
Spec == Init /\ [][Next]_vars

\* ----------------------------------------------- properties of the statement
Done == st = "done"
\* "or produces a document stamped with the current schema version"
SuccessStampsCurrent == Done => vec.stamps
\* "settings a step does not concern are preserved"
UnconcernedKeysPreserved == Done => vec.pres
\* "does not depend on whether the upgrade is performed in one run or in several"
PathIndependent == Done => vec.pi
\* "upgrading an already current file changes nothing"
Idempotent == Done => vec.idem
\* a valid document is upgraded without error to exactly one document
ValidUpgrades == Done => vec.valid
\* "never panics: it either fails with an error ... or produces a document"
NoPanic == Done => (vec.err \/ vec.nout > 0 \/ vec.same)
=============================================================================
