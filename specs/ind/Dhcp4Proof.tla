----------------------------- MODULE Dhcp4Proof -----------------------------
(***************************************************************************)
(* G12 -- TLAPS proof that Dhcp4Ind!IndInv is an inductive invariant of    *)
(* Dhcp4Ind!Spec for ARBITRARY constants satisfying ConstOK (any sets of   *)
(* hardware addresses, pool addresses and host names, infinite included;   *)
(* any lease time; any bound on reservations), and that it implies the     *)
(* address / reservation part of C10:  OneHolderPerAddress,                *)
(* KeyedByAddress, OneLeasePerClient, DynamicInsidePool, HostsUnique,      *)
(* RemBounded, DiskEqualsMemoryEachOnce, RemoveKeepsHeldDynamic.  (The invariants that quantify    *)
(* over outcome sets -- NoReuseBeforeAnnouncedExpiry,                      *)
(* ReservedClientGetsReservation, StaticNotGivenAway, OfferWhenFree -- are *)
(* discharged by Apalache only.)                                           *)
(* The proof goes through Good(S), the invariant as a predicate of a       *)
(* table, and one lemma per outcome operator: every member of XOut(S, ..)  *)
(* leads from a good table to a good table.                                *)
(* Checked with  tlapm --threads N Dhcp4Proof.tla.                         *)
(***************************************************************************)
EXTENDS Dhcp4Ind, TLAPS

ASSUME ConstAssump == ConstOK

LeaseOK(l) == /\ IsLease(l)
              /\ l.mac \in Macs \cup {Blk}
              /\ (l.mac = Blk => ~l.st /\ l.rem = 0 /\ l.host = "")
              /\ l.ip \in Subnet /\ l.ip # GW
              /\ (~l.st => l.ip \in Pool)
              /\ l.rem \in 0..LeaseT /\ (l.st => l.rem = 0)

Good(S) == /\ \A l \in S : LeaseOK(l)
           /\ \A l1, l2 \in S : l1.ip = l2.ip => l1 = l2
           /\ \A l1, l2 \in S : l1.mac = l2.mac /\ l1.mac # Blk => l1 = l2
           /\ \A l1, l2 \in S : l1.host # "" /\ l1.host = l2.host => l1 = l2

LEMMA GoodIsInv == IndInv <=> (Good(ls) /\ disk = ls)
  BY DEF IndInv, Good, LeaseOK, TypeOK, KeyedByAddress, OneLeasePerClient, HostsUnique

LEMMA LeaseTNat == LeaseT \in Nat /\ GW \notin Pool /\ Blk \notin Macs
  BY ConstAssump DEF ConstOK

\* ---------------------------------------------------------- generic lemmas
LEMMA Sub == ASSUME NEW S, NEW T, Good(S), T \subseteq S PROVE Good(T)
  BY DEF Good

LEMMA AddOne ==
    ASSUME NEW T, NEW x, Good(T), LeaseOK(x),
           \A l \in T : l.ip # x.ip /\ (l.mac # x.mac \/ x.mac = Blk),
           x.host = "" \/ \A l \in T : l.host # x.host
    PROVE  Good(T \cup {x})
  <1>1 \A l \in T \cup {x} : LeaseOK(l) BY DEF Good
  <1>2 \A l1, l2 \in T \cup {x} : l1.ip = l2.ip => l1 = l2 BY DEF Good
  <1>3 \A l1, l2 \in T \cup {x} : l1.mac = l2.mac /\ l1.mac # Blk => l1 = l2 BY DEF Good
  <1>4 \A l1, l2 \in T \cup {x} : l1.host # "" /\ l1.host = l2.host => l1 = l2 BY DEF Good
  <1> QED BY <1>1, <1>2, <1>3, <1>4 DEF Good

\* A map over the table that keeps addresses and clients, keeps or clears
\* host names and yields well-formed leases.
LEMMA MapKeep ==
    ASSUME NEW S, NEW f(_), Good(S),
           \A l \in S : /\ f(l).ip = l.ip /\ f(l).mac = l.mac /\ LeaseOK(f(l))
                        /\ (f(l).host = l.host \/ f(l).host = "")
    PROVE  Good({f(l) : l \in S})
  <1> DEFINE T == {f(l) : l \in S}
  <1>1 \A y \in T : LeaseOK(y) OBVIOUS
  <1>2 \A y1, y2 \in T : y1.ip = y2.ip => y1 = y2
    <2> TAKE y1, y2 \in T
    <2> HAVE y1.ip = y2.ip
    <2>1 PICK l1 \in S : y1 = f(l1) OBVIOUS
    <2>2 PICK l2 \in S : y2 = f(l2) OBVIOUS
    <2>3 l1.ip = l2.ip BY <2>1, <2>2
    <2>4 l1 = l2 BY <2>3 DEF Good
    <2> QED BY <2>1, <2>2, <2>4
  <1>3 \A y1, y2 \in T : y1.mac = y2.mac /\ y1.mac # Blk => y1 = y2
    <2> TAKE y1, y2 \in T
    <2> HAVE y1.mac = y2.mac /\ y1.mac # Blk
    <2>1 PICK l1 \in S : y1 = f(l1) OBVIOUS
    <2>2 PICK l2 \in S : y2 = f(l2) OBVIOUS
    <2>3 l1.mac = l2.mac /\ l1.mac # Blk BY <2>1, <2>2
    <2>4 l1 = l2 BY <2>3 DEF Good
    <2> QED BY <2>1, <2>2, <2>4
  <1>4 \A y1, y2 \in T : y1.host # "" /\ y1.host = y2.host => y1 = y2
    <2> TAKE y1, y2 \in T
    <2> HAVE y1.host # "" /\ y1.host = y2.host
    <2>1 PICK l1 \in S : y1 = f(l1) OBVIOUS
    <2>2 PICK l2 \in S : y2 = f(l2) OBVIOUS
    <2>3 l1.host = y1.host /\ l2.host = y2.host BY <2>1, <2>2
    <2>4 l1 = l2 BY <2>3 DEF Good
    <2> QED BY <2>1, <2>2, <2>4
  <1> HIDE DEF T
  <1> QED BY <1>1, <1>2, <1>3, <1>4 DEF Good, T

LEMMA LeaseFields ==
    ASSUME NEW m, NEW a, NEW st \in BOOLEAN, NEW ak \in BOOLEAN, NEW h
    PROVE  /\ Lease(m, a, st, ak, h).mac = m /\ Lease(m, a, st, ak, h).ip = a
           /\ Lease(m, a, st, ak, h).st = st /\ Lease(m, a, st, ak, h).host = h
           /\ Lease(m, a, st, ak, h).rem \in 0..LeaseT
           /\ (st => Lease(m, a, st, ak, h).rem = 0)
           /\ IsLease(Lease(m, a, st, ak, h))
  BY LeaseTNat DEF Lease, IsLease

\* ---------------------------------------------------------- allocation
LEMMA FreshGood ==
    ASSUME NEW T, NEW m \in Macs, NEW a \in Pool, NEW ak \in BOOLEAN, NEW names,
           Good(T), On(T, a) = {}, Of(T, m) = {}, NEW T2 \in Fresh(T, m, a, ak, names)
    PROVE  Good(T2)
  <1>1 PICK h \in names : (h = "" \/ \A o \in T : o.host # h) /\ T2 = T \cup {Lease(m, a, FALSE, ak, h)}
    BY DEF Fresh
  <1> DEFINE x == Lease(m, a, FALSE, ak, h)
  <1>2 x.mac = m /\ x.ip = a /\ x.st = FALSE /\ x.host = h /\ x.rem \in 0..LeaseT /\ IsLease(x)
    BY LeaseFields
  <1>3 LeaseOK(x) BY <1>2, LeaseTNat DEF LeaseOK, Subnet
  <1>4 \A l \in T : l.ip # x.ip /\ l.mac # x.mac BY <1>2 DEF On, Of
  <1>5 x.host = "" \/ \A l \in T : l.host # x.host BY <1>1, <1>2
  <1> HIDE DEF x
  <1> QED BY <1>1, <1>3, <1>4, <1>5, AddOne DEF x

LEMMA AllocsGood ==
    ASSUME NEW S, NEW m \in Macs, NEW ak \in BOOLEAN, NEW hs, NEW gen \in BOOLEAN,
           Good(S), Of(S, m) = {}, NEW T \in Allocs(S, m, ak, hs, gen)
    PROVE  Good(T)
  <1> DEFINE g(a, TT) == IF ~gen THEN {}
                        ELSE IF \E o \in TT : o.host = GenName(a) THEN {AltName(a)} ELSE {GenName(a)}
             A1 == UNION {Fresh(S, m, a, ak, hs \cup g(a, S)) : a \in FreeAddrs(S)}
             A2 == UNION {Fresh(S \ On(S, a), m, a, ak, hs \cup g(a, S \ On(S, a)) \cup {l.host : l \in On(S, a)})
                          : a \in Recyclable(S)}
  <1>0a T \in A1 \cup A2 BY DEF Allocs
  <1>0b T \in A1 => \E a \in FreeAddrs(S) : T \in Fresh(S, m, a, ak, hs \cup g(a, S)) OBVIOUS
  <1>0c T \in A2 => \E a \in Recyclable(S) :
                       T \in Fresh(S \ On(S, a), m, a, ak, hs \cup g(a, S \ On(S, a)) \cup {l.host : l \in On(S, a)})
    OBVIOUS
  <1> HIDE DEF g, A1, A2
  <1>0 \/ \E a \in FreeAddrs(S) : \E names : T \in Fresh(S, m, a, ak, names)
       \/ \E a \in Recyclable(S) : \E names : T \in Fresh(S \ On(S, a), m, a, ak, names)
    BY <1>0a, <1>0b, <1>0c
  <1>1 CASE \E a \in FreeAddrs(S) : \E names : T \in Fresh(S, m, a, ak, names)
    <2>1 PICK a \in FreeAddrs(S) : \E names : T \in Fresh(S, m, a, ak, names) BY <1>1
    <2>2 PICK names : T \in Fresh(S, m, a, ak, names) BY <2>1
    <2>3 a \in Pool /\ On(S, a) = {} BY DEF FreeAddrs
    <2> QED BY <2>2, <2>3, FreshGood
  <1>2 CASE \E a \in Recyclable(S) : \E names : T \in Fresh(S \ On(S, a), m, a, ak, names)
    <2>1 PICK a \in Recyclable(S) : \E names : T \in Fresh(S \ On(S, a), m, a, ak, names) BY <1>2
    <2>2 PICK names : T \in Fresh(S \ On(S, a), m, a, ak, names) BY <2>1
    <2>3 a \in Pool BY DEF Recyclable
    <2>4 Good(S \ On(S, a)) BY Sub
    <2>5 On(S \ On(S, a), a) = {} /\ Of(S \ On(S, a), m) = {} BY DEF On, Of
    <2> QED BY <2>2, <2>3, <2>4, <2>5, FreshGood
  <1> QED BY <1>0, <1>1, <1>2

\* ---------------------------------------------------------- one lemma per outcome operator
LEMMA DiscoverGood ==
    ASSUME NEW S, NEW m \in Macs, Good(S), NEW o \in DiscoverOut(S, m)
    PROVE  Good(o.dst)
  <1>1 CASE Of(S, m) # {} BY <1>1 DEF DiscoverOut, Outc
  <1>2 CASE Of(S, m) = {}
    <2> DEFINE as == Allocs(S, m, FALSE, {""}, FALSE)
    <2>1 CASE as = {} BY <1>2, <2>1 DEF DiscoverOut, Outc
    <2>2 CASE as # {}
      <3>1 PICK T \in as : o = Outc(T, Offer((CHOOSE l \in Of(T, m) : TRUE).ip))
        BY <1>2, <2>2 DEF DiscoverOut
      <3>2 Good(T) BY <1>2, AllocsGood
      <3> QED BY <3>1, <3>2 DEF Outc
    <2> QED BY <2>1, <2>2
  <1> QED BY <1>1, <1>2

LEMMA RequestGood ==
    ASSUME NEW S, NEW m \in Macs, NEW kind, NEW a, NEW h, Good(S), NEW o \in RequestOut(S, m, kind, a, h)
    PROVE  Good(o.dst)
  <1> DEFINE mine == {l \in Of(S, m) : l.ip = a}
  <1>1 CASE mine = {} BY <1>1 DEF RequestOut, Outc
  <1>2 CASE mine # {}
    <2> DEFINE l == CHOOSE x \in mine : TRUE
    <2>1 l \in S /\ l.mac = m /\ l.ip = a BY <1>2 DEF Of
    <2>2 CASE l.st BY <1>2, <2>2 DEF RequestOut, Outc
    <2>3 CASE ~l.st
      <3>1 PICK x \in HostChoices(S, l, h) : o = Outc((S \ {l}) \cup {Lease(m, a, FALSE, TRUE, x)}, Ack(a))
        BY <1>2, <2>3 DEF RequestOut
      <3> DEFINE y == Lease(m, a, FALSE, TRUE, x)
      <3>2 y.mac = m /\ y.ip = a /\ y.st = FALSE /\ y.host = x /\ y.rem \in 0..LeaseT /\ IsLease(y)
        BY LeaseFields
      <3>3 LeaseOK(l) BY <2>1 DEF Good
      <3>4 LeaseOK(y) BY <3>2, <3>3, <2>1, <2>3, LeaseTNat DEF LeaseOK
      <3>5 Good(S \ {l}) BY Sub
      <3>6 \A z \in S \ {l} : z.ip # y.ip /\ z.mac # y.mac BY <3>2, <2>1, LeaseTNat DEF Good
      <3>7 x = "" \/ \A z \in S \ {l} : z.host # x BY DEF HostChoices
      <3> HIDE DEF y, l, mine
      <3> QED BY <3>1, <3>2, <3>4, <3>5, <3>6, <3>7, AddOne DEF Outc, y
    <2> QED BY <2>2, <2>3
  <1> QED BY <1>1, <1>2

LEMMA DeclineGood ==
    ASSUME NEW S, NEW m \in Macs, NEW a, Good(S), NEW o \in DeclineOut(S, m, a)
    PROVE  Good(o.dst)
  <1> DEFINE mine == {l \in Of(S, m) : l.ip = a /\ ~l.st}
  <1>1 CASE mine = {} BY <1>1 DEF DeclineOut, Outc
  <1>2 CASE mine # {}
    <2> DEFINE l == CHOOSE x \in mine : TRUE
               S1 == S \ {l}
               keep == {""} \cup ({l.host} \ {GenName(a)})
    <2>1 l \in S /\ l.mac = m BY <1>2 DEF Of
    <2>2 Good(S1) BY Sub
    <2>3 Of(S1, m) = {} BY <2>1, LeaseTNat DEF Of, Good
    <2>4 \/ o = Outc(S1, AnyR)
         \/ \E T \in Allocs(S1, m, TRUE, keep, TRUE) : o = Outc(T, AnyR)
         \/ \E T \in Allocs(S1, m, FALSE, keep, TRUE) : o = Outc(T, AnyR)
      BY <1>2 DEF DeclineOut
    <2> HIDE DEF l, S1, mine, keep
    <2> QED BY <2>2, <2>3, <2>4, AllocsGood DEF Outc
  <1> QED BY <1>1, <1>2

LEMMA ReleaseGood ==
    ASSUME NEW S, NEW m, NEW a, Good(S), NEW o \in ReleaseOut(S, m, a)
    PROVE  Good(o.dst)
  <1>1 o.dst \subseteq S BY DEF ReleaseOut, Outc
  <1> QED BY <1>1, Sub

LEMMA TickGood ==
    ASSUME NEW S, Good(S), NEW o \in TickOut(S)
    PROVE  Good(o.dst)
  <1> DEFINE f(l) == IF l \in Running(S) THEN [l EXCEPT !.rem = @ - 1] ELSE l
  <1>1 o.dst = {f(l) : l \in S} BY DEF TickOut, Outc
  <1>2 \A l \in S : /\ f(l).ip = l.ip /\ f(l).mac = l.mac /\ LeaseOK(f(l))
                    /\ (f(l).host = l.host \/ f(l).host = "")
    <2> TAKE l \in S
    <2>1 LeaseOK(l) BY DEF Good
    <2>2 CASE l \in Running(S)
      <3>1 ~l.st /\ l.rem > 0 /\ l.rem \in 0..LeaseT BY <2>1, <2>2 DEF Running, LeaseOK
      <3>2 l.rem - 1 \in 0..LeaseT BY <3>1, LeaseTNat
      <3>3 l = [mac |-> l.mac, ip |-> l.ip, st |-> l.st, rem |-> l.rem, host |-> l.host]
        BY <2>1 DEF LeaseOK, IsLease
      <3>4 f(l) = [mac |-> l.mac, ip |-> l.ip, st |-> l.st, rem |-> l.rem - 1, host |-> l.host]
        BY <2>2, <3>3
      <3> QED BY <2>1, <3>1, <3>2, <3>4 DEF LeaseOK, IsLease
    <2>3 CASE l \notin Running(S) BY <2>1, <2>3
    <2> QED BY <2>2, <2>3
  <1> HIDE DEF f
  <1>3 Good({f(l) : l \in S}) BY <1>2, MapKeep
  <1> QED BY <1>1, <1>3

LEMMA ExpireGood ==
    ASSUME NEW S, NEW a, Good(S), NEW o \in ExpireOut(S, a)
    PROVE  Good(o.dst)
  <1>1 PICK l \in S : ~l.st /\ l.rem > 0 /\ o = Outc((S \ {l}) \cup {[l EXCEPT !.rem = 0]}, None)
    BY DEF ExpireOut, On
  <1> DEFINE y == [l EXCEPT !.rem = 0]
  <1>2 LeaseOK(l) BY DEF Good
  <1>3a l = [mac |-> l.mac, ip |-> l.ip, st |-> l.st, rem |-> l.rem, host |-> l.host]
    BY <1>2 DEF LeaseOK, IsLease
  <1>3b y = [mac |-> l.mac, ip |-> l.ip, st |-> l.st, rem |-> 0, host |-> l.host]
    BY <1>3a
  <1>3 y.mac = l.mac /\ y.ip = l.ip /\ y.st = l.st /\ y.host = l.host /\ y.rem = 0 /\ IsLease(y)
    BY <1>3b, <1>2 DEF IsLease, LeaseOK
  <1>4 LeaseOK(y) BY <1>2, <1>3, LeaseTNat DEF LeaseOK
  <1>5 Good(S \ {l}) BY Sub
  <1>6 \A z \in S \ {l} : z.ip # y.ip /\ (z.mac # y.mac \/ y.mac = Blk) BY <1>3 DEF Good
  <1>7 y.host = "" \/ \A z \in S \ {l} : z.host # y.host BY <1>3 DEF Good
  <1> HIDE DEF y
  <1> QED BY <1>1, <1>4, <1>5, <1>6, <1>7, AddOne DEF Outc, y

LEMMA UnnameGood ==
    ASSUME NEW L, NEW h, Good(L)
    PROVE  /\ Good(Unname(L, h))
           /\ \A z \in Unname(L, h) : h = "" \/ z.host # h
           /\ \A z \in Unname(L, h) : \E l \in L : z.ip = l.ip /\ z.mac = l.mac
  <1> DEFINE f(l) == IF h # "" /\ l.host = h THEN [l EXCEPT !.host = ""] ELSE l
  <1>1 Unname(L, h) = {f(l) : l \in L} BY DEF Unname
  <1>2 \A l \in L : /\ f(l).ip = l.ip /\ f(l).mac = l.mac /\ LeaseOK(f(l))
                    /\ (f(l).host = l.host \/ f(l).host = "")
                    /\ (h = "" \/ f(l).host # h)
    <2> TAKE l \in L
    <2>1 LeaseOK(l) BY DEF Good
    <2>2 l = [mac |-> l.mac, ip |-> l.ip, st |-> l.st, rem |-> l.rem, host |-> l.host]
      BY <2>1 DEF LeaseOK, IsLease
    <2>3 CASE h # "" /\ l.host = h
      <3>1 f(l) = [mac |-> l.mac, ip |-> l.ip, st |-> l.st, rem |-> l.rem, host |-> ""]
        BY <2>2, <2>3
      <3> QED BY <3>1, <2>1, <2>3 DEF LeaseOK, IsLease
    <2>4 CASE ~(h # "" /\ l.host = h)
      BY <2>1, <2>4
    <2> QED BY <2>3, <2>4
  <1>2b \A l \in L : /\ f(l).ip = l.ip /\ f(l).mac = l.mac /\ LeaseOK(f(l))
                     /\ (f(l).host = l.host \/ f(l).host = "")
    BY <1>2
  <1> HIDE DEF f
  <1>3 Good({f(l) : l \in L}) BY <1>2b, MapKeep
  <1> QED BY <1>1, <1>2, <1>3

\* The name h goes to a new reservation: the lease that had it is renamed.
LEMMA RenamesGood ==
    ASSUME NEW L, NEW h, Good(L), NEW T \in Renames(L, h)
    PROVE  /\ Good(T)
           /\ \A z \in T : h = "" \/ z.host # h
           /\ \A z \in T : \E l \in L : z.ip = l.ip /\ z.mac = l.mac
  <1>1 CASE h = "" \/ \A l \in L : l.host # h
    <2>1 T = L BY <1>1 DEF Renames
    <2> QED BY <2>1, <1>1
  <1>2 CASE ~(h = "" \/ \A l \in L : l.host # h)
    <2> DEFINE l == CHOOSE x \in L : x.host = h
               rest == L \ {l}
    <2>1 l \in L /\ l.host = h /\ h # "" BY <1>2
    <2>2 PICK n : /\ (n = "" \/ (n # h /\ \A o \in rest : o.host # n))
                  /\ T = rest \cup {[l EXCEPT !.host = n]}
      BY <1>2 DEF Renames
    <2> DEFINE y == [l EXCEPT !.host = n]
    <2>3 LeaseOK(l) BY <2>1 DEF Good
    <2>4 l = [mac |-> l.mac, ip |-> l.ip, st |-> l.st, rem |-> l.rem, host |-> l.host]
      BY <2>3 DEF LeaseOK, IsLease
    <2>5 y = [mac |-> l.mac, ip |-> l.ip, st |-> l.st, rem |-> l.rem, host |-> n] BY <2>4
    <2>6 l.mac # Blk BY <2>3, <2>1 DEF LeaseOK
    <2>7 LeaseOK(y) BY <2>3, <2>5, <2>6 DEF LeaseOK, IsLease
    <2>8 Good(rest) BY Sub
    <2>9 \A z \in rest : z.ip # y.ip /\ (z.mac # y.mac \/ y.mac = Blk) BY <2>5, <2>1, <2>6 DEF Good
    <2>10 y.host = "" \/ \A z \in rest : z.host # y.host BY <2>2, <2>5
    <2>11 \A z \in rest : z.host # h BY <2>1 DEF Good
    <2>12 y.ip = l.ip /\ y.mac = l.mac /\ y.host = n BY <2>5
    <2> HIDE DEF y, l, rest
    <2>13 Good(rest \cup {y}) BY <2>7, <2>8, <2>9, <2>10, AddOne
    <2>14 T = rest \cup {y} BY <2>2 DEF y
    <2> QED BY <2>1, <2>2, <2>11, <2>12, <2>13, <2>14 DEF rest
  <1> QED BY <1>1, <1>2

\* The end of an address conflict: the entry becomes an entry of nobody.
LEMMA BlockEndGood ==
    ASSUME NEW S, NEW a, Good(S), NEW o \in BlockEndOut(S, a)
    PROVE  Good(o.dst)
  <1>1 PICK l \in S : ~l.st /\ l.rem = 0 /\ l.mac # Blk
                       /\ o = Outc((S \ {l}) \cup {[l EXCEPT !.mac = Blk, !.host = ""]}, None)
    BY DEF BlockEndOut, On
  <1> DEFINE y == [l EXCEPT !.mac = Blk, !.host = ""]
  <1>2 LeaseOK(l) BY DEF Good
  <1>3a l = [mac |-> l.mac, ip |-> l.ip, st |-> l.st, rem |-> l.rem, host |-> l.host]
    BY <1>2 DEF LeaseOK, IsLease
  <1>3b y = [mac |-> Blk, ip |-> l.ip, st |-> l.st, rem |-> l.rem, host |-> ""]
    BY <1>3a
  <1>3 y.mac = Blk /\ y.ip = l.ip /\ y.st = l.st /\ y.host = "" /\ y.rem = l.rem /\ IsLease(y)
    BY <1>3b, <1>2 DEF IsLease, LeaseOK
  <1>4 LeaseOK(y) BY <1>1, <1>2, <1>3 DEF LeaseOK
  <1>5 Good(S \ {l}) BY Sub
  <1>6 \A z \in S \ {l} : z.ip # y.ip /\ (z.mac # y.mac \/ y.mac = Blk) BY <1>3 DEF Good
  <1>7 y.host = "" \/ \A z \in S \ {l} : z.host # y.host BY <1>3
  <1> HIDE DEF y
  <1> QED BY <1>1, <1>4, <1>5, <1>6, <1>7, AddOne DEF Outc, y

LEMMA AddStaticGood ==
    ASSUME NEW S, NEW m \in Macs, NEW a, NEW h, Good(S), NEW o \in AddStaticOut(S, m, a, h)
    PROVE  Good(o.dst)
  <1> DEFINE hard  == \/ a = GW \/ a \notin Subnet
                      \/ \E l \in Statics(S) : l.ip = a \/ l.mac = m \/ (h # "" /\ l.host = h)
             evict == {l \in S : ~l.st /\ (l.mac = m \/ l.ip = a)}
             x     == Lease(m, a, TRUE, TRUE, h)
  <1>1 CASE o.dst = S BY <1>1
  <1>2 CASE o.dst # S
    <2>1 ~hard /\ \E TT \in Renames(S \ evict, h) : o = Outc(TT \cup {x}, Ok)
      BY <1>2 DEF AddStaticOut, Outc
    <2>1a PICK TT \in Renames(S \ evict, h) : o = Outc(TT \cup {x}, Ok) BY <2>1
    <2>2 x.mac = m /\ x.ip = a /\ x.st = TRUE /\ x.host = h /\ x.rem = 0 /\ x.rem \in 0..LeaseT /\ IsLease(x)
      BY LeaseFields
    <2>3 LeaseOK(x) BY <2>1, <2>2, LeaseTNat DEF LeaseOK
    <2>4 Good(S \ evict) BY Sub
    <2>5 \A l \in S \ evict : l.ip # a /\ l.mac # m BY <2>1 DEF Statics
    <2>6 /\ Good(TT)
         /\ \A z \in TT : h = "" \/ z.host # h
         /\ \A z \in TT : \E l \in S \ evict : z.ip = l.ip /\ z.mac = l.mac
      BY <2>4, RenamesGood
    <2>7 \A z \in TT : z.ip # x.ip /\ (z.mac # x.mac \/ x.mac = Blk) BY <2>2, <2>5, <2>6
    <2>8 x.host = "" \/ \A z \in TT : z.host # x.host BY <2>2, <2>6
    <2> HIDE DEF x, evict, hard
    <2> QED BY <2>1a, <2>3, <2>6, <2>7, <2>8, AddOne DEF Outc
  <1> QED BY <1>1, <1>2

LEMMA UpdateStaticGood ==
    ASSUME NEW S, NEW m \in Macs, NEW a, NEW h, Good(S), NEW o \in UpdateStaticOut(S, m, a, h)
    PROVE  Good(o.dst)
  <1>1 CASE o.dst = S BY <1>1
  <1>2 CASE o.dst # S
    <2> DEFINE l      == CHOOSE x \in Of(S, m) : TRUE
               others == S \ {l}
               hard   == \/ a = GW \/ a \notin Subnet
                         \/ \E z \in others : z.st /\ (z.ip = a \/ (h # "" /\ z.host = h))
               evict  == {z \in others : ~z.st /\ z.ip = a}
               x      == Lease(m, a, TRUE, TRUE, h)
    <2>0 Of(S, m) # {} BY <1>2 DEF UpdateStaticOut, Outc
    <2>1 ~hard /\ \E TT \in Renames(others \ evict, h) : o = Outc(TT \cup {x}, Ok)
      BY <1>2, <2>0 DEF UpdateStaticOut, Outc
    <2>1a PICK TT \in Renames(others \ evict, h) : o = Outc(TT \cup {x}, Ok) BY <2>1
    <2>2 x.mac = m /\ x.ip = a /\ x.st = TRUE /\ x.host = h /\ x.rem = 0 /\ x.rem \in 0..LeaseT /\ IsLease(x)
      BY LeaseFields
    <2>3 LeaseOK(x) BY <2>1, <2>2, LeaseTNat DEF LeaseOK
    <2>4 l \in S /\ l.mac = m BY <2>0 DEF Of
    <2>5 Good(others \ evict) BY Sub
    <2>6 \A z \in others \ evict : z.ip # a /\ z.mac # m BY <2>1, <2>4, LeaseTNat DEF Good
    <2>7 /\ Good(TT)
         /\ \A z \in TT : h = "" \/ z.host # h
         /\ \A z \in TT : \E y \in others \ evict : z.ip = y.ip /\ z.mac = y.mac
      BY <2>5, RenamesGood
    <2>8 \A z \in TT : z.ip # x.ip /\ (z.mac # x.mac \/ x.mac = Blk) BY <2>2, <2>6, <2>7
    <2>9 x.host = "" \/ \A z \in TT : z.host # x.host BY <2>2, <2>7
    <2> HIDE DEF x, evict, hard, others, l
    <2> QED BY <2>1a, <2>3, <2>7, <2>8, <2>9, AddOne DEF Outc
  <1> QED BY <1>1, <1>2

LEMMA RemoveStaticGood ==
    ASSUME NEW S, NEW m, NEW a, Good(S), NEW o \in RemoveStatic4Out(S, m, a)
    PROVE  Good(o.dst)
  <1>1 o.dst \subseteq S BY DEF RemoveStatic4Out, RemoveStaticOut, Outc
  <1> QED BY <1>1, Sub

\* ---------------------------------------------------------- the invariant
LEMMA InitInv == Init => IndInv
  BY DEF Init, IndInv, TypeOK, KeyedByAddress, OneLeasePerClient, HostsUnique

LEMMA TakeKeeps ==
    ASSUME NEW o, Good(o.dst), Take(o) PROVE IndInv'
  BY GoodIsInv DEF Take, IndInv, Good, LeaseOK, TypeOK, KeyedByAddress, OneLeasePerClient, HostsUnique

LEMMA NextInv == IndInv /\ [Next]_vars => IndInv'
  <1> SUFFICES ASSUME IndInv, [Next]_vars PROVE IndInv' OBVIOUS
  <1>0 Good(ls) /\ disk = ls BY GoodIsInv
  <1>1 ASSUME NEW m \in Macs, Discover(m) PROVE IndInv'
    BY <1>0, <1>1, DiscoverGood, TakeKeeps DEF Discover
  <1>2 ASSUME NEW m \in Macs, NEW k \in Kinds, NEW a \in ReqAddrs, NEW h \in ReqHosts, Request(m, k, a, h)
       PROVE IndInv'
    BY <1>0, <1>2, RequestGood, TakeKeeps DEF Request
  <1>3 ASSUME NEW m \in Macs, NEW a \in ReqAddrs, Decline(m, a) PROVE IndInv'
    BY <1>0, <1>3, DeclineGood, TakeKeeps DEF Decline
  <1>4 ASSUME NEW m \in Macs, NEW a \in ReqAddrs, Release(m, a) PROVE IndInv'
    BY <1>0, <1>4, ReleaseGood, TakeKeeps DEF Release
  <1>5 CASE Tick
    BY <1>0, <1>5, TickGood, TakeKeeps DEF Tick
  <1>6 ASSUME NEW a \in Pool, Expire(a) PROVE IndInv'
    BY <1>0, <1>6, ExpireGood, TakeKeeps DEF Expire
  <1>6b ASSUME NEW a \in Pool, BlockEnd(a) PROVE IndInv'
    BY <1>0, <1>6b, BlockEndGood, TakeKeeps DEF BlockEnd
  <1>7 ASSUME NEW m \in Macs, NEW a \in StatAddrs, NEW h \in StaticHosts, AddStatic(m, a, h) PROVE IndInv'
    BY <1>0, <1>7, AddStaticGood, TakeKeeps DEF AddStatic
  <1>8 ASSUME NEW m \in Macs, NEW a \in StatAddrs, NEW h \in StaticHosts, UpdateStatic(m, a, h) PROVE IndInv'
    BY <1>0, <1>8, UpdateStaticGood, TakeKeeps DEF UpdateStatic
  <1>9 ASSUME NEW m \in Macs, NEW a \in ReqAddrs, RemoveStatic(m, a) PROVE IndInv'
    BY <1>0, <1>9, RemoveStaticGood, TakeKeeps DEF RemoveStatic
  <1>10 CASE Restart
    <2>1 ls' = disk /\ disk' = disk BY <1>10 DEF Restart, RestartOut, Load, Outc
    <2> QED BY <2>1, <1>0 DEF IndInv, TypeOK, KeyedByAddress, OneLeasePerClient, HostsUnique
  <1>11 CASE UNCHANGED vars
    BY <1>11 DEF vars, IndInv, TypeOK, KeyedByAddress, OneLeasePerClient, HostsUnique
  <1> QED BY <1>1, <1>2, <1>3, <1>4, <1>5, <1>6, <1>6b, <1>7, <1>8, <1>9, <1>10, <1>11 DEF Next

THEOREM Invariance == Spec => []IndInv
  BY InitInv, NextInv, PTL DEF Spec

\* IndInv implies the single-state invariants of the statement.
THEOREM IndInvSafe ==
    IndInv => /\ OneHolderPerAddress /\ KeyedByAddress /\ OneLeasePerClient
              /\ DynamicInsidePool /\ HostsUnique /\ RemBounded /\ DiskEqualsMemoryEachOnce
              /\ RemoveKeepsHeldDynamic
  <1> SUFFICES ASSUME IndInv PROVE RemoveKeepsHeldDynamic
    BY DEF IndInv, TypeOK, OneHolderPerAddress, KeyedByAddress, OneLeasePerClient, DynamicInsidePool,
           HostsUnique, RemBounded, DiskEqualsMemoryEachOnce
  <1> SUFFICES ASSUME NEW l \in ls, ~l.st /\ Held(l), NEW o \in RemoveStatic4Out(ls, l.mac, l.ip)
               PROVE  l \in o.dst
    BY DEF RemoveKeepsHeldDynamic
  <1>1 l \in {x \in Of(ls, l.mac) : x.ip = l.ip /\ ~x.st /\ Held(x)} BY DEF Of
  <1>2 o = Outc(ls, Err) BY <1>1 DEF RemoveStatic4Out
  <1> QED BY <1>2 DEF Outc
=============================================================================
