SPECIFICATION Spec
VIEW View
CONSTANTS
  MaxRec = 5
  MemSizes = {0, 1, 2, 3}
  FileModes = {TRUE, FALSE}
  Palettes = {}
  Kinds = {1, 2}
  RestartResizes = FALSE
  IgnoreModes = {FALSE}
  AnonModes = {FALSE}
  MaxFlight = 0
  Faults = TRUE
  AllowWindow = TRUE
  EmitEdges = FALSE
INVARIANTS TypeOK Ordered NothingLost PayloadPreserved SearchAll PagingPartitions WindowPaging NoParameterCrashes LastReplyOK
