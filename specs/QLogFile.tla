------------------------------ MODULE QLogFile ------------------------------
(***************************************************************************)
(* C20, abstract level -- what reading a query log backwards and seeking   *)
(* by timestamp MEAN, written from the statement of the property and not   *)
(* from qlogfile.go.                                                       *)
(*                                                                         *)
(* A query log is one or two files (rotated ".1" file first, current file  *)
(* last).  A file is a sequence of lines; the only things the property     *)
(* talks about are a line's timestamp and its length, so a line is the     *)
(* record [ts, len].  Timestamps increase strictly along a file and from   *)
(* the rotated file to the current one (WellFormed).  Nothing here knows   *)
(* about bytes, buffers or probes: `len` is carried along only so that the *)
(* layouts TLC enumerates can be turned into real files by the harness.    *)
(* The same holds for a third field, `lay`, the SERIALISATION of the       *)
(* record (Layouts below): the statement speaks of "a stored entry" and    *)
(* its timestamp, not of where in the JSON object the "T" property stands  *)
(* or how the time is spelled, so no operator reads it -- every entry can  *)
(* be sought, whatever its layout.                                         *)
(*                                                                         *)
(* The reader is a cursor `cur` into the concatenation All of the files:   *)
(* cur = c means "lines All[c], All[c-1], ..., All[1] are still to be      *)
(* returned, in that order"; cur = 0 is end-of-log; cur = -1 is a reader   *)
(* on which no seek has SUCCEEDED yet (the statement says nothing about    *)
(* reads from such a reader, so ReadNext is not enabled there).            *)
(*                                                                         *)
(* Two API levels are described by the same actions (variable `level`):    *)
(*   "file"   -- one qLogFile; an absent timestamp is reported as exactly  *)
(*               one of tooEarly / tooLate / notFound;                     *)
(*   "reader" -- the qLogReader over one or two files; see                 *)
(*               SeekTooLateFallsBackToStart for the documented fallback.  *)
(***************************************************************************)
EXTENDS Integers, Sequences, FiniteSets, TLC

VARIABLES
    files,  \* <<f1>> or <<f1, f2>>, oldest first; fi \in Seq([ts : Nat, len : .., lay : ..])
    level,  \* "file" | "reader"
    cur,    \* -1 (never positioned) or 0..N: number of lines still to be returned
    out     \* reply of the last call: [op, arg, res, line]

vars == <<files, level, cur, out>>

\* ------------------------------------------------------------- vocabulary
RECURSIVE Flat(_)
Flat(fs) == IF fs = <<>> THEN <<>> ELSE Head(fs) \o Flat(Tail(fs))

All == Flat(files)
N   == Len(All)

\* Number of lines in the files strictly older than file i.
RECURSIVE Offset(_, _)
Offset(fs, i) == IF i <= 1 THEN 0 ELSE Len(fs[i - 1]) + Offset(fs, i - 1)

\* The file (1-based) holding global line g, 1 <= g <= Len(Flat(fs)).
FileOf(fs, g) == CHOOSE i \in 1..Len(fs) : Offset(fs, i) < g /\ g <= Offset(fs, i) + Len(fs[i])

(***************************************************************************)
(* Record layouts (a dimension of the universe, see QLogFileProps).        *)
(*   order  which properties precede "T": none ("T": the current writer),  *)
(*          the client address ("IP": the format of older files and of the *)
(*          package's tests), other properties of 130 / 260 / 1100 bytes   *)
(*          and the address ("long130" ..), everything ("last")            *)
(*   addr   the client address: IPv4, short IPv6, full 39-character IPv6,  *)
(*          link-local IPv6 with a zone                                    *)
(*   tsf    the time: UTC "Z" (fraction as short as it gets), a numeric    *)
(*          zone offset, nine fraction digits and a numeric zone offset    *)
(* so that the value of "T" begins anywhere from byte 6 to beyond byte     *)
(* 1100 (or, with "last", at the far end of a 16 KiB line).  "any" leaves  *)
(* the layout of a line to the seeded concretisation.                      *)
(***************************************************************************)
Orders == {"T", "IP", "long130", "long260", "long1100", "last"}
Addrs  == {"v4", "v6s", "v6f", "v6z"}
TsForms == {"utc", "off", "nsoff"}
Layouts == [order : Orders, addr : Addrs, tsf : TsForms]
AnyLayout == [order |-> "any", addr |-> "any", tsf |-> "any"]
DefaultLayout == [order |-> "T", addr |-> "v4", tsf |-> "utc"]

WellFormedLines(a) == \A i \in 1..Len(a) - 1 : a[i].ts < a[i + 1].ts
WellFormed == Len(files) \in {1, 2} /\ WellFormedLines(All) /\ (level = "file" => Len(files) = 1)

\* Below(a, t): how many lines of a are strictly older than t.  This is the
\* readable definition ...
BelowDef(a, t) == Cardinality({i \in 1..Len(a) : a[i].ts < t})

\* ... and this is the same number by bisection (valid because timestamps
\* increase strictly); the trace specs evaluate it on files of 10^4 lines.
\* TLC checks BelowAgrees on the whole exhaustive universe.
RECURSIVE Bisect(_, _, _, _)
Bisect(a, t, lo, hi) ==     \* invariant: a[lo].ts < t (or lo = 0), a[hi].ts >= t (or hi = Len+1)
    IF hi - lo <= 1 THEN lo
    ELSE LET mid == (lo + hi) \div 2
         IN IF a[mid].ts < t THEN Bisect(a, t, mid, hi) ELSE Bisect(a, t, lo, mid)
Below(a, t) == Bisect(a, t, 0, Len(a) + 1)

IsPresent(a, t) == LET k == Below(a, t) IN k < Len(a) /\ a[k + 1].ts = t

\* ---------------------------------------- what a seek may answer (oracle)
(***************************************************************************)
(* SeekOutcomes(fs, lvl, t) is the SET of admissible (reply, new cursor)   *)
(* pairs of a seek to timestamp t.  New cursor -2 stands for "the cursor   *)
(* the reader had before the seek": a seek that reports an error is a      *)
(* no-op on the read position.  That is the statement's last clause --     *)
(* "reports not-found, too-early or too-late without ever ... mis-         *)
(* positioning subsequent reads": the reads that follow the report go on   *)
(* exactly where they were (All[cur], All[cur-1], ...), on a single file   *)
(* and on the two-file reader alike, whichever file the search looked      *)
(* into.  (No caller in the repository reads after a failed seek --        *)
(* search.go closes the reader -- so the statement is the only source, and *)
(* "unchanged" is the only position it can be referring to; a reader that  *)
(* was never positioned stays never positioned.)                           *)
(*                                                                         *)
(* Present timestamp (both levels): exactly one outcome -- ok, and the     *)
(* next read returns that very line.                                       *)
(*                                                                         *)
(* Absent timestamp, file level: the three error classes with their plain  *)
(* meaning -- older than the first line: tooEarly; newer than the last:    *)
(* tooLate; strictly between two lines: notFound.  For a file without      *)
(* lines all three are equally true and the statement does not choose.     *)
(*                                                                         *)
(* Absent timestamp, reader level: qlogreader.go documents that a target   *)
(* newer than every line of a file (and older than the next file) is NOT   *)
(* an error: the reader positions itself at the very start (newest end)    *)
(* and returns nil.  The statement speaks of "reports not-found, too-early *)
(* or too-late"; both readings are admitted where they differ:             *)
(*   strictly between two lines of one file ........ {notFound}            *)
(*   older than every line ......................... {tooEarly, notFound}  *)
(*   newer than every line ......................... {fallback, tooLate}   *)
(*   in the gap between the rotated and the current file                   *)
(*                   ............ {fallback, tooLate, tooEarly, notFound}  *)
(* "fallback" is reply ok with the cursor at N (SeekTooLateFallsBackTo-    *)
(* Start below).  What callers rely on after ANY seek that returned ok is  *)
(* stated as OkSeekKeepsOlder in QLogFileProps.                            *)
(***************************************************************************)
Err(e)  == [res |-> e, cur |-> -2]
Found(c) == [res |-> "ok", cur |-> c]

FileSeekOutcomes(a, t) ==
    LET n == Len(a)
        k == Below(a, t)
    IN IF IsPresent(a, t) THEN {Found(k + 1)}
       ELSE IF n = 0 THEN {Err("tooEarly"), Err("tooLate"), Err("notFound")}
       ELSE IF k = 0 THEN {Err("tooEarly")}
       ELSE IF k = n THEN {Err("tooLate")}
       ELSE {Err("notFound")}

\* Outcomes of the documented fallback, separated so that it has a name.
FallbackOutcome(a) == [res |-> "ok", cur |-> Len(a)]

ReaderSeekOutcomes(fs, t) ==
    LET a == Flat(fs)
        n == Len(a)
        k == Below(a, t)
        inGap == k > 0 /\ k < n /\ FileOf(fs, k) # FileOf(fs, k + 1)
    IN IF IsPresent(a, t) THEN {Found(k + 1)}
       ELSE IF n = 0 THEN {FallbackOutcome(a), Err("tooEarly"), Err("tooLate"), Err("notFound")}
       ELSE IF k = 0 THEN {Err("tooEarly"), Err("notFound")}
       ELSE IF k = n THEN {FallbackOutcome(a), Err("tooLate")}
       ELSE IF inGap THEN {FallbackOutcome(a), Err("tooLate"), Err("tooEarly"), Err("notFound")}
       ELSE {Err("notFound")}

SeekOutcomes(fs, lvl, t) ==
    IF lvl = "file" THEN FileSeekOutcomes(fs[1], t) ELSE ReaderSeekOutcomes(fs, t)

\* ------------------------------------------------------------------ actions
\* `files` and `level` are parameters of a behaviour, not state of the reader:
\* no action below mentions files' or level'.  The enclosing module says how
\* they are chosen and that they stay fixed (QLogFileProps: Pick / Run; the
\* trace specs: the current "file" record).  They are variables only so that
\* one TLC run can range over all logs.
Reply(op, arg, res, line) == [op |-> op, arg |-> arg, res |-> res, line |-> line]

\* SeekStart: position at the newest end of the whole log.
SeekStart ==
    /\ cur' = N
    /\ out' = Reply("start", 0, "ok", 0)

\* ReadNext: return the line under the cursor and move to the next older one;
\* at the end report eof and stay there.  Successive reads therefore return
\* All[c], All[c-1], ..., All[1], eof, eof, ... -- each line exactly once.
ReadNext ==
    /\ cur >= 0
    /\ IF cur = 0
         THEN cur' = 0 /\ out' = Reply("read", 0, "eof", 0)
         ELSE cur' = cur - 1 /\ out' = Reply("read", 0, "ok", cur)

\* SeekTS to a stored timestamp: the next ReadNext returns that entry.
SeekFound(t) ==
    /\ IsPresent(All, t)
    /\ cur' = Below(All, t) + 1
    /\ out' = Reply("seek", t, "ok", 0)

\* SeekTS to an absent timestamp, reported as an error of class e.
SeekAbsentError(t, e) ==
    /\ Err(e) \in SeekOutcomes(files, level, t)
    /\ cur' = cur                     \* the read position is untouched, see SeekOutcomes
    /\ out' = Reply("seek", t, e, 0)

\* The documented behaviour of qLogReader.seekTS: "Just seek to the start
\* then.  timestamp is probably between the end of the previous one and the
\* start of this one."  Reader level only.
SeekTooLateFallsBackToStart(t) ==
    /\ level = "reader"
    /\ ~IsPresent(All, t)
    /\ FallbackOutcome(All) \in SeekOutcomes(files, level, t)
    /\ cur' = N
    /\ out' = Reply("seek", t, "ok", 0)

ErrClasses == {"tooEarly", "tooLate", "notFound"}

SeekTS(t) ==
    \/ SeekFound(t)
    \/ \E e \in ErrClasses : SeekAbsentError(t, e)
    \/ SeekTooLateFallsBackToStart(t)

\* Targets worth distinguishing: every stored timestamp, one value between
\* each pair of neighbours, one before the first and one after the last.
\* (The enumerating modules store line g with ts = 2g, so that is 1..2N+1.)
Targets == IF N = 0 THEN {1} ELSE (All[1].ts - 1)..(All[N].ts + 1)

Next == SeekStart \/ ReadNext \/ \E t \in Targets : SeekTS(t)

NoReply == Reply("none", 0, "ok", 0)

\* Init leaves `files` and `level` to the enumerating module (MC) or the trace.
InitReader == cur = -1 /\ out = NoReply

\* --------------------------------------------------- multi-file fallthrough
(***************************************************************************)
(* Lemma checked by TLC (QLogFileProps!FallthroughAdmissible): composing   *)
(* FILE-level seeks the way qlogreader.go seekTS:66-104 does -- newest     *)
(* file first; tooEarly => try the next older file and remember notFound;  *)
(* tooLate => SeekStart of the whole reader, nil; notFound => that error;  *)
(* found in file i => current file := i -- yields only outcomes that       *)
(* ReaderSeekOutcomes admits, provided no file is empty.  With an empty   *)
(* file the file level may answer any of the three classes, but the        *)
(* composition is correct for every log only if it answers tooEarly        *)
(* (QLogFileProps!EmptyAsTooEarlyComposes, !OnlyTooEarlyForEmptyCurrent):  *)
(* that is what the repair proposed for the known finding returns.         *)
(***************************************************************************)
\* E: the classes a file WITHOUT lines may answer (the statement leaves all
\* three open; see the lemmas about E in QLogFileProps).
FileSeekOutcomesE(a, t, E) == IF Len(a) = 0 THEN {Err(e) : e \in E} ELSE FileSeekOutcomes(a, t)

RECURSIVE Fallthrough(_, _, _, _)
Fallthrough(fs, i, t, E) ==
    IF i = 0 THEN {Err("notFound")}
    ELSE UNION {
        CASE o.res = "ok"       -> {Found(Offset(fs, i) + o.cur)}
          [] o.res = "tooEarly" -> Fallthrough(fs, i - 1, t, E)
          [] o.res = "tooLate"  -> {FallbackOutcome(Flat(fs))}
          [] OTHER              -> {Err("notFound")}
        : o \in FileSeekOutcomesE(fs[i], t, E)}

ReaderByFallthrough(fs, t, E) == Fallthrough(fs, Len(fs), t, E)
=============================================================================
