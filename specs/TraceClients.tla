---------------------------- MODULE TraceClients ----------------------------
(***************************************************************************)
(* Direction B for C04: validates traces recorded from the real            *)
(* client.Storage (harness TestZZVerifC04Trace) against ClientsCore.tla.   *)
(*                                                                         *)
(* A trace file is the concatenation of several histories; each starts     *)
(* with a "reset" line carrying the global settings.  Every other line is  *)
(* one operation (load / add / upd / rem / lease) with the reply the real  *)
(* code gave and a few lookups made right after it.  The registry `reg`    *)
(* and the lease table are advanced with the SAME AddRes / UpdateRes /     *)
(* RemoveRes operators the exhaustive model uses; the lookups are answered *)
(* with FindSet / ByName / Effective.  A line whose reply or lookups       *)
(* differ is recorded in `bad`; after a wrong REPLY the rest of that       *)
(* history is skipped (the real state is no longer the spec's).            *)
(*                                                                         *)
(* Address width here is W = 8 (cfg); address numbers above 255 carry an   *)
(* IPv6 zone (ClientsCore!Bits / Zone).                                    *)
(***************************************************************************)
EXTENDS ClientsCore, Sequences, SequencesExt, TLC, Json

Trace == ndJsonDeserialize("trace.ndjson")

VARIABLES l, reg, leases, glob, bad, skipping, skipped
tvars == <<l, reg, leases, glob, bad, skipping, skipped>>

\* JSON -> vocabulary of ClientsCore.
Cl(c) == [name |-> c.name, ids |-> ToSet(c.ids), own |-> c.own, bs |-> c.bs,
          vals |-> c.vals, svcs |-> ToSet(c.svcs), pause |-> c.pause]
Gl(g) == [vals |-> g.vals, svcs |-> ToSet(g.svcs), pause |-> g.pause]

SameClient(x, name, rids) == x.name = name /\ (name = "" \/ x.ids = ToSet(rids))

LookOK(R, L, G, q) ==
    CASE q.t = "find"  -> \E x \in FindSet(R, L, q.id) : SameClient(x, q.r, q.rids)
      [] q.t = "name"  -> SameClient(ByName(R, q.n), q.r, q.rids)
      \* the query-log / statistics attribution (q.a has no zone)
      [] q.t = "loose" -> \E x \in LooseSet(R, L, q.id, q.a) : SameClient(x, q.r, q.rids)
      [] q.t = "range" -> ToSet(q.rng) = NamesOf(R) /\ Len(q.rng) = Cardinality(NamesOf(R))
      [] q.t = "apply" ->
            LET e == Effective(R, L, G, q.id, q.a)
                c == Resolve(R, L, q.id, q.a) IN
            /\ e.who = q.r
            /\ e.vals = q.vals
            /\ e.svcs = ToSet(q.svcs)
            \* the client's own safe-search engine (it exists only while the
            \* client's own safe search is enabled, as package home builds it)
            \* goes with its own values
            /\ (q.n = "ss") <=> (c.own /\ c.vals[2])
      [] OTHER -> FALSE

\* bad collects <<line, i>>: lookup i of that line has a wrong answer (i = 0: the
\* reply of the operation itself is wrong).
BadLooks(R, L, G, ln) == {<<l, i>> : i \in {j \in DOMAIN ln.q : ~LookOK(R, L, G, ln.q[j])}}

Res(ln) ==
    CASE ln.op = "add" -> AddRes(reg, Cl(ln.c))
      [] ln.op = "upd" -> UpdateRes(reg, ln.n, Cl(ln.c))
      [] ln.op = "rem" -> RemoveRes(reg, ln.n)
      \* start-up from a configuration file (first line after a reset)
      [] ln.op = "load" -> LoadRes([i \in DOMAIN ln.cs |-> Cl(ln.cs[i])])

Init == /\ l = 1 /\ reg = {} /\ leases = <<>> /\ glob = [vals |-> <<>>, svcs |-> {}, pause |-> FALSE]
        /\ bad = {} /\ skipping = FALSE /\ skipped = 0

Step ==
    /\ l <= Len(Trace)
    /\ l' = l + 1
    /\ LET ln == Trace[l] IN
       IF ln.op = "reset" THEN
            /\ reg' = {} /\ leases' = <<>> /\ glob' = Gl(ln.g) /\ skipping' = FALSE
            /\ UNCHANGED <<bad, skipped>>
       ELSE IF skipping THEN
            /\ skipped' = skipped + 1
            /\ UNCHANGED <<reg, leases, glob, bad, skipping>>
       ELSE IF ln.op = "lease" THEN
            LET L2 == (ln.a :> ln.m) @@ leases IN
            /\ leases' = L2
            /\ bad' = bad \cup BadLooks(reg, L2, glob, ln)
            /\ UNCHANGED <<reg, glob, skipping, skipped>>
       ELSE
            LET r == Res(ln) IN
            IF r.out # ln.out
            THEN /\ bad' = bad \cup {<<l, 0>>} /\ skipping' = TRUE
                 /\ UNCHANGED <<reg, leases, glob, skipped>>
            ELSE /\ reg' = r.reg
                 /\ bad' = bad \cup BadLooks(r.reg, leases, glob, ln)
                 /\ UNCHANGED <<leases, glob, skipping, skipped>>
    /\ (l' = Len(Trace) + 1 =>
          PrintT(<<"@@V", ToJson([n |-> Len(Trace), bad |-> bad', skipped |-> skipped'])>>))

Spec == Init /\ [][Step]_tvars

\* The spec's own registry stays consistent along every recorded history.
RegConsistent == Consistent(reg)
=============================================================================
