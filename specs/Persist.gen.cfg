SPECIFICATION Spec
CONSTANTS
    Deep = FALSE
    Bug = "none"
    DoEmit = TRUE
INVARIANTS WriteThrough ReportsRunning TypeOK
PROPERTIES RefusedChangesNothing RestartRestores CrashAtomic AcceptedEverywhere
VIEW View
