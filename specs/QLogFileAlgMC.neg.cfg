SPECIFICATION Spec
CONSTANTS
  MaxEntry = 4
  BufSize = 12
  DepthLimit = 100
  EmptyGuard = TRUE
  MaxLines = 4
  MinLen = 1
  MaxLen = 4
VIEW View
PROPERTY Refines
