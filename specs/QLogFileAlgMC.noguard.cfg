SPECIFICATION Spec
CONSTANTS
  MaxEntry = 4
  BufSize = 12
  DepthLimit = 100
  EmptyGuard = FALSE
  MaxLines = 0
  MinLen = 1
  EmitProbes = TRUE
  MaxLen = 3
VIEW View
PROPERTY Refines
