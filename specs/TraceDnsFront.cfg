SPECIFICATION Spec
