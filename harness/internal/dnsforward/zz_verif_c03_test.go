package dnsforward

// C03 conformance harness (access lists).
//
// Direction A replays the verdict tables that TLC emits from specs/Access.tla
// (one vector per access configuration) against a real, started Server: the
// lists are installed through the POST /control/access/set handler, the client
// decision is compared for every (address, ClientID) of the universe through
// IsBlockedClient and HandleBefore, the blocked-hosts decision for every name
// of the universe, and a stratified sample goes through real transports (UDP,
// TCP, DoT, DoQ and DNSCrypt sockets; DoH through the DoH HTTP handler).
//
// Direction B drives random lists over 8-bit address universes and records one
// NDJSON line per step for specs/TraceAccess.tla.

import (
	"bytes"
	"context"
	"crypto/ecdsa"
	"crypto/elliptic"
	crand "crypto/rand"
	"crypto/tls"
	"crypto/x509"
	"crypto/x509/pkix"
	"encoding/base64"
	"encoding/binary"
	"encoding/json"
	"fmt"
	"io"
	"math/big"
	"math/rand"
	"net"
	"net/http"
	"net/http/httptest"
	"net/netip"
	"slices"
	"sort"
	"strings"
	"sync"
	"sync/atomic"
	"testing"
	"time"

	"github.com/AdguardTeam/AdGuardHome/internal/aghtest"
	"github.com/AdguardTeam/AdGuardHome/internal/filtering"
	"github.com/AdguardTeam/AdGuardHome/internal/querylog"
	"github.com/AdguardTeam/AdGuardHome/internal/schedule"
	"github.com/AdguardTeam/AdGuardHome/internal/stats"
	"github.com/AdguardTeam/dnsproxy/proxy"
	"github.com/AdguardTeam/dnsproxy/upstream"
	"github.com/AdguardTeam/golibs/errors"
	"github.com/AdguardTeam/golibs/logutil/slogutil"
	"github.com/AdguardTeam/golibs/netutil"
	"github.com/ameshkov/dnscrypt/v2"
	"github.com/miekg/dns"
	"github.com/quic-go/quic-go"
)

// ------------------------------------------------------------ abstract values

// zzC03Addr is an abstract address of the spec.
type zzC03Addr struct {
	Fam  string `json:"fam"`
	Bits []int  `json:"bits"`
}

// zzC03Entry is an element of the allowed / disallowed list of the spec.
type zzC03Entry struct {
	K    string `json:"k"`
	Fam  string `json:"fam"`
	Bits []int  `json:"bits"`
	ID   string `json:"id"`
	// Sp is "lower" or, for a ClientID entry written in another letter case,
	// "mixed".
	Sp string `json:"sp"`
}

// zzC03Pat is a blocked-hosts pattern of the spec.
type zzC03Pat struct {
	K string   `json:"k"`
	N []string `json:"n"`
	// Qt restricts the rule to one query type ($dnstype=Qt) unless empty.
	Qt string `json:"qt"`
	// Wl marks an exception rule ("@@...").
	Wl bool `json:"wl"`
	// Fq marks an exact name / wildcard written with the final dot.
	Fq bool `json:"fq"`
}

// zzC03Vec is one vector emitted by TLC: either the universe or one
// configuration with its verdict tables.
type zzC03Vec struct {
	Kind       string       `json:"kind"`
	Addrs      []zzC03Addr  `json:"addrs"`
	IDs        []string     `json:"ids"`
	Names      [][]string   `json:"names"`
	Qtypes     []string     `json:"qtypes"`
	Allowed    []zzC03Entry `json:"allowed"`
	Disallowed []zzC03Entry `json:"disallowed"`
	Hosts      []zzC03Pat   `json:"hosts"`
	// Via is the entry point ("set": POST /control/access/set, "load": the
	// server is created / reconfigured from a configuration); Given is the
	// blocked-hosts list as passed to it, Hosts the effective one.
	Via   string     `json:"via"`
	Given []zzC03Pat `json:"given"`
	Ex         []int        `json:"ex"`
	Hv         []int        `json:"hv"`
	Universe   string       `json:"universe"`
	// Sock is 1 when the configuration is part of the transport sample.
	Sock int `json:"sock"`
}

// --------------------------------------------------------------- observers

// zzC03Obs are the observers of the statement: how many requests reached the
// upstream, the filter, the query log, the statistics.
type zzC03Obs struct {
	up, filt, qlog, stats atomic.Int64
}

type zzC03Snap struct {
	Up, Filt, Qlog, Stats int64
}

func (o *zzC03Obs) snap() (s zzC03Snap) {
	return zzC03Snap{Up: o.up.Load(), Filt: o.filt.Load(), Qlog: o.qlog.Load(), Stats: o.stats.Load()}
}

// zzC03Delta projects the movement of the observers between two snapshots on
// the spec's vocabulary: the query log and the statistics count entries, the
// upstream and the filter only whether the request reached them.
func zzC03Delta(a, b zzC03Snap) (d zzC03Snap) {
	sign := func(x int64) int64 {
		if x > 0 {
			return 1
		}

		return x
	}

	return zzC03Snap{
		Up:    sign(b.Up - a.Up),
		Filt:  sign(b.Filt - a.Filt),
		Qlog:  b.Qlog - a.Qlog,
		Stats: b.Stats - a.Stats,
	}
}

type zzC03QLog struct {
	querylog.QueryLog
	obs *zzC03Obs
}

func (l *zzC03QLog) Add(p *querylog.AddParams) {
	if p != nil && p.Question != nil && len(p.Question.Question) == 1 &&
		strings.EqualFold(p.Question.Question[0].Name, zzC03ControlName) {
		return
	}

	l.obs.qlog.Add(1)
}

func (l *zzC03QLog) ShouldLog(string, uint16, uint16, []string) (ok bool) { return true }

type zzC03Stats struct {
	stats.Interface
	obs *zzC03Obs
}

func (s *zzC03Stats) Update(e *stats.Entry) {
	if e != nil && strings.EqualFold(e.Domain+".", zzC03ControlName) {
		return
	}

	s.obs.stats.Add(1)
}

func (s *zzC03Stats) ShouldCount(string, uint16, uint16, []string) (ok bool) { return true }

// ------------------------------------------------------------------ server

const (
	zzC03ServerName = "dns.c03-verif.example"
	zzC03Provider   = "2.dnscrypt-cert.c03-verif.example"
)

// zzC03Srv is a real, started server with real listeners and recording
// collaborators.
type zzC03Srv struct {
	s   *Server
	obs *zzC03Obs

	// base is the configuration the server was created from (listen addresses
	// with port 0), ups the recording upstream: both are needed to reconfigure.
	base      ServerConfig
	ups       upstream.Upstream
	listeners bool

	// ctlAddr is the source address of control queries: the filter observer
	// does not count them (the other observers recognise them by name).
	ctlAddr atomic.Pointer[netip.Addr]

	udp4, udpDual   *net.UDPAddr
	tcp4, tcpDual   *net.TCPAddr
	dot             *net.TCPAddr
	doq             *net.UDPAddr
	dnscryptUDP     *net.UDPAddr
	dnscryptTCP     *net.TCPAddr
	dnscryptClient  *dnscrypt.Client
	dnscryptInfo    *dnscrypt.ResolverInfo
	dnscryptInfoTCP *dnscrypt.ResolverInfo
}

func zzC03Cert(t testing.TB) (cert *tls.Certificate) {
	key, err := ecdsa.GenerateKey(elliptic.P256(), crand.Reader)
	if err != nil {
		t.Fatalf("key: %v", err)
	}

	tmpl := &x509.Certificate{
		SerialNumber:          big.NewInt(3),
		Subject:               pkix.Name{Organization: []string{"c03 verif"}},
		NotBefore:             time.Now().Add(-time.Hour),
		NotAfter:              time.Now().Add(24 * time.Hour),
		KeyUsage:              x509.KeyUsageDigitalSignature | x509.KeyUsageCertSign,
		ExtKeyUsage:           []x509.ExtKeyUsage{x509.ExtKeyUsageServerAuth},
		BasicConstraintsValid: true,
		IsCA:                  true,
		DNSNames:              []string{zzC03ServerName, "*." + zzC03ServerName},
	}

	der, err := x509.CreateCertificate(crand.Reader, tmpl, tmpl, &key.PublicKey, key)
	if err != nil {
		t.Fatalf("cert: %v", err)
	}

	return &tls.Certificate{Certificate: [][]byte{der}, PrivateKey: key}
}

// zzC03NewSrv builds and starts the server the way the package's own tests do
// (createTestServer / createTestTLS), with recording collaborators.  listeners
// is false for the handler-level-only server of the exhaustive replay.
func zzC03NewSrv(t testing.TB, listeners bool) (z *zzC03Srv) {
	return zzC03NewSrvWith(t, listeners, nil)
}

// zzC03NewSrvWith is zzC03NewSrv with the access lists given in the server's
// configuration, as they come from the configuration file (lists == nil: no
// lists at all).
func zzC03NewSrvWith(t testing.TB, listeners bool, lists *[3][]string) (z *zzC03Srv) {
	z = &zzC03Srv{obs: &zzC03Obs{}, listeners: listeners}

	filterConf := &filtering.Config{
		BlockingMode:    filtering.BlockingModeDefault,
		BlockedServices: &filtering.BlockedServices{Schedule: schedule.EmptyWeekly()},
		ApplyClientFiltering: func(_ string, a netip.Addr, _ *filtering.Settings) {
			if ctl := z.ctlAddr.Load(); ctl != nil && *ctl == a {
				return
			}

			z.obs.filt.Add(1)
		},
	}

	f, err := filtering.New(filterConf, nil)
	if err != nil {
		t.Fatalf("filtering.New: %v", err)
	}

	f.SetEnabled(true)

	dhcp := &testDHCP{
		OnEnabled:  func() (ok bool) { return false },
		OnHostByIP: func(ip netip.Addr) (host string) { return "" },
		OnIPByHost: func(host string) (ip netip.Addr) { return netip.Addr{} },
	}

	z.s, err = NewServer(DNSCreateParams{
		DHCPServer:  dhcp,
		DNSFilter:   f,
		Stats:       &zzC03Stats{obs: z.obs},
		QueryLog:    &zzC03QLog{obs: z.obs},
		PrivateNets: netutil.SubnetSetFunc(netutil.IsLocallyServed),
		Logger:      slogutil.NewDiscardLogger(),
	})
	if err != nil {
		t.Fatalf("NewServer: %v", err)
	}

	ups := &aghtest.UpstreamMock{
		OnAddress: func() (addr string) { return "upstream.c03-verif.example" },
		OnExchange: func(req *dns.Msg) (resp *dns.Msg, err error) {
			q := req.Question[0]
			if !strings.EqualFold(q.Name, zzC03ControlName) {
				z.obs.up.Add(1)
			}

			resp = (&dns.Msg{}).SetReply(req)
			if q.Qtype == dns.TypeA {
				resp.Answer = append(resp.Answer, &dns.A{
					Hdr: dns.RR_Header{Name: q.Name, Rrtype: dns.TypeA, Class: dns.ClassINET, Ttl: 60},
					A:   net.IP{198, 51, 100, 7},
				})
			}

			return resp, nil
		},
		OnClose: func() (err error) { return nil },
	}

	conf := ServerConfig{
		TLSConf: &TLSConfig{ServerName: zzC03ServerName},
		Config: Config{
			UpstreamMode:     UpstreamModeLoadBalance,
			EDNSClientSubnet: &EDNSClientSubnet{Enabled: false},
			ClientsContainer: EmptyClientsContainer{},
			// The DoH probes present their client address through a
			// forwarding header of a trusted proxy, which is the only way an
			// IPv4-mapped address reaches the handler (see conc).
			TrustedProxies: []netutil.Prefix{{Prefix: netip.MustParsePrefix("203.0.113.0/24")}},
		},
		ConfigModified:         func() {},
		ServePlainDNS:          true,
		TLSAllowUnencryptedDoH: false,
	}

	// Never leave the listen addresses nil: the server would then bind the
	// default port 53, and on a host whose resolv.conf points at 127.0.0.1
	// stray system lookups would flow through the server under observation
	// (seen: TLC's JVM resolving its statistics host).
	lo4, any6 := net.IP{127, 0, 0, 1}, net.IPv6unspecified
	conf.UDPListenAddrs = []*net.UDPAddr{{IP: lo4}}
	conf.TCPListenAddrs = []*net.TCPAddr{{IP: lo4}}

	if listeners {
		conf.UDPListenAddrs = []*net.UDPAddr{{IP: lo4}, {IP: any6}}
		conf.TCPListenAddrs = []*net.TCPAddr{{IP: lo4}, {IP: any6}}
		conf.TLSConf.Cert = zzC03Cert(t)
		conf.TLSConf.TLSListenAddrs = []*net.TCPAddr{{IP: lo4}}
		conf.TLSConf.QUICListenAddrs = []*net.UDPAddr{{IP: lo4}}

		var rc dnscrypt.ResolverConfig
		rc, err = dnscrypt.GenerateResolverConfig(zzC03Provider, nil)
		if err != nil {
			t.Fatalf("dnscrypt config: %v", err)
		}

		var cert *dnscrypt.Cert
		cert, err = rc.CreateCert()
		if err != nil {
			t.Fatalf("dnscrypt cert: %v", err)
		}

		conf.DNSCryptConfig = DNSCryptConfig{
			ResolverCert:   cert,
			ProviderName:   zzC03Provider,
			UDPListenAddrs: []*net.UDPAddr{{IP: lo4}},
			TCPListenAddrs: []*net.TCPAddr{{IP: lo4}},
			Enabled:        true,
		}

		defer func() {
			z.dnscryptClient = &dnscrypt.Client{Net: "udp", Timeout: 2 * time.Second}
			stamp, sErr := rc.CreateStamp(z.dnscryptUDP.String())
			if sErr != nil {
				t.Fatalf("dnscrypt stamp: %v", sErr)
			}

			z.dnscryptInfo, sErr = z.dnscryptClient.DialStamp(stamp)
			if sErr != nil {
				t.Fatalf("dnscrypt dial: %v", sErr)
			}
		}()
	}

	z.base, z.ups = conf, ups
	if lists != nil {
		conf.AllowedClients, conf.DisallowedClients, conf.BlockedHosts = lists[0], lists[1], lists[2]
	}

	err = z.s.Prepare(&conf)
	if err != nil {
		t.Fatalf("Prepare: %v", err)
	}

	z.s.conf.UpstreamConfig.Upstreams = []upstream.Upstream{ups}

	err = z.s.Start()
	if err != nil {
		t.Fatalf("Start: %v", err)
	}

	t.Cleanup(func() { _ = z.s.Stop() })
	if msg := z.refreshAddrs(); msg != "" {
		t.Fatalf("%s", msg)
	}

	return z
}

// refreshAddrs reads the addresses of the listeners (they change with every
// reconfiguration, the ports being chosen by the kernel).
func (z *zzC03Srv) refreshAddrs() (msg string) {
	if z.listeners {
		z.udp4, z.udpDual, z.tcp4, z.tcpDual, z.dnscryptUDP = nil, nil, nil, nil, nil
		for _, a := range z.s.dnsProxy.Addrs(proxy.ProtoUDP) {
			ua := a.(*net.UDPAddr)
			if ua.IP.To4() != nil {
				z.udp4 = ua
			} else {
				z.udpDual = ua
			}
		}

		for _, a := range z.s.dnsProxy.Addrs(proxy.ProtoTCP) {
			ta := a.(*net.TCPAddr)
			if ta.IP.To4() != nil {
				z.tcp4 = ta
			} else {
				z.tcpDual = ta
			}
		}

		z.dot = z.s.dnsProxy.Addr(proxy.ProtoTLS).(*net.TCPAddr)
		z.doq = z.s.dnsProxy.Addr(proxy.ProtoQUIC).(*net.UDPAddr)
		for _, a := range z.s.dnsProxy.Addrs(proxy.ProtoDNSCrypt) {
			switch a := a.(type) {
			case *net.UDPAddr:
				z.dnscryptUDP = a
			case *net.TCPAddr:
				z.dnscryptTCP = a
			}
		}

		if z.udp4 == nil || z.udpDual == nil || z.tcp4 == nil || z.tcpDual == nil || z.dnscryptUDP == nil {
			return fmt.Sprintf("listeners missing: %+v", z)
		}
	}

	return ""
}

// loadConfig reconfigures the live server from a configuration that carries
// the access lists (Reconfigure -> Prepare), the way a changed configuration
// is applied.  An empty hosts list is passed as such: the defaults apply.
func (z *zzC03Srv) loadConfig(allowed, disallowed, hosts []string) (err error) {
	conf := z.base
	conf.AllowedClients, conf.DisallowedClients, conf.BlockedHosts = allowed, disallowed, hosts
	err = z.s.Reconfigure(&conf)
	if err != nil {
		return err
	}

	z.s.conf.UpstreamConfig.Upstreams = []upstream.Upstream{z.ups}
	if msg := z.refreshAddrs(); msg != "" {
		return errors.Error(msg)
	}

	return nil
}

// reported returns what GET /control/access/list reports as current.
func (z *zzC03Srv) reported() (cl [3][]string, err error) {
	w := httptest.NewRecorder()
	z.s.handleAccessList(w, httptest.NewRequest(http.MethodGet, "/control/access/list", nil))
	j := accessListJSON{}
	err = json.Unmarshal(w.Body.Bytes(), &j)
	norm := func(x []string) (y []string) {
		if x == nil {
			return []string{}
		}

		return x
	}

	return [3][]string{norm(j.AllowedClients), norm(j.DisallowedClients), norm(j.BlockedHosts)}, err
}

// setAccess installs the lists through the POST /control/access/set handler.
// It returns the HTTP status.
func (z *zzC03Srv) setAccess(allowed, disallowed, hosts []string) (code int, body string) {
	if allowed == nil {
		allowed = []string{}
	}

	if disallowed == nil {
		disallowed = []string{}
	}

	if hosts == nil {
		hosts = []string{}
	}

	b, err := json.Marshal(accessListJSON{AllowedClients: allowed, DisallowedClients: disallowed, BlockedHosts: hosts})
	if err != nil {
		panic(err)
	}

	r := httptest.NewRequest(http.MethodPost, "/control/access/set", bytes.NewReader(b))
	r.Header.Set("Content-Type", "application/json")
	w := httptest.NewRecorder()
	z.s.handleAccessSet(w, r)

	return w.Code, w.Body.String()
}


// ------------------------------------------------------------ concretisation

// zzC03Conc is the seeded concretisation of one configuration: where the
// abstract W-bit universe sits inside real address space, how labels and
// ClientIDs are spelled.  The variable bits are the top bits below a fixed
// base, the low bits are filled from the seed as a function of the abstract
// bits, so containment is preserved in both directions.
type zzC03Conc struct {
	w            int
	off4, off6   int
	base4        uint32
	base6        [16]byte
	lowSeed      uint64
	zone         string
	labels       map[string]string
	ids          map[string]string
	unmaskedCIDR bool
	// flipIDs renders every ClientID entry in the other spelling class (lower
	// <-> another letter case): used to post the same lists respelled.
	flipIDs bool
	rng     *rand.Rand

	// cidrMode says how the host bits of a CIDR entry are written: 0 zero
	// ("10.0.0.0/8"), 1 arbitrary ("10.3.7.9/8"), 2 aligned: the address of a
	// narrower entry of the same lists that the network contains
	// ("10.0.0.0/24" and "10.0.0.0/8" share their base address).
	cidrMode int
	// order is the order in which a list (a set, for the spec) is written:
	// 0 as enumerated, 1 narrow networks first, 2 wide networks first,
	// 3 shuffled.  It is fixed per concretisation so that the same lists can be
	// given again in the same order.
	order     int
	orderSeed uint64
	// twice writes one network of each list a second time with other host
	// bits (two strings, one network).
	twice bool
	// ctx are the entries of the lists being rendered (for cidrMode 2),
	// backE / backP map the strings of the last rendering to their entries.
	ctx   []zzC03Entry
	backE map[string]zzC03Entry
	backP map[string]zzC03Pat
}

var zzC03Labels = map[string]string{"a": "ads", "b": "beta", "xa": "xads", "ar": "adsrv", "a1": "ads1"}
var zzC03IDs = map[string]string{"c1": "kid-1", "c2": "tv2"}

// zzC03BadID is the spec's BadId: a request whose ClientID label is invalid
// (C16); zzC03BadLabel is such a label.
const (
	zzC03BadID    = "~bad"
	zzC03BadLabel = "bad_id"
)

// zzC03Regexps are the regular-expression rules of AccessCore's ReMatches, by
// shape.
var zzC03Regexps = map[string]string{
	"nondigit": `/^ads\D+\.com$/`,
	"capital":  `/^Beta\.COM$/`,
	"named":    `/^(?P<sub>ads|beta)\.org$/`,
}

// zzC03NewConc draws a concretisation.  With sock set the IPv4 universe is
// placed under 127.0.7.0/24 so that its addresses can be bound as source
// addresses on the loopback interface.
func zzC03NewConc(rng *rand.Rand, w int, sock bool) (c *zzC03Conc) {
	c = &zzC03Conc{w: w, rng: rng, labels: zzC03Labels, ids: zzC03IDs}
	c.lowSeed = rng.Uint64()
	c.zone = []string{"eth0", "lo", "7", "wlan0"}[rng.Intn(4)]
	c.cidrMode = []int{0, 1, 2, 2}[rng.Intn(4)]
	c.unmaskedCIDR = c.cidrMode == 1
	c.order, c.orderSeed = rng.Intn(4), rng.Uint64()
	c.twice = rng.Intn(6) == 0

	// Where the universe sits: anywhere, but the boundary prefix lengths
	// (/0.. and ../32, ../128) are drawn more often than their share.
	place := func(total int) (off int) {
		switch rng.Intn(5) {
		case 0:
			return 0
		case 1:
			return total - w
		default:
			return rng.Intn(total - w + 1)
		}
	}

	if sock {
		c.off4 = 24
		c.base4 = 127<<24 | 7<<8
	} else {
		c.off4 = place(32)
		c.base4 = rng.Uint32()
	}

	c.off6 = place(128)
	for i := range c.base6 {
		c.base6[i] = byte(rng.Intn(256))
	}

	if rng.Intn(3) == 0 {
		// Link-local looking base for realism of the zoned form.
		c.base6[0], c.base6[1] = 0xfe, 0x80
		if c.off6 < 10 {
			c.off6 = 10 + rng.Intn(128-w-10+1)
		}
	}

	return c
}

func zzC03Mix(x uint64) (y uint64) {
	x ^= x >> 33
	x *= 0xff51afd7ed558ccd
	x ^= x >> 33
	x *= 0xc4ceb9fe1a85ec53
	x ^= x >> 33

	return x
}

// bits128 places bits (most significant first) at bit offset off of a
// total-bit string whose other high bits come from base and whose bits after
// off+len(bits) come from fill.
func zzC03Place(total, off int, base, fill []byte, bits []int) (out []byte) {
	out = make([]byte, total/8)
	for i := 0; i < total; i++ {
		var b byte
		switch {
		case i < off:
			b = base[i/8] >> (7 - i%8) & 1
		case i < off+len(bits):
			b = byte(bits[i-off])
		default:
			b = fill[i/8] >> (7 - i%8) & 1
		}

		out[i/8] |= b << (7 - i%8)
	}

	return out
}

func (c *zzC03Conc) fill(fam string, bits []int, salt uint64) (f []byte) {
	h := c.lowSeed ^ salt
	for _, b := range bits {
		h = zzC03Mix(h*2 + uint64(b) + 1)
	}

	if fam == "v6" {
		h = zzC03Mix(h + 6)
	}

	f = make([]byte, 16)
	binary.BigEndian.PutUint64(f[:8], zzC03Mix(h))
	binary.BigEndian.PutUint64(f[8:], zzC03Mix(h+1))

	return f
}

// addr renders an abstract address in its plain form.
func (c *zzC03Conc) addr(fam string, bits []int) (a netip.Addr) {
	if fam == "v4" {
		base := make([]byte, 4)
		binary.BigEndian.PutUint32(base, c.base4)
		b := zzC03Place(32, c.off4, base, c.fill(fam, bits, 0), bits)

		return netip.AddrFrom4([4]byte(b))
	}

	b := zzC03Place(128, c.off6, c.base6[:], c.fill(fam, bits, 0), bits)

	return netip.AddrFrom16([16]byte(b))
}

// form applies a presentation form to a plain address.
func (c *zzC03Conc) form(a netip.Addr, form string) (b netip.Addr) {
	switch form {
	case "mapped":
		return netip.AddrFrom16(a.As16())
	case "zoned":
		return a.WithZone(c.zone)
	default:
		return a
	}
}

// entry renders a list entry.
func (c *zzC03Conc) entry(e zzC03Entry) (s string) {
	switch e.K {
	case "id":
		if (e.Sp == "mixed") != c.flipIDs {
			return zzC03Spell(c.rng, c.id(e.ID), "mixed")
		}

		return c.id(e.ID)
	case "ip":
		a := c.addr(e.Fam, e.Bits)
		if e.Sp == "mapped" {
			// An IPv4 address written in IPv4-mapped IPv6 form.
			a = netip.AddrFrom16(a.As16())
		}

		return a.String()
	}

	// CIDR: the prefix bits, then host bits that are zero or (as users write
	// them, cf. "5.6.7.8/24" in the package's own test) arbitrary.
	total, off := 32, c.off4
	base := make([]byte, 4)
	binary.BigEndian.PutUint32(base, c.base4)
	if e.Fam == "v6" {
		total, off, base = 128, c.off6, c.base6[:]
	}

	fill := make([]byte, 16)
	switch {
	case c.unmaskedCIDR:
		fill = c.fill(e.Fam, e.Bits, 0x9e3779b97f4a7c15)
	case c.cidrMode == 2:
		// Aligned: written with the address of a narrower entry inside it.
		for _, x := range c.ctx {
			if x.K == "id" || x.Fam != e.Fam || len(x.Bits) <= len(e.Bits) || !slices.Equal(x.Bits[:len(e.Bits)], e.Bits) {
				continue
			}

			if x.K == "ip" {
				fill = c.addr(x.Fam, x.Bits).AsSlice()
			} else {
				fill = zzC03Place(total, off, base, fill, x.Bits)
			}

			break
		}
	}

	b := zzC03Place(total, off, base, fill, e.Bits)
	var a netip.Addr
	if e.Fam == "v4" {
		a = netip.AddrFrom4([4]byte(b))
	} else {
		a = netip.AddrFrom16([16]byte(b))
	}

	if e.Sp == "mapped" {
		// "::ffff:a.b.c.d/(96+n)" denotes the IPv4 prefix a.b.c.d/n.
		return netip.PrefixFrom(netip.AddrFrom16(a.As16()), 96+off+len(e.Bits)).String()
	}

	return netip.PrefixFrom(a, off+len(e.Bits)).String()
}

func (c *zzC03Conc) id(abs string) (s string) {
	if abs == "" {
		return ""
	}

	if abs == zzC03BadID {
		return zzC03BadLabel
	}

	if s = c.ids[abs]; s != "" {
		return s
	}

	return abs
}

func (c *zzC03Conc) label(l string) (s string) {
	if s = c.labels[l]; s != "" {
		return s
	}

	return l
}

// name renders a name in canonical spelling (lower case, fully qualified).
func (c *zzC03Conc) name(n []string) (s string) {
	parts := make([]string, len(n))
	for i, l := range n {
		parts[i] = c.label(l)
	}

	return strings.Join(parts, ".") + "."
}

func (c *zzC03Conc) pattern(p zzC03Pat) (s string) {
	if p.K == "re" {
		return zzC03Regexps[p.N[0]]
	}

	n := strings.TrimSuffix(c.name(p.N), ".")
	switch p.K {
	case "domain":
		s = "||" + n + "^"
	case "wild":
		s = "*." + n
	case "all":
		s = "||*^"
	default:
		s = n
	}

	if p.Fq && (p.K == "exact" || p.K == "wild") {
		s += "."
	}

	if p.Qt != "" {
		s += "$dnstype=" + p.Qt
	}

	if p.Wl {
		s = "@@" + s
	}

	return s
}

// zzC03Spell applies a request-side spelling to a canonical string.
func zzC03Spell(rng *rand.Rand, s, how string) (t string) {
	switch how {
	case "upper":
		return strings.ToUpper(s)
	case "mixed":
		b := []byte(s)
		changed := false
		for i, ch := range b {
			if ch >= 'a' && ch <= 'z' && rng.Intn(2) == 0 {
				b[i] = ch - 32
				changed = true
			}
		}

		if !changed {
			return strings.ToUpper(s)
		}

		return string(b)
	case "nodot":
		return strings.TrimSuffix(s, ".")
	default:
		return s
	}
}

func (c *zzC03Conc) lists(v *zzC03Vec) (allowed, disallowed, hosts []string) {
	allowed, disallowed, hosts = []string{}, []string{}, []string{}
	c.ctx = append(append([]zzC03Entry{}, v.Allowed...), v.Disallowed...)
	c.backE, c.backP = map[string]zzC03Entry{}, map[string]zzC03Pat{}

	// The lists are sets for the spec; the code reads them in order.  Write
	// each in the order of this concretisation.
	ordered := func(src []zzC03Entry) (es []zzC03Entry) {
		es = append([]zzC03Entry{}, src...)
		key := func(e zzC03Entry) (k uint64) {
			switch c.order {
			case 1, 2:
				if e.K != "cidr" {
					return 1000
				}

				if c.order == 1 {
					return uint64(200 - len(e.Bits))
				}

				return uint64(len(e.Bits))
			case 3:
				h := c.orderSeed
				for _, ch := range []byte(zzC03EntryKey(e)) {
					h = zzC03Mix(h*131 + uint64(ch))
				}

				return h
			default:
				return 0
			}
		}

		sort.SliceStable(es, func(i, j int) (less bool) { return key(es[i]) < key(es[j]) })

		return es
	}

	render := func(src []zzC03Entry) (out []string) {
		out = []string{}
		again := c.twice
		for _, e := range ordered(src) {
			str := c.entry(e)
			out = append(out, str)
			c.backE[str] = e
			if again && e.K == "cidr" {
				// The same network once more, written with other host bits.
				saved, savedU := c.cidrMode, c.unmaskedCIDR
				c.cidrMode, c.unmaskedCIDR = (saved+1)%2, (saved+1)%2 == 1
				other := c.entry(e)
				c.cidrMode, c.unmaskedCIDR = saved, savedU
				if _, dup := c.backE[other]; !dup {
					out = append(out, other)
					c.backE[other] = e
					again = false
				}
			}
		}

		return out
	}

	allowed, disallowed = render(v.Allowed), render(v.Disallowed)

	given := v.Given
	if v.Via == "" {
		given = v.Hosts
	}

	for _, p := range given {
		h := c.pattern(p)
		if p.K != "re" && c.rng.Intn(4) == 0 {
			// DNS names are case-insensitive: a pattern may be written in any
			// case.
			h = zzC03Spell(c.rng, h, "mixed")
		}

		hosts = append(hosts, h)
		c.backP[h] = p
	}

	return allowed, disallowed, hosts
}

// ------------------------------------------------------------ handler level

var zzC03Protos = map[string]proxy.Proto{
	"udp":      proxy.ProtoUDP,
	"tcp":      proxy.ProtoTCP,
	"dnscrypt": proxy.ProtoDNSCrypt,
	"tls":      proxy.ProtoTLS,
	"quic":     proxy.ProtoQUIC,
	"https":    proxy.ProtoHTTPS,
}

var zzC03ProtoNames = []string{"udp", "tcp", "tls", "https", "quic", "dnscrypt"}
var zzC03IDProtoNames = []string{"tls", "https", "quic"}

func zzC03Silent(proto string) (ok bool) { return proto == "udp" || proto == "dnscrypt" }

func zzC03Denial(proto string) (out string) {
	if zzC03Silent(proto) {
		return "drop"
	}

	return "refused"
}

type zzC03TLSConn struct {
	net.Conn
	sn string
}

func (c zzC03TLSConn) ConnectionState() (cs tls.ConnectionState) { cs.ServerName = c.sn; return cs }

type zzC03QUICConn struct {
	quic.Connection
	sn string
}

func (c zzC03QUICConn) ConnectionState() (cs quic.ConnectionState) {
	cs.TLS.ServerName = c.sn

	return cs
}

var zzC03ReqID atomic.Uint64

// zzC03Req is a concrete request.
type zzC03Req struct {
	Level string `json:"level"`
	Proto string `json:"proto"`
	Addr  string `json:"addr"`
	Form  string `json:"form"`
	ID    string `json:"id"`
	// IDVia says how the ClientID travels on DoH: "path" or "sni".
	IDVia string `json:"id_via,omitempty"`
	Name  string `json:"name"`
	Qtype uint16 `json:"qtype"`
}

func zzC03Msg(name string, qtype uint16) (m *dns.Msg) {
	return &dns.Msg{
		MsgHdr:   dns.MsgHdr{Id: dns.Id(), RecursionDesired: true},
		Question: []dns.Question{{Name: name, Qtype: qtype, Qclass: dns.ClassINET}},
	}
}

func zzC03SNI(id string) (sni string) {
	if id == "" {
		return zzC03ServerName
	}

	return id + "." + zzC03ServerName
}

// handle drives HandleBefore with a DNSContext of the request's protocol and
// returns the abstract outcome.
func (z *zzC03Srv) handle(r *zzC03Req) (out string) {
	pctx := &proxy.DNSContext{
		Proto:     zzC03Protos[r.Proto],
		Req:       zzC03Msg(r.Name, r.Qtype),
		Addr:      netip.AddrPortFrom(netip.MustParseAddr(r.Addr), 40000),
		RequestID: zzC03ReqID.Add(1),
	}

	switch r.Proto {
	case "tls":
		pctx.Conn = zzC03TLSConn{sn: zzC03SNI(r.ID)}
	case "quic":
		pctx.QUICConnection = zzC03QUICConn{sn: zzC03SNI(r.ID)}
	case "https":
		pctx.HTTPRequest = zzC03DoHRequest(r, nil)
	}

	return zzC03Classify(z.s.HandleBefore(nil, pctx))
}

func zzC03DoHRequest(r *zzC03Req, body []byte) (hr *http.Request) {
	path, sni := "/dns-query", zzC03ServerName
	if r.ID != "" {
		if r.IDVia == "sni" {
			sni = zzC03SNI(r.ID)
		} else {
			path += "/" + r.ID
		}
	}

	if body == nil {
		hr = httptest.NewRequest(http.MethodGet, "https://"+zzC03ServerName+path, nil)
	} else {
		hr = httptest.NewRequest(http.MethodPost, "https://"+zzC03ServerName+path, bytes.NewReader(body))
		hr.Header.Set("Content-Type", "application/dns-message")
	}

	hr.Host = zzC03ServerName
	hr.TLS = &tls.ConnectionState{ServerName: sni}

	return hr
}

func zzC03Classify(err error) (out string) {
	if err == nil {
		return "served"
	}

	var bre *proxy.BeforeRequestError
	if errors.As(err, &bre) {
		if bre.Response != nil && bre.Response.Rcode == dns.RcodeRefused && len(bre.Response.Answer) == 0 {
			return "refused"
		}

		if bre.Response != nil && bre.Response.Rcode == dns.RcodeServerFailure && len(bre.Response.Answer) == 0 {
			return "servfail"
		}

		rc := -1
		if bre.Response != nil {
			rc = bre.Response.Rcode
		}

		return fmt.Sprintf("other:rcode=%d", rc)
	}

	return "drop"
}

// ---------------------------------------------------------- transport level

const (
	zzC03Grace   = 40 * time.Millisecond
	zzC03NoCtl   = 200 * time.Millisecond
	zzC03Timeout = 3 * time.Second
)

const zzC03ControlName = "control.c03-verif.example."

// zzC03Reply abstracts a reply read from a transport.
func zzC03Reply(m *dns.Msg) (out string) {
	switch m.Rcode {
	case dns.RcodeRefused:
		if len(m.Answer) == 0 {
			return "refused"
		}

		return "other:refused-with-answer"
	case dns.RcodeSuccess:
		return "served"
	case dns.RcodeServerFailure:
		return "servfail"
	default:
		return fmt.Sprintf("other:rcode=%d", m.Rcode)
	}
}

// zzC03Ctl is a request that the spec says is served under the installed
// configuration: used as a liveness control while measuring silence.
type zzC03Ctl struct {
	src  netip.Addr
	name string
}

// control sends the control query over plain UDP from its own socket and
// reports whether it was answered.
func (z *zzC03Srv) control(ctl *zzC03Ctl) (ok bool) {
	z.ctlAddr.Store(&ctl.src)
	defer z.ctlAddr.Store(nil)

	conn, err := net.DialUDP("udp4", &net.UDPAddr{IP: ctl.src.AsSlice()}, z.udp4)
	if err != nil {
		return false
	}
	defer conn.Close()

	m := zzC03Msg(ctl.name, dns.TypeA)
	b, _ := m.Pack()
	_, _ = conn.Write(b)
	_ = conn.SetReadDeadline(time.Now().Add(zzC03Timeout))
	buf := make([]byte, 4096)
	n, err := conn.Read(buf)
	if err != nil {
		return false
	}

	resp := &dns.Msg{}

	return resp.Unpack(buf[:n]) == nil && resp.Id == m.Id && resp.Rcode == dns.RcodeSuccess
}

// zzC03QuietConn is a datagram connection whose Read ends with a timeout error
// once silence has been established: not by a bare timeout, but after a
// control query sent after the probe has been answered by the same server,
// plus a grace period (or, with patient set, after the full timeout).
type zzC03QuietConn struct {
	net.Conn
	z       *zzC03Srv
	ctl     *zzC03Ctl
	patient bool
	started bool
	ctlOK   atomic.Bool
	done    chan struct{}
	stop    chan struct{}
}

// finish waits for the control exchange, so that it cannot leak into the next
// probe's observation window.
func (c *zzC03QuietConn) finish() {
	if c.done != nil {
		close(c.stop)
		<-c.done
	}
}

func (c *zzC03QuietConn) SetDeadline(time.Time) (err error)      { return nil }
func (c *zzC03QuietConn) SetReadDeadline(time.Time) (err error)  { return nil }
func (c *zzC03QuietConn) SetWriteDeadline(time.Time) (err error) { return nil }

func (c *zzC03QuietConn) Read(b []byte) (n int, err error) {
	if !c.started {
		c.started = true
		_ = c.Conn.SetReadDeadline(time.Now().Add(zzC03Timeout))
		if !c.patient {
			c.done, c.stop = make(chan struct{}), make(chan struct{})
			go func() {
				defer close(c.done)

				wait := zzC03NoCtl
				if c.ctl != nil {
					if !c.z.control(c.ctl) {
						// The control was not served: keep the full timeout.
						return
					}

					c.ctlOK.Store(true)
					wait = zzC03Grace
				}

				select {
				case <-time.After(wait):
					_ = c.Conn.SetReadDeadline(time.Now())
				case <-c.stop:
				}
			}()
		}
	}

	return c.Conn.Read(b)
}

func zzC03IsTimeout(err error) (ok bool) {
	var ne net.Error

	return errors.As(err, &ne) && ne.Timeout()
}

// transport sends the request through a real transport of the started server
// and returns what the client saw.  r.Addr must be bindable for the socket
// transports.
func (z *zzC03Srv) transport(r *zzC03Req, ctl *zzC03Ctl, patient bool) (out string) {
	src := netip.MustParseAddr(r.Addr)
	msg := zzC03Msg(r.Name, r.Qtype)

	switch r.Proto {
	case "udp":
		dst := z.udp4
		if r.Form == "mapped" {
			// The dual-stack listener sees an IPv4 peer as ::ffff:a.b.c.d.
			dst = &net.UDPAddr{IP: net.IP{127, 0, 0, 1}, Port: z.udpDual.Port}
		}

		conn, err := net.DialUDP("udp4", &net.UDPAddr{IP: src.Unmap().AsSlice()}, dst)
		if err != nil {
			return "other:dial:" + err.Error()
		}
		defer conn.Close()

		qc := &zzC03QuietConn{Conn: conn, z: z, ctl: ctl, patient: patient}
		defer qc.finish()

		b, _ := msg.Pack()
		if _, err = qc.Write(b); err != nil {
			return "other:write:" + err.Error()
		}

		buf := make([]byte, 4096)
		n, err := qc.Read(buf)
		if err != nil {
			if zzC03IsTimeout(err) {
				return "drop"
			}

			return "other:read:" + err.Error()
		}

		resp := &dns.Msg{}
		if err = resp.Unpack(buf[:n]); err != nil || resp.Id != msg.Id {
			return "other:garbage"
		}

		return zzC03Reply(resp)
	case "dnscrypt":
		conn, err := net.DialUDP("udp4", &net.UDPAddr{IP: src.Unmap().AsSlice()}, z.dnscryptUDP)
		if err != nil {
			return "other:dial:" + err.Error()
		}
		defer conn.Close()

		qc := &zzC03QuietConn{Conn: conn, z: z, ctl: ctl, patient: patient}
		defer qc.finish()

		resp, err := z.dnscryptClient.ExchangeConn(qc, msg, z.dnscryptInfo)
		if err != nil {
			if zzC03IsTimeout(err) {
				return "drop"
			}

			return "other:dnscrypt:" + err.Error()
		}

		return zzC03Reply(resp)
	case "tcp", "tls":
		var dst *net.TCPAddr
		switch {
		case r.Proto == "tls":
			dst = z.dot
		case r.Form == "mapped":
			dst = &net.TCPAddr{IP: net.IP{127, 0, 0, 1}, Port: z.tcpDual.Port}
		default:
			dst = z.tcp4
		}

		d := &net.Dialer{LocalAddr: &net.TCPAddr{IP: src.Unmap().AsSlice()}, Timeout: zzC03Timeout}
		var conn net.Conn
		conn, err := d.Dial("tcp4", dst.String())
		if err != nil {
			return "other:dial:" + err.Error()
		}
		defer conn.Close()

		if r.Proto == "tls" {
			tc := tls.Client(conn, &tls.Config{InsecureSkipVerify: true, ServerName: zzC03SNI(r.ID), MinVersion: tls.VersionTLS12})
			_ = tc.SetDeadline(time.Now().Add(zzC03Timeout))
			if err = tc.Handshake(); err != nil {
				return "other:handshake:" + err.Error()
			}

			conn = tc
		}

		_ = conn.SetDeadline(time.Now().Add(zzC03Timeout))
		dc := &dns.Conn{Conn: conn}
		if err = dc.WriteMsg(msg); err != nil {
			return "other:write:" + err.Error()
		}

		resp, err := dc.ReadMsg()
		if err != nil {
			if zzC03IsTimeout(err) || errors.Is(err, io.EOF) {
				return "drop"
			}

			return "other:read:" + err.Error()
		}

		if resp.Id != msg.Id {
			return "other:garbage"
		}

		return zzC03Reply(resp)
	case "quic":
		return z.doqExchange(src, r, msg)
	case "https":
		return z.dohExchange(src, r, msg)
	}

	return "other:proto"
}

func (z *zzC03Srv) doqExchange(src netip.Addr, r *zzC03Req, msg *dns.Msg) (out string) {
	pc, err := net.ListenUDP("udp4", &net.UDPAddr{IP: src.Unmap().AsSlice()})
	if err != nil {
		return "other:listen:" + err.Error()
	}
	defer pc.Close()

	ctx, cancel := context.WithTimeout(context.Background(), zzC03Timeout)
	defer cancel()

	tr := &quic.Transport{Conn: pc}
	defer tr.Close()

	conn, err := tr.Dial(ctx, z.doq, &tls.Config{
		InsecureSkipVerify: true,
		ServerName:         zzC03SNI(r.ID),
		NextProtos:         []string{"doq"},
		MinVersion:         tls.VersionTLS13,
	}, &quic.Config{})
	if err != nil {
		return "other:quicdial:" + err.Error()
	}
	defer func() { _ = conn.CloseWithError(0, "") }()

	stream, err := conn.OpenStreamSync(ctx)
	if err != nil {
		return "other:stream:" + err.Error()
	}

	msg.Id = 0
	b, _ := msg.Pack()
	buf := make([]byte, 2+len(b))
	binary.BigEndian.PutUint16(buf, uint16(len(b)))
	copy(buf[2:], b)
	if _, err = stream.Write(buf); err != nil {
		return "other:write:" + err.Error()
	}

	_ = stream.Close()
	_ = stream.SetReadDeadline(time.Now().Add(zzC03Timeout))
	rb, err := io.ReadAll(stream)
	if len(rb) < 2 {
		if err == nil || zzC03IsTimeout(err) {
			return "drop"
		}

		return "drop:" + err.Error()
	}

	resp := &dns.Msg{}
	if err = resp.Unpack(rb[2:]); err != nil {
		return "other:garbage"
	}

	return zzC03Reply(resp)
}

// dohExchange goes through the DoH HTTP handler that the web server mounts at
// /dns-query (no TLS socket: the request carries a TLS connection state).  The
// client address is the remote address of the HTTP request or, for the mapped
// form, the X-Real-IP header set by a trusted reverse proxy.
func (z *zzC03Srv) dohExchange(src netip.Addr, r *zzC03Req, msg *dns.Msg) (out string) {
	b, _ := msg.Pack()
	var hr *http.Request
	if z.rngBit() {
		hr = zzC03DoHRequest(r, b)
	} else {
		hr = zzC03DoHRequest(r, nil)
		q := hr.URL.Query()
		q.Set("dns", base64.RawURLEncoding.EncodeToString(b))
		hr.URL.RawQuery = q.Encode()
	}

	if r.Form == "mapped" {
		hr.RemoteAddr = "203.0.113.9:443"
		hr.Header.Set("X-Real-IP", netip.AddrFrom16(src.As16()).String())
	} else {
		hr.RemoteAddr = netip.AddrPortFrom(src, 41000).String()
	}

	w := httptest.NewRecorder()
	z.s.handleDoH(w, hr)
	if w.Code != http.StatusOK {
		return fmt.Sprintf("other:http=%d", w.Code)
	}

	resp := &dns.Msg{}
	if err := resp.Unpack(w.Body.Bytes()); err != nil || resp.Id != msg.Id {
		return "other:garbage"
	}

	return zzC03Reply(resp)
}

var zzC03Bit atomic.Uint64

func (z *zzC03Srv) rngBit() (ok bool) { return zzC03Bit.Add(1)%2 == 0 }

// ---------------------------------------------------------------- direction A

var zzC03Qtypes = []uint16{dns.TypeA, dns.TypeAAAA, dns.TypeTXT, dns.TypeHTTPS, dns.TypeMX}

// zzC03Dup writes one client entry a second time, as a configuration file may
// (the API refuses duplicates, the file is not validated).
func zzC03Dup(rng *rand.Rand, cl *[3][]string) {
	i := rng.Intn(2)
	if len(cl[i]) == 0 {
		i = 1 - i
	}

	if len(cl[i]) == 0 {
		return
	}

	x := cl[i][rng.Intn(len(cl[i]))]
	at := rng.Intn(len(cl[i]) + 1)
	cl[i] = append(cl[i][:at:at], append([]string{x}, cl[i][at:]...)...)
}

// zzC03Post is one installation of access lists, as given to the entry point.
type zzC03Post struct {
	Via        string   `json:"via"`
	Allowed    []string `json:"allowed"`
	Disallowed []string `json:"disallowed"`
	Hosts      []string `json:"hosts"`
}

// post installs the lists through the entry point p.Via on the live server.
func (z *zzC03Srv) post(p zzC03Post) (code int, body string) {
	if p.Via == "load" {
		if err := z.loadConfig(p.Allowed, p.Disallowed, p.Hosts); err != nil {
			return http.StatusInternalServerError, err.Error()
		}

		return http.StatusOK, ""
	}

	return z.setAccess(p.Allowed, p.Disallowed, p.Hosts)
}

// zzC03Install installs v on the live server z as the last step of a seeded
// history: v may be preceded by the same lists respelled (ClientID entries in
// the other letter case, patterns in another case; same order or shuffled),
// by v with its allow list emptied or, if v has none, filled, and -- rarely,
// it takes 100 ms -- by a reconfiguration from a configuration file.  What must
// be in force afterwards is v alone, as given last.  via is the entry point of
// the last step.  It returns the lists as given last and the status.
func zzC03Install(z *zzC03Srv, c *zzC03Conc, v *zzC03Vec, via string, rng *rand.Rand) (cl [3][]string, hist []zzC03Post, code int, body string) {
	shuffle := func(x []string) {
		rng.Shuffle(len(x), func(i, j int) { x[i], x[j] = x[j], x[i] })
	}

	kind := rng.Intn(6)
	if kind == 3 || kind == 4 {
		// Allow list emptied / filled first.
		al, dis, hosts := c.lists(v)
		if len(al) > 0 {
			al = []string{}
		} else {
			al = []string{c.addr("v4", zzC03RandBits(rng, c.w)).String(), "anyone-" + fmt.Sprint(rng.Intn(9))}
		}

		p := zzC03Post{Via: "set", Allowed: al, Disallowed: dis, Hosts: hosts}
		if rng.Intn(60) == 0 {
			p.Via = "load"
		}

		_, _ = z.post(p)
		hist = append(hist, p)
	}

	if kind == 1 || kind == 2 || kind == 4 {
		c.flipIDs = true
		al, dis, hosts := c.lists(v)
		c.flipIDs = false
		if kind == 2 {
			shuffle(al)
			shuffle(dis)
			shuffle(hosts)
		}

		p := zzC03Post{Via: "set", Allowed: al, Disallowed: dis, Hosts: hosts}
		_, _ = z.post(p)
		hist = append(hist, p)
	}

	al, dis, hosts := c.lists(v)
	cl = [3][]string{al, dis, hosts}
	if via == "load" && rng.Intn(4) == 0 {
		zzC03Dup(rng, &cl)
	}

	code, body = z.post(zzC03Post{Via: via, Allowed: cl[0], Disallowed: cl[1], Hosts: cl[2]})

	return cl, hist, code, body
}

// zzC03CheckReported compares what GET /control/access/list reports with the
// lists given last: the same strings, except that a configuration loaded with
// an empty blocked-hosts list reports the effective (default) one, which is
// v.Hosts.
func zzC03CheckReported(z *zzC03Srv, c *zzC03Conc, v *zzC03Vec, via string, cl [3][]string, rec *zzC03Rec) {
	want := cl
	if via == "load" && len(cl[2]) == 0 {
		want[2] = []string{}
		for _, p := range v.Hosts {
			want[2] = append(want[2], c.pattern(p))
		}
	}

	got, err := z.reported()
	same := err == nil
	for i := 0; i < 3; i++ {
		want[i], got[i] = append([]string{}, want[i]...), append([]string{}, got[i]...)
		slices.Sort(want[i])
		slices.Sort(got[i])
		same = same && slices.Equal(want[i], got[i])
	}

	if !same {
		rec.bad("reported", v, cl, &zzC03AReq{Form: "plain", Proto: "-"}, &zzC03Req{Level: "reported"},
			[]string{fmt.Sprint(want)}, fmt.Sprint(got), nil)
	}
}
var zzC03Spells = []string{"plain", "mixed", "upper", "nodot"}

func zzC03Forms(fam string) (forms []string) {
	if fam == "v4" {
		return []string{"plain", "mapped"}
	}

	return []string{"plain", "zoned"}
}

// zzC03AReq is an abstract request of the spec.
type zzC03AReq struct {
	Addr   zzC03Addr `json:"addr"`
	Form   string    `json:"form"`
	ID     string    `json:"id"`
	IDCase string    `json:"idcase"`
	Name   []string  `json:"name"`
	Spell  string    `json:"spell"`
	Qtype  string    `json:"qtype"`
	Proto  string    `json:"proto"`
}

// zzC03Want computes the admissible outcomes from the vector's tables: ex is
// the spec's Excluded bit for the client, hv its HostBlocked code for the name.
func zzC03Want(ex, hv int, proto string) (want []string) {
	return zzC03WantID(ex, hv, proto, false)
}

// zzC03WantID is zzC03Want for a request whose ClientID label is invalid when
// bad is set: by AccessCore's Outcomes it fails (C16), or gets the denial where
// a denial is admissible (ex being the verdict of the client without ClientID).
func zzC03WantID(ex, hv int, proto string, bad bool) (want []string) {
	if bad {
		want = []string{"servfail"}
		if ex != 0 || hv != 0 {
			want = append(want, zzC03Denial(proto))
		}

		return want
	}

	switch {
	case ex == 1 || hv == 1:
		return []string{zzC03Denial(proto)}
	case ex == 2 || hv == 2:
		return []string{zzC03Denial(proto), "served"}
	default:
		return []string{"served"}
	}
}

func zzC03In(want []string, got string) (ok bool) {
	for _, w := range want {
		if w == got {
			return true
		}
	}

	return false
}

// zzC03Rec collects result rows; at most zzC03MaxPerSig disagreements are
// recorded (and reproduced) per signature, the others are only counted.
type zzC03Rec struct {
	w      *zzWriter
	bySig  map[string]int
	counts map[string]int

	// hist are the posts that preceded the configuration under replay on this
	// server, asked the requests made so far under it, by canonical name: both
	// go into a disagreement's record so that it can be replayed as a history.
	hist  []zzC03Post
	via   string
	asked map[string][]zzC03Req
}

func zzC03CanonName(n string) (c string) { return strings.ToLower(strings.TrimSuffix(n, ".")) }

// note remembers a request made under the current configuration.
func (rec *zzC03Rec) note(r *zzC03Req) {
	k := zzC03CanonName(r.Name)
	if len(rec.asked[k]) < 6 {
		rec.asked[k] = append(rec.asked[k], *r)
	}
}

const zzC03MaxPerSig = 3

// zzC03WMu serialises writes of result rows from the parallel sweeps.
var zzC03WMu sync.Mutex

func zzC03Mode(v *zzC03Vec) (m string) {
	if len(v.Allowed) > 0 {
		return "allow"
	}

	return "block"
}

func zzC03Sig(level string, v *zzC03Vec, ar *zzC03AReq, want []string, got string) (sig string) {
	// The configuration's unusual ingredients are part of the signature, so
	// that a disagreement under an ordinary configuration is never counted
	// under the signature of one that has them.
	trig := ""
	for _, e := range append(append([]zzC03Entry{}, v.Allowed...), v.Disallowed...) {
		if e.K == "id" && e.Sp == "mixed" && !strings.Contains(trig, "I") {
			trig += "I"
		}

		if e.K != "id" && e.Sp == "mapped" && !strings.Contains(trig, "M") {
			trig += "M"
		}
	}

	for _, p := range v.Hosts {
		if p.K == "re" && !strings.Contains(trig, "R") {
			trig += "R"
		}

		if p.Wl && !strings.Contains(trig, "X") {
			trig += "X"
		}

		if p.Fq && !strings.Contains(trig, "F") {
			trig += "F"
		}
	}

	if ar.ID == zzC03BadID {
		trig += "B"
	}

	return fmt.Sprintf("%s/%s/%s/%s/%s->%s", level, ar.Form, zzC03Mode(v), trig, strings.Join(want, "|"), got)
}

// bad registers a reproduced disagreement.
func (rec *zzC03Rec) bad(level string, v *zzC03Vec, c [3][]string, ar *zzC03AReq, r *zzC03Req, want []string, got string, extra map[string]any) {
	sig := zzC03Sig(level, v, ar, want, got)
	rec.bySig[sig]++
	if rec.bySig[sig] > zzC03MaxPerSig {
		return
	}

	zzC03WMu.Lock()
	defer zzC03WMu.Unlock()

	row := map[string]any{
		"kind": "bad", "level": level, "sig": sig, "universe": v.Universe,
		"cfg":  map[string]any{"allowed": v.Allowed, "disallowed": v.Disallowed, "hosts": v.Hosts},
		"conc": map[string]any{"via": rec.via, "allowed": c[0], "disallowed": c[1], "hosts": c[2]},
		"areq": ar, "req": r, "want": want, "got": got,
		"history": rec.hist, "before": rec.asked[zzC03CanonName(r.Name)],
	}
	for k, x := range extra {
		row[k] = x
	}

	rec.w.put(row)
}

func zzC03QtypeName(qt uint16) (s string) { return dns.TypeToString[qt] }

// zzC03Sweep replays one configuration at handler level on the server z.
// full selects every transport for every decision instead of a seeded one.
func zzC03Sweep(t testing.TB, z *zzC03Srv, u, v *zzC03Vec, rng *rand.Rand, full bool, rec *zzC03Rec) {
	c := zzC03NewConc(rng, len(u.Addrs[0].Bits), false)

	// Entry point.  By Access.tla, a configuration loaded with a non-empty
	// blocked-hosts list is the configuration SetLists would install, so a
	// "set" vector may as well be loaded now and then.
	via := v.Via
	if via == "set" && len(v.Given) > 0 && rng.Intn(40) == 0 {
		via = "load"
	}

	var cl [3][]string
	var hist []zzC03Post
	code, body := http.StatusOK, ""
	if via == "load" && rng.Intn(4) > 0 {
		// A server created from a configuration that carries the lists.
		al, dis, hosts := c.lists(v)
		cl = [3][]string{al, dis, hosts}
		if rng.Intn(4) == 0 {
			zzC03Dup(rng, &cl)
		}

		z = zzC03NewSrvWith(t, false, &cl)
		defer func() { _ = z.s.Stop() }()
	} else {
		// The live server: a history that ends with v (a load being a
		// reconfiguration).
		cl, hist, code, body = zzC03Install(z, c, v, via, rng)
	}

	rec.hist, rec.via, rec.asked = hist, via, map[string][]zzC03Req{}
	rec.counts["via:"+via]++
	if code != http.StatusOK {
		rec.bad("set", v, cl, &zzC03AReq{Form: "plain"}, &zzC03Req{}, []string{"200"}, fmt.Sprintf("%d", code), map[string]any{"body": body})

		return
	}

	zzC03CheckReported(z, c, v, via, cl, rec)

	nid, nq := len(u.IDs), len(u.Qtypes)

	// run executes one request at handler level and compares; on a mismatch
	// it is run a second time, alone, and for a non-plain form the plain form
	// is run as well.
	run := func(ar *zzC03AReq, ex, hv int) {
		plain := c.addr(ar.Addr.Fam, ar.Addr.Bits)
		r := &zzC03Req{
			Level: "handler", Proto: ar.Proto, Form: ar.Form,
			Addr:  c.form(plain, ar.Form).String(),
			ID:    zzC03Spell(rng, c.id(ar.ID), ar.IDCase),
			IDVia: []string{"path", "sni"}[rng.Intn(2)],
			Name:  zzC03Spell(rng, c.name(ar.Name), ar.Spell),
			Qtype: dns.StringToType[ar.Qtype],
		}
		want := zzC03WantID(ex, hv, ar.Proto, ar.ID == zzC03BadID)
		rec.counts["handler"]++

		// The pre-request hook itself must never resolve, filter, log or
		// count, whatever it answers: the observers of this server stay put.
		obs0 := z.obs.snap()
		got := z.handle(r)
		moved := z.obs.snap() != obs0
		if zzC03In(want, got) && !moved {
			rec.note(r)

			return
		}

		obs0 = z.obs.snap()
		got2 := z.handle(r)
		obs1 := z.obs.snap()
		if zzC03In(want, got2) && obs1 == obs0 {
			rec.counts["flaky"]++

			return
		}

		if zzC03In(want, got2) {
			rec.bad("observers", v, cl, ar, r, want, got2, map[string]any{"obs_delta": zzC03Delta(obs0, obs1), "ex": ex, "hv": hv})

			return
		}

		extra := map[string]any{"ex": ex, "hv": hv}
		if ar.Form != "plain" {
			pr := *r
			pr.Addr, pr.Form = plain.String(), "plain"
			extra["plain_out"] = z.handle(&pr)
			extra["plain_agrees"] = zzC03In(want, extra["plain_out"].(string))
		}

		rec.bad("handler", v, cl, ar, r, want, got2, extra)
	}

	pickProtos := func(id string) (ps []string) {
		all := zzC03ProtoNames
		if id != "" {
			all = zzC03IDProtoNames
		}

		if full {
			return all
		}

		return []string{all[rng.Intn(len(all))]}
	}

	// Client sweep: every (address, form, ClientID) of the universe.
	for ai, a := range u.Addrs {
		for _, form := range zzC03Forms(a.Fam) {
			for ii, id := range u.IDs {
				ex := v.Ex[ai*nid+ii]
				addr := c.form(c.addr(a.Fam, a.Bits), form)

				// The exported decision procedure, ClientID in canonical
				// spelling.
				rec.counts["decision"]++
				got, _ := z.s.IsBlockedClient(addr, c.id(id))
				if got != (ex == 1) {
					got, _ = z.s.IsBlockedClient(addr, c.id(id))
				}

				if ex != 2 && got != (ex == 1) {
					extra := map[string]any{"ex": ex, "hv": 0}
					if form != "plain" {
						pg, _ := z.s.IsBlockedClient(c.addr(a.Fam, a.Bits), c.id(id))
						extra["plain_out"] = fmt.Sprint(pg)
						extra["plain_agrees"] = pg == (ex == 1)
					}

					ar := &zzC03AReq{Addr: a, Form: form, ID: id, IDCase: "plain", Proto: "-"}
					rec.bad("decision", v, cl, ar, &zzC03Req{Level: "decision", Addr: addr.String(), Form: form, ID: c.id(id)},
						[]string{fmt.Sprint(ex == 1)}, fmt.Sprint(got), extra)
				}

				for _, proto := range pickProtos(id) {
					ni, qi := rng.Intn(len(u.Names)), rng.Intn(nq)
					run(&zzC03AReq{
						Addr: a, Form: form, ID: id, IDCase: []string{"plain", "mixed", "upper"}[rng.Intn(3)],
						Name: u.Names[ni], Spell: zzC03Spells[rng.Intn(len(zzC03Spells))],
						Qtype: u.Qtypes[qi], Proto: proto,
					}, ex, v.Hv[ni*nq+qi])
				}

				if id == "" {
					// The same client sending an invalid ClientID label.
					for _, proto := range pickProtos(zzC03BadID) {
						ni, qi := rng.Intn(len(u.Names)), rng.Intn(nq)
						run(&zzC03AReq{
							Addr: a, Form: form, ID: zzC03BadID, IDCase: []string{"plain", "mixed"}[rng.Intn(2)],
							Name: u.Names[ni], Spell: zzC03Spells[rng.Intn(len(zzC03Spells))],
							Qtype: u.Qtypes[qi], Proto: proto,
						}, ex, v.Hv[ni*nq+qi])
					}
				}
			}
		}
	}

	// Name sweep: every name x query type x spelling, from clients of each
	// kind that exists under this configuration.
	type cli struct {
		ai, ii int
	}

	var clients []cli
	seen := map[string]bool{}
	perm := rng.Perm(len(u.Addrs) * nid)
	for _, j := range perm {
		ai, ii := j/nid, j%nid
		k := fmt.Sprintf("%d/%v", v.Ex[j], u.IDs[ii] != "")
		if !seen[k] {
			seen[k] = true
			clients = append(clients, cli{ai, ii})
		}
	}

	// Every (name, query type) is asked in a seeded order and then again in
	// the reverse order, on the same live configuration: each query type of a
	// name is asked both before and after the other types of that name, and the
	// answer must not depend on what was asked before.
	type nq2 struct{ ni, qi int }

	var pairs []nq2
	for _, j := range rng.Perm(len(u.Names) * nq) {
		pairs = append(pairs, nq2{j / nq, j % nq})
	}

	spells := zzC03Spells
	switch {
	case full:
	case v.Universe != "hosts":
		pairs, spells = pairs[:16], []string{zzC03Spells[rng.Intn(len(zzC03Spells))]}
	default:
		// Quick tier: every (name, type) pair of a hosts configuration, in two
		// seeded spellings instead of all four.
		i := rng.Intn(len(zzC03Spells))
		spells = []string{zzC03Spells[i], zzC03Spells[(i+1+rng.Intn(3))%4]}
	}

	ask := func(p nq2) {
		for _, sp := range spells {
			for _, k := range clients {
				a, id := u.Addrs[k.ai], u.IDs[k.ii]
				forms := zzC03Forms(a.Fam)
				for _, proto := range pickProtos(id) {
					run(&zzC03AReq{
						Addr: a, Form: forms[rng.Intn(2)], ID: id, IDCase: []string{"plain", "mixed"}[rng.Intn(2)],
						Name: u.Names[p.ni], Spell: sp, Qtype: u.Qtypes[p.qi], Proto: proto,
					}, v.Ex[k.ai*nid+k.ii], v.Hv[p.ni*nq+p.qi])
				}
			}
		}
	}

	for _, p := range pairs {
		ask(p)
	}

	for i := len(pairs) - 1; i >= 0; i-- {
		ask(pairs[i])
	}
}

// zzC03Probe sends one request through a real transport and compares the
// outcome and the movement of the observers.
func zzC03Probe(z *zzC03Srv, v *zzC03Vec, cl [3][]string, c *zzC03Conc, rng *rand.Rand, ar *zzC03AReq, ex, hv int, ctl *zzC03Ctl, rec *zzC03Rec) (got string) {
	plain := c.addr(ar.Addr.Fam, ar.Addr.Bits)
	r := &zzC03Req{
		Level: "transport", Proto: ar.Proto, Form: ar.Form,
		Addr:  plain.String(),
		ID:    zzC03Spell(rng, c.id(ar.ID), ar.IDCase),
		IDVia: []string{"path", "sni"}[rng.Intn(2)],
		Name:  zzC03Spell(rng, c.name(ar.Name), ar.Spell),
		Qtype: dns.StringToType[ar.Qtype],
	}
	if ar.Proto == "https" && ar.Form == "zoned" {
		r.Addr = c.form(plain, "zoned").String()
	}

	want := zzC03Want(ex, hv, ar.Proto)
	rec.counts["transport"]++

	measure := func(patient bool) (got string, d zzC03Snap) {
		before := z.obs.snap()
		got = z.transport(r, ctl, patient)

		return got, zzC03Delta(before, z.obs.snap())
	}

	got, d := measure(false)
	eff := int64(0)
	if got == "served" {
		eff = 1
	}

	okObs := strings.HasPrefix(got, "other") || d == zzC03Snap{Up: eff, Filt: eff, Qlog: eff, Stats: eff}
	if zzC03In(want, got) && okObs {
		rec.note(r)

		return got
	}

	// A disagreement of a signature that has already been reproduced and
	// recorded zzC03MaxPerSig times is only counted: re-measuring silence with
	// the long bound costs seconds.
	if sig := zzC03Sig("transport", v, ar, want, got); !zzC03In(want, got) && rec.bySig[sig] >= zzC03MaxPerSig {
		rec.bySig[sig]++
		rec.counts["transport_counted_only"]++

		return got
	}

	// Re-measure alone, with the long bound for silence.
	got, d = measure(true)
	eff = 0
	if got == "served" {
		eff = 1
	}

	okObs = strings.HasPrefix(got, "other") || d == zzC03Snap{Up: eff, Filt: eff, Qlog: eff, Stats: eff}
	if zzC03In(want, got) && okObs {
		rec.counts["flaky"]++

		return got
	}

	extra := map[string]any{"obs_delta": d, "obs_ok": okObs, "ex": ex, "hv": hv}
	if ar.Form != "plain" {
		pr := *r
		pr.Form = "plain"
		if ar.Proto == "https" {
			pr.Addr = plain.String()
		}

		po := z.transport(&pr, ctl, false)
		extra["plain_out"] = po
		extra["plain_agrees"] = zzC03In(want, po)
	}

	level := "transport"
	if zzC03In(want, got) {
		level = "observers"
	}

	rec.bad(level, v, cl, ar, r, want, got, extra)

	return got
}

// zzC03Transports replays a sample of one configuration through real
// transports.  The IPv4 universe is placed under 127.0.7.0/24.
func zzC03Transports(z *zzC03Srv, u, v *zzC03Vec, rng *rand.Rand, rec *zzC03Rec) {
	c := zzC03NewConc(rng, len(u.Addrs[0].Bits), true)
	via := v.Via
	if via == "set" && len(v.Given) > 0 && rng.Intn(10) == 0 {
		via = "load"
	}

	cl, hist, code, body := zzC03Install(z, c, v, via, rng)
	rec.hist, rec.via, rec.asked = hist, via, map[string][]zzC03Req{}
	rec.counts["via:"+via]++
	if code != http.StatusOK {
		rec.bad("set", v, cl, &zzC03AReq{Form: "plain"}, &zzC03Req{}, []string{"200"}, fmt.Sprintf("%d", code), map[string]any{"body": body})

		return
	}

	zzC03CheckReported(z, c, v, via, cl, rec)

	nid, nq := len(u.IDs), len(u.Qtypes)

	// Candidate clients by expected verdict; socket transports need IPv4.
	type cli struct{ ai, ii int }
	pick := func(ex int, v4only, withID bool) (cc *cli) {
		for _, j := range rng.Perm(len(u.Addrs) * nid) {
			ai, ii := j/nid, j%nid
			if v.Ex[j] != ex || (v4only && u.Addrs[ai].Fam != "v4") || (u.IDs[ii] != "") != withID {
				continue
			}

			return &cli{ai, ii}
		}

		return nil
	}

	// pickName returns an index into the (name, query type) table.
	pickName := func(code int) (ni int) {
		for _, j := range rng.Perm(len(u.Names) * nq) {
			if v.Hv[j] == code {
				return j
			}
		}

		return -1
	}

	for _, proto := range zzC03ProtoNames {
		v4only := proto != "https"
		idOK := proto == "tls" || proto == "https" || proto == "quic"

		type plan struct {
			cc *cli
			ni int
		}

		var plans []plan
		withID := idOK && rng.Intn(3) > 0
		if cc := pick(1, v4only, withID); cc != nil {
			// Excluded client, any name.
			plans = append(plans, plan{cc, rng.Intn(len(u.Names) * nq)})
		} else if cc = pick(1, v4only, !withID && idOK); cc != nil {
			plans = append(plans, plan{cc, rng.Intn(len(u.Names) * nq)})
		}

		served := pick(0, v4only, withID)
		if served == nil {
			served = pick(0, v4only, !withID && idOK)
		}

		if served != nil {
			if ni := pickName(1); ni >= 0 {
				// Admitted client, blocked name.
				plans = append(plans, plan{served, ni})
			}

			if ni := pickName(0); ni >= 0 {
				// Admitted client, free name: served.
				plans = append(plans, plan{served, ni})
			}
		}

		for _, pl := range plans {
			a, id := u.Addrs[pl.cc.ai], u.IDs[pl.cc.ii]
			forms := zzC03Forms(a.Fam)
			form := forms[rng.Intn(2)]
			if a.Fam == "v6" && proto != "https" {
				continue
			}

			// A control client: an IPv4 address of the universe other than the
			// probing one that the spec says is served without a ClientID.
			var ctl *zzC03Ctl
			for _, j := range rng.Perm(len(u.Addrs)) {
				if u.Addrs[j].Fam != "v4" || v.Ex[j*nid] != 0 || j == pl.cc.ai {
					continue
				}

				// The control only shows that the server is alive: take a
				// client that the server at hand does serve (waiting for a
				// control that is never answered costs seconds per probe).
				ca := c.addr("v4", u.Addrs[j].Bits)
				if bl, _ := z.s.IsBlockedClient(ca, ""); !bl {
					ctl = &zzC03Ctl{src: ca, name: zzC03ControlName}

					break
				}
			}

			ar := &zzC03AReq{
				Addr: a, Form: form, ID: id, IDCase: []string{"plain", "mixed", "upper"}[rng.Intn(3)],
				Name: u.Names[pl.ni/nq], Spell: []string{"plain", "mixed", "upper"}[rng.Intn(3)],
				Qtype: u.Qtypes[pl.ni%nq], Proto: proto,
			}
			got := zzC03Probe(z, v, cl, c, rng, ar, v.Ex[pl.cc.ai*nid+pl.cc.ii], v.Hv[pl.ni], ctl, rec)
			rec.counts["t:"+proto+":"+got]++
			if len(rec.counts) < 4000 && rec.counts["samples"] < 6 && rng.Intn(40) == 0 {
				rec.counts["samples"]++
				zzC03WMu.Lock()
				rec.w.put(map[string]any{"kind": "sample", "conc": cl, "areq": ar, "got": got})
				zzC03WMu.Unlock()
			}
		}
	}
}

// zzC03LinkLocal is an opportunistic end-to-end probe of the zoned form: if
// the host has an IPv6 link-local address, a query sent to it arrives from
// "fe80::...%iface".
func zzC03LinkLocal(z *zzC03Srv, rec *zzC03Rec) {
	ifaces, _ := net.Interfaces()
	for _, ifc := range ifaces {
		addrs, _ := ifc.Addrs()
		for _, a := range addrs {
			ipn, ok := a.(*net.IPNet)
			if !ok || ipn.IP.To4() != nil || !ipn.IP.IsLinkLocalUnicast() {
				continue
			}

			ip, _ := netip.AddrFromSlice(ipn.IP)
			for _, mode := range []string{"block", "allow"} {
				var al, dis []string
				v := &zzC03Vec{Universe: "linklocal"}
				e := zzC03Entry{K: "ip", Fam: "v6", Bits: []int{}}
				want := []string{"drop"}
				if mode == "block" {
					dis = []string{ip.String()}
					v.Disallowed = []zzC03Entry{e}
				} else {
					al = []string{ip.String()}
					v.Allowed = []zzC03Entry{e}
					want = []string{"served"}
				}

				if code, _ := z.setAccess(al, dis, nil); code != http.StatusOK {
					continue
				}

				conn, err := net.DialUDP("udp6", nil, &net.UDPAddr{IP: ipn.IP, Zone: ifc.Name, Port: z.udpDual.Port})
				if err != nil {
					return
				}

				msg := zzC03Msg("linklocal.c03-verif.example.", dns.TypeA)
				b, _ := msg.Pack()
				_, _ = conn.Write(b)
				got := "drop"
				buf := make([]byte, 4096)
				_ = conn.SetReadDeadline(time.Now().Add(time.Second))
				if n, rErr := conn.Read(buf); rErr == nil {
					resp := &dns.Msg{}
					if resp.Unpack(buf[:n]) == nil {
						got = zzC03Reply(resp)
					}
				} else if !zzC03IsTimeout(rErr) {
					got = "other:" + rErr.Error()
				}

				_ = conn.Close()
				rec.counts["linklocal"]++
				if !zzC03In(want, got) {
					ar := &zzC03AReq{Addr: zzC03Addr{Fam: "v6", Bits: []int{}}, Form: "zoned", Proto: "udp", Name: []string{"linklocal"}}
					rec.bad("transport", v, [3][]string{al, dis, nil}, ar,
						&zzC03Req{Level: "linklocal", Proto: "udp", Addr: ip.WithZone(ifc.Name).String(), Form: "zoned", Name: msg.Question[0].Name, Qtype: dns.TypeA},
						want, got, map[string]any{"ex": map[string]int{"block": 1, "allow": 0}[mode], "hv": 0, "plain_agrees": true, "plain_out": "n/a (entry and address are the same link-local address)"})
				}
			}

			return
		}
	}
}

func zzC03Tier() (thorough bool) {
	return strings.EqualFold(strings.TrimSpace(zzGetenv("VERIF_TIER")), "thorough")
}

// TestZZVerifC03Replay is direction A.
func TestZZVerifC03Replay(t *testing.T) {
	w := zzNewWriter(t, "VERIF_OUT")
	defer w.close()

	var u *zzC03Vec
	var cfgs []*zzC03Vec
	zzReadNDJSON(t, "VERIF_IN", func(line []byte) {
		v := &zzC03Vec{}
		if err := json.Unmarshal(line, v); err != nil {
			t.Fatalf("bad vector: %v", err)
		}

		if v.Kind == "universe" {
			u = v
		} else {
			cfgs = append(cfgs, v)
		}
	})

	if u == nil || len(cfgs) == 0 {
		t.Fatalf("no universe or no configurations")
	}

	full := zzC03Tier() || zzGetenv("VERIF_C03_FULL") == "1"
	seed := zzSeed()

	// Handler level: several servers in parallel, each configuration with its
	// own generator so that the result does not depend on scheduling.
	const workers = 4
	recs := make([]*zzC03Rec, workers)
	done := make(chan int, workers)
	for k := 0; k < workers; k++ {
		recs[k] = &zzC03Rec{w: w, bySig: map[string]int{}, counts: map[string]int{}}
		z := zzC03NewSrv(t, false)
		go func(k int) {
			defer func() { done <- k }()

			for i := k; i < len(cfgs); i += workers {
				rng := rand.New(rand.NewSource(seed*1000003 + int64(i)))
				zzC03Sweep(t, z, u, cfgs[i], rng, full, recs[k])
			}
		}(k)
	}

	// Transport level, concurrently with the sweeps, on its own server.
	trec := &zzC03Rec{w: w, bySig: map[string]int{}, counts: map[string]int{}}
	zt := zzC03NewSrv(t, true)
	ncfgT := 0
	for i, v := range cfgs {
		if v.Sock == 0 {
			continue
		}

		ncfgT++
		rng := rand.New(rand.NewSource(seed*7000003 + int64(i)))
		zzC03Transports(zt, u, v, rng, trec)
	}

	zzC03LinkLocal(zt, trec)

	for k := 0; k < workers; k++ {
		<-done
	}

	counts, bySig := map[string]int{}, map[string]int{}
	for _, r := range append(recs, trec) {
		for k, n := range r.counts {
			counts[k] += n
		}

		for k, n := range r.bySig {
			bySig[k] += n
		}
	}

	w.put(map[string]any{"kind": "summary", "cfgs": len(cfgs), "cfgs_transport": ncfgT, "counts": counts, "bad_by_sig": bySig, "full": full})
}

// ---------------------------------------------------------------- direction B

// The labels of direction B are rendered as they are; none of them may be a
// label name of the exhaustive universe ("a", "b", "xa", "ar", "a1"), whose
// regular-expression classes AccessCore shares with this vocabulary.
var zzC03BLabels = []string{"ads", "xads", "cdn", "beta", "track", "cc", "shop", "adsrv", "ads1"}
var zzC03BTLDs = []string{"com", "org", "net"}
var zzC03BIDs = []string{"phone", "tv-2", "kid", "lap-top", "guest7", "x"}

func zzC03RandBits(rng *rand.Rand, n int) (b []int) {
	b = make([]int, n)
	for i := range b {
		b[i] = rng.Intn(2)
	}

	return b
}

func zzC03RandName(rng *rand.Rand) (n []string) {
	k := rng.Intn(4)
	for i := 0; i < k; i++ {
		n = append(n, zzC03BLabels[rng.Intn(len(zzC03BLabels))])
	}

	n = append(n, zzC03BTLDs[rng.Intn(len(zzC03BTLDs))])
	if rng.Intn(8) == 0 {
		// A name that embeds another registrable name.
		n = append(n, zzC03BTLDs[rng.Intn(len(zzC03BTLDs))])
	}

	return n
}

func zzC03EntryKey(e zzC03Entry) (k string) { return fmt.Sprint(e.K, e.Fam, e.Bits, e.ID) }

// zzC03RandLists draws disjoint allowed / disallowed lists and a blocked-hosts
// list over the 8-bit universe.
func zzC03RandLists(rng *rand.Rand, w int) (v *zzC03Vec) {
	v = &zzC03Vec{Kind: "set", Universe: "trace"}
	used := map[string]bool{}
	draw := func(n int) (es []zzC03Entry) {
		es = []zzC03Entry{}
		for len(es) < n {
			var e zzC03Entry
			fam := []string{"v4", "v4", "v6"}[rng.Intn(3)]
			switch rng.Intn(6) {
			case 0, 1:
				e = zzC03Entry{K: "ip", Fam: fam, Bits: zzC03RandBits(rng, w), Sp: "lower"}
				if fam == "v4" && rng.Intn(5) == 0 {
					e.Sp = "mapped"
				}
			case 2, 3, 4:
				// Real-looking CIDR mix: every prefix length, short ones too,
				// the boundary lengths 0 and w more often than their share,
				// and networks nested in / around one already in the list.
				e = zzC03Entry{K: "cidr", Fam: fam, Bits: zzC03RandBits(rng, rng.Intn(w+1)), Sp: "lower"}
				switch rng.Intn(6) {
				case 0:
					e.Bits = []int{}
				case 1:
					e.Bits = zzC03RandBits(rng, w)
				case 2, 3, 4:
					for _, x := range es {
						if x.K == "id" || len(x.Bits) == 0 {
							continue
						}

						e.Fam = x.Fam
						if rng.Intn(2) == 0 || len(x.Bits) == w {
							// Wider, around x.
							e.Bits = append([]int{}, x.Bits[:rng.Intn(len(x.Bits))]...)
						} else {
							// Narrower, inside x.
							e.Bits = append(append([]int{}, x.Bits...), zzC03RandBits(rng, 1+rng.Intn(w-len(x.Bits)))...)
						}
					}
				}
			default:
				e = zzC03Entry{K: "id", Bits: []int{}, ID: zzC03BIDs[rng.Intn(len(zzC03BIDs))], Sp: "lower"}
				if rng.Intn(3) == 0 {
					// Written in another letter case: the spec leaves open
					// whether it names the ClientID.
					e.Sp = "mixed"
				}
			}

			if e.K == "cidr" && e.Fam == "v4" && rng.Intn(6) == 0 {
				// An IPv4 prefix written as "::ffff:a.b.c.d/(96+n)".
				e.Sp = "mapped"
			}

			if k := zzC03EntryKey(e); !used[k] {
				used[k] = true
				es = append(es, e)
			}
		}

		return es
	}

	v.Allowed, v.Disallowed = []zzC03Entry{}, []zzC03Entry{}
	switch rng.Intn(4) {
	case 0:
		v.Allowed = draw(1 + rng.Intn(5))
		v.Disallowed = draw(rng.Intn(4))
	case 1:
		// Both empty or nearly so.
		v.Disallowed = draw(rng.Intn(2))
	default:
		v.Disallowed = draw(1 + rng.Intn(6))
	}

	v.Hosts = []zzC03Pat{}
	seen := map[string]bool{}
	for i, n := 0, rng.Intn(5); i < n; i++ {
		nm := zzC03RandName(rng)
		if len(nm) < 2 {
			// A one-label pattern is a substring rule of the engine's syntax:
			// outside the three pattern shapes of the spec.
			nm = append([]string{zzC03BLabels[rng.Intn(len(zzC03BLabels))]}, nm...)
		}

		p := zzC03Pat{K: []string{"exact", "domain", "wild"}[rng.Intn(3)], N: nm}
		if p.K != "exact" && rng.Intn(3) == 0 {
			// A rule restricted to one query type.
			p.Qt = zzC03QtypeName(zzC03Qtypes[rng.Intn(len(zzC03Qtypes))])
			if rng.Intn(5) == 0 {
				p.K, p.N = "all", []string{}
			}
		}

		if p.K != "domain" && p.Qt == "" && rng.Intn(4) == 0 {
			// Written fully qualified, with the final dot.
			p.Fq = true
		}

		if p.K == "domain" && rng.Intn(5) == 0 {
			// An exception rule: often inside a name that a rule of the list
			// blocks, sometimes with no blocking rule around it.
			p.Wl = true
			if len(v.Hosts) > 0 && rng.Intn(3) > 0 {
				if q := v.Hosts[rng.Intn(len(v.Hosts))]; !q.Wl && len(q.N) > 0 && q.K != "re" {
					p.N = append([]string{zzC03BLabels[rng.Intn(len(zzC03BLabels))]}, q.N...)
					if q.K == "exact" || rng.Intn(3) == 0 {
						p.N = append([]string{}, q.N...)
					}
				}
			}
		}

		if rng.Intn(6) == 0 {
			// A regular-expression rule.
			p = zzC03Pat{K: "re", N: []string{[]string{"nondigit", "capital", "named"}[rng.Intn(3)]}}
		}

		if k := fmt.Sprint(p); !seen[k] {
			seen[k] = true
			v.Hosts = append(v.Hosts, p)
		}
	}

	return v
}

// zzC03ParsePattern abstracts a blocked-hosts rule string of one of the
// shapes of the spec.
func zzC03ParsePattern(str string) (p zzC03Pat) {
	str = strings.ToLower(str)
	if strings.HasPrefix(str, "@@") {
		p.Wl, str = true, str[2:]
	}

	if i := strings.Index(str, "$dnstype="); i >= 0 {
		p.Qt = strings.ToUpper(str[i+len("$dnstype="):])
		str = str[:i]
	}

	switch {
	case str == "||*^":
		p.K, p.N = "all", []string{}

		return p
	case strings.HasPrefix(str, "||") && strings.HasSuffix(str, "^"):
		p.K, str = "domain", str[2:len(str)-1]
	case strings.HasPrefix(str, "*."):
		p.K, str = "wild", str[2:]
	default:
		p.K = "exact"
	}

	if (p.K == "exact" || p.K == "wild") && strings.HasSuffix(str, ".") {
		p.Fq, str = true, strings.TrimSuffix(str, ".")
	}

	p.N = strings.Split(str, ".")

	return p
}

// zzC03AbsReported abstracts the lists reported by GET /control/access/list:
// a string that was given in the last installation is the abstract entry it
// was rendered from; any other client string is an unknown entry, any other
// host string is parsed.
func zzC03AbsReported(c *zzC03Conc, reported [3][]string) (abs map[string]any) {
	entries := func(rep []string) (out []zzC03Entry) {
		out = []zzC03Entry{}
		for _, r := range rep {
			if e, ok := c.backE[r]; ok {
				out = append(out, e)
			} else {
				out = append(out, zzC03Entry{K: "unknown", Bits: []int{}, ID: r, Sp: "lower"})
			}
		}

		return out
	}

	hosts := []zzC03Pat{}
	for _, r := range reported[2] {
		if p, ok := c.backP[r]; ok {
			hosts = append(hosts, p)
		} else {
			hosts = append(hosts, zzC03ParsePattern(r))
		}
	}

	return map[string]any{
		"allowed":    entries(reported[0]),
		"disallowed": entries(reported[1]),
		"hosts":      hosts,
	}
}

// zzC03Derive returns a configuration that follows prev in a history of
// installations: the same lists with the ClientID entries in the other letter
// case (same order or shuffled), or prev with its allow list emptied / filled.
func zzC03Derive(rng *rand.Rand, prev *zzC03Vec, w int) (v *zzC03Vec) {
	v = &zzC03Vec{Kind: "set", Universe: "trace"}
	v.Allowed = append([]zzC03Entry{}, prev.Allowed...)
	v.Disallowed = append([]zzC03Entry{}, prev.Disallowed...)
	v.Hosts = append([]zzC03Pat{}, prev.Hosts...)
	flip := func(es []zzC03Entry) {
		for i := range es {
			if es[i].K == "id" {
				es[i].Sp = map[string]string{"lower": "mixed", "mixed": "lower"}[es[i].Sp]
			}
		}
	}

	switch rng.Intn(4) {
	case 0, 3:
		// Case only: same entries, same order.
		flip(v.Allowed)
		flip(v.Disallowed)
	case 1:
		flip(v.Allowed)
		flip(v.Disallowed)
		rng.Shuffle(len(v.Allowed), func(i, j int) { v.Allowed[i], v.Allowed[j] = v.Allowed[j], v.Allowed[i] })
		rng.Shuffle(len(v.Disallowed), func(i, j int) { v.Disallowed[i], v.Disallowed[j] = v.Disallowed[j], v.Disallowed[i] })
		rng.Shuffle(len(v.Hosts), func(i, j int) { v.Hosts[i], v.Hosts[j] = v.Hosts[j], v.Hosts[i] })
	default:
		if len(v.Allowed) > 0 {
			v.Allowed = []zzC03Entry{}
		} else {
			used := map[string]bool{}
			for _, e := range v.Disallowed {
				used[zzC03EntryKey(e)] = true
			}

			for len(v.Allowed) < 2 {
				e := zzC03Entry{K: "ip", Fam: "v4", Bits: zzC03RandBits(rng, w), Sp: "lower"}
				if rng.Intn(2) == 0 {
					e = zzC03Entry{K: "id", Bits: []int{}, ID: zzC03BIDs[rng.Intn(len(zzC03BIDs))], Sp: "lower"}
				}

				if k := zzC03EntryKey(e); !used[k] {
					used[k] = true
					v.Allowed = append(v.Allowed, e)
				}
			}
		}
	}

	return v
}

// zzC03RandReq draws a request, biased towards the neighbourhood of the
// installed entries and patterns.
func zzC03RandReq(rng *rand.Rand, v *zzC03Vec, w int, protos []string) (ar *zzC03AReq) {
	ar = &zzC03AReq{Proto: protos[rng.Intn(len(protos))]}
	entries := append(append([]zzC03Entry{}, v.Allowed...), v.Disallowed...)

	ar.Addr = zzC03Addr{Fam: []string{"v4", "v4", "v6"}[rng.Intn(3)], Bits: zzC03RandBits(rng, w)}
	if len(entries) > 0 && rng.Intn(3) > 0 {
		e := entries[rng.Intn(len(entries))]
		if e.K != "id" {
			ar.Addr.Fam = e.Fam
			copy(ar.Addr.Bits, e.Bits)
			if rng.Intn(4) == 0 && len(e.Bits) > 0 {
				// Just outside: flip the last bit of the prefix.
				ar.Addr.Bits[len(e.Bits)-1] ^= 1
			}
		}
	}

	ar.Form = "plain"
	if rng.Intn(4) == 0 {
		ar.Form = zzC03Forms(ar.Addr.Fam)[1]
	}

	if ar.Proto == "tls" || ar.Proto == "quic" || ar.Proto == "https" {
		switch rng.Intn(3) {
		case 0:
		case 1:
			ar.ID = zzC03BIDs[rng.Intn(len(zzC03BIDs))]
		default:
			ar.ID = zzC03BIDs[rng.Intn(len(zzC03BIDs))]
			for _, e := range entries {
				if e.K == "id" && rng.Intn(2) == 0 {
					ar.ID = e.ID
				}
			}
		}
	}

	if (ar.Proto == "tls" || ar.Proto == "quic" || ar.Proto == "https") && rng.Intn(14) == 0 {
		// An invalid ClientID label.
		ar.ID = zzC03BadID
	}

	ar.IDCase = []string{"plain", "mixed", "upper"}[rng.Intn(3)]
	ar.Name = zzC03RandName(rng)
	qt := ""
	if len(v.Hosts) > 0 && rng.Intn(3) > 0 {
		p := v.Hosts[rng.Intn(len(v.Hosts))]
		qt = p.Qt
		switch {
		case p.K == "re":
			// Around what the regular expression matches.
			first := map[string][]string{
				"nondigit": {"adsrv", "ads1", "ads"}, "capital": {"beta", "xbeta"}, "named": {"ads", "beta", "cdn"},
			}[p.N[0]]
			tld := map[string]string{"nondigit": "com", "capital": "com", "named": "org"}[p.N[0]]
			ar.Name = []string{first[rng.Intn(len(first))], tld}
		case len(p.N) > 0:
			ar.Name = append([]string{}, p.N...)
		}

		switch rng.Intn(5) {
		case 0:
			ar.Name = append([]string{zzC03BLabels[rng.Intn(len(zzC03BLabels))]}, ar.Name...)
		case 1:
			ar.Name = append([]string{"cc", zzC03BLabels[rng.Intn(len(zzC03BLabels))]}, ar.Name...)
		case 2:
			// Look-alike of the first label.
			ar.Name[0] = "x" + ar.Name[0]
		case 3:
			ar.Name = append(ar.Name, zzC03BTLDs[rng.Intn(len(zzC03BTLDs))])
		}
	}

	ar.Spell = zzC03Spells[rng.Intn(len(zzC03Spells))]
	ar.Qtype = zzC03QtypeName(zzC03Qtypes[rng.Intn(len(zzC03Qtypes))])
	if qt != "" && rng.Intn(2) == 0 {
		ar.Qtype = qt
	}

	return ar
}

// TestZZVerifC03Trace is direction B: random list sets over 8-bit universes,
// 500 requests per set, one NDJSON line per step in the vocabulary of
// TraceAccess.tla.  Most requests go to HandleBefore directly (all six
// transports), every fifth set goes through the real transports and also logs
// the cumulative observers.
func TestZZVerifC03Trace(t *testing.T) {
	w := zzNewWriter(t, "VERIF_OUT")
	defer w.close()

	rng := rand.New(rand.NewSource(zzSeed()*31 + 7))
	sets, perSet := 24, 500
	if zzC03Tier() {
		sets = 120
	}

	const width = 8
	zh := zzC03NewSrv(t, false)
	zt := zzC03NewSrv(t, true)

	// Last configuration installed on each of the two servers.
	prevV, prevC := map[bool]*zzC03Vec{}, map[bool]*zzC03Conc{}
	var prevReq *zzC03AReq
	for si := 0; si < sets; si++ {
		sock := si%5 == 4
		z := zh
		if sock {
			z = zt
		}

		v := zzC03RandLists(rng, width)
		c := zzC03NewConc(rng, width, sock)
		c.labels, c.ids = nil, nil
		if prevV[sock] != nil && rng.Intn(5) < 2 {
			// Continue the history of the same lists on the same server.
			v, c = zzC03Derive(rng, prevV[sock], width), prevC[sock]
		}

		// Entry point: mostly the API, now and then a reconfiguration of the
		// live server from a configuration carrying the lists -- half of
		// these without blocked hosts, i.e. with the defaults.
		via := "set"
		if rng.Intn(6) == 0 {
			via = "load"
			if rng.Intn(2) == 0 {
				v.Hosts = []zzC03Pat{}
			}
		}

		prevV[sock], prevC[sock] = v, c
		allowed, disallowed, hosts := c.lists(v)
		if via == "load" && rng.Intn(3) == 0 {
			cl := [3][]string{allowed, disallowed, hosts}
			zzC03Dup(rng, &cl)
			allowed, disallowed = cl[0], cl[1]
		}

		code, body := z.post(zzC03Post{Via: via, Allowed: allowed, Disallowed: disallowed, Hosts: hosts})
		if code != http.StatusOK {
			t.Fatalf("%s %d rejected: %d %s (%v %v %v)", via, si, code, body, allowed, disallowed, hosts)
		}

		repd, err := z.reported()
		if err != nil {
			t.Fatalf("access list: %v", err)
		}

		absRep := zzC03AbsReported(c, repd)
		w.put(map[string]any{
			"k": via, "lvl": map[bool]string{false: "handler", true: "transport"}[sock],
			"allowed": v.Allowed, "disallowed": v.Disallowed, "hosts": v.Hosts,
			"reported": absRep,
			"conc":     map[string]any{"via": via, "allowed": allowed, "disallowed": disallowed, "hosts": hosts},
		})

		// Requests are drawn around what is in force now.
		v = &zzC03Vec{Allowed: v.Allowed, Disallowed: v.Disallowed, Hosts: absRep["hosts"].([]zzC03Pat)}

		n := perSet
		protos := zzC03ProtoNames
		if sock {
			// Transport probes cost up to 40 ms each when silent.
			n = perSet / 5
		}

		for i := 0; i < n; i++ {
			ar := zzC03RandReq(rng, v, width, protos)
			if prevReq != nil && rng.Intn(3) == 0 {
				// The same name again, with another query type: the answer
				// must not depend on what was asked before.
				ar.Name = prevReq.Name
				if rng.Intn(2) == 0 {
					ar.Addr, ar.Form = prevReq.Addr, prevReq.Form
				}
			}

			prevReq = ar
			if sock && ar.Proto != "https" {
				if ar.Addr.Fam == "v6" {
					ar.Proto = "https"
				} else if ar.Form == "zoned" {
					ar.Form = "plain"
				}
			}

			if sock && ar.Spell == "nodot" {
				ar.Spell = "plain"
			}

			plain := c.addr(ar.Addr.Fam, ar.Addr.Bits)
			r := &zzC03Req{
				Level: "handler", Proto: ar.Proto, Form: ar.Form,
				Addr:  c.form(plain, ar.Form).String(),
				ID:    zzC03Spell(rng, c.id(ar.ID), ar.IDCase),
				IDVia: []string{"path", "sni"}[rng.Intn(2)],
				Name:  zzC03Spell(rng, c.name(ar.Name), ar.Spell),
				Qtype: dns.StringToType[ar.Qtype],
			}

			line := map[string]any{"k": "req", "areq": ar, "req": r}
			if !sock {
				line["lvl"] = "handler"
				line["out"] = z.handle(r)
				if ar.Form != "plain" {
					pr := *r
					pr.Addr, pr.Form = plain.String(), "plain"
					line["plain_out"] = z.handle(&pr)
				}
			} else {
				r.Level = "transport"
				if !(ar.Proto == "https" && ar.Form == "zoned") {
					r.Addr = plain.String()
				}

				// Control client: some IPv4 address of the universe; whether it
				// is served does not matter for soundness (an unanswered
				// control only lengthens the wait).
				var ctl *zzC03Ctl
				for try := 0; try < 24 && ctl == nil; try++ {
					ca := c.addr("v4", zzC03RandBits(rng, width))
					if bl, _ := z.s.IsBlockedClient(ca, ""); !bl && ca != plain {
						ctl = &zzC03Ctl{src: ca, name: zzC03ControlName}
					}
				}

				before := z.obs.snap()
				out := z.transport(r, ctl, false)
				d := zzC03Delta(before, z.obs.snap())
				line["lvl"] = "transport"
				line["out"] = out
				line["d"] = map[string]int64{"up": d.Up, "filt": d.Filt, "qlog": d.Qlog, "stats": d.Stats}
				if ar.Form != "plain" {
					pr := *r
					pr.Addr, pr.Form = plain.String(), "plain"
					line["plain_out"] = z.transport(&pr, ctl, false)
				}
			}

			w.put(line)
		}
	}
}

// ------------------------------------------------------------------- replay

// zzC03One is a stored concrete step: lists and one request.
type zzC03One struct {
	Conc zzC03Post `json:"conc"`
	Req zzC03Req `json:"req"`

	// History are earlier posts on the same server, Before earlier requests
	// under the last configuration (run at handler level).
	History []zzC03Post `json:"history"`
	Before  []zzC03Req    `json:"before"`
}

// TestZZVerifC03One re-executes stored concrete steps alone, each on a fresh
// server: used to reproduce a rejected trace line in isolation and by
// ./check C03 --replay.
func TestZZVerifC03One(t *testing.T) {
	w := zzNewWriter(t, "VERIF_OUT")
	defer w.close()

	var zt *zzC03Srv
	zzReadNDJSON(t, "VERIF_IN", func(line []byte) {
		one := &zzC03One{}
		if err := json.Unmarshal(line, one); err != nil {
			t.Fatalf("bad step: %v", err)
		}

		r := &one.Req
		row := map[string]any{"kind": "one", "req": r, "conc": one.Conc}
		var z *zzC03Srv
		switch r.Level {
		case "transport":
			if zt == nil {
				zt = zzC03NewSrv(t, true)
			}

			z = zt
		case "linklocal":
			row["out"] = "skipped: environment-dependent probe"
			w.put(row)

			return
		default:
			z = zzC03NewSrv(t, false)
		}

		for _, h := range one.History {
			_, _ = z.post(h)
		}

		code, body := z.post(one.Conc)
		if code == http.StatusOK {
			for i := range one.Before {
				b := one.Before[i]
				if b.Addr != "" {
					_ = z.handle(&b)
				}
			}
		}

		if code != http.StatusOK {
			row["out"] = fmt.Sprintf("set:%d:%s", code, body)
			w.put(row)

			return
		}

		switch r.Level {
		case "reported":
			got, _ := z.reported()
			for i := range got {
				slices.Sort(got[i])
			}

			row["out"] = fmt.Sprint(got)
		case "decision":
			bl, _ := z.s.IsBlockedClient(netip.MustParseAddr(r.Addr), r.ID)
			row["out"] = fmt.Sprint(bl)
		case "transport":
			before := z.obs.snap()
			row["out"] = z.transport(r, nil, true)
			d := zzC03Delta(before, z.obs.snap())
			row["d"] = map[string]int64{"up": d.Up, "filt": d.Filt, "qlog": d.Qlog, "stats": d.Stats}
		default:
			before := z.obs.snap()
			row["out"] = z.handle(r)
			d := zzC03Delta(before, z.obs.snap())
			row["d"] = map[string]int64{"up": d.Up, "filt": d.Filt, "qlog": d.Qlog, "stats": d.Stats}
		}

		w.put(row)
	})
}
