package filtering

// C14 conformance harness, filter-list writer.
//
// The test below is the body of a CHILD process: checks/c14.py compiles this
// package's test binary and runs it
//
//   - under strace ("trace" mode): every save is bracketed by marker system
//     calls (failing opens of /zzc14/...) so that the orchestrator can cut
//     the system-call log into saves and hand it to TraceAtomicFile.tla;
//   - plainly ("poll" mode): a concurrent reader polls the destination during
//     many back-to-back saves; begin/end/read events are logged in real-time
//     order and validated by the same TLA+ module.
//
// The real save path is driven through the HTTP handler of
// POST /control/filtering/refresh on a real DNSFilter whose only list is
// served by a local HTTP server.

import (
	"bytes"
	"crypto/sha256"
	"encoding/hex"
	"encoding/json"
	"fmt"
	"net/http"
	"net/http/httptest"
	"os"
	"os/signal"
	"path/filepath"
	"strings"
	"sync"
	"sync/atomic"
	"syscall"
	"testing"
	"time"
	"unsafe"
)

// zzC14Spec is the scenario description passed in ZZC14_SPEC.
type zzC14Spec struct {
	Mode   string `json:"mode"`   // "trace" | "poll" | "crash"
	Writer string `json:"writer"` // "filter"
	Root   string `json:"root"`   // scratch root, exists, empty
	Out    string `json:"out"`    // NDJSON result file
	Sizes  []int  `json:"sizes"`  // requested document size per save
	Seed   int64  `json:"seed"`
	// MaxReads bounds the number of reads of the concurrent reader.
	MaxReads int `json:"maxreads"`
	// Resume: the scratch root is what an earlier (killed) child left behind;
	// set-up must take the destination and everything else as it finds them.
	Resume bool `json:"resume"`
	// Gen distinguishes the documents of successive children on one root.
	Gen int `json:"gen"`
	// Faults, parallel to Sizes: the failure injected into that save ("":
	// none), see zzC14Fault.
	Faults []string `json:"faults"`
	// Serve, parallel to Sizes (filter writer only): how the new list is
	// offered: "" or "length" (HTTP with Content-Length), "chunked" (HTTP,
	// size not announced), "file" (a local source file).
	Serve []string `json:"serve"`
}

// zzC14Writer is one of the real save paths.
type zzC14Writer interface {
	// setup prepares everything and returns the destination path and the
	// size of the document that is there already (-1: none).
	setup(t *testing.T, sp *zzC14Spec) (dst string, init int)
	// save performs the real save of version ver with the requested size.
	save(t *testing.T, ver, size int) (err error)
	// check reports whether data is the complete document of version ver.
	check(ver int, data []byte) (ok bool)
	// intended returns -1 if save number ver is expected to install version
	// ver, and otherwise (a save that is made to fail on purpose) the size
	// the document would have had: the path must then keep what it holds.
	intended(ver int) (size int)
}

// zzC14Mark issues a system call that is visible, in order, in the strace
// log and has no effect.
func zzC14Mark(s string) {
	f, err := os.Open("/zzc14/" + s)
	if err == nil {
		_ = f.Close()
	}
}

func zzC14Sha(b []byte) (s string) {
	h := sha256.Sum256(b)

	return hex.EncodeToString(h[:8])
}

// zzC14Log is the event log of a run.
type zzC14Log struct {
	mu   sync.Mutex
	rows []map[string]any
}

func (l *zzC14Log) add(r map[string]any) {
	l.mu.Lock()
	defer l.mu.Unlock()

	l.rows = append(l.rows, r)
}

func (l *zzC14Log) flush(t *testing.T, p string) {
	l.mu.Lock()
	defer l.mu.Unlock()

	buf := &bytes.Buffer{}
	for _, r := range l.rows {
		b, err := json.Marshal(r)
		if err != nil {
			t.Fatalf("c14: %v", err)
		}

		buf.Write(b)
		buf.WriteByte('\n')
	}

	if err := os.WriteFile(p, buf.Bytes(), 0o644); err != nil {
		t.Fatalf("c14: %v", err)
	}
}

// zzC14Run is the scenario driver shared by the modes.
func zzC14Run(t *testing.T, sp *zzC14Spec, w zzC14Writer) {
	lg := &zzC14Log{}
	zzC14Mark("setup")
	dst, init := w.setup(t, sp)
	lg.add(map[string]any{"ev": "meta", "dst": dst, "init": init, "writer": sp.Writer, "mode": sp.Mode})

	ver := 0
	last := 0 // the version the path holds now; 0: none
	shas := map[string]int{}
	if init >= 0 {
		ver, last = 1, 1
		data, err := os.ReadFile(dst)
		if err != nil || len(data) != init {
			t.Fatalf("c14: initial document: %v (%d bytes, want %d)", err, len(data), init)
		}

		shas[zzC14Sha(data)] = 1
	}

	zzC14Mark(fmt.Sprintf("arm/%d", init))
	lg.add(map[string]any{"ev": "arm", "n": init})

	var stop atomic.Bool
	var wg sync.WaitGroup
	type obs struct {
		sha string
		row map[string]any
	}
	var seen []obs
	if sp.Mode == "poll" {
		wg.Add(1)
		go func() {
			defer wg.Done()

			for id := 1; !stop.Load() && id <= sp.MaxReads; id++ {
				lg.add(map[string]any{"ev": "rbegin", "id": id})
				data, err := os.ReadFile(dst)
				row := map[string]any{"ev": "rend", "id": id, "n": len(data)}
				if err != nil {
					row["enoent"] = os.IsNotExist(err)
					row["err"] = err.Error()
				}

				// The version is resolved after the run, when the digest
				// of every version is known.
				seen = append(seen, obs{sha: zzC14Sha(data), row: row})
				lg.add(row)
				if id%64 == 0 {
					time.Sleep(50 * time.Microsecond)
				}
			}
		}()
	}

	for i, size := range sp.Sizes {
		if sp.Mode == "crash" && i == len(sp.Sizes)-1 {
			zzC14CrashWatcher(dst)
		}

		fault := ""
		if i < len(sp.Faults) {
			fault = sp.Faults[i]
		}

		ver++
		lg.add(map[string]any{"ev": "begin", "id": ver, "want": size})
		// What the harness itself has to write for this save (a source
		// file) is written before the environment turns hostile.
		if p, ok := w.(interface {
			prepare(t *testing.T, ver, size int)
		}); ok {
			p.prepare(t, ver, size)
		}

		undo, faulted := zzC14Fault(t, fault, dst)
		zzC14Mark(fmt.Sprintf("begin/%d", ver))
		err := w.save(t, ver, size)
		zzC14Mark(fmt.Sprintf("end/%d", ver))
		undo()

		row := map[string]any{"ev": "end", "id": ver}
		if err != nil {
			row["err"] = err.Error()
		}

		// is: the version found at the path after the save (0: no file,
		// -1: not a complete version).
		data, rerr := os.ReadFile(dst)
		is := -1
		switch {
		case rerr != nil && os.IsNotExist(rerr):
			is = 0
		case rerr != nil:
			row["readerr"] = rerr.Error()
		case w.check(ver, data):
			is = ver
		default:
			if v, known := shas[zzC14Sha(data)]; known {
				is = v
			}
		}

		row["n"] = len(data)
		row["is"] = is
		row["sha"] = zzC14Sha(data)
		if fault != "" {
			row["fault"] = fault
			row["faulted"] = faulted
		}

		if want := w.intended(ver); want >= 0 {
			row["noop"] = true
			row["decl"] = want
			row["ok"] = is == last
		} else if faulted && is != ver {
			// The save failed under the injected fault: there is no new
			// version, the path must hold what it held.
			row["noop"] = true
			row["decl"] = -1
			row["ok"] = is == last
		} else {
			row["decl"] = len(data)
			row["ok"] = is == ver
		}

		if is == ver {
			shas[zzC14Sha(data)] = ver
			last = ver
		}

		lg.add(row)
	}

	stop.Store(true)
	wg.Wait()
	zzC14Mark("done")

	for _, o := range seen {
		if v, ok := shas[o.sha]; ok && o.row["err"] == nil {
			o.row["ver"] = v
		} else if o.row["enoent"] == true {
			o.row["ver"] = -2
		} else {
			o.row["ver"] = -1
		}
	}

	lg.add(map[string]any{"ev": "done"})
	lg.flush(t, sp.Out)
}

// zzC14CrashWatcher is the "power cord" of the crash mode: as soon as a file
// that did not exist before the last save shows up next to the destination
// (or in TMPDIR) with a non-zero, no longer growing size -- i.e. the writer is
// somewhere between its last write and the end of the save -- the whole
// process is killed with SIGKILL.  Whatever it leaves behind (typically a
// left-over temporary file) is the starting state of the next child.
func zzC14CrashWatcher(dst string) {
	dirs := []string{filepath.Dir(dst)}
	if td := os.TempDir(); td != dirs[0] {
		dirs = append(dirs, td)
	}

	known := map[string]bool{dst: true}
	for _, d := range dirs {
		ents, _ := os.ReadDir(d)
		for _, e := range ents {
			known[filepath.Join(d, e.Name())] = true
		}
	}

	go func() {
		last := map[string]int64{}
		for {
			for _, d := range dirs {
				ents, _ := os.ReadDir(d)
				for _, e := range ents {
					p := filepath.Join(d, e.Name())
					if known[p] || e.IsDir() {
						continue
					}

					fi, err := e.Info()
					if err != nil {
						continue
					}

					if n := fi.Size(); n > 0 && last[p] == n {
						_ = syscall.Kill(syscall.Getpid(), syscall.SIGKILL)
					} else {
						last[p] = n
					}
				}
			}

			time.Sleep(100 * time.Microsecond)
		}
	}()
}

// zzC14SetImmutable sets or clears the immutable attribute of p.
func zzC14SetImmutable(p string, on bool) (err error) {
	const (
		getFlags = 0x80086601 // FS_IOC_GETFLAGS
		setFlags = 0x40086602 // FS_IOC_SETFLAGS
		immFlag  = 0x10       // FS_IMMUTABLE_FL
	)

	f, err := os.Open(p)
	if err != nil {
		return err
	}
	defer func() { _ = f.Close() }()

	var fl int64
	_, _, en := syscall.Syscall(syscall.SYS_IOCTL, f.Fd(), getFlags, uintptr(unsafe.Pointer(&fl)))
	if en != 0 {
		return en
	}

	if on {
		fl |= immFlag
	} else {
		fl &^= immFlag
	}

	_, _, en = syscall.Syscall(syscall.SYS_IOCTL, f.Fd(), setFlags, uintptr(unsafe.Pointer(&fl)))
	if en != 0 {
		return en
	}

	return nil
}

// zzC14Fault makes the environment hostile for the duration of one save and
// returns the function that undoes it.  A failing system call is a point of a
// save like any other: the path must keep the complete previous version (or
// get the complete new one).  Kinds:
//
//	fsize:K  RLIMIT_FSIZE = K bytes with SIGXFSZ ignored: every write beyond
//	         K bytes of any file is cut short / fails with EFBIG ("disk full");
//	nodir    the destination's directory is moved away: creating the
//	         temporary file fails with ENOENT;
//	immdir   the directory is immutable: creating fails with EPERM;
//	immdst   the destination file is immutable: the rename onto it (and any
//	         open for writing) fails with EPERM.
//
// applied is false if the fault cannot be produced here (then the save runs
// undisturbed).
func zzC14Fault(t *testing.T, kind, dst string) (undo func(), applied bool) {
	dir := filepath.Dir(dst)
	switch {
	case kind == "":
		return func() {}, false
	case strings.HasPrefix(kind, "fsize:"):
		var k uint64
		_, _ = fmt.Sscanf(kind, "fsize:%d", &k)
		old := syscall.Rlimit{}
		if err := syscall.Getrlimit(syscall.RLIMIT_FSIZE, &old); err != nil {
			return func() {}, false
		}

		signal.Ignore(syscall.SIGXFSZ)
		if err := syscall.Setrlimit(syscall.RLIMIT_FSIZE, &syscall.Rlimit{Cur: k, Max: old.Max}); err != nil {
			return func() {}, false
		}

		return func() {
			if err := syscall.Setrlimit(syscall.RLIMIT_FSIZE, &old); err != nil {
				t.Fatalf("c14: restoring RLIMIT_FSIZE: %v", err)
			}
		}, true
	case kind == "nodir":
		away := dir + ".zzc14away"
		if err := os.Rename(dir, away); err != nil {
			return func() {}, false
		}

		return func() {
			if err := os.Rename(away, dir); err != nil {
				t.Fatalf("c14: moving the directory back: %v", err)
			}
		}, true
	case kind == "immdir" || kind == "immdst":
		p := dir
		if kind == "immdst" {
			p = dst
		}

		if err := zzC14SetImmutable(p, true); err != nil {
			return func() {}, false
		}

		return func() {
			if err := zzC14SetImmutable(p, false); err != nil {
				t.Fatalf("c14: clearing the immutable attribute of %q: %v", p, err)
			}
		}, true
	default:
		t.Fatalf("c14: unknown fault %q", kind)

		return nil, false
	}
}

func zzC14LoadSpec(t *testing.T) (sp *zzC14Spec) {
	s := os.Getenv("ZZC14_SPEC")
	if s == "" {
		t.Skip("no ZZC14_SPEC")
	}

	sp = &zzC14Spec{}
	if err := json.Unmarshal([]byte(s), sp); err != nil {
		t.Fatalf("c14: spec: %v", err)
	}

	return sp
}

// zzC14Filter drives a filter-list refresh.
type zzC14Filter struct {
	wantUpdated int

	srvURL string
	srcDir string
	idx    int
	d      *DNSFilter
	sp     *zzC14Spec
	resp   atomic.Pointer[zzC14Resp]
	bodies map[int][]byte
	fails  map[int]int
}

// zzC14Resp is what the list server does for the next download: it promises
// body and delivers its first deliver bytes; cut says how it stops short.
type zzC14Resp struct {
	body    []byte
	deliver int
	cut     string // "" | "length" | "chunked"
	chunked bool   // complete body, size not announced
}

// zzC14Body renders a rule list of exactly max(size, minimum) bytes whose
// parsed form is identical to itself: no comments, no blank lines, no
// surrounding whitespace, every line terminated.  Long lines keep the number
// of write system calls (one per line in the real parser) reasonable.
func zzC14Body(gen, ver, size int) (b []byte) {
	if size == 0 {
		return []byte{}
	}

	buf := &bytes.Buffer{}
	fmt.Fprintf(buf, "||zzc14-g%d-v%d.example^\n", gen, ver)
	// Lists of many MiB get lines close to the parser's 64 KiB limit.
	lineLen := 6000
	if size > 4<<20 {
		lineLen = 48000
	}

	lab := strings.Repeat("abcdefghijklmnopqrstuvwxyz0123456789-abcdefghijklmnopqrstuv.", lineLen/60+1)
	for buf.Len() < size {
		rest := size - buf.Len()
		n := lineLen
		if rest < n {
			n = rest
		}

		if n < 8 {
			n = 8
		}

		// "||" + labels + "^\n"
		buf.WriteString("||")
		buf.WriteString(lab[:n-4])
		buf.WriteString("^\n")
	}

	return buf.Bytes()
}

func (w *zzC14Filter) setup(t *testing.T, sp *zzC14Spec) (dst string, init int) {
	w.sp = sp
	w.bodies = map[int][]byte{}
	w.fails = map[int]int{}
	w.resp.Store(&zzC14Resp{})

	srv := httptest.NewServer(http.HandlerFunc(func(rw http.ResponseWriter, _ *http.Request) {
		r := w.resp.Load()
		switch r.cut {
		case "length":
			// Promise the whole body, deliver a part: the server closes the
			// connection when the handler returns.
			rw.Header().Set("Content-Length", fmt.Sprint(len(r.body)))
			_, _ = rw.Write(r.body[:r.deliver])
		case "chunked":
			// Deliver a part of a chunked body and abort the connection.
			_, _ = rw.Write(r.body[:r.deliver])
			if f, ok := rw.(http.Flusher); ok {
				f.Flush()
			}

			panic(http.ErrAbortHandler)
		default:
			if r.chunked {
				// An early flush makes the server use chunked encoding
				// whatever the size.
				if f, ok := rw.(http.Flusher); ok {
					f.Flush()
				}
			} else {
				rw.Header().Set("Content-Length", fmt.Sprint(len(r.body)))
			}

			_, _ = rw.Write(r.body)
		}
	}))
	w.srvURL = srv.URL
	w.srcDir = filepath.Join(sp.Root, "src")
	if err := os.MkdirAll(w.srcDir, 0o755); err != nil {
		t.Fatalf("c14: %v", err)
	}
	t.Cleanup(srv.Close)

	dataDir := filepath.Join(sp.Root, "work", "data")
	if err := os.MkdirAll(dataDir, 0o755); err != nil {
		t.Fatalf("c14: %v", err)
	}

	d, err := New(&Config{
		DataDir:          dataDir,
		FilteringEnabled: true,
		HTTPClient:       &http.Client{Timeout: 5 * time.Minute},
		SafeFSPatterns:   []string{filepath.Join(w.srcDir, "*")},
		Filters: []FilterYAML{{
			Enabled: true,
			URL:     srv.URL,
			Name:    "zzc14",
			Filter:  Filter{ID: 1},
		}},
	}, nil)
	if err != nil {
		t.Fatalf("c14: filtering.New: %v", err)
	}

	t.Cleanup(d.Close)
	w.d = d

	dst = d.conf.Filters[0].Path(dataDir)
	init = -1
	if fi, serr := os.Stat(dst); sp.Resume && serr == nil {
		init = int(fi.Size())
	}

	return dst, init
}

// save: size >= 0 is a refresh that downloads a new list of that size.
// size < 0 is a refresh that must FAIL after about -size bytes of the new list
// have been written to the pending file, so that the list on disk has to stay
// what it is; how it fails depends on -size mod 3:
//
//	0  the next line contains a binary character (the parser rejects it);
//	1  the server promised more (Content-Length) than it sends and closes;
//	2  the server aborts a chunked body in the middle.
//
// In the last two cases the document the server intended to send is about
// twice as long as what arrives, and the cut is in the middle of a line.
func (w *zzC14Filter) prepare(t *testing.T, ver, size int) {
	w.wantUpdated = 1
	r := &zzC14Resp{body: zzC14Body(w.sp.Gen, ver, size)}
	if size < 0 {
		n := -size
		switch n % 3 {
		case 0:
			r.body = append(zzC14Body(w.sp.Gen, ver, n), []byte("||bad\x01line^\n||never-written.example^\n")...)
		case 1, 2:
			r.body = zzC14Body(w.sp.Gen, ver, 2*n+4000)
			r.deliver = n + 1500
			r.cut = []string{"", "length", "chunked"}[n%3]
		}

		w.fails[ver] = len(r.body)
		w.wantUpdated = 0
	}

	serve := ""
	if w.idx < len(w.sp.Serve) {
		serve = w.sp.Serve[w.idx]
	}

	w.idx++
	r.chunked = serve == "chunked"
	w.bodies[ver] = r.body
	w.resp.Store(r)

	// The source of the list: the HTTP server or, for "file", a local file
	// (set in the configuration the way the settings handler stores it).
	url := w.srvURL
	if serve == "file" && size >= 0 {
		url = filepath.Join(w.srcDir, fmt.Sprintf("v%d.txt", ver))
		if err := os.WriteFile(url, r.body, 0o644); err != nil {
			t.Fatalf("c14: %v", err)
		}
	}

	func() {
		w.d.conf.filtersMu.Lock()
		defer w.d.conf.filtersMu.Unlock()

		w.d.conf.Filters[0].URL = url
	}()
}

func (w *zzC14Filter) save(t *testing.T, ver, size int) (err error) {
	wantUpdated := w.wantUpdated
	rec := httptest.NewRecorder()
	req := httptest.NewRequest(http.MethodPost, "/control/filtering/refresh", strings.NewReader(`{"whitelist":false}`))
	req.Header.Set("Content-Type", "application/json")
	w.d.handleFilteringRefresh(rec, req)
	if rec.Code != http.StatusOK {
		return fmt.Errorf("refresh: status %d: %s", rec.Code, rec.Body.String())
	}

	resp := struct {
		Updated int `json:"updated"`
	}{}
	if err = json.Unmarshal(rec.Body.Bytes(), &resp); err != nil {
		return fmt.Errorf("refresh: %w", err)
	}

	if resp.Updated != wantUpdated {
		return fmt.Errorf("refresh: updated %d lists", resp.Updated)
	}

	return nil
}

func (w *zzC14Filter) check(ver int, data []byte) (ok bool) {
	_, failing := w.fails[ver]

	return !failing && bytes.Equal(data, w.bodies[ver])
}

func (w *zzC14Filter) intended(ver int) (size int) {
	if n, failing := w.fails[ver]; failing {
		return n
	}

	return -1
}

func TestZZVerifC14Child(t *testing.T) {
	sp := zzC14LoadSpec(t)
	switch sp.Writer {
	case "filter":
		zzC14Run(t, sp, &zzC14Filter{})
	default:
		t.Fatalf("c14: unknown writer %q", sp.Writer)
	}
}
