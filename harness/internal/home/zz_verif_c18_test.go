package home

// C18 conformance harness, configuration-file path of a persistent client:
// the LoadNone requests of specs/ScheduleHolder.tla (a blocked-services
// section without a schedule, in each spelling) put to a client of
// AdGuardHome.yaml, through clientsContainer.Init (clientObject.toPersistent)
// and DNSFilter.ApplyAdditionalFiltering.  The spec's successor state is the
// empty schedule: the pause holds at no instant, so the client's service is
// blocked whenever it is asked.

import (
	"fmt"
	"net/netip"
	"strings"
	"testing"

	"github.com/AdguardTeam/AdGuardHome/internal/client"
	"github.com/AdguardTeam/AdGuardHome/internal/filtering"
	"github.com/AdguardTeam/AdGuardHome/internal/schedule"
	"github.com/AdguardTeam/golibs/logutil/slogutil"
	"github.com/AdguardTeam/golibs/testutil"
	"gopkg.in/yaml.v3"
)

const zzC18ClientAddr = "192.0.2.18"

// zzC18ClientFile renders the configuration file for one spelling.
func zzC18ClientFile(form string) (text string) {
	ids := "      ids:\n      - youtube\n"
	var bs string
	switch form {
	case "null":
		bs = "    blocked_services:\n      schedule: null\n" + ids
	case "tilde":
		bs = "    blocked_services:\n      schedule: ~\n" + ids
	case "blank":
		bs = "    blocked_services:\n      schedule:\n" + ids
	case "absent":
		bs = "    blocked_services:\n" + ids
	default:
		bs = "    blocked_services:\n"
	}

	return "clients:\n  persistent:\n  - name: c18\n    ids:\n    - " + zzC18ClientAddr + "\n" + bs +
		"    use_global_blocked_services: false\n"
}

// zzC18ClientRun loads the file the way parseConfig and initialisation do and
// asks the DNS path for the client's blocked services.
func zzC18ClientRun(t *testing.T, form string) (row map[string]any) {
	row = map[string]any{"kind": "client", "form": form, "loaded": false, "panicked": "", "names": []string{}}
	defer func() {
		if r := recover(); r != nil {
			row["panicked"] = fmt.Sprint(r)
		}
	}()

	conf := &configuration{
		Clients: &clientsConfig{},
		Filtering: &filtering.Config{
			// The defaults of config.go.
			BlockedServices: &filtering.BlockedServices{Schedule: schedule.EmptyWeekly(), IDs: []string{}},
		},
	}

	if err := yaml.Unmarshal([]byte(zzC18ClientFile(form)), conf); err != nil {
		row["err"] = err.Error()

		return row
	}

	conf.Filtering.DataDir = t.TempDir()
	clients := &clientsContainer{testing: true}
	err := clients.Init(
		testutil.ContextWithTimeout(t, testTimeout),
		slogutil.NewDiscardLogger(),
		conf.Clients.Persistent,
		client.EmptyDHCP{},
		nil,
		nil,
		conf.Filtering,
		newSignalHandler(nil, nil),
	)
	if err != nil {
		row["err"] = err.Error()

		return row
	}

	d, err := filtering.New(conf.Filtering, nil)
	if err != nil {
		row["err"] = err.Error()

		return row
	}
	t.Cleanup(d.Close)

	row["loaded"] = true
	setts := d.Settings()
	// What dnsforward does for every request of that client.
	d.ApplyAdditionalFiltering(netip.MustParseAddr(zzC18ClientAddr), "", setts)
	names := []string{}
	for _, s := range setts.ServicesRules {
		names = append(names, s.Name)
	}

	row["names"] = names

	return row
}

// TestZZVerifC18ClientNoSchedule runs the spellings named in VERIF_C18_FORMS.
func TestZZVerifC18ClientNoSchedule(t *testing.T) {
	w := zzNewWriter(t, "VERIF_OUT")
	defer w.close()

	filtering.InitModule()
	n := 0
	for _, form := range strings.Split(zzGetenv("VERIF_C18_FORMS"), ",") {
		if form = strings.TrimSpace(form); form == "" {
			continue
		}

		row := zzC18ClientRun(t, form)
		// Once more, alone.
		again := zzC18ClientRun(t, form)
		row["again_panicked"] = again["panicked"]
		row["again_names"] = again["names"]
		w.put(row)
		n++
	}

	w.put(map[string]any{"kind": "summary", "n": n})
}
