SPECIFICATION Spec
VIEW View
CONSTANTS
  MaxRec = 6
  MemSizes = {0, 1, 2, 3}
  FileModes = {TRUE, FALSE}
  Palettes = {0}
  Kinds = {}
  RestartResizes = FALSE
  IgnoreModes = {FALSE}
  AnonModes = {FALSE}
  MaxFlight = 0
  Faults = TRUE
  AllowWindow = FALSE
  EmitEdges = TRUE
INVARIANTS TypeOK Ordered NothingLost
