SPECIFICATION Spec
CONSTANTS
  TTL = 2
  WithClient = FALSE
  MCQtypes = {"A", "AAAA", "TXT"}
INVARIANTS TypeOK OnlyListedEnabled ListedEnabledAlways ClientPrecedence MemoryCurrent
