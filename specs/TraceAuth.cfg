SPECIFICATION Spec
