PROPERTY = "G06"
ENTRY = {
        "text": "The two lease tables no listed property covers, in the image of C10.  (A) Dhcp6.tla EXTENDS C10's Dhcp4.tla (same lease records, reply classes, allocation, "
                "expiry, release, reservation vocabulary) and states the DHCPv6 table: Solicit / Request, Renew, Rebind, Confirm / Release / Decline / Expire / Add-, Update-, "
                "RemoveStatic / Restart as SETS of admissible outcomes, a separate `disk' with a store rule (the database must list exactly the HELD leases; for merely advertised "
                "or expired ones it may lag).  (B) DhcpSvc.tla states the table of the new service dhcpsvc.DHCPServer over several networks (interface x family): AddLease / "
                "UpdateStaticLease / RemoveLease / Reset / Restart.  TLC explores all histories over small universes (v6: 3 clients x range of 2 resp. 3 + an address of the same /120 "
                "below the range + an address of another prefix with the last byte of a range address; svc: 3 clients, 2 resp. 3 networks, gateway, out-of-range and off-network "
                "addresses, 2 resp. 3 names), checks 11 + 8 invariants (one holder per address, one lease per client [and network], dynamic leases inside the range and never on a "
                "reservation / the gateway, rejected calls change nothing, database = held table, restart restores table and answers) and emits one line per reachable state with the "
                "outcome set of every action instance.  The Go harnesses walk the real objects (dhcpd.Create + v6Server.packetHandler with real DHCPv6 messages + static-lease HTTP "
                "handlers + shared leases.json; dhcpsvc.New + exported API + its database file) through every state they can reach, execute every action instance there and compare "
                "reply, projected table, indexes / per-interface tables / last-byte table, Leases(), HostByIP / IPByHost / MACByIP for every address and name, and the database file "
                "after every step.  Long random histories over larger universes are decided line by line by TraceDhcp6.tla / TraceDhcpSvc.tla (same operators).",
        "design_ref": "DESIGN.md section 5 (growth), notes/G06.md",
        "note": "Trusted: TLC; conc()/abs() of the two zz_verif_g06_test.go files; v6 expiry simulated by setting Lease.Expiry to a past instant and storing the database; "
                "sockets not used (packetHandler level); rapid-commit SOLICIT, relayed messages and DUIDs without a link-layer address are not sent; dhcpsvc is only called "
                "inside its documented precondition 'l must be valid' (non-empty name, 6-byte hardware address, dynamic lease inside a range).  Where the documentation is silent the "
                "specs admit several outcomes (which free address, what RELEASE/DECLINE do in v6, duplicate names of v6 reservations, refusing vs. evicting, whether an advertised "
                "address is stored, replacing a dynamic lease through UpdateStaticLease).  Seven findings on the unchanged tree are listed in known_findings/G06.jsonl, each with a "
                "proposed fix.",
        "technique": "TLA+ specs of both lease tables (Dhcp6 EXTENDS Dhcp4; DhcpSvc) explored exhaustively by TLC; state-graph walk of the real objects against TLC's outcome "
                     "tables + TLC trace validation of long random histories",
    }
