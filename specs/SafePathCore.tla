---------------------------- MODULE SafePathCore ----------------------------
(***************************************************************************)
(* C17 -- which local file a location names and whether it may be opened.  *)
(*                                                                         *)
(* Shared by SafePath.tla (exhaustive model, vector generation) and        *)
(* TraceSafePath.tla (validation of traces recorded from the real code),   *)
(* so that both use one text.  Written from the statement:                 *)
(*                                                                         *)
(*   "The server opens a local file as a filter-list source only if its    *)
(*    cleaned absolute path matches one of the configured safe patterns."  *)
(*                                                                         *)
(* TLC cannot take strings apart, so everything is structured:             *)
(*                                                                         *)
(*   segment   a string: "" (what lies between two adjacent separators or  *)
(*             after a trailing one), "." , ".." or a file/directory NAME  *)
(*   path      a sequence of segments; a CLEAN ABSOLUTE path is a sequence *)
(*             of names only (<<>> is the root directory)                  *)
(*   location  [scheme, abs, segs]: what the user typed.  scheme = "none": *)
(*             ("/" if abs) + segs joined by "/";  otherwise               *)
(*             scheme + "://" + ("/" if abs) + segs joined by "/"          *)
(*             (abs: empty authority, e.g. file:///a/b; not abs: the first *)
(*             segment sits where a URL has its host, e.g. ftp://a/b)      *)
(*   glob      [abs, segs]: segs is a sequence of SEGMENT PATTERNS, each a *)
(*             sequence of tokens  lit c | star | q | cls S                *)
(*             rendered  ("/" if abs) + segment patterns joined by "/"     *)
(*                                                                         *)
(* The characters of a name are given by the constant Chars (a function    *)
(* from the name strings in use to sequences of one-character strings): in *)
(* the exhaustive model a small table, in trace validation the table the   *)
(* harness logged for the concrete names it used.                          *)
(***************************************************************************)
EXTENDS Sequences, Naturals, FiniteSets

CONSTANT Chars

Schemes == {"none", "http", "https", "file", "ftp"}

\* ------------------------------------------------------------------ Clean
\* Lexical cleaning as the statement means it ("cleaned absolute path"): the
\* shortest equivalent spelling in a symlink-free tree.
\*   * an empty segment (doubled or trailing separator) and "." name the
\*     directory they stand in;
\*   * ".." names the parent, i.e. cancels the name before it; the root is
\*     its own parent; in a relative path a ".." with nothing before it to
\*     cancel stays (it is resolved once the working directory is put in
\*     front, see AbsClean).
RECURSIVE CleanAcc(_, _, _)
CleanAcc(abs, rest, acc) ==
    IF rest = <<>> THEN acc
    ELSE LET s == Head(rest)
             t == Tail(rest)
         IN  IF s = "" \/ s = "." THEN CleanAcc(abs, t, acc)
             ELSE IF s = ".."
                  THEN IF acc # <<>> /\ acc[Len(acc)] # ".."
                       THEN CleanAcc(abs, t, SubSeq(acc, 1, Len(acc) - 1))
                       ELSE IF abs THEN CleanAcc(abs, t, acc)
                                   ELSE CleanAcc(abs, t, Append(acc, ".."))
                  ELSE CleanAcc(abs, t, Append(acc, s))

Clean(abs, segs) == CleanAcc(abs, segs, <<>>)

\* A clean absolute path: names only.
IsCleanAbs(p) == \A i \in 1..Len(p) : p[i] \notin {"", ".", ".."}

\* The cleaned absolute path of a path spelling, relative ones being taken
\* from the working directory cwd (itself a clean absolute path).
AbsClean(abs, segs, cwd) == IF abs THEN Clean(TRUE, segs) ELSE Clean(TRUE, cwd \o segs)

\* ------------------------------------------------------------------ Match
\* Glob matching with the semantics the patterns are documented to have
\* (shell file-name patterns, as path/filepath.Match): a literal matches
\* itself, "?" one character, a class one of its characters, "*" any run of
\* characters -- and none of the three ever matches a separator, so matching
\* is segment by segment and the numbers of segments must agree.
\* (Negated classes and ranges containing the separator are not generated:
\* the library lets them match a separator, the statement says nothing.)
Lit(c)  == [k |-> "lit",  c |-> c,  set |-> {}]
Star    == [k |-> "star", c |-> "", set |-> {}]
Q       == [k |-> "q",    c |-> "", set |-> {}]
Cls(S)  == [k |-> "cls",  c |-> "", set |-> S]

TokMatches(t, ch) ==
    CASE t.k = "lit" -> ch = t.c
      [] t.k = "q"   -> TRUE
      [] t.k = "cls" -> ch \in t.set
      [] OTHER       -> FALSE

\* Declarative: a "*" matches whatever prefix makes the rest match.
RECURSIVE MatchSeg(_, _)
MatchSeg(pat, cs) ==
    IF pat = <<>> THEN cs = <<>>
    ELSE LET t == Head(pat) IN
         IF t.k = "star"
         THEN \E i \in 0..Len(cs) : MatchSeg(Tail(pat), SubSeq(cs, i + 1, Len(cs)))
         ELSE /\ cs # <<>>
              /\ TokMatches(t, Head(cs))
              /\ MatchSeg(Tail(pat), Tail(cs))

CharsOf(name) == IF name \in DOMAIN Chars THEN Chars[name] ELSE <<name>>

\* p is a clean absolute path.  A relative glob never matches an absolute
\* path: its first character would have to match the leading separator.
MatchPath(g, p) ==
    /\ g.abs
    /\ Len(g.segs) = Len(p)
    /\ \A i \in 1..Len(p) : MatchSeg(g.segs[i], CharsOf(p[i]))

MatchesAny(pats, p) == \E g \in pats : MatchPath(g, p)

\* --------------------------------------------------------------- locations
\* The local file a location names, as a set of at most one clean absolute
\* path.  A plain path names the file at its cleaned absolute form.  A
\* "file" URL with an empty authority names the file at its path.  Nothing
\* else names a local file (http, https, ftp; anything with a host part).
\* This is deliberately the loosest reading: the statement only limits what
\* may be opened, it does not oblige the server to open anything.
Denoted(loc, cwd) ==
    IF loc.scheme = "none" THEN {AbsClean(loc.abs, loc.segs, cwd)}
    ELSE IF loc.scheme = "file" /\ loc.abs THEN {Clean(TRUE, loc.segs)}
    ELSE {}

\* The files that handling location loc may open under patterns pats:
\* the file it names, and only if its cleaned absolute path matches.
May(pats, loc, cwd) == {p \in Denoted(loc, cwd) : MatchesAny(pats, p)}

\* Upper bound for a refresh over a set of configured locations.
MayAll(pats, locs, cwd) == UNION {May(pats, l, cwd) : l \in locs}

\* The statement itself, as a predicate on a set of opened paths.
Safe(pats, opened) ==
    /\ \A p \in opened : IsCleanAbs(p) /\ MatchesAny(pats, p)
    /\ (pats = {} => opened = {})
=============================================================================
