"""G11 -- upstream configuration and selection, private reverse lookups (growth item).

TLC explores specs/Upstreams.tla (all histories of dns_config calls, questions
and upstream failures) over three finite universes and checks the statement's
sentences on every state and every transition.  Every state is printed with its
verdict table (question x client locality -> admissible outcomes) and, for
down = {}, all its dns_config edges (request -> admissible results).

Direction A: the printed graphs are covered by tours from the initial state;
every tour is walked on a fresh real dnsforward.Server with four recording mock
upstreams on real sockets: real handleSetConfig / handleGetConfig, questions
over UDP.  After every dns_config call the status code, dns_info and the
verdict table of the resulting state are compared, on the first visit of a
state under every combination of failing upstreams.

Direction B: seeded random histories over a larger universe (random domain
trees, more sections per list, multi-domain lines, every kind of invalid line,
all request shapes) are recorded from the same rig and validated line by line
by TraceUpstreams.tla, which reuses UpstreamsCore.tla.
"""
import collections
import json
import random
import re
import threading
import vlib

PKG = "internal/dnsforward"
FILES = ["zz_verif_common_test.go", "zz_verif_g11_test.go"]

K_CLEAR = "clearing-local-ptr-while-private-rdns-on-stops-dns-server"
K_ENABLE = "enabling-private-rdns-alone-rejected-although-servers-are-stored"

ACTIONS = ["SetConfigAccepted", "SetConfigRejected", "Query", "TestUpstreams", "UpstreamFails", "UpstreamRecovers", "Observe"]

# cost model of the replay (seconds): an accepted dns_config restarts the
# server (Reconfigure sleeps 100 ms), everything else is a round trip.
C_ACC, C_REJ, C_ASK, C_TOUR = 0.112, 0.004, 0.003, 0.06


def canon(x):
    return json.dumps(x, sort_keys=True, separators=(",", ":"))


# ------------------------------------------------------------ classification
def list_empty(l):
    return not l["gen"] and not l["secs"] and not l["self"]


GOOD_BOOT = {"b1", "b2", "empty", "-"}


def classify(rec):
    """Narrow classification of a reproduced disagreement (direction A record
    or the equivalent record built from a rejected trace line)."""
    act, got = rec.get("act") or {}, rec.get("got") or {}
    if act.get("a") != "set" or not isinstance(got, dict):
        return None
    req, pre = act["req"], rec.get("pre")
    has = set(req["has"])
    want = sorted(r["code"] for r in act["res"])
    if pre is None:
        return None
    if any(req[f]["bad"] != "ok" for f in ("up", "fb", "ptr")) or req["boot"] not in GOOD_BOOT:
        return None
    # local_ptr_upstreams is sent WITHOUT use_private_ptr_resolvers, emptied,
    # while private rDNS is on and neither list nor OS provides a server: the
    # specification rejects (400), the server answers 500 and stops serving.
    if ("ptr" in has and "use" not in has and list_empty(req["ptr"]) and pre["cfg"]["use"] and not pre["sys"]
            and want == [400] and got.get("code") == 500):
        return K_CLEAR
    # use_private_ptr_resolvers=true is sent WITHOUT local_ptr_upstreams while
    # valid servers are stored (and the OS provides none): the specification
    # accepts, the server validates against an empty list and answers 400.
    if ("use" in has and "ptr" not in has and req["use"] and pre["cfg"]["ptr"]["gen"] and not pre["sys"]
            and want == [200] and got.get("code") == 400):
        return K_ENABLE
    return None


# ------------------------------------------------------------- spec -> graph
class Graph:
    """The state graph of one universe as TLC printed it."""

    def __init__(self, uni, vectors):
        self.uni = uni
        self.tab = {}       # (cfgkey, syskey, downkey) -> table
        self.edges = {}     # (cfgkey, syskey) -> [edge]
        self.cfg = {}       # cfgkey -> cfg
        self.canfail = set()
        self.tests = {}     # (syskey, downkey) -> [test]
        for v in vectors:
            ck, sk, dk = canon(v["cfg"]), canon(sorted(v["sys"])), canon(sorted(v["down"]))
            self.cfg[ck] = v["cfg"]
            self.tab[(ck, sk, dk)] = sorted(v["tab"], key=canon)
            if v.get("tests"):
                self.tests[(sk, dk)] = sorted(v["tests"], key=canon)
            if not v["down"]:
                self.edges[(ck, sk)] = sorted(v["edges"], key=canon)
                self.canfail |= set(v["canfail"])
        self.canfail = sorted(self.canfail)
        self.nedges = sum(len(e) for e in self.edges.values())

    def inits(self, cfg0key):
        return sorted(n for n in self.edges if n[0] == cfg0key)


CFG0 = {"up": {"gen": ["u1"], "secs": [], "self": False, "bad": "ok"},
        "fb": {"gen": [], "secs": [], "self": False, "bad": "ok"}, "boot": "b1",
        "ptr": {"gen": [], "secs": [], "self": False, "bad": "ok"}, "use": False}


def gray(items):
    """Toggle sequence visiting every subset of items once (Gray code)."""
    seq = []
    for i in range(1, 2 ** len(items)):
        seq.append(items[(i & -i).bit_length() - 1])
    return seq


def ask_steps(g, node, down, rng=None, sample=None):
    tab = g.tab[(node[0], node[1], canon(sorted(down)))]
    rows = tab if sample is None or sample >= len(tab) else rng.sample(tab, sample)
    return [{"a": "ask", "loc": r["loc"], "q": r["q"], "alts": r["alts"]} for r in rows]


def test_steps(g, node, down, rng, n):
    """test_upstream_dns calls: their outcome does not depend on the stored
    configuration, so they may be made in any state."""
    tests = g.tests.get((node[1], canon(sorted(down))), [])
    return [{"a": "test", "req": t["req"], "out": t["out"]} for t in rng.sample(tests, min(n, len(tests)))]


def plan(g, rng, budget, tour_len, known_open):
    """Greedy edge-covering tours from the initial states.  Returns (tours,
    stats).  An edge with several admissible results, or one that an open
    known finding stops at, can only be the last step of a tour."""
    cfg0 = canon(CFG0)
    inits = g.inits(cfg0)
    if not inits:
        raise vlib.Inconclusive("universe %s: initial state not printed" % g.uni)
    # successor by deterministic accepted edges
    succ = {}
    for node, es in g.edges.items():
        for i, e in enumerate(es):
            if len(e["res"]) == 1 and e["res"][0]["code"] == 200:
                dst = (canon(e["res"][0]["cfg"]), node[1])
                succ.setdefault(node, []).append((i, dst))
    uncovered = {node: set(range(len(es))) for node, es in g.edges.items()}
    n_unc = sum(len(s) for s in uncovered.values())
    visited, walked = set(), set()
    tours, cost, covered, nd_edges, cut = [], 0.0, 0, 0, 0

    def path_to_uncovered(src):
        """BFS over deterministic accepted edges to the nearest node with an
        uncovered edge; returns the list of (node, edge index)."""
        if uncovered[src]:
            return []
        prev, queue, seen = {}, collections.deque([src]), {src}
        while queue:
            n = queue.popleft()
            for i, d in succ.get(n, []):
                if d in seen or d not in g.edges:
                    continue
                seen.add(d)
                prev[d] = (n, i)
                if uncovered[d]:
                    path = []
                    while d != src:
                        n2, i2 = prev[d]
                        path.append((n2, i2))
                        d = n2
                    return path[::-1]
                queue.append(d)
        return None

    def arrive(steps, node, first_set):
        """Questions asked on arrival in a state."""
        c = 0.0
        if node not in walked and g.canfail:
            walked.add(node)
            down = set()
            steps += ask_steps(g, node, down)
            for u in gray(g.canfail):
                on = u not in down
                down ^= {u}
                steps.append({"a": "down", "u": u, "on": on})
                steps += ask_steps(g, node, down)
                steps += test_steps(g, node, down, rng, 1)
                c += C_ASK * (2 + len(g.tab[(node[0], node[1], canon(sorted(down)))]))
            for u in sorted(down):
                steps.append({"a": "down", "u": u, "on": False})
        else:
            walked.add(node)
            a = ask_steps(g, node, set()) + test_steps(g, node, set(), rng, 1)
            steps += a
            c += C_ASK * len(a)
        return c

    order = list(inits)
    while n_unc > 0 and cost < budget:
        init = order[len(tours) % len(order)]
        if path_to_uncovered(init) is None:
            order = [n for n in order if n != init]
            if not order:
                break
            continue
        cur, steps, acc, tcost = init, [], 0, C_TOUR
        if init not in visited:
            visited.add(init)
            tcost += arrive(steps, init, True)
        while acc < tour_len and len(steps) < 600:
            path = path_to_uncovered(cur)
            if path is None:
                break
            ended = False
            for n, i in path:          # transit over covered edges
                e = g.edges[n][i]
                steps.append({"a": "set", "req": e["req"], "res": e["res"]})
                cur = (canon(e["res"][0]["cfg"]), n[1])
                acc += 1
                tcost += C_ACC
                a = ask_steps(g, cur, set(), rng, 2)
                steps += a
                tcost += C_ASK * len(a)
            # take uncovered edges here: rejected ones first (they do not move)
            idx = sorted(uncovered[cur], key=lambda i: (g.edges[cur][i]["res"][0]["code"] == 200 and len(g.edges[cur][i]["res"]) == 1, rng.random()))
            i = idx[0]
            e = g.edges[cur][i]
            uncovered[cur].discard(i)
            n_unc -= 1
            covered += 1
            steps.append({"a": "set", "req": e["req"], "res": e["res"]})
            pre = {"cfg": g.cfg[cur[0]], "sys": json.loads(cur[1])}
            key = classify({"act": steps[-1], "got": {"code": 500 if 400 in [r["code"] for r in e["res"]] else 400}, "pre": pre})
            if len(e["res"]) > 1:
                nd_edges += 1
                ended = True
            elif key in known_open:
                cut += 1
                ended = True
            elif e["res"][0]["code"] == 200:
                cur = (canon(e["res"][0]["cfg"]), cur[1])
                acc += 1
                tcost += C_ACC
                if cur in g.edges:
                    if cur not in visited:
                        visited.add(cur)
                        tcost += arrive(steps, cur, False)
                    else:
                        a = ask_steps(g, cur, set())
                        steps += a
                        tcost += C_ASK * len(a)
            else:
                tcost += C_REJ
                a = ask_steps(g, cur, set(), rng, 2)
                steps += a
                tcost += C_ASK * len(a)
            if ended:
                break
        tours.append({"uni": g.uni, "sys": json.loads(init[1]), "steps": steps})
        cost += tcost
    # What is left when the budget was not the limit can only be reached through
    # a step with several admissible results or one an open finding stops at.
    return tours, {"edges": g.nedges, "edges_planned": covered, "states": len(g.edges), "states_visited": len(visited & set(g.edges)),
                   "nd_edges_planned": nd_edges, "tours_ended_by_known_finding": cut, "cost_s": round(cost, 1),
                   "stopped_by_budget": bool(n_unc > 0 and cost >= budget),
                   "edges_behind_nondeterministic_or_known_finding_steps": 0 if cost >= budget else n_unc}


# ------------------------------------------------------------------- TLC side
def action_counts(out):
    res = {}
    for m in re.finditer(r"^<(\w+) line \d+, col \d+ to line \d+, col \d+ of module \w+>: (\d+):(\d+)$", out, re.M):
        res[m.group(1)] = (int(m.group(2)), int(m.group(3)))
    return res


def model_check(ctx):
    unis = ["selq", "val", "ptr"] if ctx.quick else ["sel", "val", "ptr"]
    res, errs = {}, []

    def one(u):
        try:
            # The "ptr" universe takes every action: it doubles as the vacuity run.
            res[u] = ctx.tlc("Upstreams", "Upstreams.%s.cfg" % u, workers=4, timeout=600, heap="4g", coverage=(u == "ptr"))
        except Exception as e:      # noqa: BLE001
            errs.append(e)

    ths = [threading.Thread(target=one, args=(u,)) for u in unis]
    for t in ths:
        t.start()
    for t in ths:
        t.join()
    if errs:
        raise errs[0]
    cnt = action_counts(res["ptr"]["out"])
    for a in ACTIONS:
        if cnt.get(a, (0, 0))[1] == 0 and cnt.get(a, (0, 0))[0] == 0:
            raise vlib.Inconclusive("vacuous: action %s of Upstreams never taken (%s)" % (a, cnt))
    graphs = {}
    for u in unis:
        r = res[u]
        if len(r["vectors"]) != r["distinct"]:
            raise vlib.Inconclusive("universe %s: %d states printed, %d distinct states" % (u, len(r["vectors"]), r["distinct"]))
        graphs[u] = Graph(u, r["vectors"])
        ctx.log("universe %s: %d states (%d configurations), %d dns_config edges" % (u, r["distinct"], len(graphs[u].edges), graphs[u].nedges))
    return graphs, cnt


# -------------------------------------------------------------------- Go side
def go_replay(ctx, tours, tag, workers, timeout):
    tin, tout = ctx.path("g11_tours_%s.ndjson" % tag), ctx.path("g11_replay_%s.ndjson" % tag)
    vlib.write_ndjson(tin, tours)
    rc, out = ctx.go_test(PKG, FILES, "^TestZZVerifG11Replay$", env={"VERIF_IN": tin, "VERIF_OUT": tout, "VERIF_G11_WORKERS": str(workers)},
                          timeout=timeout, go_timeout="%ds" % timeout)
    rows = vlib.read_ndjson(tout)
    summ = [r for r in rows if r.get("kind") == "summary"]
    if rc != 0 or not summ:
        raise vlib.Inconclusive("G11 replay harness did not complete:\n" + out[-3000:])
    return rows, summ[0]["stats"]


def record_traces(ctx, tag, n, only=None):
    tout = ctx.path("g11_trace_%s.ndjson" % tag)
    env = {"VERIF_OUT": tout, "VERIF_G11_HISTORIES": str(n), "VERIF_G11_WORKERS": "24"}
    if only is not None:
        env["VERIF_G11_ONLY"] = ",".join(str(h) for h in only)
    rc, out = ctx.go_test(PKG, FILES, "^TestZZVerifG11Trace$", env=env, timeout=900, go_timeout="900s")
    rows = vlib.read_ndjson(tout)
    if rc != 0 or not rows:
        raise vlib.Inconclusive("G11 trace driver did not complete:\n" + out[-3000:])
    return rows


def validate(ctx, rows, tag):
    """Validate recorded lines with TraceUpstreams.tla; returns {line number
    (1-based): detail} of the rejected lines."""
    p = ctx.path("g11_trace_%s_tlc.ndjson" % tag)
    vlib.write_ndjson(p, [{k: v for k, v in r.items() if k != "concrete"} for r in rows])
    r = ctx.tlc("TraceUpstreams", "TraceUpstreams.cfg", workers=1, extra_files=[(p, "trace.ndjson")], timeout=900, heap="4g")
    verdicts = [v for v in r["vectors"] if v.get("k") == "verdict"]
    if not verdicts:
        raise vlib.Inconclusive("TraceUpstreams produced no verdict")
    if verdicts[-1]["n"] != len(rows):
        raise vlib.Inconclusive("TraceUpstreams consumed %s of %d lines" % (verdicts[-1]["n"], len(rows)))
    det = {v["line"]: v["detail"] for v in r["vectors"] if v.get("k") == "bad"}
    if sorted(det) != sorted(verdicts[-1]["bad"]):
        raise vlib.Inconclusive("TraceUpstreams: rejected lines %s, details for %s" % (verdicts[-1]["bad"], sorted(det)))
    return det


def in_history(rows, i):
    """(history, index within the history) of line i (1-based)."""
    h = rows[i - 1]["h"]
    return h, sum(1 for r in rows[:i] if r["h"] == h)


def trace_record(rows, i, detail, seed):
    row = rows[i - 1]
    h, k = in_history(rows, i)
    hist = [r.get("concrete", "%s %s" % (r["k"], r.get("u", ""))) for r in rows[:i] if r["h"] == h and r["k"] != "ask"]
    rec = {"kind": "trace", "h": h, "line_in_history": k, "seed": seed, "pre": detail.get("pre"), "concrete": hist[-12:] + [row.get("concrete")]}
    if row["k"] == "set":
        rec["act"] = {"a": "set", "req": row["req"], "res": [{"code": c} for c in detail["codes"]]}
        rec["got"] = {"code": row["code"], "info": row["info"], "infobad": row["infobad"]}
        rec["what"] = "history %d line %d: %s; the specification admits %s%s" % (
            h, k, row.get("concrete"), detail["codes"], ("; dns_info: " + row["infobad"]) if row["infobad"] else
            ("" if row["code"] not in detail["codes"] else "; dns_info does not report the configuration in effect: %s" % json.dumps(row["info"])[:600]))
    else:
        rec["act"] = {"a": "ask", "loc": row["loc"], "q": row["q"], "alts": detail["alts"]}
        rec["got"] = row["obs"]
        rec["what"] = "history %d line %d: %s; admissible %s; configuration %s, not responding %s" % (
            h, k, row.get("concrete"), json.dumps(detail["alts"]), json.dumps(detail["pre"]["cfg"]), detail.get("down"))
    return rec


def direction_b(ctx, n):
    rows = record_traces(ctx, "b", n)
    det = validate(ctx, rows, "b")
    confirmed = []
    if det:
        hs = sorted({rows[i - 1]["h"] for i in det})
        rows2 = record_traces(ctx, "b_again", n, only=hs)
        det2 = validate(ctx, rows2, "b_again")
        first = {in_history(rows, i) for i in det}
        for i, d in sorted(det2.items()):
            if in_history(rows2, i) in first:
                confirmed.append(trace_record(rows2, i, d, ctx.seed))
        ctx.log("TraceUpstreams: %d rejected lines in %d histories, %d confirmed on regeneration" % (len(det), len(hs), len(confirmed)))
    # Binding demonstration: a corrupted observation must be rejected at its line.
    demo = None
    head = [dict(r) for r in rows[:400]]
    for i, r in enumerate(head):
        if r["k"] == "ask" and r["obs"]["cls"] == "up" and (i + 1) not in det:
            other = [u for u in ("u1", "u2", "u3", "u4") if u not in r["obs"]["rcv"]]
            if not other:
                continue
            r["obs"] = dict(r["obs"], by=other[0], rcv=r["obs"]["rcv"] + [other[0]])
            d3 = validate(ctx, head, "b_demo")
            if (i + 1) not in d3:
                raise vlib.Inconclusive("binding demonstration: corrupted trace line %d was accepted" % (i + 1))
            demo = {"line": i + 1, "corrupted_obs": r["obs"], "rejected": True}
            break
    if demo is None:
        raise vlib.Inconclusive("binding demonstration: no forwarded question among the first trace lines")
    return rows, det, confirmed, demo


def pre_of(tour, step):
    """The specification's state before step `step` of a tour (for the
    classifier): the configuration of the last accepted dns_config."""
    cfg = CFG0
    for st in tour["steps"][:step]:
        if st["a"] == "set" and len(st["res"]) == 1 and st["res"][0]["code"] == 200:
            cfg = st["res"][0]["cfg"]
    return {"cfg": cfg, "sys": tour["sys"]}


def run(ctx):
    rng = random.Random(ctx.seed)
    graphs, cnt = model_check(ctx)
    known_open = {k for (p, k), v in vlib.known_findings().items() if p == ctx.prop and v.get("status") == "open"}

    # ---- direction A
    workers = 24 if ctx.quick else 32
    wall = 22 if ctx.quick else 250
    share = {"selq": 0.5, "sel": 0.55, "val": 0.3, "ptr": 0.15}
    tours, pstats = [], {}
    for u, g in graphs.items():
        ts, st = plan(g, rng, workers * wall * share[u], 25 if u.startswith("sel") else 12, known_open)
        pstats[u] = st
        tours += ts
        ctx.log("plan %s: %s" % (u, st))
    rng.shuffle(tours)
    for i, t in enumerate(tours):
        t["id"] = i
    if not tours:
        raise vlib.Inconclusive("no tours planned")
    rows, stats = go_replay(ctx, tours, "a", workers, 900 if ctx.quick else 1500)
    ctx.log("replay: %s" % stats)
    bad = [r for r in rows if r.get("kind") == "bad"]
    flaky = [r for r in rows if r.get("kind") == "flaky"]
    errors = [r for r in rows if r.get("kind") == "error"]
    by_key = {}
    for r in bad:
        r["pre"] = pre_of(tours[r["tour"]], r["step"])
        key = classify(r)
        verdict = ctx.disagreement(key, {k: r[k] for k in ("uni", "what", "act", "got", "pre", "concrete", "replay")} | {"seed": ctx.seed},
                                   "universe %s: %s" % (r["uni"], r["what"]))
        if verdict == "known":
            by_key[key] = by_key.get(key, 0) + 1
    if errors and not ctx.violations:
        if len(errors) > max(2, len(tours) // 50):
            raise vlib.Inconclusive("%d tours could not be run, e.g. %s" % (len(errors), errors[0]))
    if len(flaky) > 3 and not ctx.violations:
        raise vlib.Inconclusive("%d non-reproducible disagreements, e.g. %s" % (len(flaky), json.dumps(flaky[0])[:800]))
    if stats.get("tours", 0) != len(tours):
        raise vlib.Inconclusive("harness ran %s of %d tours" % (stats.get("tours"), len(tours)))

    # ---- direction B
    trows, tdet, tconf, demo = direction_b(ctx, 150 if ctx.quick else 1200)
    for rec in tconf:
        key = classify(rec)
        verdict = ctx.disagreement(key, rec, rec["what"])
        if verdict == "known":
            by_key["trace:" + key] = by_key.get("trace:" + key, 0) + 1
    tkinds = collections.Counter(r["k"] for r in trows)
    tcodes = collections.Counter(r["code"] for r in trows if r["k"] == "set")
    tcls = collections.Counter(r["obs"]["cls"] for r in trows if r["k"] == "ask")
    if min(tkinds.get(k, 0) for k in ("reset", "set", "down", "ask")) < 10 or tcodes.get(200, 0) < 10 or tcodes.get(400, 0) < 10 \
            or min(tcls.get(c, 0) for c in ("up", "nx", "local", "fail")) < 3:
        raise vlib.Inconclusive("vacuous traces: %s %s %s" % (dict(tkinds), dict(tcodes), dict(tcls)))

    exhaustive = not any(st["stopped_by_budget"] for st in pstats.values())
    nontrivial = len({(t["uni"], canon({k: v for k, v in s.items() if k != "a"})) for t in tours for s in t["steps"]
                      if (s["a"] == "set" and s["res"][0]["code"] == 400)
                      or (s["a"] == "ask" and any(a["must"] or len(a["may"]) > 1 or a["cls"] in ("nx", "local", "fail") for a in s["alts"]))})
    samples = []
    for t in tours[:2]:
        samples.append({"tour": t["id"], "uni": t["uni"], "sys": t["sys"], "steps": t["steps"][:3]})
    cov = {
        "traces_validated_against_impl": len(tours) + tkinds.get("reset", 0),
        "evaluations": stats.get("set", 0) + stats.get("ask", 0) + stats.get("test", 0) + tkinds.get("set", 0) + tkinds.get("ask", 0),
        "trace_lines": len(trows), "trace_histories": tkinds.get("reset", 0), "trace_lines_rejected": len(tdet),
        "trace_lines_rejected_confirmed": len(tconf), "trace_status_codes": {str(k): v for k, v in tcodes.items()},
        "trace_response_classes": dict(tcls), "binding_demo": demo,
        "tours": len(tours), "dns_config_calls": stats.get("set", 0), "dns_config_accepted": stats.get("accepted", 0),
        "questions": stats.get("ask", 0), "test_upstream_dns_calls": stats.get("test", 0), "plan": pstats,
        "distinct_nontrivial": nontrivial,
        "rule": "an evaluation is one dns_config call (status code, dns_info and server liveness compared with the specification's result) or one "
                "question sent over UDP (receiving mocks, answering mock and response class compared with the admissible outcomes of the "
                "specification's verdict table); non-trivial = distinct (request, admissible results) pairs of rejected dns_config calls and distinct "
                "(locality, question, admissible outcomes) triples whose outcome is a local answer / NXDOMAIN / SERVFAIL, names several "
                "upstreams, or demands that failing upstreams were tried first",
        "flaky": len(flaky), "tours_not_run": len(errors), "steps_cut_after_disagreement": stats.get("cut", 0),
        "truncated_by_known_finding": sum(st["tours_ended_by_known_finding"] for st in pstats.values()),
        "histories_ended_by_known_finding": by_key,
        "action_coverage": {a: cnt.get(a) for a in ACTIONS},
        "exhaustive": exhaustive, "samples": samples,
    }
    return ctx.finish("model_checking", cov, assumptions=[
        "TLC; the concretisation / abstraction of zz_verif_g11_test.go (rendering of abstract lists into lines, letter case, comments, "
        "which mock received a question = request id + name, answering mock = its sentinel record)",
        "a failing upstream is a mock that records the question and fails the exchange at once (UDP: malformed reply, TCP: closes)",
        "dns.private_networks = 10/8, 192.168/16, 127.0.0.0/9, so that 127.200.0.1 is an outside client that can reach the rig over UDP",
        "the operating system's resolver list is a fake (Server.sysResolvers), as in the package's own tests"])


def replay(ctx, path):
    rec = json.load(open(path))["record"]
    if rec.get("kind") == "trace":
        ctx.seed = rec["seed"]
        rows = record_traces(ctx, "replay", 0, only=[rec["h"]])
        det = validate(ctx, rows, "replay")
        print(json.dumps({"history": rec["h"], "stored_line": rec["line_in_history"], "rejected_lines": sorted(det),
                          "lines": [{"line": rows[i - 1].get("concrete"), "specification": {k: v for k, v in d.items() if k != "pre"}} for i, d in sorted(det.items())][:3],
                          "verdict": "DISAGREEMENT" if det else "accepted"}, indent=1)[:6000])
        return 1 if det else 0
    tour = rec["replay"]
    tour["id"] = 0
    ctx.seed = rec.get("seed", ctx.seed)
    rows, stats = go_replay(ctx, [tour], "replay", 1, 600)
    bad = [r for r in rows if r.get("kind") in ("bad", "flaky")]
    last = tour["steps"][-1]
    print(json.dumps({"history": [("dns_config %s" % s["req"]["has"]) if s["a"] == "set" else ("%s down=%s" % (s["u"], s.get("on", False))) if s["a"] == "down"
                                  else s["a"] for s in tour["steps"]][-12:],
                      "expected": last.get("res") and [{"code": r["code"]} for r in last["res"]] or last.get("alts") or last.get("out"),
                      "observed": [{"what": b["what"], "got": b["got"]} for b in bad] or "admissible",
                      "verdict": "DISAGREEMENT" if bad else "admissible"}, indent=1)[:6000])
    return 1 if bad else 0
