--------------------------- MODULE SafeSearchCore ---------------------------
(***************************************************************************)
(* G03 -- safe search enforcement: the decision, written from the          *)
(* behavioural statement in notes/G03.md (README "Force Safe search on     *)
(* search engines", openapi SafeSearchConfig / Client.safe_search, the     *)
(* CHANGELOG entries on per-service switches, AAAA handling (#5913) and    *)
(* CNAME answers (#6352), and the doc comments of package safesearch).     *)
(*                                                                         *)
(* This module has no variables.  It is the vocabulary shared by           *)
(* SafeSearch.tla (decision table + state machine, explored exhaustively   *)
(* by TLC and replayed into the real code) and TraceSafeSearch.tla         *)
(* (validation of histories recorded from the real code), so that both     *)
(* directions bind the code to one text.                                   *)
(*                                                                         *)
(* The rule table SSRules is NOT written here: it is generated at every    *)
(* run from the repository's own rule files (module SafeSearchRules, see   *)
(* checks/g03_rules.py): one record [host, svc, rr, val] per line          *)
(*        |host^$dnsrewrite=NOERROR;rr;val                                 *)
(* of the file that rules.go embeds for service svc.  By the adblock rule  *)
(* syntax `|` anchors the beginning of the name and `^` is a separator or  *)
(* the end; no character of a host name is a separator, so the line covers *)
(* exactly the name `host` (compared case-insensitively, as DNS names      *)
(* are): not its subdomains, not its parent, not a longer name that        *)
(* merely starts or ends with it.                                          *)
(***************************************************************************)
EXTENDS Naturals, FiniteSets, Sequences, SafeSearchRules

(***************************************************************************)
(* Settings: the object of PUT /control/safesearch/settings, of GET        *)
(* /control/safesearch/status and of a persistent client's `safe_search`   *)
(* -- the master switch and the set of services whose switch is on.        *)
(***************************************************************************)
Confs(S) == [en : BOOLEAN, sv : SUBSET S]
OffConf  == [en |-> FALSE, sv |-> {}]

(***************************************************************************)
(* The persistent client of a request, if any.  own = "it does not use the *)
(* global settings" (use_global_settings = false).                         *)
(***************************************************************************)
NoClient == [known |-> FALSE, own |-> FALSE, conf |-> OffConf]

(***************************************************************************)
(* Verdicts.  pass: safe search does not touch the query.  cname: the      *)
(* query is answered with the service's safe host as canonical name.  ip:  *)
(* the query is answered with the fixed safe address.  nodata: the name is *)
(* covered by an address rule of the other family -- the answer is empty   *)
(* (never the unrestricted upstream answer; CHANGELOG #5913).              *)
(***************************************************************************)
Pass == [k |-> "pass", v |-> ""]

\* Only address-like questions are rewritten (safesearch.go: "qtype must be
\* either A or AAAA, or HTTPS"); every other type passes.
RewrittenTypes == {"A", "AAAA", "HTTPS"}

VerdictOf(r, qt) ==
    IF r.rr = "CNAME" THEN [k |-> "cname", v |-> r.val]
    ELSE IF r.rr = qt THEN [k |-> "ip", v |-> r.val]
    ELSE [k |-> "nodata", v |-> ""]

\* The rule lines covering a (lower-cased) name.
Covering(lname) == {r \in SSRules : r.host = lname}

(***************************************************************************)
(* Decide: the SET of admissible verdicts for a question under enabled     *)
(* services sv.  It has one element unless two enabled services list the   *)
(* same host with different targets (the documentation does not say which  *)
(* wins; does not occur in today's files).                                 *)
(***************************************************************************)
Decide(sv, lname, qt) ==
    IF qt \notin RewrittenTypes THEN {Pass}
    ELSE LET rs == {r \in Covering(lname) : r.svc \in sv} IN
         IF rs = {} THEN {Pass} ELSE {VerdictOf(r, qt) : r \in rs}

(***************************************************************************)
(* Whose settings count.  who = "client": the request is attributed to the *)
(* persistent client cl; "other": to nobody.  The client's own safe-search *)
(* object takes precedence exactly when the client opts out of the global  *)
(* settings.  Protection off (the umbrella switch: "whether or not use any *)
(* of filtering features") disables safe search; the `filtering_enabled`   *)
(* switches ("whether or not use filter lists") do not concern it.         *)
(***************************************************************************)
UsesOwn(cl, who)      == who = "client" /\ cl.known /\ cl.own
Effective(g, cl, who) == IF UsesOwn(cl, who) THEN cl.conf ELSE g
Applies(g, cl, who, prot) == prot /\ Effective(g, cl, who).en

Answer(g, cl, who, prot, lname, qt) ==
    IF Applies(g, cl, who, prot) THEN Decide(Effective(g, cl, who).sv, lname, qt) ELSE {Pass}

(***************************************************************************)
(* What the DNS server answers for a verdict (dnsforward).  upq: the name  *)
(* asked upstream ("" = upstream not asked); cname: target of the leading  *)
(* CNAME record ("" = none); addr: the single address answered locally;    *)
(* fromup: the rest of the answer section is the upstream's answer for     *)
(* upq.  The question section of the reply is always the original one.     *)
(***************************************************************************)
Response(v, lname) ==
    CASE v.k = "pass"   -> [upq |-> lname, cname |-> "",  addr |-> "",  fromup |-> TRUE]
      [] v.k = "cname"  -> [upq |-> v.v,   cname |-> v.v, addr |-> "",  fromup |-> TRUE]
      [] v.k = "ip"     -> [upq |-> "",    cname |-> "",  addr |-> v.v, fromup |-> FALSE]
      [] v.k = "nodata" -> [upq |-> "",    cname |-> "",  addr |-> "",  fromup |-> FALSE]

(***************************************************************************)
(* Remembered results.  An engine MAY remember a non-pass verdict for at   *)
(* most TTL ticks after it last decided the question, and must forget      *)
(* everything when its settings are replaced.  The verdict never depends   *)
(* on what is remembered.  A memory is a set of [n, q, age]; the           *)
(* specification keeps the LARGEST admissible memory: the real one must be *)
(* a subset.  Because the real engine may forget early (eviction) and then *)
(* decide the question anew, a rewritten answer makes the admissible entry *)
(* young again (age 0) whether or not one was there.                       *)
(***************************************************************************)
Keys(m) == {[n |-> e.n, q |-> e.q] : e \in m}
Touch(m, lname, qt) ==
    {e \in m : ~(e.n = lname /\ e.q = qt)} \cup {[n |-> lname, q |-> qt, age |-> 0]}
Age(m, ttl) == {[e EXCEPT !.age = @ + 1] : e \in {x \in m : x.age + 1 < ttl}}

Hit(out) == Pass \notin out
=============================================================================
