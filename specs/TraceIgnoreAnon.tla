-------------------------- MODULE TraceIgnoreAnon --------------------------
(***************************************************************************)
(* Direction B for C08.  The Go driver (TestZZVerifC08Trace) runs random   *)
(* server lives over a larger universe than IgnoreAnon.tla enumerates      *)
(* (8-bit address vectors of which the low 4 are the anonymised part,      *)
(* names of up to five labels, lists of up to three patterns, random       *)
(* persistent client, random second configuration) and writes              *)
(*                                                                         *)
(*   t = "q"  one line per query: the configuration it was recorded under  *)
(*            (rec), the configuration the log API was finally asked under *)
(*            (cur), the abstract query, and where its entry showed up:    *)
(*            api0 (log API right after recording), file (querylog.json at *)
(*            the end), api1 (log API under cur; store says whether the    *)
(*            entry then lived in the memory buffer or in the file), each  *)
(*            with the address as stored / reported, abstracted;           *)
(*   t = "s"  one line per server life: all queries, and the contents of   *)
(*            the statistics unit (per-name and per-client counters, the   *)
(*            top-client addresses).                                       *)
(*                                                                         *)
(* Every line is judged with IgnoreAnonCore's own operators -- the same    *)
(* text the exhaustive model uses.  A line yields a set of codes; the code  *)
(* "lost" only says that an expected entry was not seen (observation       *)
(* channel sanity, not a violation of C08).                                *)
(***************************************************************************)
EXTENDS Sequences, Naturals, FiniteSets, TLC, Json, SequencesExt

Trace == ndJsonDeserialize("trace.ndjson")

INSTANCE IgnoreAnonCore WITH LowBits <- 4

VARIABLES l, bad, lost
tvars == <<l, bad, lost>>

\* JSON arrays arrive as sequences; the core wants sets of patterns.
Cfg(j) == [ignQ |-> ToSet(j.ignQ), ignS |-> ToSet(j.ignS), client |-> j.client,
           flagQ |-> j.flagQ, flagS |-> j.flagS, anon |-> j.anon,
           qlogOn |-> j.qlogOn, statsOn |-> j.statsOn, refuseAny |-> j.refuseAny,
           extra |-> ToSet(j.extra)]

\* An observed address: the embedded vector plus "rest" = 1 when any of the
\* remaining real low bits is set.
Obs(o)     == [fam |-> o.fam, bits |-> o.bits]
ObsAnon(o) == o.fam \in {"v4", "v6", "m4"} /\ o.rest = 0 /\ IsAnon(Obs(o))

QLine(j) ==
    LET rec == Cfg(j.rec)
        cur == Cfg(j.cur)
        q   == j.q
        v0  == LogVerdict(rec, q)
        v1  == ApiVerdict(rec, cur, q)
    IN  (IF j.api0 /\ IsNo(v0) THEN {"api0:" \o j.store \o ":" \o v0} ELSE {})
   \cup (IF j.file /\ IsNo(v0) THEN {"file:file:" \o v0} ELSE {})
   \cup (IF j.api1 /\ IsNo(v1) THEN {"api1:" \o j.store \o ":" \o v1} ELSE {})
   \cup (IF rec.anon /\ j.api0 /\ ~ObsAnon(j.api0addr) THEN {"anon:api0"} ELSE {})
   \cup (IF rec.anon /\ j.file /\ ~ObsAnon(j.fileaddr) THEN {"anon:file"} ELSE {})
   \cup (IF cur.anon /\ j.api1 /\ ~ObsAnon(j.api1addr) THEN {"anon:api1"} ELSE {})
   \cup (IF v0 = "yes" /\ ~j.api0 THEN {"lost"} ELSE {})
   \cup (IF v0 = "yes" /\ ~j.file THEN {"lost"} ELSE {})
   \cup (IF v1 = "yes" /\ ~j.api1 THEN {"lost"} ELSE {})

\* The statistics key a counted query is filed under.
KeyOf(rec, q) == IF q.cid # "" THEN [cid |-> q.cid, addr |-> [fam |-> "none", bits |-> <<>>]]
                 ELSE [cid |-> "", addr |-> Plain(StoredAddr(rec, q))]
ObsKey(k)     == IF k.cid # "" THEN [cid |-> k.cid, addr |-> [fam |-> "none", bits |-> <<>>]]
                 ELSE [cid |-> "", addr |-> Plain(Obs(k.addr))]

\* A counter may not exceed what the non-ignored queries account for.  "A"
\* marks an excess that the queries whose only reason is the anonymised
\* client identity could explain (classification of the known finding).
Bound(code, rec, sel, count) ==
    LET mx == Cardinality({i \in DOMAIN sel : ~IsNo(CountVerdict(rec, sel[i]))})
        mn == Cardinality({i \in DOMAIN sel : CountVerdict(rec, sel[i]) = "yes"})
        nA == Cardinality({i \in DOMAIN sel : CountVerdict(rec, sel[i]) = "no:R:A"})
    IN  IF count > mx + nA THEN {"cnt:" \o code}
        ELSE IF count > mx THEN {"cntA:" \o code}
        ELSE IF count < mn THEN {"lost"}
        ELSE {}

\* A reported top-client address must be the key of some countable query.
TopBound(rec, sel) ==
    LET mx == Cardinality({i \in DOMAIN sel : ~IsNo(CountVerdict(rec, sel[i]))})
        nA == Cardinality({i \in DOMAIN sel : CountVerdict(rec, sel[i]) = "no:R:A"})
    IN  IF mx > 0 THEN {} ELSE IF nA > 0 THEN {"cntA:top"} ELSE {"cnt:top"}

SLine(j) ==
    LET rec == Cfg(j.rec)
        qs  == j.qs
        ByName(n) == SelectSeq(qs, LAMBDA q : q.name = n)
        ByKey(k)  == SelectSeq(qs, LAMBDA q : KeyOf(rec, q) = k)
    IN  Bound("total", rec, qs, j.total)
   \cup UNION {Bound("name", rec, ByName(j.names[i].name), j.names[i].count) : i \in DOMAIN j.names}
   \cup UNION {Bound("key", rec, ByKey(ObsKey(j.keys[i])), j.keys[i].count) : i \in DOMAIN j.keys}
   \cup UNION {IF rec.anon /\ j.keys[i].cid = "" /\ ~ObsAnon(j.keys[i].addr) THEN {"anon:key"} ELSE {}
                 : i \in DOMAIN j.keys}
   \cup UNION {TopBound(rec, ByKey([cid |-> "", addr |-> Plain(Obs(j.top[i]))])) : i \in DOMAIN j.top}
   \cup UNION {IF rec.anon /\ ~ObsAnon(j.top[i]) THEN {"anon:top"} ELSE {} : i \in DOMAIN j.top}

Codes(j) == IF j.t = "q" THEN QLine(j) ELSE SLine(j)
IsLost(c) == c = "lost"

Init == l = 1 /\ bad = {} /\ lost = 0
Next == /\ l <= Len(Trace)
        /\ LET cs == Codes(Trace[l]) IN
             /\ bad'  = bad \cup {[l |-> l, c |-> c] : c \in {x \in cs : ~IsLost(x)}}
             /\ lost' = lost + (IF "lost" \in cs THEN 1 ELSE 0)
        /\ l' = l + 1
        /\ (l' = Len(Trace) + 1 =>
              PrintT(<<"@@V", ToJson([n |-> Len(Trace), bad |-> bad', lost |-> lost'])>>))
Spec == Init /\ [][Next]_tvars
=============================================================================
