------------------------ MODULE TraceFilterRefresh ------------------------
(***************************************************************************)
(* Direction B of the refresh half of C15.  trace.ndjson holds recorded    *)
(* histories of real DNSFilters with four lists (two block, two allow;     *)
(* some disabled, some local paths), driven by a seeded random sequence of *)
(* forced / scheduled refreshes and restarts against a server that plays   *)
(* random behaviours with random texts of up to hundreds of lines:         *)
(*   {ev: "boot", cfg}                       a new DNSFilter, empty dir;   *)
(*                                           cfg.cosm = the parser policy  *)
(*                                           the orchestrator measured     *)
(*   {ev: "step", act, script, obs, rew,     one action, the projected     *)
(*    sumchg}                                state observed after it, the  *)
(*                                           lists whose file was replaced *)
(*                                           and those whose remembered    *)
(*                                           checksum changed              *)
(* Every step must be a step of FilterRefreshCore: the observation must be *)
(* the projection of one of Results(cfg, S, act, script) resp. of          *)
(* Restarted(cfg, S); anything else is `bad`.                              *)
(* After a rejected step the specification state is re-synchronised with   *)
(* the observation so that one disagreement is reported once.              *)
(***************************************************************************)
EXTENDS TLC, Json, FiniteSets, Sequences, Naturals

Trace == ndJsonDeserialize("trace.ndjson")

TLists == {"b1", "b2", "a1", "a2"}
TBlock == {"b1", "b2"}
\* The rule atoms the harness probes through CheckHost.
Probed == {"R1", "R2", "R3", "R4", "R5", "R6"}

INSTANCE FilterRefreshCore WITH Lists <- TLists, Block <- TBlock

VARIABLES l, cfg, S, bad, odd
vars == <<l, cfg, S, bad, odd>>

SetOf(s) == {s[i] : i \in DOMAIN s}

\* Projection: rules in force are observable for single-atom rules only.
Atoms(E) == {r \in E : Len(r) = 1 /\ r[1] \in Probed}

ProjEq(st, obs) ==
    \A x \in TLists :
        /\ st.file[x].ex = obs.file[x].ex
        /\ st.file[x].rules = obs.file[x].rules
        /\ st.count[x] = obs.count[x]
        /\ Atoms(st.eng[x]) = SetOf(obs.eng[x])

Resync(obs) ==
    [file  |-> [x \in TLists |-> [ex |-> obs.file[x].ex, rules |-> obs.file[x].rules]],
     count |-> [x \in TLists |-> obs.count[x]],
     sum   |-> [x \in TLists |-> Sum(obs.file[x].rules)],
     eng   |-> [x \in TLists |-> SetOf(obs.eng[x])],
     en    |-> S.en]

Init == /\ l = 1
        /\ cfg = [enabled |-> [x \in TLists |-> TRUE], src |-> [x \in TLists |-> "http"], cosm |-> FALSE]
        /\ S = S0(cfg)
        /\ bad = {} /\ odd = {}

Boot == /\ Trace[l].ev = "boot"
        /\ cfg' = Trace[l].cfg
        /\ S' = S0(Trace[l].cfg)
        /\ UNCHANGED <<bad, odd>>

Step ==
    /\ Trace[l].ev = "step"
    /\ UNCHANGED cfg
    /\ LET r   == Trace[l]
           act == [a |-> r.act.a, mode |-> r.act.mode, kind |-> r.act.kind, due |-> SetOf(r.act.due)]
           rst == Restarted(cfg, S)
           \* the harness and the specification must agree on who is contacted
           sane == \/ act.a = "restart"
                   \/ /\ Selected(S, act) = DOMAIN r.script
                      /\ \A x \in DOMAIN r.script : WellFormed(r.script[x])
                      /\ r.contact_ok
       IN IF ~sane
          THEN /\ odd' = odd \cup {l}
               /\ S' = Resync(r.obs)
               /\ UNCHANGED bad
          ELSE \E cands \in {IF act.a = "restart"
                              THEN {[st |-> rst, rew |-> {}]}
                              ELSE Results(cfg, S, act, r.script)} :
               LET \* replaced files are observable for refreshes (a restart
                   \* replaces nothing; the inode is not looked at there)
                   rewOk(c) == act.a = "restart" \/ c.rew = SetOf(r.rew)
                   \* the remembered checksum changes exactly where the spec's does
                   sumOk(c) == {x \in TLists : c.st.sum[x] # S.sum[x]} = SetOf(r.sumchg)
               IN
               \E good \in {{c \in cands : ProjEq(c.st, r.obs) /\ rewOk(c) /\ sumOk(c)}} :
                  /\ odd' = odd
                  /\ IF good # {}
                     THEN S' = (CHOOSE c \in good : TRUE).st /\ UNCHANGED bad
                     ELSE S' = Resync(r.obs) /\ bad' = bad \cup {l}

Next == /\ l <= Len(Trace)
        /\ (Boot \/ Step)
        /\ l' = l + 1
        /\ (l' = Len(Trace) + 1 =>
              PrintT(<<"@@V", ToJson([n |-> Len(Trace), bad |-> bad', odd |-> odd'])>>))
Spec == Init /\ [][Next]_vars
=============================================================================
