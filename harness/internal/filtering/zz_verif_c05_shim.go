package filtering

import "time"

// ZZVerifRefreshStep runs one step of the periodic filter-refresh worker, as
// updatesLoop does when its timer fires.  Overlaid at build time by the C05
// check (never part of the repository): the worker's real timer fires after
// 5 s and then hourly, too rarely for a stress run.
func (d *DNSFilter) ZZVerifRefreshStep() {
	d.periodicallyRefreshFilters(time.Second)
}
