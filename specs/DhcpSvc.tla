------------------------------ MODULE DhcpSvc ------------------------------
(***************************************************************************)
(* G06 (B) -- the lease table of the new DHCP service (internal/dhcpsvc,   *)
(* type DHCPServer), written from the doc comments of dhcpsvc.Interface,   *)
(* Lease, Config / IPv4Config / IPv6Config, the package's own test tables  *)
(* and the CHANGELOG, in the vocabulary of C10's Dhcp4 (one set `ls' of    *)
(* leases, `disk' the persisted table, every action the SET of admissible  *)
(* outcomes [dst, out]).                                                   *)
(*                                                                         *)
(* The service keeps leases of several networks: every configured          *)
(* interface has an IPv4 network (gateway + subnet mask, dynamic range     *)
(* RangeStart..RangeEnd inside it) and an IPv6 one (RangeStart..::ff of    *)
(* its /120, "the weird behavior of legacy implementation").  An address   *)
(* is an integer; NetOf(a) = a \div 10 is the network it belongs to; Pool  *)
(* are the addresses of dynamic ranges, Outs in-subnet addresses outside   *)
(* the range (v4 only), GWs gateways, Fars addresses no interface is       *)
(* responsible for.                                                        *)
(*                                                                         *)
(* What the documentation says:                                            *)
(*  AddLease  "adds a new DHCP lease.  l must be valid.  It returns an     *)
(*            error if l already exists" -- the tests spell that out:      *)
(*            duplicate ip, duplicate hostname (case-insensitively),       *)
(*            duplicate mac [on the interface], ip outside every range.    *)
(*  UpdateStaticLease "replaces an existing static DHCP lease ... error if *)
(*            the lease with the given hardware address doesn't exist or   *)
(*            if other values match another existing lease".               *)
(*  RemoveLease "removes an existing DHCP lease ... error if there is no   *)
(*            lease equal to l".                                           *)
(*  Reset     "removes all the DHCP leases".                               *)
(*  HostByIP / MACByIP / IPByHost / Leases: answers for "the DHCP client   *)
(*            with the given IP address / hostname"; "a DHCP client must   *)
(*            always have a hostname, either set or generated".            *)
(*  CHANGELOG (#4698) "DHCP lease validation incorrectly letting users     *)
(*            assign the IP address of the gateway as the address of the   *)
(*            lease" was a bug: a lease on a gateway address is refused.   *)
(*  db.go     "dbStore stores / dbLoad loads stored leases".               *)
(* "l must be valid" is not defined anywhere (lease.go: TODO validation):  *)
(* the alphabet below only contains calls with a non-empty host name, a    *)
(* 6-byte hardware address and, for dynamic leases, an address inside the  *)
(* range; whether expired leases are "active" is not defined either, so    *)
(* expiry is not modelled.                                                 *)
(***************************************************************************)
EXTENDS Integers, Sequences, FiniteSets, TLC, Json

CONSTANTS Macs,    \* hardware addresses
          Pool,    \* addresses inside a dynamic range
          Outs,    \* addresses inside a subnet, outside its range
          GWs,     \* gateway addresses
          Fars,    \* addresses of no configured network
          Hosts    \* host names (non-empty; compared case-insensitively)

VARIABLES ls,    \* the lease table
          disk   \* the database
vars == <<ls, disk>>

NetOf(a) == a \div 10
Known    == Pool \cup Outs \cup GWs     \* some interface is responsible

\* A lease.  st: static.  (No acknowledged/expired flag: see the head comment.)
Lease(m, a, st, h) == [mac |-> m, ip |-> a, st |-> st, host |-> h]

Of(S, m, n) == {l \in S : l.mac = m /\ NetOf(l.ip) = n}
On(S, a)    == {l \in S : l.ip = a}
Named(S, h) == {l \in S : l.host = h}

Ok   == "ok"
Err  == "err"
None == "none"
Outc(S, o) == [dst |-> S, out |-> o]

\* ------------------------------------------------------------------ AddLease
\* Refused: no interface for the address, the gateway, an address / a name /
\* a client (on that network) that already has a lease.  Otherwise added.
AddLeaseOut(S, m, a, st, h) ==
    IF \/ a \notin Known \/ a \in GWs
       \/ On(S, a) # {} \/ Named(S, h) # {} \/ Of(S, m, NetOf(a)) # {}
    THEN {Outc(S, Err)}
    ELSE {Outc(S \cup {Lease(m, a, st, h)}, Ok)}

\* --------------------------------------------------------- UpdateStaticLease
\* The lease of client m on the network of a is replaced by the reservation
\* (m, a, h).  Refused: no interface / gateway, no such lease, address or
\* name of ANOTHER lease.  The documentation speaks of an existing *static*
\* lease; asked to replace a dynamic one the service may refuse or comply.
UpdateStaticOut(S, m, a, h) ==
    IF a \notin Known \/ a \in GWs \/ Of(S, m, NetOf(a)) = {} THEN {Outc(S, Err)}
    ELSE LET prev   == CHOOSE x \in Of(S, m, NetOf(a)) : TRUE
             others == S \ {prev}
             acc    == Outc(others \cup {Lease(m, a, TRUE, h)}, Ok)
         IN  IF On(others, a) # {} \/ Named(others, h) # {} THEN {Outc(S, Err)}
             ELSE {acc} \cup (IF prev.st THEN {} ELSE {Outc(S, Err)})

\* --------------------------------------------------------------- RemoveLease
\* Removes the lease equal to (m, a, h); an error, and no change, when there
\* is none.
RemoveLeaseOut(S, m, a, h) ==
    LET eq == {l \in S : l.mac = m /\ l.ip = a /\ l.host = h} IN
    IF eq = {} THEN {Outc(S, Err)} ELSE {Outc(S \ eq, Ok)}

\* --------------------------------------------------------- Reset and restart
ResetOut(S)   == {Outc({}, Ok)}
RestartOut(D) == {Outc(D, None)}

\* ------------------------------------------------------------------ actions
\* Every call stores the table it leaves behind; a restart loads it.
Take(o) == ls' = o.dst /\ disk' = o.dst
Load(o) == ls' = o.dst /\ UNCHANGED disk

AddAddrs == Known \cup Fars
AddLease(m, a, st, h)     == \E o \in AddLeaseOut(ls, m, a, st, h) : Take(o)
UpdateStaticLease(m, a, h) == \E o \in UpdateStaticOut(ls, m, a, h) : Take(o)
RemoveLease(m, a, h)      == \E o \in RemoveLeaseOut(ls, m, a, h) : Take(o)
Reset                     == \E o \in ResetOut(ls) : Take(o)
Restart                   == \E o \in RestartOut(disk) : Load(o)

\* "l must be valid": a dynamic lease only inside a range.
Kinds(a) == IF a \in Pool THEN {TRUE, FALSE} ELSE {TRUE}

Init == ls = {} /\ disk = {}
Next == \/ \E m \in Macs, a \in AddAddrs, h \in Hosts : \E st \in Kinds(a) : AddLease(m, a, st, h)
        \/ \E m \in Macs, a \in AddAddrs, h \in Hosts : UpdateStaticLease(m, a, h)
        \/ \E m \in Macs, a \in AddAddrs, h \in Hosts : RemoveLease(m, a, h)
        \/ Reset
        \/ Restart
Spec == Init /\ [][Next]_vars

\* ------------------------------------------- the statement, as invariants
\* For every address at most one client holds a lease ...
KeyedByAddress == \A l1, l2 \in ls : l1.ip = l2.ip => l1 = l2
\* ... and a client holds at most one lease per network (interface x family).
OneLeasePerClientAndNet ==
    \A l1, l2 \in ls : l1.mac = l2.mac /\ NetOf(l1.ip) = NetOf(l2.ip) => l1 = l2
\* Names are unique: the name -> address answer is a function.
HostsUnique == \A l1, l2 \in ls : l1.host = l2.host => l1 = l2
\* Dynamic addresses lie inside a configured range, never on a gateway; no
\* lease lies outside the configured networks.
DynamicInsideRange == /\ \A l \in ls : ~l.st => l.ip \in Pool
                      /\ \A l \in ls : l.ip \in Known \ GWs
\* Rejected operations leave the table unchanged (every outcome that reports
\* an error has dst = the table it started from).
Outs_(S) == UNION {AddLeaseOut(S, m, a, st, h) : m \in Macs, a \in AddAddrs, st \in BOOLEAN, h \in Hosts}
            \cup UNION {UpdateStaticOut(S, m, a, h) \cup RemoveLeaseOut(S, m, a, h)
                        : m \in Macs, a \in AddAddrs, h \in Hosts}
RejectedLeavesUnchanged == \A o \in Outs_(ls) : o.out = Err => o.dst = ls
\* The database lists exactly the leases in memory ...
DiskEqualsMemory == disk = ls
\* ... so a restart restores the same table and the same answers.
HostByIP(S, a) == {l.host : l \in On(S, a)}
MACByIP(S, a)  == {l.mac : l \in On(S, a)}
IPByHost(S, h) == {l.ip : l \in Named(S, h)}
Answers(S) == <<[a \in AddAddrs |-> HostByIP(S, a)], [a \in AddAddrs |-> MACByIP(S, a)],
                [h \in Hosts |-> IPByHost(S, h)]>>
RestartRestoresSameTable ==
    \A o \in RestartOut(disk) : o.dst = ls /\ Answers(o.dst) = Answers(ls)
AnswersAreUnique ==
    /\ \A a \in AddAddrs : Cardinality(HostByIP(ls, a)) <= 1 /\ Cardinality(MACByIP(ls, a)) <= 1
    /\ \A h \in Hosts : Cardinality(IPByHost(ls, h)) <= 1

\* ----------------------------------------- emission for the Go harness (A)
\* One line per reachable state: the action instances whose outcome set is
\* not the default {refused, nothing changes}, with their outcomes
\* <<same, dst, reply, 0, store rule>> (the shape of Dhcp6's emission; leases
\* are <<mac, ip, 3 if static else 1, host>>).
EncL(l) == <<l.mac, l.ip, IF l.st THEN 3 ELSE 1, l.host>>
EncS(S) == {EncL(l) : l \in S}
EncO(S, o, rule) == IF o.dst = S THEN <<TRUE, {}, o.out, 0, rule>>
                    ELSE <<FALSE, EncS(o.dst), o.out, 0, rule>>
E(S, name, m, k, a, h, outs) ==
    IF outs = {Outc(S, Err)} THEN {}
    ELSE {<<name, m, k, a, h, {EncO(S, o, 0) : o \in outs}>>}
Edges(S, D) ==
    UNION {UNION {E(S, "AddLease", m, IF st THEN "static" ELSE "dynamic", a, h, AddLeaseOut(S, m, a, st, h))
                  : st \in Kinds(a)}
           : m \in Macs, a \in AddAddrs, h \in Hosts}
    \cup UNION {E(S, "UpdateStatic", m, "", a, h, UpdateStaticOut(S, m, a, h)) : m \in Macs, a \in AddAddrs, h \in Hosts}
    \cup UNION {E(S, "RemoveLease", m, "", a, h, RemoveLeaseOut(S, m, a, h)) : m \in Macs, a \in AddAddrs, h \in Hosts}
    \cup {<<"Reset", "", "", 0, "", {EncO(S, o, 0) : o \in ResetOut(S)}>>}
    \cup {<<"Restart", "", "", 0, "", {EncO(S, o, 2) : o \in RestartOut(D)}>>}
EmitState == PrintT(<<"@@V", ToJson([s |-> EncS(ls), d |-> EncS(disk), e |-> Edges(ls, disk)])>>)
GenNext == EmitState /\ Next
GenSpec == Init /\ [][GenNext]_vars
=============================================================================
