\* Exhaustive exploration (modulo time translation, see View) for every TTL;
\* the same run emits the labelled edges walked by the Go harness.
CONSTANTS
    Tokens = {"t1", "t2", "t3"}
    TTLSet = {1, 2, 3}
    MaxTick = 4
SPECIFICATION Spec
VIEW View
INVARIANTS TokenValidOnlyBetween LogoutIsPersistent LogoutReturnsDone ExpiryIsPersistent RestartChangesNothing LiveIsPresent LifetimeBounded
PROPERTIES RestartIsNoOp
