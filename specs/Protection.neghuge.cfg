\* Negative configuration: the "huge" behaviour of the code as built (see
\* AsBuilt in Protection.tla).  TLC must find EffectFollowsCalls violated.
CONSTANTS
    MaxD = 2
    MaxTick = 3
    Kinds = {"rule", "rw"}
    AsBuilt = {"huge"}
SPECIFICATION Spec
VIEW View
INVARIANTS TypeOK EffectFollowsCalls
