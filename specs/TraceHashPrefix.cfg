SPECIFICATION Spec
