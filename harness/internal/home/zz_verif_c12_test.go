package home

// C12 conformance harness.
//
// Direction A: walks the labelled edge graphs emitted by TLC for
// specs/RateLimit.tla and specs/Auth.tla against the real POST /control/login
// handler, a protected route behind the real optionalAuth wrapper, the real
// logout handler and the real sessions database, under the virtual clock of
// testing/synctest.  After every step the reply and the projected state must
// be one of the outcomes the spec admits from the current spec state.
//
// Direction B: seeded random timed histories with production parameters
// (and other parameter values), recorded as NDJSON for TraceRateLimit.tla /
// TraceAuth.tla.
//
// Unexported identifiers are used only to construct objects the way the
// package's own tests do (InitAuth, newAuthRateLimiter, globalContext) and to
// read state for the abstraction functions (failedAuths, sessions, db).

import (
	"bytes"
	cryptorand "crypto/rand"
	"encoding/hex"
	"encoding/json"
	"fmt"
	"math/rand"
	"net/http"
	"net/http/httptest"
	"net/netip"
	"os"
	"path/filepath"
	"runtime"
	"sort"
	"strconv"
	"strings"
	"testing"
	"testing/synctest"
	"time"

	"github.com/AdguardTeam/golibs/netutil"
	"go.etcd.io/bbolt"
	"golang.org/x/crypto/bcrypt"
)

const (
	zzC12User      = "admin"
	zzC12Pass      = "correct horse"
	zzC12ProbePath = "/control/zz_c12_probe"

	// zzC12Window is Window of RateLimit.mc.cfg: the tick of the exhaustive
	// model is failedAuthTTL / zzC12Window.
	zzC12Window = 2
)

// zzC12Env is the part of the environment shared by all systems of a test.
type zzC12Env struct {
	t        *testing.T
	dir      string
	users    []webUser
	probeRan bool
	nfile    int
	tok      *zzC12TokenSrc

	// Restarts performed with at least two live stored sessions of different
	// expiries, by whether the record the database iterates last (greatest
	// token) is the one expiring last or first.
	restartsLastLater, restartsLastEarlier int

	// blockedByForm counts the rejected (429) attempts by the textual form of
	// the peer address.
	blockedByForm map[string]int
	cfgSaved      bool
}

// zzC12TokenSrc stands in for crypto/rand.Reader while the harness runs: the
// session tokens the code draws (newSessionToken) become a function of the
// step's seed, so that a history re-executed with the same seeds gets the same
// tokens -- and thereby the same iteration order of the sessions database.
// first, when not negative, is the first byte of the next token: it lets the
// concretisation decide where a new token sorts among the stored ones.
type zzC12TokenSrc struct {
	rng   *rand.Rand
	first int
}

// Read implements the [io.Reader] interface for *zzC12TokenSrc.
func (r *zzC12TokenSrc) Read(p []byte) (n int, err error) {
	_, _ = r.rng.Read(p)
	if r.first >= 0 && len(p) == sessionTokenSize {
		p[0] = byte(r.first)
		r.first = -1
	}

	return len(p), nil
}

func (r *zzC12TokenSrc) set(seed int64, first int) {
	r.rng = rand.New(rand.NewSource(seed))
	r.first = first
}

// zzC12NewEnv installs a fresh mux with the real auth handlers and a probe
// handler registered through the real httpRegister (so it sits behind the real
// optionalAuth wrapper).
func zzC12NewEnv(t *testing.T) (e *zzC12Env) {
	e = &zzC12Env{t: t, dir: t.TempDir()}
	// The sessions database commits with fdatasync; a memory-backed directory
	// makes the thousands of commits of a walk cheap.  Same file semantics.
	if shm, err := os.MkdirTemp("/dev/shm", "zzc12-"); err == nil {
		e.dir = shm
		t.Cleanup(func() { _ = os.RemoveAll(shm) })
	}

	hash, err := bcrypt.GenerateFromPassword([]byte(zzC12Pass), bcrypt.MinCost)
	if err != nil {
		t.Fatalf("bcrypt: %v", err)
	}

	e.users = []webUser{{Name: zzC12User, PasswordHash: string(hash)}}
	e.tok = &zzC12TokenSrc{rng: rand.New(rand.NewSource(zzSeed())), first: -1}
	prevReader := cryptorand.Reader
	cryptorand.Reader = e.tok
	t.Cleanup(func() { cryptorand.Reader = prevReader })

	prevMux, prevWeb, prevFirst, prevAuth := globalContext.mux, globalContext.web, globalContext.firstRun, globalContext.auth
	t.Cleanup(func() {
		globalContext.mux, globalContext.web, globalContext.firstRun, globalContext.auth = prevMux, prevWeb, prevFirst, prevAuth
	})

	globalContext.mux = http.NewServeMux()
	globalContext.web = &webAPI{}
	globalContext.firstRun = false
	RegisterAuthHandlers()
	httpRegister(http.MethodGet, zzC12ProbePath, func(w http.ResponseWriter, _ *http.Request) {
		e.probeRan = true
		w.WriteHeader(http.StatusOK)
	})

	return e
}

// saveConfig remembers, once, the global configuration values the config leg
// overwrites and restores them when the test ends.
func (e *zzC12Env) saveConfig() {
	if e.cfgSaved {
		return
	}

	e.cfgSaved = true
	att, blk, users, wd := config.AuthAttempts, config.AuthBlockMin, config.Users, globalContext.workDir
	e.t.Cleanup(func() {
		config.AuthAttempts, config.AuthBlockMin, config.Users, globalContext.workDir = att, blk, users, wd
	})
}

func (e *zzC12Env) newDBFile() (fn string) {
	e.nfile++

	return filepath.Join(e.dir, fmt.Sprintf("sessions-%d.db", e.nfile))
}

// zzC12Trusted is the trusted-proxy set the way initUsers builds it from the
// (default) configuration.
func zzC12Trusted() (set netutil.SliceSubnetSet) {
	return netutil.SliceSubnetSet(netutil.UnembedPrefixes(config.DNS.TrustedProxies))
}

// zzC12InPrefix returns a seeded address inside p.
func zzC12InPrefix(rng *rand.Rand, p netip.Prefix) (a netip.Addr) {
	b := p.Masked().Addr().AsSlice()
	for i := p.Bits(); i < len(b)*8; i++ {
		if rng.Intn(2) == 0 {
			b[i/8] |= 1 << (7 - i%8)
		}
	}

	a, _ = netip.AddrFromSlice(b)

	return a
}

// zzC12Claim concretises what a request claims about its origin.  other is
// the address of another modelled client.
func zzC12Claim(rng *rand.Rand, kind string, other netip.Addr) (a netip.Addr) {
	switch kind {
	case "peer":
		return other
	case "trusted":
		if ps := zzC12Trusted(); len(ps) > 0 {
			return zzC12InPrefix(rng, ps[rng.Intn(len(ps))])
		}

		return netip.MustParseAddr("127.0.0.1")
	case "untrusted":
		if rng.Intn(2) == 0 {
			return netip.MustParseAddr(fmt.Sprintf("2001:db8:ffff::%x", rng.Intn(0xfffe)+1))
		}

		return netip.MustParseAddr(fmt.Sprintf("198.51.100.%d", rng.Intn(250)+1))
	default:
		return netip.Addr{}
	}
}

// zzC12Login sends one login request through the mux: from peer ip, claiming
// (in one of the forwarding headers) to originate from claim, if valid.  first
// is passed to the token source.
func (e *zzC12Env) login(rng *rand.Rand, ip netip.Addr, ok bool, claim netip.Addr, first int) (out, cookie, detail string) {
	name, pass := zzC12User, zzC12Pass
	if !ok {
		// A failed login is a wrong password or an unknown user name.
		if rng.Intn(4) == 0 {
			pass = "wrong-" + strconv.Itoa(rng.Intn(1000))
		} else {
			name = "nobody" + strconv.Itoa(rng.Intn(1000))
		}
	}

	e.tok.set(rng.Int63(), first)
	body, _ := json.Marshal(loginJSON{Name: name, Password: pass})
	r := httptest.NewRequest(http.MethodPost, "/control/login", bytes.NewReader(body))
	r.Header.Set("Content-Type", "application/json")
	r.RemoteAddr = netip.AddrPortFrom(ip, uint16(1024+rng.Intn(60000))).String()
	// Client-controlled headers must not change who is being throttled.
	hdr := ""
	if claim.IsValid() {
		hdr = []string{"X-Real-IP", "CF-Connecting-IP", "True-Client-IP", "X-Forwarded-For"}[rng.Intn(4)]
		val := claim.String()
		if hdr == "X-Forwarded-For" && rng.Intn(2) == 0 {
			val += ", 10.0.0.1"
		}

		r.Header.Set(hdr, val)
	}

	w := httptest.NewRecorder()
	globalContext.mux.ServeHTTP(w, r)
	res := w.Result()
	for _, c := range res.Cookies() {
		if c.Name == sessionCookieName && c.Value != "" {
			cookie = c.Value
		}
	}

	detail = fmt.Sprintf("status=%d retry-after=%q remote=%s", w.Code, res.Header.Get("Retry-After"), r.RemoteAddr)
	if hdr != "" {
		detail += fmt.Sprintf(" %s=%q", hdr, r.Header.Get(hdr))
	}
	switch {
	case w.Code == http.StatusOK && cookie != "":
		out = "ok"
	case w.Code == http.StatusForbidden && cookie == "":
		out = "fail"
	case w.Code == http.StatusTooManyRequests && cookie == "":
		out = "blocked"
	default:
		out = fmt.Sprintf("status:%d,cookie:%t", w.Code, cookie != "")
	}

	return out, cookie, detail
}

// useCookie sends a request to the protected probe route.
func (e *zzC12Env) useCookie(val string) (out, detail string) {
	r := httptest.NewRequest(http.MethodGet, zzC12ProbePath, nil)
	r.RemoteAddr = "192.0.2.200:4444"
	r.AddCookie(&http.Cookie{Name: sessionCookieName, Value: val})
	w := httptest.NewRecorder()
	e.probeRan = false
	globalContext.mux.ServeHTTP(w, r)
	detail = fmt.Sprintf("status=%d ran=%t", w.Code, e.probeRan)
	switch {
	case w.Code == http.StatusOK && e.probeRan:
		return "ok", detail
	case !e.probeRan && (w.Code == http.StatusForbidden || w.Code == http.StatusFound || w.Code == http.StatusUnauthorized):
		return "denied", detail
	default:
		return fmt.Sprintf("status:%d,ran:%t", w.Code, e.probeRan), detail
	}
}

func (e *zzC12Env) logout(val string) (detail string) {
	r := httptest.NewRequest(http.MethodGet, "/control/logout", nil)
	r.RemoteAddr = "192.0.2.200:4445"
	r.AddCookie(&http.Cookie{Name: sessionCookieName, Value: val})
	w := httptest.NewRecorder()
	globalContext.mux.ServeHTTP(w, r)

	return fmt.Sprintf("status=%d", w.Code)
}

// zzC12Sys is an implementation under test together with its abstraction
// function.
// Every random choice of the concretisation (addresses, ports, spoofed headers,
// kind of wrong credentials, unknown cookie values) is drawn from the seed given
// with the call, so that a history can be re-executed identically.
type zzC12Sys interface {
	reset(seed int64)
	do(act string, seed int64) (out, detail string)
	state() (s string)
	matches(dst, obs string) (ok bool)
	describe() (s string)
	close()
}

// ------------------------------------------------------------ rate limiter

type zzC12RL struct {
	env   *zzC12Env
	n, b  int
	tick  time.Duration
	names []string
	addrs map[string]netip.Addr
	auth  *Auth

	// blockMin, when not zero, is the configured block_auth_min of the
	// "config" leg: the module is then built by initUsers.
	blockMin uint64
	ncfg     int
}

// zzC12RandAddr returns the address of client i in one of the textual forms a
// remote address takes in http.Request.RemoteAddr: plain IPv4, plain IPv6,
// link-local IPv6 with a zone (what a LAN client produces), IPv4-mapped IPv6.
// A client keeps its form (its exact text) for a whole history: "from one
// address".  Clients with different i differ in every canonicalisation.
func zzC12RandAddr(rng *rand.Rand, i int) (a netip.Addr) {
	switch rng.Intn(4) {
	case 0:
		return netip.MustParseAddr(fmt.Sprintf("2001:db8:%x::%x", i+1, rng.Intn(0xfffe)+1))
	case 1:
		zone := []string{"eth0", "wlan0", "br-lan", "2"}[rng.Intn(4)]

		return netip.MustParseAddr(fmt.Sprintf("fe80::%x:%x%%%s", i+1, rng.Intn(0xfffe)+1, zone))
	case 2:
		return netip.MustParseAddr(fmt.Sprintf("::ffff:10.%d.%d.%d", i+2, rng.Intn(250), rng.Intn(250)+1))
	default:
		return netip.MustParseAddr(fmt.Sprintf("192.0.%d.%d", i+2, rng.Intn(250)+1))
	}
}

// zzC12Form names the textual form of a.
func zzC12Form(a netip.Addr) (form string) {
	switch {
	case a.Is4():
		return "v4"
	case a.Is4In6():
		return "v4mapped"
	case a.Zone() != "":
		return "v6zone"
	default:
		return "v6"
	}
}

// zzC12Canon identifies the textual forms of one address with each other; it
// is used only to attribute a stored record to a modelled client, whatever
// spelling the code keys its table by.
func zzC12Canon(a netip.Addr) (c netip.Addr) { return a.Unmap().WithZone("") }

func (s *zzC12RL) reset(seed int64) {
	s.close()
	rng := rand.New(rand.NewSource(seed))
	s.addrs = map[string]netip.Addr{}
	for i, nm := range s.names {
		s.addrs[nm] = zzC12RandAddr(rng, i)
	}

	if s.blockMin != 0 {
		s.resetFromConfig()

		return
	}

	rl := newAuthRateLimiter(time.Duration(s.b)*s.tick, uint(s.n))
	s.auth = InitAuth(s.env.newDBFile(), s.env.users, 3600, rl, zzC12Trusted())
	if s.auth == nil {
		s.env.t.Fatalf("InitAuth failed")
	}

	globalContext.auth = s.auth
}

// resetFromConfig builds the auth module the way the program does at startup:
// initUsers converts the configuration values into the limiter's parameters.
func (s *zzC12RL) resetFromConfig() {
	s.ncfg++
	workDir := filepath.Join(s.env.dir, fmt.Sprintf("cfg-%d-%d-%d", s.n, s.blockMin%100000, s.ncfg))
	if err := os.MkdirAll(filepath.Join(workDir, dataDir), 0o755); err != nil {
		s.env.t.Fatalf("mkdir: %v", err)
	}

	s.env.saveConfig()
	globalContext.workDir = workDir
	config.AuthAttempts = uint(s.n)
	config.AuthBlockMin = uint(s.blockMin)
	config.Users = append([]webUser{}, s.env.users...)

	auth, err := initUsers()
	if err != nil || auth == nil {
		s.env.t.Fatalf("initUsers failed: %v", err)
	}

	s.auth = auth
	globalContext.auth = auth
}

func (s *zzC12RL) close() {
	if s.auth != nil {
		s.auth.Close()
		s.auth = nil
	}
}

// other returns the address of a modelled client different from nm.
func (s *zzC12RL) other(nm string) (a netip.Addr) {
	for i, x := range s.names {
		if x == nm {
			return s.addrs[s.names[(i+1)%len(s.names)]]
		}
	}

	return netip.Addr{}
}

func (s *zzC12RL) describe() (d string) {
	d = fmt.Sprintf("addrs=%v tick=%s", s.addrs, s.tick)
	if s.blockMin != 0 {
		d += fmt.Sprintf(" via=initUsers auth_attempts=%d block_auth_min=%d", s.n, s.blockMin)
	}

	return d
}

func (s *zzC12RL) do(act string, seed int64) (out, detail string) {
	f := strings.Fields(act)
	switch f[0] {
	case "attempt":
		// attempt <peer> <claim> <ok|bad>
		rng := rand.New(rand.NewSource(seed))
		out, _, detail = s.env.login(rng, s.addrs[f[1]], f[3] == "ok", zzC12Claim(rng, f[2], s.other(f[1])), -1)
		if out == "blocked" {
			if s.env.blockedByForm == nil {
				s.env.blockedByForm = map[string]int{}
			}

			s.env.blockedByForm[zzC12Form(s.addrs[f[1]])]++
		}

		return out, detail
	case "tick":
		d, _ := strconv.Atoi(f[1])
		time.Sleep(time.Duration(d) * s.tick)

		return "none", ""
	default:
		return "unknown-act", act
	}
}

// zzC12RLRecs projects the failed-attempt table: live records only, the count
// capped at the limit, the end instant as a duration from now.
func zzC12RLRecs(rl *authRateLimiter, addrs map[string]netip.Addr, n int) (recs map[string][2]time.Duration, extra int) {
	now := time.Now()
	recs = map[string][2]time.Duration{}

	rl.failedAuthsLock.Lock()
	defer rl.failedAuthsLock.Unlock()

	for k, v := range rl.failedAuths {
		if now.After(v.until) || v.num == 0 {
			continue
		}

		found := false
		ip, err := netip.ParseAddr(k)
		for nm, a := range addrs {
			if _, dup := recs[nm]; err == nil && !dup && zzC12Canon(ip) == zzC12Canon(a) {
				c := int(v.num)
				if c > n {
					c = n
				}

				recs[nm] = [2]time.Duration{time.Duration(c), v.until.Sub(now)}
				found = true
			}
		}

		if !found {
			extra++
		}
	}

	return recs, extra
}

func zzC12Units(d, unit time.Duration) (s string) {
	if d%unit == 0 {
		return strconv.FormatInt(int64(d/unit), 10)
	}

	return fmt.Sprintf("%d/%d", int64(d), int64(unit))
}

func (s *zzC12RL) state() (st string) {
	if s.auth.rateLimiter == nil {
		return "no-limiter"
	}

	recs, extra := zzC12RLRecs(s.auth.rateLimiter, s.addrs, s.n)
	parts := make([]string, 0, len(s.names))
	for _, nm := range s.names {
		r, ok := recs[nm]
		if !ok {
			parts = append(parts, nm+"=0,0")

			continue
		}

		if s.blockMin != 0 && int(r[0]) >= s.n && r[1] > 100000*s.tick {
			// A block that outlasts everything walked.
			parts = append(parts, fmt.Sprintf("%s=%d,long", nm, int(r[0])))

			continue
		}

		parts = append(parts, fmt.Sprintf("%s=%d,%s", nm, int(r[0]), zzC12Units(r[1], s.tick)))
	}

	st = strings.Join(parts, ";")
	if extra != 0 {
		st += fmt.Sprintf("!extra=%d", extra)
	}

	return st
}

// matches implements RecMatches of RateLimit.tla: a record whose end is the
// present instant may already have been dropped.
func (s *zzC12RL) matches(dst, obs string) (ok bool) {
	if dst == obs {
		return true
	}

	dp, op := strings.Split(dst, ";"), strings.Split(obs, ";")
	if len(dp) != len(op) {
		return false
	}

	for i := range dp {
		if dp[i] == op[i] {
			continue
		}

		nm, _, _ := strings.Cut(dp[i], "=")
		if strings.HasSuffix(dp[i], ",0") && !strings.HasSuffix(dp[i], "=0,0") && op[i] == nm+"=0,0" {
			continue
		}

		// Config leg: the spec's block (BlockDur of the long configuration)
		// and the configured one both outlast the history; only "the limit
		// was reached and the block is in force" is compared.
		if s.blockMin != 0 && op[i] == fmt.Sprintf("%s=%d,long", nm, s.n) &&
			strings.HasPrefix(dp[i], fmt.Sprintf("%s=%d,", nm, s.n)) && !strings.HasSuffix(dp[i], ",0") {
			continue
		}

		return false
	}

	return true
}

// ---------------------------------------------------------------- sessions

type zzC12AU struct {
	env    *zzC12Env
	ttl    int
	unit   int64 // seconds per tick
	names  []string
	tokens map[string]string // abstract name -> cookie value
	fn     string
	auth   *Auth

	// order is where a new token sorts among the earlier ones of this history
	// (the sessions database iterates in token order): 0 after all of them, 1
	// before all of them, 2 anywhere.
	order  int
	nlogin int
}

func zzC12RandHex(rng *rand.Rand) (s string) {
	b := make([]byte, sessionTokenSize)
	_, _ = rng.Read(b)

	return hex.EncodeToString(b)
}

func (s *zzC12AU) open() {
	// Production-like limiter; logins in this half always succeed.
	rl := newAuthRateLimiter(time.Duration(config.AuthBlockMin)*time.Minute, config.AuthAttempts)
	s.auth = InitAuth(s.fn, s.env.users, uint32(int64(s.ttl)*s.unit), rl, zzC12Trusted())
	if s.auth == nil {
		s.env.t.Fatalf("InitAuth failed")
	}

	globalContext.auth = s.auth
}

func (s *zzC12AU) reset(seed int64) {
	s.close()
	s.order = int(rand.New(rand.NewSource(seed)).Intn(3))
	s.nlogin = 0
	s.fn = s.env.newDBFile()
	s.tokens = map[string]string{}
	s.open()
}

func (s *zzC12AU) close() {
	if s.auth != nil {
		s.auth.Close()
		s.auth = nil
	}
}

func (s *zzC12AU) describe() (d string) { return fmt.Sprintf("unit=%ds ttl=%d", s.unit, s.ttl) }

// cookieFor returns the cookie value standing for an abstract token; a name
// that was never issued stands for a well-formed value nobody was given.
func (s *zzC12AU) cookieFor(nm string, rng *rand.Rand) (val string) {
	val, ok := s.tokens[nm]
	if !ok {
		val = zzC12RandHex(rng)
		s.tokens[nm] = val
	}

	return val
}

func (s *zzC12AU) do(act string, seed int64) (out, detail string) {
	rng := rand.New(rand.NewSource(seed))
	f := strings.Fields(act)
	switch f[0] {
	case "login":
		var cookie string
		first := -1
		switch s.nlogin++; s.order {
		case 0:
			first = 0x20 + s.nlogin%0xc0
		case 1:
			first = 0xe0 - s.nlogin%0xc0
		}

		out, cookie, detail = s.env.login(rng, zzC12RandAddr(rng, 7), true, netip.Addr{}, first)
		if out == "ok" {
			s.tokens[f[1]] = cookie
		}

		detail += " token=" + cookie

		return out, detail
	case "use":
		return s.env.useCookie(s.cookieFor(f[1], rng))
	case "logout":
		// The reply of a logout is not part of the property.
		return "ok", s.env.logout(s.cookieFor(f[1], rng))
	case "race":
		// race <t> <u>: a logout of t concurrent with a request carrying u;
		// the reply is the request's.
		return s.race(s.cookieFor(f[1], rng), s.cookieFor(f[2], rng), rng)
	case "restart":
		s.noteRestart()
		s.auth.Close()
		s.open()

		return "none", ""
	case "tick":
		d, _ := strconv.Atoi(f[1])
		time.Sleep(time.Duration(int64(d)*s.unit) * time.Second)

		return "none", ""
	default:
		return "unknown-act", act
	}
}

//go:noinline
func zzC12RaceLogoutG(f func(), done chan struct{}) { defer close(done); f() }

//go:noinline
func zzC12RaceUseG(f func(), done chan struct{}) { defer close(done); f() }

// zzC12Settled waits until the goroutine running fn (a function name that
// appears in its stack) has finished or is parked waiting for a lock.
func zzC12Settled(fn string, done chan struct{}) (state string) {
	buf := make([]byte, 1<<18)
	for i := 0; i < 20000; i++ {
		select {
		case <-done:
			return "done"
		default:
		}

		if i%8 == 7 {
			for _, g := range strings.Split(string(buf[:runtime.Stack(buf, true)]), "\n\n") {
				if !strings.Contains(g, fn+"(") {
					continue
				}

				_, st, _ := strings.Cut(g, "[")
				st, _, _ = strings.Cut(st, "]")
				if strings.Contains(st, "sync.") || strings.Contains(st, "semacquire") {
					return "parked:" + st
				}
			}
		}

		runtime.Gosched()
	}

	return "unsettled"
}

// race runs a logout of lv concurrently with a request carrying uv.  The
// interleaving is forced by making both arrive while a resource they need is
// busy -- the sessions mutex or the database's (single) write transaction,
// held by the harness -- in a seeded arrival order; waiters are served in
// arrival order when the resource is released.  The logout is sent to the
// HTTP handler itself or through the mux (whose auth wrapper first looks the
// session up, and thereby prolongs it).
func (s *zzC12AU) race(lv, uv string, rng *rand.Rand) (out, detail string) {
	sched := []int{0, 1, 2, 3, 3, 3, 4, 4}[rng.Intn(8)]
	direct := rng.Intn(4) != 0
	a := s.auth

	doneL, doneU := make(chan struct{}), make(chan struct{})
	var lDetail, uDetail string
	logout := func() {
		if !direct {
			lDetail = s.env.logout(lv)

			return
		}

		r := httptest.NewRequest(http.MethodGet, "/control/logout", nil)
		r.RemoteAddr = "192.0.2.200:4446"
		r.AddCookie(&http.Cookie{Name: sessionCookieName, Value: lv})
		w := httptest.NewRecorder()
		handleLogout(w, r)
		lDetail = fmt.Sprintf("status=%d", w.Code)
	}
	use := func() { out, uDetail = s.env.useCookie(uv) }

	var tx *bbolt.Tx
	switch sched {
	case 1, 2:
		a.lock.Lock()
	case 3, 4:
		var err error
		if tx, err = a.db.Begin(true); err != nil {
			return "gate-error", err.Error()
		}
	}

	var st1, st2 string
	if sched == 1 || sched == 4 {
		go zzC12RaceUseG(use, doneU)
		st1 = zzC12Settled("zzC12RaceUseG", doneU)
		go zzC12RaceLogoutG(logout, doneL)
		st2 = zzC12Settled("zzC12RaceLogoutG", doneL)
	} else {
		go zzC12RaceLogoutG(logout, doneL)
		st1 = zzC12Settled("zzC12RaceLogoutG", doneL)
		go zzC12RaceUseG(use, doneU)
		st2 = zzC12Settled("zzC12RaceUseG", doneU)
	}

	switch sched {
	case 1, 2:
		a.lock.Unlock()
	case 3, 4:
		_ = tx.Rollback()
	}

	<-doneL
	<-doneU

	return out, fmt.Sprintf("sched=%d direct=%t first=%s second=%s logout:%s use:%s", sched, direct, st1, st2, lDetail, uDetail)
}

// zzC12Sessions projects the live sessions of memory and of the file:
// cookie value -> expiry (Unix seconds).
func zzC12Sessions(a *Auth) (mem, db map[string]int64, err error) {
	now := time.Now().UTC().Unix()
	mem, db = map[string]int64{}, map[string]int64{}

	a.lock.Lock()
	for k, v := range a.sessions {
		if int64(v.expire) > now {
			mem[k] = int64(v.expire)
		}
	}
	a.lock.Unlock()

	err = a.db.View(func(tx *bbolt.Tx) (verr error) {
		bkt := tx.Bucket(bucketName())
		if bkt == nil {
			return nil
		}

		return bkt.ForEach(func(k, v []byte) (ferr error) {
			sess := session{}
			if sess.deserialize(v) && int64(sess.expire) > now {
				db[hex.EncodeToString(k)] = int64(sess.expire)
			}

			return nil
		})
	})

	return mem, db, err
}

// noteRestart classifies the stored sessions a restart is about to load.
func (s *zzC12AU) noteRestart() {
	_, db, err := zzC12Sessions(s.auth)
	if err != nil || len(db) < 2 {
		return
	}

	last, lo, hi := "", int64(0), int64(0)
	for k, e := range db {
		if k > last {
			last = k
		}

		if lo == 0 || e < lo {
			lo = e
		}

		if e > hi {
			hi = e
		}
	}

	switch {
	case lo == hi:
	case db[last] == hi:
		s.env.restartsLastLater++
	case db[last] == lo:
		s.env.restartsLastEarlier++
	}
}

func (s *zzC12AU) state() (st string) {
	mem, db, err := zzC12Sessions(s.auth)
	if err != nil {
		return "dberror:" + err.Error()
	}

	now := time.Now().UTC().Unix()
	rel := func(m map[string]int64, val string) (r string) {
		e, ok := m[val]
		if !ok {
			return "0"
		}

		return zzC12Units(time.Duration(e-now), time.Duration(s.unit))
	}

	known := map[string]bool{}
	parts := make([]string, 0, len(s.names))
	for _, nm := range s.names {
		val, ok := s.tokens[nm]
		if !ok {
			parts = append(parts, nm+"=0,0")

			continue
		}

		known[val] = true
		parts = append(parts, fmt.Sprintf("%s=%s,%s", nm, rel(mem, val), rel(db, val)))
	}

	extra := 0
	for k := range mem {
		if !known[k] {
			extra++
		}
	}
	for k := range db {
		if !known[k] {
			extra++
		}
	}

	st = strings.Join(parts, ";")
	if extra != 0 {
		st += fmt.Sprintf("!extra=%d", extra)
	}

	return st
}

func (s *zzC12AU) matches(dst, obs string) (ok bool) { return dst == obs }

// ------------------------------------------------------------------ walker

type zzC12Graph struct {
	Module string      `json:"module"`
	N      int         `json:"n"`
	B      int         `json:"b"`
	TTL    int         `json:"ttl"`
	Init   string      `json:"init"`
	Names  []string    `json:"names"`
	Edges  [][4]string `json:"edges"`

	// Leg "config" builds the auth module through the real initUsers from the
	// configuration values (auth_attempts = N, block_auth_min = BlockMin); the
	// graph then is the one of a block longer than any walked history.
	Leg      string `json:"leg"`
	BlockMin uint64 `json:"block_min"`
}

type zzC12Edge struct {
	src, act, dst, out string
	covered            bool
	skipped            int
	idx                int
}

type zzC12Step struct {
	Seed   int64  `json:"seed"`
	Act    string `json:"act"`
	Out    string `json:"out"`
	State  string `json:"state"`
	Detail string `json:"detail,omitempty"`
}

type zzC12Walker struct {
	g       *zzC12Graph
	variant string
	sys     zzC12Sys
	rng     *rand.Rand
	w       *zzWriter
	adj     map[string][]*zzC12Edge
	all     []*zzC12Edge
	cur     string
	hist    []zzC12Step
	maxHist int
	rseed   int64

	steps, resets, bad, flaky, covered, untaken, nblocked int
	samples                                     int
}

func zzC12NewWalker(g *zzC12Graph, variant string, sys zzC12Sys, rng *rand.Rand, w *zzWriter) (wk *zzC12Walker) {
	wk = &zzC12Walker{g: g, variant: variant, sys: sys, rng: rng, w: w, adj: map[string][]*zzC12Edge{}, maxHist: 32}
	for i, e := range g.Edges {
		x := &zzC12Edge{src: e[0], act: e[1], dst: e[2], out: e[3], idx: i}
		wk.adj[e[0]] = append(wk.adj[e[0]], x)
		wk.all = append(wk.all, x)
	}

	return wk
}

func (wk *zzC12Walker) restart() {
	wk.rseed = wk.rng.Int63()
	wk.sys.reset(wk.rseed)
	wk.cur = wk.g.Init
	wk.hist = wk.hist[:0]
	wk.resets++
}

func (e *zzC12Edge) open() (ok bool) { return !e.covered && e.skipped < 2 }

// nextEdge returns the edge to try next: an open edge at the current state,
// else the first edge of a shortest path to a state that has one.
func (wk *zzC12Walker) nextEdge() (e *zzC12Edge) {
	var open []*zzC12Edge
	for _, x := range wk.adj[wk.cur] {
		if x.open() {
			open = append(open, x)
		}
	}

	if len(open) > 0 {
		return open[wk.rng.Intn(len(open))]
	}

	type item struct {
		st    string
		first *zzC12Edge
	}

	seen := map[string]bool{wk.cur: true}
	queue := []item{{st: wk.cur}}
	for len(queue) > 0 {
		it := queue[0]
		queue = queue[1:]
		edges := wk.adj[it.st]
		for _, i := range wk.rng.Perm(len(edges)) {
			x := edges[i]
			if x.skipped >= 2 {
				// The implementation does not take this alternative.
				continue
			}

			first := it.first
			if first == nil {
				first = x
			}

			if x.open() {
				return first
			}

			if !seen[x.dst] {
				seen[x.dst] = true
				queue = append(queue, item{st: x.dst, first: first})
			}
		}
	}

	return nil
}

func (wk *zzC12Walker) acts() (acts []string) {
	seen := map[string]bool{}
	for _, x := range wk.adj[wk.cur] {
		if !seen[x.act] {
			seen[x.act] = true
			acts = append(acts, x.act)
		}
	}

	sort.Strings(acts)

	return acts
}

// exec performs one action and checks the observation against the edges of
// the spec.  It reports whether the walk may continue from the new state.
func (wk *zzC12Walker) exec(act string, planned *zzC12Edge) (ok bool) {
	seed := wk.rng.Int63()
	out, detail := wk.sys.do(act, seed)
	obs := wk.sys.state()
	wk.steps++
	if out == "blocked" {
		wk.nblocked++
	}

	var adm [][2]string
	var match *zzC12Edge
	for _, x := range wk.adj[wk.cur] {
		if x.act != act {
			continue
		}

		adm = append(adm, [2]string{x.out, x.dst})
		if x.out == out && (x.dst == obs || match == nil && wk.sys.matches(x.dst, obs)) {
			match = x
		}
	}

	if match != nil {
		if !match.covered {
			match.covered = true
			wk.covered++
		}

		if planned != nil && planned != match {
			planned.skipped++
		}

		wk.hist = append(wk.hist, zzC12Step{Seed: seed, Act: act, Out: out, State: obs, Detail: detail})
		wk.cur = match.dst
		if wk.samples < 3 && len(wk.hist) == 12 {
			wk.samples++
			wk.w.put(map[string]any{"kind": "sample", "module": wk.g.Module, "n": wk.g.N, "b": wk.g.B,
				"ttl": wk.g.TTL, "variant": wk.variant, "history": wk.hist})
		}

		return true
	}

	// Disagreement: reproduce it in isolation (fresh objects, same history)
	// before reporting it.
	rec := map[string]any{
		"module": wk.g.Module, "n": wk.g.N, "b": wk.g.B, "ttl": wk.g.TTL, "variant": wk.variant,
		"names": wk.g.Names, "init": wk.g.Init, "from": wk.cur, "leg": wk.g.Leg, "block_min": wk.g.BlockMin,
		"history": append([]zzC12Step{}, wk.hist...), "act": act, "admissible": adm,
		"reset_seed": wk.rseed, "act_seed": seed,
		"got": [2]string{out, obs}, "detail": detail, "concrete": wk.sys.describe(),
	}

	hist := append([]zzC12Step{}, wk.hist...)
	wk.sys.reset(wk.rseed)
	same := true
	for _, st := range hist {
		o, _ := wk.sys.do(st.Act, st.Seed)
		if o != st.Out || wk.sys.state() != st.State {
			same = false

			break
		}
	}

	reproduced := false
	if same {
		out2, detail2 := wk.sys.do(act, seed)
		obs2 := wk.sys.state()
		reproduced = true
		for _, a := range adm {
			if a[0] == out2 && wk.sys.matches(a[1], obs2) {
				reproduced = false
			}
		}

		rec["got2"] = [2]string{out2, obs2}
		rec["detail2"] = detail2
	}

	if reproduced {
		rec["kind"] = "bad"
		wk.bad++
	} else {
		rec["kind"] = "flaky"
		wk.flaky++
	}

	wk.w.put(rec)
	if planned != nil {
		planned.skipped = 2
	}

	wk.restart()

	return false
}

// tour covers every open edge once (greedy nearest-uncovered-edge walk).
func (wk *zzC12Walker) tour(stop func() bool) (done bool) {
	for wk.bad < 10 {
		if stop() {
			return false
		}

		if len(wk.hist) >= wk.maxHist {
			wk.restart()
		}

		e := wk.nextEdge()
		if e == nil {
			if wk.cur == wk.g.Init && len(wk.hist) == 0 {
				return true
			}

			wk.restart()

			continue
		}

		wk.exec(e.act, e)
	}

	return true
}

// random performs n random steps of the spec's alphabet.
func (wk *zzC12Walker) random(n int, stop func() bool) {
	for i := 0; i < n && wk.bad < 10 && !stop(); i++ {
		if len(wk.hist) >= wk.maxHist {
			wk.restart()
		}

		acts := wk.acts()
		if len(acts) == 0 {
			wk.restart()

			continue
		}

		var pick []string
		if wk.rng.Intn(4) != 0 {
			for _, a := range acts {
				if !strings.HasPrefix(a, "tick") {
					pick = append(pick, a)
				}
			}
		}

		if len(pick) == 0 {
			pick = acts
		}

		wk.exec(pick[wk.rng.Intn(len(pick))], nil)
	}
}

func (wk *zzC12Walker) summary() {
	total := 0
	wk.untaken = 0
	uncovered := []int{}
	for _, e := range wk.all {
		total++
		if !e.covered {
			wk.untaken++
			uncovered = append(uncovered, e.idx)
		}
	}

	wk.w.put(map[string]any{
		"kind": "summary", "module": wk.g.Module, "n": wk.g.N, "b": wk.g.B, "ttl": wk.g.TTL,
		"leg": wk.g.Leg, "block_min": wk.g.BlockMin, "blocked": wk.nblocked,
		"variant": wk.variant, "edges": total, "covered": wk.covered, "uncovered": wk.untaken,
		"steps": wk.steps, "resets": wk.resets, "bad": wk.bad, "flaky": wk.flaky,
		"uncovered_idx": uncovered,
	})
}

func zzC12NewSys(env *zzC12Env, g *zzC12Graph, variant string) (sys zzC12Sys) {
	switch g.Module {
	case "RL":
		if g.Leg == "config" {
			return &zzC12RL{env: env, n: g.N, b: g.B, tick: failedAuthTTL / zzC12Window, names: g.Names, blockMin: g.BlockMin}
		}

		return &zzC12RL{env: env, n: g.N, b: g.B, tick: failedAuthTTL / zzC12Window, names: g.Names}
	default:
		unit := int64(1)
		switch variant {
		case "day":
			unit = 86400
		case "hour":
			unit = 3600
		}

		return &zzC12AU{env: env, ttl: g.TTL, unit: unit, names: g.Names}
	}
}

func zzC12Thorough() (ok bool) { return strings.TrimSpace(zzGetenv("VERIF_TIER")) == "thorough" }

// zzC12Bubbles runs f in successive synctest bubbles until it reports
// completion; a bubble ends early when the virtual calendar gets close to the
// range limit of the 32-bit session expiry.
func zzC12Bubbles(f func(stop func() bool) (done bool)) {
	for done := false; !done; {
		synctest.Run(func() {
			n := 0
			done = f(func() bool {
				n++

				return n > 200000 || time.Now().Year() > 2080
			})
		})
	}
}

// TestZZVerifC12Walk is direction A.
func TestZZVerifC12Walk(t *testing.T) {
	w := zzNewWriter(t, "VERIF_OUT")
	defer w.close()

	env := zzC12NewEnv(t)
	tours, nrand := 1, 600
	if zzC12Thorough() {
		tours, nrand = 3, 8000
	}

	if v, err := strconv.Atoi(zzGetenv("VERIF_C12_RANDOM")); err == nil {
		nrand = v
	}

	gi := 0
	zzReadNDJSON(t, "VERIF_IN", func(line []byte) {
		g := &zzC12Graph{}
		if err := json.Unmarshal(line, g); err != nil {
			t.Fatalf("bad graph: %v", err)
		}

		gi++
		variants := []string{""}
		if g.Module == "AU" {
			// With a tick of one day the code prolongs a session on every
			// authenticated request of a later day; with one second it
			// (almost) never does.  The spec admits both.
			variants = []string{"day", "second"}
			if zzC12Thorough() {
				variants = append(variants, "hour")
			}
		}

		for vi, variant := range variants {
			for tour := 0; tour < tours; tour++ {
				rng := rand.New(rand.NewSource(zzSeed()*7919 + int64(gi)*101 + int64(vi)*17 + int64(tour)))
				sys := zzC12NewSys(env, g, variant)
				wk := zzC12NewWalker(g, variant, sys, rng, w)
				// The graph of the config leg is that of a block outlasting any
				// history: most of it is out of reach by construction, so it is
				// walked at random only (one walk per configuration value).
				toured := g.Leg == "config"
				left := nrand
				if g.Leg == "config" {
					left = nrand / 2
					if tour > 0 {
						continue
					}
				}
				zzC12Bubbles(func(stop func() bool) (done bool) {
					wk.restart()
					if !toured {
						toured = wk.tour(stop)
						if !toured {
							sys.close()

							return false
						}
					}

					before := wk.steps
					wk.random(left, stop)
					left -= wk.steps - before
					sys.close()

					return left <= 0 || wk.bad >= 10
				})
				wk.summary()
			}
		}
	})

	w.put(map[string]any{"kind": "done", "graphs": gi, "restarts_last_later": env.restartsLastLater,
		"restarts_last_earlier": env.restartsLastEarlier, "blocked_by_form": env.blockedByForm})
}

// TestZZVerifC12Replay re-executes one stored disagreement (history + step).
func TestZZVerifC12Replay(t *testing.T) {
	w := zzNewWriter(t, "VERIF_OUT")
	defer w.close()

	env := zzC12NewEnv(t)
	zzReadNDJSON(t, "VERIF_IN", func(line []byte) {
		rec := &struct {
			zzC12Graph
			Variant    string      `json:"variant"`
			History    []zzC12Step `json:"history"`
			Act        string      `json:"act"`
			ResetSeed  int64       `json:"reset_seed"`
			ActSeed    int64       `json:"act_seed"`
			Admissible [][2]string `json:"admissible"`
		}{}
		if err := json.Unmarshal(line, rec); err != nil {
			t.Fatalf("bad record: %v", err)
		}

		sys := zzC12NewSys(env, &rec.zzC12Graph, rec.Variant)
		synctest.Run(func() {
			sys.reset(rec.ResetSeed)
			var steps []zzC12Step
			for _, st := range rec.History {
				o, d := sys.do(st.Act, st.Seed)
				steps = append(steps, zzC12Step{Seed: st.Seed, Act: st.Act, Out: o, State: sys.state(), Detail: d})
			}

			out, detail := sys.do(rec.Act, rec.ActSeed)
			obs := sys.state()
			ok := false
			for _, a := range rec.Admissible {
				if a[0] == out && sys.matches(a[1], obs) {
					ok = true
				}
			}

			w.put(map[string]any{"kind": "replay", "ok": ok, "act": rec.Act, "admissible": rec.Admissible,
				"got": [2]string{out, obs}, "detail": detail, "history": steps, "concrete": sys.describe()})
			sys.close()
		})
	})
}

// ------------------------------------------------------------- direction B

// zzC12TraceSel returns the indices of the traces to generate.
func zzC12TraceSel(n int) (sel []int) {
	if only := zzGetenv("VERIF_C12_ONLY"); only != "" {
		for _, f := range strings.Split(only, ",") {
			if k, err := strconv.Atoi(f); err == nil {
				sel = append(sel, k)
			}
		}

		return sel
	}

	for k := 0; k < n; k++ {
		sel = append(sel, k)
	}

	return sel
}

func zzC12TraceRL(env *zzC12Env, w *zzWriter, k, steps int) {
	rng := rand.New(rand.NewSource(zzSeed()*1000003 + int64(k)))
	n, blockMin := int(config.AuthAttempts), int(config.AuthBlockMin)
	if k%3 != 0 {
		n = 1 + rng.Intn(7)
		blockMin = []int{1, 2, 5, 15, 60}[rng.Intn(5)]
	}

	names := []string{"a1", "a2", "a3", "a4"}
	sys := &zzC12RL{env: env, n: n, b: 1, tick: time.Duration(blockMin) * time.Minute, names: names}
	wms, bms := int(failedAuthTTL/time.Millisecond), blockMin*60000

	synctest.Run(func() {
		// Random phase, then the origin of the trace's clock.
		time.Sleep(time.Duration(rng.Int63n(int64(time.Hour))))
		sys.reset(rng.Int63())
		defer sys.close()

		t0 := time.Now()
		nowMS := func() (ms int64) { return int64(time.Since(t0) / time.Millisecond) }
		proj := func() (m map[string][2]int64) {
			recs, extra := zzC12RLRecs(sys.auth.rateLimiter, sys.addrs, n)
			m = map[string][2]int64{}
			for _, nm := range names {
				m[nm] = [2]int64{0, 0}
				if r, ok := recs[nm]; ok {
					until := r[1] + time.Since(t0)
					m[nm] = [2]int64{int64(r[0]), int64(until / time.Millisecond)}
					if until%time.Millisecond != 0 {
						m[nm] = [2]int64{int64(r[0]), -1}
					}
				}
			}

			if extra != 0 {
				m["extra"] = [2]int64{int64(extra), 0}
			}

			return m
		}

		line := func(kind, a, claim string, ok bool, d int64, res string, pre, post map[string][2]int64, detail string) {
			w.put(map[string]any{"tr": k, "k": kind, "a": a, "c": claim, "ok": ok, "d": d, "now": nowMS(), "n": n,
				"b": bms, "w": wms, "res": res, "pre": pre, "post": post, "detail": detail,
				"concrete": sys.describe()})
		}

		pre := proj()
		line("reset", "", "", false, 0, "none", pre, pre, "")
		focus := names[rng.Intn(len(names))]
		for i := 0; i < steps; i++ {
			pre = proj()
			if rng.Intn(10) < 7 {
				if rng.Intn(6) == 0 {
					focus = names[rng.Intn(len(names))]
				}

				a := focus
				if rng.Intn(5) == 0 {
					a = names[rng.Intn(len(names))]
				}

				ok := rng.Intn(6) == 0
				claim := []string{"none", "none", "none", "peer", "trusted", "trusted", "untrusted"}[rng.Intn(7)]
				out, _, detail := env.login(rng, sys.addrs[a], ok, zzC12Claim(rng, claim, sys.other(a)), -1)
				line("attempt", a, claim, ok, 0, out, pre, proj(), detail)

				continue
			}

			// Clock advance, biased towards the interesting instants.
			var d int64
			switch rng.Intn(12) {
			case 0:
				d = 1
			case 1:
				d = int64(rng.Intn(2000))
			case 2:
				d = int64(wms) - 1
			case 3:
				d = int64(wms)
			case 4:
				d = int64(wms) + 1
			case 5:
				d = int64(bms) - 1
			case 6:
				d = int64(bms)
			case 7:
				d = int64(bms) + 1
			case 8:
				d = rng.Int63n(2 * int64(wms))
			case 9:
				d = rng.Int63n(2 * int64(bms))
			default:
				// Up to (around) the end of a live record.
				var ends []int64
				for _, nm := range names {
					if r := pre[nm]; r[0] > 0 && r[1] >= nowMS() {
						ends = append(ends, r[1]-nowMS()+int64(rng.Intn(3))-1)
					}
				}

				if len(ends) == 0 {
					d = int64(rng.Intn(30000))
				} else {
					d = ends[rng.Intn(len(ends))]
				}
			}

			if d <= 0 {
				d = 1
			}

			time.Sleep(time.Duration(d) * time.Millisecond)
			line("tick", "", "", false, d, "none", pre, proj(), "")
		}
	})
}

func zzC12TraceAU(env *zzC12Env, w *zzWriter, k, steps int) {
	rng := rand.New(rand.NewSource(zzSeed()*1000033 + int64(k)))
	ttl := int64(time.Duration(config.HTTPConfig.SessionTTL) / time.Second)
	if k%2 != 0 {
		ttl = []int64{60, 3600, 86400, 7 * 86400, 90 * 86400}[rng.Intn(5)]
	}

	names := []string{"t1", "t2", "t3", "t4", "t5"}
	sys := &zzC12AU{env: env, ttl: int(ttl), unit: 1, names: names}

	synctest.Run(func() {
		time.Sleep(time.Duration(rng.Int63n(86400)) * time.Second)
		sys.reset(rng.Int63())
		defer sys.close()

		t0 := time.Now().UTC().Unix()
		nowS := func() (s int64) { return time.Now().UTC().Unix() - t0 }
		proj := func() (m map[string]map[string]int64) {
			mem, db, err := zzC12Sessions(sys.auth)
			m = map[string]map[string]int64{"mem": {}, "db": {}}
			known := map[string]bool{}
			for _, nm := range names {
				m["mem"][nm], m["db"][nm] = 0, 0
				val, ok := sys.tokens[nm]
				if !ok {
					continue
				}

				known[val] = true
				if e, has := mem[val]; has {
					m["mem"][nm] = e - t0
				}

				if e, has := db[val]; has {
					m["db"][nm] = e - t0
				}
			}

			extra := int64(0)
			for v := range mem {
				if !known[v] {
					extra++
				}
			}
			for v := range db {
				if !known[v] {
					extra++
				}
			}

			if extra != 0 || err != nil {
				m["mem"]["extra"] = extra + 1
			}

			return m
		}

		line := func(kind, tok string, d int64, res string, pre, post map[string]map[string]int64, detail string) {
			w.put(map[string]any{"tr": k, "k": kind, "t": tok, "d": d, "now": nowS(), "ttl": ttl,
				"res": res, "pre": pre, "post": post, "detail": detail})
		}

		pre := proj()
		line("reset", "", 0, "none", pre, pre, "")
		for i := 0; i < steps; i++ {
			pre = proj()
			tok := names[rng.Intn(len(names))]
			switch c := rng.Intn(20); {
			case c < 4:
				// Login under a free name (prefer one).
				free := ""
				for _, j := range rng.Perm(len(names)) {
					if pre["mem"][names[j]] == 0 && pre["db"][names[j]] == 0 {
						free = names[j]

						break
					}
				}

				if free == "" {
					out, detail := sys.do("logout "+tok, rng.Int63())
					line("logout", tok, 0, out, pre, proj(), detail)

					continue
				}

				delete(sys.tokens, free)
				out, detail := sys.do("login "+free, rng.Int63())
				line("login", free, 0, out, pre, proj(), detail)
			case c < 10:
				out, detail := sys.do("use "+tok, rng.Int63())
				line("use", tok, 0, out, pre, proj(), detail)
			case c < 12:
				out, detail := sys.do("logout "+tok, rng.Int63())
				line("logout", tok, 0, out, pre, proj(), detail)
			case c < 14:
				sys.do("restart", 0)
				line("restart", "", 0, "none", pre, proj(), "")
			default:
				var d int64
				switch rng.Intn(12) {
				case 0:
					d = 1
				case 1:
					d = 3600
				case 2:
					d = 86399
				case 3:
					d = 86400
				case 4:
					d = 86401
				case 5:
					d = ttl - 1
				case 6:
					d = ttl
				case 7:
					d = ttl + 1
				case 8:
					d = rng.Int63n(2*ttl) + 1
				case 9:
					d = rng.Int63n(3*86400) + 1
				default:
					var ends []int64
					for _, nm := range names {
						if e := pre["mem"][nm]; e > nowS() {
							ends = append(ends, e-nowS()+int64(rng.Intn(3))-1)
						}
					}

					if len(ends) == 0 {
						d = rng.Int63n(86400) + 1
					} else {
						d = ends[rng.Intn(len(ends))]
					}
				}

				if d <= 0 {
					d = 1
				}

				time.Sleep(time.Duration(d) * time.Second)
				line("tick", "", d, "none", pre, proj(), "")
			}
		}
	})
}

// TestZZVerifC12Trace is direction B.
func TestZZVerifC12Trace(t *testing.T) {
	wrl := zzNewWriter(t, "VERIF_OUT_RL")
	defer wrl.close()

	wau := zzNewWriter(t, "VERIF_OUT_AU")
	defer wau.close()

	env := zzC12NewEnv(t)
	ntr, steps := 40, 120
	if zzC12Thorough() {
		ntr, steps = 300, 160
	}

	for _, k := range zzC12TraceSel(ntr) {
		zzC12TraceRL(env, wrl, k, steps)
		zzC12TraceAU(env, wau, k, steps)
	}
}
