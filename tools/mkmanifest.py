#!/usr/bin/env python3
"""Regenerate MANIFEST.json from checks/registry.py and validate it."""
import json, os, sys
V = os.path.dirname(os.path.dirname(os.path.abspath(__file__)))
sys.path.insert(0, os.path.join(V, "checks"))
import registry

props = [json.loads(l)["id"] for l in open(os.path.join(V, "properties.jsonl"))]
checks = []
for pid in props:
    r = registry.CHECKS.get(pid)
    if not r:
        continue
    checks.append({
        "property_id": pid,
        "quick_cmd": "./check %s quick" % pid,
        "thorough_cmd": "./check %s thorough" % pid,
        "evidence_file": "/verif/evidence/%s.json" % pid,
        "replay_cmd_template": "./check %s --replay {path}" % pid,
        "engine": r.get("engine", "tlc+go-overlay-harness"),
        "level_claimed": {"category": r.get("level", "model_checking"), "text": r["text"], "design_ref": r["design_ref"]},
        "level_note": r["note"],
        "technique": r["technique"],
    })
na = [{"property_id": p, "reason": registry.NOT_APPLICABLE.get(p, "check not built yet (work in progress; see DESIGN.md section 11)")}
      for p in props if p not in registry.CHECKS]
import glob as _g
growth = sorted(os.path.basename(f)[4:-3].upper() for f in _g.glob(os.path.join(V, "checks", "reg_g*.py")) if os.path.exists(os.path.join(V, "checks", os.path.basename(f)[4:])))
engines = list(registry.ENGINES)
engines[0] = dict(engines[0], serves_properties=[c["property_id"] for c in checks])
engines[1] = dict(engines[1], serves_properties=[c["property_id"] for c in checks])
if growth:
    engines.append({"name": "growth-checks", "path": "/verif/checks", "serves_properties": [],
                    "kind_free_text": "specification growth beyond the listed properties (DESIGN section 5): " + ", ".join(growth) +
                                      " -- each `./check <Gnn> quick|thorough` has the same contract as a property check (own TLA+ modules, replay + trace validation); statements in notes/<Gnn>.md"})
m = {
    "version": 1,
    "setup_cmd": "./setup.sh",
    "hooks": registry.HOOKS,
    "engines": engines,
    "checks": checks,
    "notes": registry.NOTES,
    "not_applicable": na,
}
json.dump(m, open(os.path.join(V, "MANIFEST.json"), "w"), indent=1)
try:
    import jsonschema
    jsonschema.validate(m, json.load(open("/root/.vp/MANIFEST.schema.json")))
    print("MANIFEST valid:", len(checks), "checks,", len(na), "not applicable")
except ImportError:
    print("MANIFEST written (jsonschema not available for validation)")
