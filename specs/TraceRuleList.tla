--------------------------- MODULE TraceRuleList ---------------------------
(***************************************************************************)
(* Direction B of the parser half of C15.  Each line of trace.ndjson is    *)
(* one run of the real rulelist.Parser on a random text from a universe    *)
(* larger than RuleList.tla's (hundreds of lines, more rule atoms, long    *)
(* and over-long lines, bare CRs, control bytes anywhere), abstracted by   *)
(* the harness's lexer:                                                    *)
(*   t      the text, as tokens                                            *)
(*   ok     whether the parser accepted it                                 *)
(*   rules  the stored bytes, lexed and split at LF                        *)
(*   count  the rule count the parser reported                             *)
(*   fp     parsing the stored bytes again gave the same count, the same   *)
(*          checksum and the same bytes (also when read as a restart does) *)
(* The outcome must be one of RuleListCore!Admissible(t).                  *)
(***************************************************************************)
EXTENDS RuleListCore, TLC, Json

Trace == ndJsonDeserialize("trace.ndjson")

VARIABLES l, bad

LineOk(i) ==
    LET r == Trace[i]
        o == IF r.ok THEN Ok(r.rules) ELSE Fail
    IN /\ o \in Admissible(r.t)
       /\ r.ok => r.count = Count(r.rules) /\ r.fp

Init == l = 1 /\ bad = {}
Next == /\ l <= Len(Trace)
        /\ bad' = IF LineOk(l) THEN bad ELSE bad \cup {l}
        /\ l' = l + 1
        /\ (l' = Len(Trace) + 1 => PrintT(<<"@@V", ToJson([n |-> Len(Trace), bad |-> bad'])>>))
Spec == Init /\ [][Next]_<<l, bad>>
=============================================================================
