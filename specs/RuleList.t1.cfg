SPECIFICATION Spec
CONSTANTS MaxLines = 3
          Shapes <- ShapesFull
INVARIANTS NormalFormIsFixedPoint NormalIsClean RulesAreInputLines HTMLFirstFails BinaryFails Deterministic
