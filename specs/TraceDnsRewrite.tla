-------------------------- MODULE TraceDnsRewrite --------------------------
(***************************************************************************)
(* Direction B for G02.  The trace is recorded from ONE live               *)
(* filtering.DNSFilter (filtering level, lines "q") or ONE live            *)
(* dnsforward.Server (pipeline level, lines "p") that is reconfigured      *)
(* between random configurations from a larger universe than the           *)
(* exhaustive one (8 names up to 4 labels, <= 6 rules with every modifier, *)
(* <= 5 hosts lines with <= 3 names, 20 rewrite values):                   *)
(*   [k |-> "cfg", cfg]        the configuration in force from here on     *)
(*   [k |-> "q", q, out]       a question and the projected CheckHost      *)
(*                             result                                      *)
(*   [k |-> "p", q, m, obs]    a question put to the server over UDP, what *)
(*                             the client and the upstream saw, and the    *)
(*                             behaviour m of the upstream for the name it *)
(*                             was asked                                   *)
(* Every verdict is DnsRewriteCore's own Outcomes / Serve evaluated on the *)
(* configuration in force (cur): the verdict depends on the current        *)
(* configuration only.                                                     *)
(***************************************************************************)
EXTENDS DnsRewriteCore, TLC, Json

SX == INSTANCE SequencesExt

Trace == ndJsonDeserialize("trace.ndjson")

VARIABLES l, cur, bad, kf

RuleOf(j) ==
    [place |-> j.place, kind |-> j.kind, pat |-> j.pat, tgt |-> RE!NameHost(j.tgt.n), imp |-> j.imp,
     dt |-> j.dt, dtype |-> j.dtype, cl |-> j.cl, clv |-> "ip", da |-> j.da, ip |-> "", bad |-> FALSE,
     rw |-> [k |-> j.rw.k, t |-> j.rw.t, v |-> j.rw.v, n |-> j.rw.n]]

CfgOf(j) ==
    [rules   |-> {RuleOf(x) : x \in SX!ToSet(j.rules)},
     hosts   |-> {[ip |-> x.ip, names |-> SX!ToSet(x.names)] : x \in SX!ToSet(j.hosts)},
     hostsOn |-> j.hostsOn, legacy |-> j.legacy, filt |-> j.filt, prot |-> j.prot]

Empty == [rules |-> {}, hosts |-> {}, hostsOn |-> FALSE, legacy |-> <<>>, filt |-> TRUE, prot |-> TRUE]

RqOf(j) == [host |-> j.host, qt |-> j.qt, c1 |-> j.c1]

SameOut(o, j) ==
    o.r = j.r /\ o.rcode = j.rcode /\ o.canon = j.canon /\ o.vals = SX!ToSet(j.vals)

\* A blocked answer is C01's business: only "nothing was asked upstream and
\* nothing of the upstream's is in the answer" is compared.
SameObs(s, j) ==
    /\ s.ask = j.ask /\ s.fromup = j.fromup /\ s.cname = j.cname
    /\ (~s.blocked => s.rcode = j.rcode /\ s.vals = SX!ToSet(j.vals))

OkQ(c, t) == \E o \in Outcomes(c, RqOf(t.q)) : SameOut(o, t.out)
OkP(c, t) == \E o \in Outcomes(c, RqOf(t.q)) : SameObs(Serve(o, t.q.host, LAMBDA n : t.m), t.obs)

\* A rejected line whose observation is one that the known finding
\* G02:exception-after-exception-becomes-rewrite explains (DnsRewriteCore!SkipOutcomes)
\* is reported separately, so that the orchestrator can classify it narrowly.
KfQ(c, t) == \E o \in SkipOutcomes(c, RqOf(t.q)) : SameOut(o, t.out)
KfP(c, t) == \E o \in SkipOutcomes(c, RqOf(t.q)) : SameObs(Serve(o, t.q.host, LAMBDA n : t.m), t.obs)

Init == l = 1 /\ cur = Empty /\ bad = {} /\ kf = {}
Next ==
    /\ l <= Len(Trace)
    /\ LET t == Trace[l] IN
       /\ cur' = IF t.k = "cfg" THEN CfgOf(t.cfg) ELSE cur
       /\ LET rej == (t.k = "q" /\ ~OkQ(cur, t)) \/ (t.k = "p" /\ ~OkP(cur, t)) IN
          /\ bad' = IF rej THEN bad \cup {l} ELSE bad
          /\ kf'  = IF rej /\ ((t.k = "q" /\ KfQ(cur, t)) \/ (t.k = "p" /\ KfP(cur, t))) THEN kf \cup {l} ELSE kf
    /\ l' = l + 1
    /\ (l' = Len(Trace) + 1 => PrintT(<<"@@V", ToJson([n |-> Len(Trace), bad |-> bad', kf |-> kf'])>>))
Spec == Init /\ [][Next]_<<l, cur, bad, kf>>
=============================================================================
