package querylog

// C07 conformance harness for specs/QueryLog.tla.
//
// Direction A (TestZZVerifC07Walk): executes edge-covering walks over the
// transition graph TLC emitted.  After every step the projection of the real
// query log (ring buffer, querylog.json, querylog.json.1, in-flight batch,
// flags) is compared with the spec's destination state, and the observation
// table TLC computed for that state (full listings under every filter, cursor
// and offset pagings, cursors at every stored timestamp +-1 and out of range,
// odd limit/offset values) is put to the real GET /control/querylog handler.
//
// Direction B (TestZZVerifC07Trace): a seeded random driver over a larger
// universe writes an NDJSON trace that specs/TraceQueryLog.tla validates.
//
// Payload fidelity (TestZZVerifC07Payload and inside the walks): the JSON the
// API serves for an entry must be the same while the entry is in memory, in
// the file and in the rotated file, for every payload shape, and must carry
// what was passed to Add.
//
// Unexported identifiers are used to construct the object the way the
// package's own tests do (newQueryLog, flushLogBuffer and its two halves
// encodeEntries/flushToFile, rotate, initWeb) and to read state for the
// projection (buffer, flushPending, conf under their locks).  fileFlushLock is
// taken exactly where flushLogBuffer takes it.

import (
	"bytes"
	"context"
	"encoding/json"
	"fmt"
	"io"
	"math"
	"math/rand"
	"net"
	"net/http"
	"net/http/httptest"
	"net/netip"
	"net/url"
	"os"
	"path/filepath"
	"reflect"
	"runtime/debug"
	"sort"
	"strconv"
	"strings"
	"sync"
	"testing"
	"time"

	"github.com/AdguardTeam/AdGuardHome/internal/aghnet"
	"github.com/AdguardTeam/AdGuardHome/internal/filtering"
	"github.com/AdguardTeam/AdGuardHome/internal/filtering/rulelist"
	"github.com/AdguardTeam/golibs/log"
	"github.com/AdguardTeam/golibs/logutil/slogutil"
	"github.com/AdguardTeam/golibs/timeutil"
	"github.com/AdguardTeam/urlfilter/rules"
	"github.com/miekg/dns"
)

// ---------------------------------------------------------------- vocabulary

const zzC07Huge = 1000000
const zzC07DefaultLimit = 500

type zzC07Name struct {
	ascii   string
	unicode string
}

var zzC07Names = map[string]zzC07Name{
	"org": {ascii: "example.org"},
	"sub": {ascii: "test.example.org"},
	"com": {ascii: "example.com"},
	"idn": {ascii: "xn--e1afmkfd.xn--p1ai", unicode: "пример.рф"},
	// Names with characters that a JSON encoder escapes.  Query names are
	// arbitrary octets on the wire; these are their presentation forms.
	"amp": {ascii: "r&d.example.org"},
	"quo": {ascii: `x\"y.example.org`},
}

var zzC07NameKeys = []string{"org", "sub", "com", "idn", "amp", "quo"}
var zzC07ClientKeys = []string{"plain", "cid", "cid2", "named", "v6", "roam", "roam2"}

type zzC07Client struct {
	ip    string
	cid   string
	cname string
}

var zzC07Clients = map[string]zzC07Client{
	"plain": {ip: "192.168.10.5"},
	"cid":   {ip: "192.168.10.6", cid: "kitchen-tv", cname: "Kitchen TV"},
	// A second device behind the same address, told apart by its ClientID.
	"cid2": {ip: "192.168.10.6", cid: "study-pc", cname: "Study PC"},
	// Capitals inside the name, for lower-case terms beginning with s and k.
	"named": {ip: "10.20.30.40", cname: "Dads-Samsung-Kindle"},
	"v6":    {ip: "2001:db8::17"},
	// One ClientID that is no persistent client's identifier, seen from two
	// addresses: behind the first the client lookup finds "named" by address,
	// behind the second it finds nothing.
	"roam":  {ip: "10.20.30.40", cid: "guest-phone", cname: "Dads-Samsung-Kindle"},
	"roam2": {ip: "192.168.10.5", cid: "guest-phone"},
}

var zzC07Terms = map[string]string{
	"none":        "",
	"sub_example": "example",
	"sub_orgcase": "Example.ORG",
	"exact_org":   `"example.org"`,
	"exact_sub":   `"TEST.Example.Org"`,
	"idn_uni":     "пример.рф",
	"idn_exact":   `"ПРИМЕР.рф"`,
	"idn_puny":    "xn--e1afmkfd",
	"ip_exact":    `"192.168.10.5"`,
	"ip_sub":      "192.168.10.",
	"ip_shared":   `"192.168.10.6"`,
	"amp_sub":     "r&d",
	"amp_exact":   `"R&D.example.org"`,
	"quo_sub":     `x\"y`,
	"cid2_sub":    "study",
	"cname2_exact": `"study pc"`,
	"ip_v6":       "2001:db8",
	"cid_sub":     "kitchen",
	"cid_exact":   `"KITCHEN-tv"`,
	"cname_sub":   "amsung",
	"cname_exact": `"dads-samsung-kindle"`,
	"cname_s":     "samsung",
	"cname_k":     "kindle",
	"nomatch":     "zzz-nothing",
	// Degenerate terms.
	"q_one":    `"`,
	"q_lead":   `"y`,
	"q_trail":  `x\"`,
	"ws":       " ",
	"q_empty":  `""`,
	"q_triple": `"""`,
}

// zzC07OddStatuses are response_status values outside the enumeration.
var zzC07OddStatuses = map[string]string{
	"bad_quote":  `"`,
	"bad_word":   "bogus",
	"bad_quoted": `"all"`,
}

// zzC07FindClient is the FindClient callback of the harness: the persistent
// clients of the vocabulary.
func zzC07FindClient(ids []string) (c *Client, err error) {
	for _, id := range ids {
		switch id {
		case "kitchen-tv":
			return &Client{Name: "Kitchen TV"}, nil
		case "study-pc":
			return &Client{Name: "Study PC"}, nil
		case "10.20.30.40":
			return &Client{Name: "Dads-Samsung-Kindle"}, nil
		}
	}

	return nil, nil
}

// zzC07TermSelects is the harness's own matcher, written from the API
// description (substring; whole value when quoted; case-insensitive; Unicode
// form of an IDN matches its Punycode form).  It does not use the package.
func zzC07TermSelects(term string, n zzC07Name, c zzC07Client) (ok bool) {
	if term == "" {
		return true
	}

	strict := len(term) >= 2 && strings.HasPrefix(term, `"`) && strings.HasSuffix(term, `"`)
	if strict {
		term = term[1 : len(term)-1]
	}

	term = strings.ToLower(term)
	fields := []string{n.ascii, c.ip, c.cid, c.cname}
	if n.unicode != "" {
		fields = append(fields, n.unicode)
	}

	for _, f := range fields {
		f = strings.ToLower(f)
		if f == "" {
			continue
		}

		if strict && f == term || !strict && strings.Contains(f, term) {
			return true
		}
	}

	return false
}

// Reason names as the HTTP API documents them.
var zzC07Reasons = map[string]struct {
	r    filtering.Reason
	name string
}{
	"notfound":     {filtering.NotFilteredNotFound, "NotFilteredNotFound"},
	"allow":        {filtering.NotFilteredAllowList, "NotFilteredWhiteList"},
	"block":        {filtering.FilteredBlockList, "FilteredBlackList"},
	"sb":           {filtering.FilteredSafeBrowsing, "FilteredSafeBrowsing"},
	"parental":     {filtering.FilteredParental, "FilteredParental"},
	"safesearch":   {filtering.FilteredSafeSearch, "FilteredSafeSearch"},
	"service":      {filtering.FilteredBlockedService, "FilteredBlockedService"},
	"rewrite":      {filtering.Rewritten, "Rewrite"},
	"rewritehosts": {filtering.RewrittenAutoHosts, "RewriteEtcHosts"},
	"rewriterule":  {filtering.RewrittenRule, "RewriteRule"},
}

// zzC07Shape is one payload shape: everything of an entry that the spec
// treats as opaque.
type zzC07Shape struct {
	name     string
	reason   string
	res      func() *filtering.Result
	qtype    uint16
	proto    ClientProto
	upstream string
	cached   bool
	ad       bool
	ecs      string
	elapsed  time.Duration
	// answer kinds: "", "a", "aaaa", "cname+a", "txt", "nxdomain", "nodata"
	answer string
	orig   string
}

func zzC07LongText(n int) (s string) {
	var b strings.Builder
	b.WriteString("||")
	for i := 0; b.Len() < n; i++ {
		fmt.Fprintf(&b, "long-%d.example.", i)
	}
	b.WriteString("net^$important")

	return b.String()
}

var zzC07Shapes = []zzC07Shape{{
	name: "notfound-plain", reason: "notfound", qtype: dns.TypeA, answer: "a",
	upstream: "8.8.8.8:53", elapsed: 1234567,
	res: func() *filtering.Result { return &filtering.Result{} },
}, {
	name: "notfound-cached-ad-ecs", reason: "notfound", qtype: dns.TypeAAAA, answer: "aaaa",
	proto: ClientProtoDoH, cached: true, ad: true, ecs: "1.2.3.0/24", elapsed: 42,
	res: func() *filtering.Result { return &filtering.Result{} },
}, {
	name: "notfound-nxdomain", reason: "notfound", qtype: dns.TypeA, answer: "nxdomain",
	proto: ClientProtoDoT, upstream: "tls://dns.example:853", elapsed: 99000000,
	res: func() *filtering.Result { return &filtering.Result{} },
}, {
	name: "notfound-noanswer", reason: "notfound", qtype: dns.TypeHTTPS, answer: "",
	proto: ClientProtoDoQ, upstream: "quic://dns.example", elapsed: 1,
	res: func() *filtering.Result { return nil },
}, {
	name: "notfound-txt", reason: "notfound", qtype: dns.TypeTXT, answer: "txt",
	proto: ClientProtoDNSCrypt, upstream: "sdns://AQcAAAAAAAAA", elapsed: 5000,
	res: func() *filtering.Result { return &filtering.Result{} },
}, {
	name: "notfound-cname", reason: "notfound", qtype: dns.TypeA, answer: "cname+a",
	upstream: "https://dns.example/dns-query", elapsed: 777777,
	res: func() *filtering.Result { return &filtering.Result{} },
}, {
	name: "allow", reason: "allow", qtype: dns.TypeA, answer: "a", upstream: "1.1.1.1:53", elapsed: 3000,
	res: func() *filtering.Result {
		return &filtering.Result{
			Reason: filtering.NotFilteredAllowList,
			Rules:  []*filtering.ResultRule{{Text: "@@||example.org^", FilterListID: 1}},
		}
	},
}, {
	name: "block", reason: "block", qtype: dns.TypeA, answer: "a", elapsed: 100,
	res: func() *filtering.Result {
		return &filtering.Result{
			Reason: filtering.FilteredBlockList, IsFiltered: true,
			Rules: []*filtering.ResultRule{{Text: "||example.org^", FilterListID: 2}},
		}
	},
}, {
	name: "block-hosts-line", reason: "block", qtype: dns.TypeAAAA, answer: "aaaa", elapsed: 100,
	res: func() *filtering.Result {
		return &filtering.Result{
			Reason: filtering.FilteredBlockList, IsFiltered: true,
			Rules: []*filtering.ResultRule{{
				Text: "0.0.0.0 example.org", IP: netip.MustParseAddr("0.0.0.0"), FilterListID: 3,
			}},
		}
	},
}, {
	name: "block-two-long-rules", reason: "block", qtype: dns.TypeA, answer: "nodata", elapsed: 100,
	res: func() *filtering.Result {
		return &filtering.Result{
			Reason: filtering.FilteredBlockList, IsFiltered: true,
			Rules: []*filtering.ResultRule{
				{Text: zzC07LongText(3000), FilterListID: 1700000000},
				{Text: `||b.example^$dnstype=~A,client="Kid's \"tablet\""`, FilterListID: 6},
			},
		}
	},
}, {
	name: "block-by-response", reason: "block", qtype: dns.TypeA, answer: "a", orig: "cname+a",
	upstream: "9.9.9.9:53", elapsed: 2500000,
	res: func() *filtering.Result {
		return &filtering.Result{
			Reason: filtering.FilteredBlockList, IsFiltered: true,
			Rules: []*filtering.ResultRule{{Text: "||target.example.net^", FilterListID: 2}},
		}
	},
}, {
	name: "sb", reason: "sb", qtype: dns.TypeA, answer: "a", elapsed: 9000000,
	res: func() *filtering.Result {
		return &filtering.Result{
			Reason: filtering.FilteredSafeBrowsing, IsFiltered: true,
			Rules: []*filtering.ResultRule{{
				Text: "adguard-malware-shavar", FilterListID: rulelist.URLFilterIDSafeBrowsing,
			}},
		}
	},
}, {
	name: "parental", reason: "parental", qtype: dns.TypeA, answer: "a", elapsed: 9000000,
	res: func() *filtering.Result {
		return &filtering.Result{
			Reason: filtering.FilteredParental, IsFiltered: true,
			Rules: []*filtering.ResultRule{{
				Text: "parental CATEGORY_BLACKLISTED", FilterListID: rulelist.URLFilterIDParentalControl,
			}},
		}
	},
}, {
	name: "safesearch-ip", reason: "safesearch", qtype: dns.TypeA, answer: "a", elapsed: 10,
	res: func() *filtering.Result {
		return &filtering.Result{
			Reason: filtering.FilteredSafeSearch, IsFiltered: true,
			Rules: []*filtering.ResultRule{{
				IP: netip.MustParseAddr("213.180.193.56"), FilterListID: rulelist.URLFilterIDSafeSearch,
			}},
		}
	},
}, {
	name: "safesearch-cname", reason: "safesearch", qtype: dns.TypeAAAA, answer: "cname+a", elapsed: 10,
	res: func() *filtering.Result {
		return &filtering.Result{
			Reason: filtering.FilteredSafeSearch, IsFiltered: true,
			CanonName: "forcesafesearch.google.com",
			Rules:     []*filtering.ResultRule{{FilterListID: rulelist.URLFilterIDSafeSearch}},
		}
	},
}, {
	name: "service", reason: "service", qtype: dns.TypeA, answer: "a", elapsed: 10,
	res: func() *filtering.Result {
		return &filtering.Result{
			Reason: filtering.FilteredBlockedService, IsFiltered: true, ServiceName: "youtube",
			Rules: []*filtering.ResultRule{{
				Text: "||youtube.com^", FilterListID: rulelist.URLFilterIDBlockedService,
			}},
		}
	},
}, {
	name: "rewrite-cname-ips", reason: "rewrite", qtype: dns.TypeA, answer: "cname+a", elapsed: 10,
	res: func() *filtering.Result {
		return &filtering.Result{
			Reason: filtering.Rewritten, CanonName: "target.example.net",
			IPList: []netip.Addr{netip.MustParseAddr("1.2.3.4"), netip.MustParseAddr("2001:db8::1")},
		}
	},
}, {
	name: "rewrite-ip", reason: "rewrite", qtype: dns.TypeAAAA, answer: "aaaa", elapsed: 10,
	res: func() *filtering.Result {
		return &filtering.Result{
			Reason: filtering.Rewritten, IPList: []netip.Addr{netip.MustParseAddr("2001:db8::2")},
		}
	},
}, {
	name: "rewritehosts-a", reason: "rewritehosts", qtype: dns.TypeA, answer: "a", elapsed: 10,
	res: func() *filtering.Result {
		return &filtering.Result{
			Reason: filtering.RewrittenAutoHosts,
			Rules: []*filtering.ResultRule{{
				Text: "1.2.3.4 example.org", FilterListID: rulelist.URLFilterIDEtcHosts,
			}},
			DNSRewriteResult: &filtering.DNSRewriteResult{
				RCode: dns.RcodeSuccess,
				Response: filtering.DNSRewriteResultResponse{
					dns.TypeA: []rules.RRValue{netip.MustParseAddr("1.2.3.4")},
				},
			},
		}
	},
}, {
	name: "rewritehosts-ptr", reason: "rewritehosts", qtype: dns.TypePTR, answer: "nodata", elapsed: 10,
	res: func() *filtering.Result {
		return &filtering.Result{
			Reason: filtering.RewrittenAutoHosts,
			Rules: []*filtering.ResultRule{{
				Text: "1.2.3.4 myhost", FilterListID: rulelist.URLFilterIDEtcHosts,
			}},
			DNSRewriteResult: &filtering.DNSRewriteResult{
				RCode: dns.RcodeSuccess,
				Response: filtering.DNSRewriteResultResponse{
					dns.TypePTR: []rules.RRValue{"myhost."},
				},
			},
		}
	},
}, {
	name: "rewriterule-a-txt", reason: "rewriterule", qtype: dns.TypeA, answer: "a", elapsed: 10,
	res: func() *filtering.Result {
		return &filtering.Result{
			Reason: filtering.RewrittenRule,
			Rules: []*filtering.ResultRule{{
				Text: "|example.org^$dnsrewrite=NOERROR;A;1.2.3.4", FilterListID: 7,
			}},
			DNSRewriteResult: &filtering.DNSRewriteResult{
				RCode: dns.RcodeSuccess,
				Response: filtering.DNSRewriteResultResponse{
					dns.TypeA:   []rules.RRValue{netip.MustParseAddr("1.2.3.4")},
					dns.TypeTXT: []rules.RRValue{"hello world"},
				},
			},
		}
	},
}, {
	name: "rewriterule-nxdomain", reason: "rewriterule", qtype: dns.TypeA, answer: "nxdomain", elapsed: 10,
	res: func() *filtering.Result {
		return &filtering.Result{
			Reason: filtering.RewrittenRule, CanonName: "other.example.net",
			Rules: []*filtering.ResultRule{{
				Text: "|example.org^$dnsrewrite=NXDOMAIN;;", FilterListID: 7,
			}, {
				Text: "|example.org^$dnsrewrite=other.example.net", FilterListID: 8,
			}},
			DNSRewriteResult: &filtering.DNSRewriteResult{RCode: dns.RcodeNameError},
		}
	},
}}

func zzC07ShapesOf(reason string) (idx []int) {
	for i, s := range zzC07Shapes {
		if s.reason == reason {
			idx = append(idx, i)
		}
	}

	return idx
}

// zzC07Answer builds a response message of the given kind for question q.
func zzC07Answer(kind string, q dns.Question, ad bool) (m *dns.Msg) {
	if kind == "" {
		return nil
	}

	m = &dns.Msg{Question: []dns.Question{q}}
	m.Response = true
	m.AuthenticatedData = ad
	hdr := func(t uint16, ttl uint32) dns.RR_Header {
		return dns.RR_Header{Name: q.Name, Rrtype: t, Class: dns.ClassINET, Ttl: ttl}
	}

	switch kind {
	case "a":
		m.Answer = []dns.RR{&dns.A{Hdr: hdr(dns.TypeA, 300), A: net.IPv4(93, 184, 216, 34)}}
	case "aaaa":
		m.Answer = []dns.RR{&dns.AAAA{Hdr: hdr(dns.TypeAAAA, 86400), AAAA: net.ParseIP("2606:2800:220:1::1")}}
	case "cname+a":
		tgt := dns.RR_Header{Name: "target.example.net.", Rrtype: dns.TypeA, Class: dns.ClassINET, Ttl: 60}
		m.Answer = []dns.RR{
			&dns.CNAME{Hdr: hdr(dns.TypeCNAME, 3600), Target: "target.example.net."},
			&dns.A{Hdr: tgt, A: net.IPv4(10, 0, 0, 1)},
			&dns.A{Hdr: tgt, A: net.IPv4(10, 0, 0, 2)},
		}
	case "txt":
		m.Answer = []dns.RR{&dns.TXT{Hdr: hdr(dns.TypeTXT, 5), Txt: []string{`v=spf1 "quoted" <&> \ ü`, "second"}}}
	case "nxdomain":
		m.Rcode = dns.RcodeNameError
	case "nodata":
	}

	return m
}

// zzC07Expect lists the expected API values of the answer kinds that the
// harness formats itself (addresses and names only).
func zzC07ExpectAnswer(kind string) (want []map[string]any, known bool) {
	switch kind {
	case "a":
		return []map[string]any{{"type": "A", "value": "93.184.216.34", "ttl": float64(300)}}, true
	case "aaaa":
		return []map[string]any{{"type": "AAAA", "value": "2606:2800:220:1::1", "ttl": float64(86400)}}, true
	case "cname+a":
		return []map[string]any{
			{"type": "CNAME", "value": "target.example.net.", "ttl": float64(3600)},
			{"type": "A", "value": "10.0.0.1", "ttl": float64(60)},
			{"type": "A", "value": "10.0.0.2", "ttl": float64(60)},
		}, true
	case "", "nxdomain", "nodata":
		return nil, true
	}

	return nil, false
}

// ---------------------------------------------------------------- real object

type zzC07Rec struct {
	name, cli string
	shape     int
	host      string // as passed to Add
	hooked    bool   // the original answer is the scheduling hook (see zzC07Hook)
}

type zzC07Log struct {
	dir      string
	l        *queryLog
	handlers map[string]http.HandlerFunc
	rng      *rand.Rand

	// Enc..App window: fileFlushLock is held by the harness as flushLogBuffer
	// would hold it.
	held     bool
	// gate: fileFlushLock is held by the harness to keep the flushing
	// goroutine that an Add has started (or is about to start) from running
	// until the walk takes the autoflush / autoflushfail step.  The harness
	// acts as the scheduler here; nothing of the object is modified.
	gate bool
	// aside is set while the log file path is made unwritable (I/O fault).
	aside string
	batch    *bytes.Buffer
	batchIDs []int

	clock   int
	t0, t1  []int64 // bracket of the n-th Add (index n), wall ns
	exact   []int64 // exact entry time, 0 if the Add produced no entry
	recs    []zzC07Rec
	byTime  map[int64]int
	last    int64
	first   map[string]string // id/anon -> canonical JSON first served
	firstAt map[string]string // where it was when first served
	discard string
	queries int

	// Direction B only: incremental reading of the files for the projection.
	flight []*zzC07Flight

	incremental bool
	cache       map[string]*zzC07FileCache
	maxFile     int64
}

func zzC07NewLog(dir string, seed int64) (x *zzC07Log) {
	return &zzC07Log{
		dir: dir, rng: rand.New(rand.NewSource(seed)),
		t0: []int64{0}, t1: []int64{0}, exact: []int64{0}, recs: []zzC07Rec{{}},
		byTime: map[int64]int{}, first: map[string]string{}, firstAt: map[string]string{},
		cache: map[string]*zzC07FileCache{},
	}
}

// open creates the query log object on x.dir the way home does.
// zzC07IgnoredHost is the host name the ignore list of the spec holds when
// `ign' is set (QueryLog!IgnName = "com"), written as a user would write it.
const zzC07IgnoredHost = "example.com"

func zzC07Ignored(on bool) (l []string) {
	if on {
		return []string{zzC07IgnoredHost}
	}

	return []string{}
}

func (x *zzC07Log) open(memSize int, fileEnabled, enabled, anon bool, ignored ...string) (err error) {
	x.handlers = map[string]http.HandlerFunc{}
	ign, err := aghnet.NewIgnoreEngine(ignored)
	if err != nil {
		return err
	}

	var anonFunc aghnet.IPMutFunc
	if anon {
		anonFunc = AnonymizeIP
	}

	x.l, err = newQueryLog(Config{
		Logger:            slogutil.NewDiscardLogger(),
		Ignored:           ign,
		Anonymizer:        aghnet.NewIPMut(anonFunc),
		ConfigModified:    func() {},
		HTTPRegister:      func(m, u string, h http.HandlerFunc) { x.handlers[m+" "+u] = h },
		FindClient:        zzC07FindClient,
		BaseDir:           x.dir,
		RotationIvl:       timeutil.Day,
		MemSize:           uint(memSize),
		Enabled:           enabled,
		FileEnabled:       fileEnabled,
		AnonymizeClientIP: anon,
	})
	if err != nil {
		return err
	}

	x.l.initWeb()

	return nil
}

// serve calls the registered handler as the HTTP server would.
func (x *zzC07Log) serve(method, path, rawQuery string, body []byte) (code int, resp []byte, pan string) {
	h := x.handlers[method+" "+path]
	if h == nil {
		return 0, nil, "no handler for " + method + " " + path
	}

	target := path
	if rawQuery != "" {
		target += "?" + rawQuery
	}

	r := httptest.NewRequest(method, target, bytes.NewReader(body))
	w := httptest.NewRecorder()
	func() {
		defer func() {
			if v := recover(); v != nil {
				pan = fmt.Sprint(v)
			}
		}()

		h(w, r)
	}()

	return w.Code, w.Body.Bytes(), pan
}

// serveScaled answers a search request with the scan limit of the request
// (searchParams.maxFileScanEntries, 50000 in the handler) scaled down to scan.
// It does what handleQueryLog does -- parseSearchParams, search under confMu,
// entriesToJSON -- and overrides that one field in between; the package's own
// TestQueryLogMaxFileScanEntries sets the field the same way.
func (x *zzC07Log) serveScaled(rawQuery string, scan int) (code int, resp []byte, pan string) {
	defer func() {
		if v := recover(); v != nil {
			pan = fmt.Sprint(v)
		}
	}()

	l := x.l
	r := httptest.NewRequest(http.MethodGet, "/control/querylog?"+rawQuery, nil)
	ctx := r.Context()
	params, err := l.parseSearchParams(ctx, r)
	if err != nil {
		return http.StatusBadRequest, []byte(err.Error()), ""
	}

	params.maxFileScanEntries = scan

	var entries []*logEntry
	var oldest time.Time
	func() {
		l.confMu.RLock()
		defer l.confMu.RUnlock()

		entries, oldest = l.search(ctx, params)
	}()

	resp, err = json.Marshal(l.entriesToJSON(ctx, entries, oldest, l.anonymizer.Load()))
	if err != nil {
		return http.StatusInternalServerError, []byte(err.Error()), ""
	}

	return http.StatusOK, resp, ""
}

func (x *zzC07Log) conf() (c Config) {
	x.l.WriteDiskConfig(&c)

	return c
}

// waitFlush waits until no automatic flush is pending or running.
func (x *zzC07Log) waitFlush() (ok bool) {
	deadline := time.Now().Add(10 * time.Second)
	for {
		// The flush has taken the entries out of the ring (first half) when
		// the request flag is down or the ring is empty; nobody else adds or
		// clears meanwhile.
		x.l.bufferLock.RLock()
		p := x.l.flushPending && x.l.buffer.Len() > 0
		x.l.bufferLock.RUnlock()
		if !p {
			break
		}

		if time.Now().After(deadline) {
			return false
		}

		time.Sleep(20 * time.Microsecond)
	}

	if !x.held && !x.gate {
		// The flushing goroutine holds fileFlushLock from before it clears
		// the ring until the write attempt is over.
		x.l.fileFlushLock.Lock()
		x.l.fileFlushLock.Unlock()
	}

	return true
}

// ringNewest returns the timestamp of the newest ring element, 0 if none.
func (x *zzC07Log) ringNewest() (t int64) {
	x.l.bufferLock.RLock()
	defer x.l.bufferLock.RUnlock()

	x.l.buffer.ReverseRange(func(e *logEntry) (cont bool) {
		t = e.Time.UnixNano()

		return false
	})

	return t
}

func (x *zzC07Log) ringTimes() (ts []int64) {
	x.l.bufferLock.RLock()
	defer x.l.bufferLock.RUnlock()

	x.l.buffer.Range(func(e *logEntry) (cont bool) {
		ts = append(ts, e.Time.UnixNano())

		return true
	})

	return ts
}

// zzC07LineTimes extracts the timestamps of JSON lines.
func zzC07LineTimes(b []byte) (ts []int64, err error) {
	for len(b) > 0 {
		i := bytes.IndexByte(b, '\n')
		var line []byte
		if i < 0 {
			line, b = b, nil
		} else {
			line, b = b[:i], b[i+1:]
		}

		if len(line) == 0 {
			continue
		}

		const pfx = `{"T":"`
		if !bytes.HasPrefix(line, []byte(pfx)) {
			return nil, fmt.Errorf("line without leading timestamp: %.80q", line)
		}

		j := bytes.IndexByte(line[len(pfx):], '"')
		if j < 0 {
			return nil, fmt.Errorf("unterminated timestamp: %.80q", line)
		}

		var tm time.Time
		tm, err = time.Parse(time.RFC3339Nano, string(line[len(pfx):len(pfx)+j]))
		if err != nil {
			return nil, err
		}

		ts = append(ts, tm.UnixNano())
	}

	return ts, nil
}

func zzC07FileTimes(p string) (ts []int64, err error) {
	b, err := os.ReadFile(p)
	if err != nil {
		if os.IsNotExist(err) {
			return nil, nil
		}

		return nil, err
	}

	return zzC07LineTimes(b)
}

// zzC07FileCache remembers the timestamps of a file that only grows by
// appending, so that long histories do not re-read megabytes after every
// call.  A file whose head differs or which has shrunk is read anew.
type zzC07FileCache struct {
	head []byte
	size int64
	ts   []int64
}

func (x *zzC07Log) fileTimes(p string) (ts []int64, err error) {
	if !x.incremental {
		return zzC07FileTimes(p)
	}

	f, err := os.Open(p)
	if err != nil {
		delete(x.cache, p)
		if os.IsNotExist(err) {
			return nil, nil
		}

		return nil, err
	}
	defer f.Close()

	fi, err := f.Stat()
	if err != nil {
		return nil, err
	}

	head := make([]byte, 64)
	n, _ := f.ReadAt(head, 0)
	head = head[:n]

	c := x.cache[p]
	from := int64(0)
	if c != nil && fi.Size() >= c.size && bytes.Equal(c.head, head) {
		from = c.size
		ts = c.ts
	}

	if fi.Size() > from {
		b := make([]byte, fi.Size()-from)
		if _, err = f.ReadAt(b, from); err != nil {
			return nil, err
		}

		var more []int64
		more, err = zzC07LineTimes(b)
		if err != nil {
			return nil, err
		}

		ts = append(ts[:len(ts):len(ts)], more...)
	}

	x.cache[p] = &zzC07FileCache{head: head, size: fi.Size(), ts: ts}
	if fi.Size() > x.maxFile {
		x.maxFile = fi.Size()
	}

	return ts, nil
}

func (x *zzC07Log) ids(ts []int64) (ids []int) {
	ids = make([]int, len(ts))
	for i, t := range ts {
		id, ok := x.byTime[t]
		if !ok {
			id = -1
		}

		ids[i] = 2 * id
		if !ok {
			ids[i] = -1
		}
	}

	return ids
}

// zzC07State is the spec's state record (QueryLog!St).
type zzC07State struct {
	Mem   []int `json:"mem"`
	Cur   []int `json:"cur"`
	Rot   []int `json:"rot"`
	Batch []int `json:"batch"`
	Fp    bool  `json:"fp"`
	Ms    int   `json:"ms"`
	Fe    bool  `json:"fe"`
	En    bool  `json:"en"`
	An    bool  `json:"an"`
	Ig    bool  `json:"ig"`
	Ck    int   `json:"ck"`
	Pal   int   `json:"pal"`
	Fl    []int `json:"fl"`
	// Attr: name, client and reason of the stored entries (rotated file,
	// file, batch, ring).
	Attr [][]string `json:"attr"`
}

func zzC07NZ(a []int) (b []int) {
	if a == nil {
		return []int{}
	}

	return a
}

// project is the abstraction function.
func (x *zzC07Log) project(pal int) (s zzC07State, err error) {
	cur, err := x.fileTimes(filepath.Join(x.dir, queryLogFileName))
	if err != nil {
		return s, err
	}

	rot, err := x.fileTimes(filepath.Join(x.dir, queryLogFileName+".1"))
	if err != nil {
		return s, err
	}

	x.l.bufferLock.RLock()
	fp := x.l.flushPending
	x.l.bufferLock.RUnlock()
	c := x.conf()

	s = zzC07State{
		Mem: zzC07NZ(x.ids(x.ringTimes())), Cur: zzC07NZ(x.ids(cur)), Rot: zzC07NZ(x.ids(rot)),
		Batch: zzC07NZ(x.batchIDs), Fp: fp, Ms: int(c.MemSize), Fe: c.FileEnabled, En: c.Enabled,
		An: c.AnonymizeClientIP, Ig: len(c.Ignored.Values()) > 0, Ck: x.clock, Pal: pal, Fl: x.flightTicks(),
		Attr: [][]string{},
	}
	for _, l := range [][]int{s.Rot, s.Cur, s.Batch, s.Mem} {
		if x.incremental {
			// Direction B compares a compact projection without attributes.
			break
		}

		for _, id := range l {
			if id < 2 || id/2 >= len(x.recs) {
				s.Attr = append(s.Attr, []string{"?", "?", "?"})

				continue
			}

			rec := x.recs[id/2]
			s.Attr = append(s.Attr, []string{rec.name, rec.cli, zzC07Shapes[rec.shape].reason})
		}
	}

	return s, nil
}

// params builds the arguments of Add for a record of the vocabulary.
func (x *zzC07Log) params(name, cli string, shape int) (p *AddParams, host string) {
	n := zzC07Names[name]
	c := zzC07Clients[cli]
	sh := &zzC07Shapes[shape]

	host = n.ascii
	if x.rng.Intn(3) == 0 {
		host = strings.ToUpper(host[:1]) + host[1:]
	}

	q := dns.Question{Name: host + ".", Qtype: sh.qtype, Qclass: dns.ClassINET}
	p = &AddParams{
		Question:          &dns.Msg{Question: []dns.Question{q}},
		Answer:            zzC07Answer(sh.answer, q, sh.ad),
		OrigAnswer:        zzC07Answer(sh.orig, q, false),
		Result:            sh.res(),
		ClientID:          c.cid,
		Upstream:          sh.upstream,
		ClientProto:       sh.proto,
		ClientIP:          net.ParseIP(c.ip),
		Elapsed:           sh.elapsed,
		Cached:            sh.cached,
		AuthenticatedData: sh.ad,
	}
	if sh.ecs != "" {
		_, p.ReqECS, _ = net.ParseCIDR(sh.ecs)
	}

	return p, host
}

// record performs one Add.  The entry's timestamp is whatever time.Now() gave
// inside Add; it is read back and must be strictly increasing with room for
// +-1 ns cursors.
func (x *zzC07Log) record(name, cli string, shape int) {
	for time.Now().UnixNano() < x.last+2000 {
	}

	p, host := x.params(name, cli, shape)
	conf := x.conf()
	before := x.ringNewest()

	t0 := time.Now().UnixNano()
	x.l.Add(p)
	t1 := time.Now().UnixNano()

	x.clock++
	x.t0, x.t1 = append(x.t0, t0), append(x.t1, t1)
	x.recs = append(x.recs, zzC07Rec{name: name, cli: cli, shape: shape, host: host})
	x.exact = append(x.exact, 0)
	x.last = t1

	if !conf.Enabled {
		return
	}

	// Find the new entry: in the ring, or -- if the automatic flush has
	// already taken it -- at the end of the file.
	found := int64(0)
	after := x.ringNewest()
	if after != 0 && after >= t0 && after <= t1 && before != after {
		found = after
	} else if !x.held && !x.gate {
		if !x.waitFlush() {
			x.discard = "automatic flush did not finish"

			return
		}

		cur, _ := x.fileTimes(filepath.Join(x.dir, queryLogFileName))
		if len(cur) > 0 && cur[len(cur)-1] >= t0 && cur[len(cur)-1] <= t1 {
			found = cur[len(cur)-1]
		}
	}

	if found == 0 {
		// Not an error of the harness: the projection will show the loss.
		return
	}

	if prev := x.prevExact(); found < prev+2 {
		x.discard = fmt.Sprintf("timestamps not strictly increasing: %d after %d", found, prev)

		return
	}

	x.exact[x.clock] = found
	x.byTime[found] = x.clock
}

// zzC07Hook is the data of a private-use resource record whose Pack method
// calls f once.  Add packs the answers after it has taken the entry's time and
// before it takes the buffer lock: a record with this data in its original
// answer parks the Add exactly there, which makes the schedule of overlapping
// Adds (QueryLog!Stamp / Push) deterministic.  Nothing of the query log is
// replaced or modified.
type zzC07Hook struct {
	once *sync.Once
	f    func()
}

func (d *zzC07Hook) String() string                   { return "verif" }
func (d *zzC07Hook) Parse(_ []string) error           { return nil }
func (d *zzC07Hook) Unpack(_ []byte) (int, error)     { return 0, nil }
func (d *zzC07Hook) Copy(_ dns.PrivateRdata) error    { return nil }
func (d *zzC07Hook) Len() int                         { return 0 }
func (d *zzC07Hook) Pack(_ []byte) (n int, err error) { d.once.Do(d.f); return 0, nil }

// zzC07Flight is an Add between Stamp and Push.
type zzC07Flight struct {
	tick    int
	s0, s1  int64
	release chan struct{}
	done    chan struct{}
	rec     zzC07Rec
}

// tick appends the bookkeeping of one clock tick (a Stamp, a Push or a whole
// Add) and returns its number.
func (x *zzC07Log) tick(t0, t1 int64, rec zzC07Rec) (n int) {
	x.clock++
	x.t0, x.t1 = append(x.t0, t0), append(x.t1, t1)
	x.recs = append(x.recs, rec)
	x.exact = append(x.exact, 0)
	x.last = t1

	return x.clock
}

// stamp starts an Add in its own goroutine and lets it run until it has taken
// the entry's time and is packing the answers (QueryLog!Stamp).
func (x *zzC07Log) stamp(name, cli string, shape int) {
	for time.Now().UnixNano() < x.last+2000 {
	}

	p, host := x.params(name, cli, shape)
	f := &zzC07Flight{release: make(chan struct{}), done: make(chan struct{})}
	f.rec = zzC07Rec{name: name, cli: cli, shape: shape, host: host, hooked: true}
	parked := make(chan struct{})
	q := p.Question.Question[0]
	p.OrigAnswer = &dns.Msg{Question: []dns.Question{q}}
	p.OrigAnswer.Answer = []dns.RR{&dns.PrivateRR{
		Hdr:  dns.RR_Header{Name: q.Name, Rrtype: 0xFF00, Class: dns.ClassINET, Ttl: 10},
		Data: &zzC07Hook{once: &sync.Once{}, f: func() { close(parked); <-f.release }},
	}}

	f.s0 = time.Now().UnixNano()
	go func() {
		defer close(f.done)

		x.l.Add(p)
	}()

	inFlight := false
	select {
	case <-parked:
		inFlight = true
	case <-f.done:
		// Logging is disabled: Add has returned without recording.
	case <-time.After(10 * time.Second):
		x.discard = "a concurrent Add neither parked nor returned"
	}

	f.s1 = time.Now().UnixNano()
	f.tick = x.tick(f.s0, f.s1, f.rec)
	if inFlight {
		x.flight = append(x.flight, f)
	}
}

// push lets the i-th parked Add take the buffer lock and push its entry
// (QueryLog!Push), and finds out which time the entry carries.
func (x *zzC07Log) push(i int) {
	if i < 1 || i > len(x.flight) {
		x.discard = "no such Add in flight"

		return
	}

	for time.Now().UnixNano() < x.last+2000 {
	}

	f := x.flight[i-1]
	x.flight = append(x.flight[:i-1:i-1], x.flight[i:]...)

	p0 := time.Now().UnixNano()
	close(f.release)
	select {
	case <-f.done:
	case <-time.After(10 * time.Second):
		x.discard = "a concurrent Add did not return"

		return
	}

	p1 := time.Now().UnixNano()
	pt := x.tick(p0, p1, f.rec)

	t := x.ringNewest()
	owner := 0
	switch {
	case t >= f.s0 && t <= f.s1:
		owner = f.tick
	case t >= p0 && t <= p1:
		owner = pt
	default:
		// The entry is not where a push puts it; the projection will show it.
		return
	}

	for n := 1; n <= x.clock; n++ {
		if d := x.exact[n] - t; x.exact[n] != 0 && d > -2 && d < 2 {
			x.discard = fmt.Sprintf("timestamps %d and %d too close", x.exact[n], t)

			return
		}
	}

	x.exact[owner] = t
	x.byTime[t] = owner
	x.recs[owner] = f.rec
}

func (x *zzC07Log) flightTicks() (l []int) {
	l = []int{}
	for _, f := range x.flight {
		l = append(l, f.tick)
	}

	return l
}

func (x *zzC07Log) prevExact() (v int64) {
	for i := x.clock - 1; i >= 1; i-- {
		if x.exact[i] != 0 {
			return x.exact[i]
		}
	}

	return 0
}

// concOlder renders an abstract cursor.
func (x *zzC07Log) concOlder(c int) (s string) {
	timeOf := func(n int) int64 {
		if x.exact[n] != 0 {
			return x.exact[n]
		}

		return x.t0[n]
	}

	var ns int64
	switch {
	case c == -1:
		return "1970-01-01T00:00:00Z"
	case c == -2:
		return "1600-02-03T04:05:06.789Z"
	case c <= -3:
		return "not-a-timestamp"
	case x.clock == 0:
		ns = time.Now().UnixNano() + int64(c-2)*int64(time.Hour)
	case c == 1:
		ns = timeOf(1) - 1
	case c > 2*x.clock+1:
		ns = time.Now().UnixNano() + int64(c-2*x.clock)*int64(time.Hour)
	case c%2 == 0:
		ns = timeOf(c / 2)
	default:
		ns = timeOf(c/2) + 1
	}

	t := time.Unix(0, ns)
	if x.rng.Intn(2) == 0 {
		t = t.UTC()
	}

	return t.Format(time.RFC3339Nano)
}

func zzC07ConcInt(v int) (s string) {
	if v == zzC07Huge {
		return strconv.FormatInt(math.MaxInt64, 10)
	}

	return strconv.Itoa(v)
}

// zzC07Q is one row of the spec's observation table:
// <<older, limit, offset, term, status, class, data, oldest, sig>>.
type zzC07Q struct {
	Older, Limit, Offset int
	Term, Status, Class  string
	Data                 []int
	Oldest               int
	SigData              []int
	Sigs                 []zzC07Sig
	// Alts are the other admissible answers (see QueryLog!Hidden): replies
	// for an exact row, selected sequences for a window row.
	Alts []zzC07Sig
	Scan int
	Tag                  string
}

// zzC07Sig is a defect signature TLC attached to a row: the reply (or, for a
// window row, the selected sequence) the spec computes under the defect.
type zzC07Sig struct {
	Name   string
	Data   []int
	Oldest int
}

const zzC07DefaultScan = 50000

func (q *zzC07Q) UnmarshalJSON(b []byte) (err error) {
	var raw []json.RawMessage
	if err = json.Unmarshal(b, &raw); err != nil {
		return err
	}

	if len(raw) != 11 && len(raw) != 12 {
		return fmt.Errorf("query tuple of length %d", len(raw))
	}

	if len(raw) == 12 {
		// The orchestrator's tag of the row: which part of the observation
		// table it comes from.
		if err = json.Unmarshal(raw[11], &q.Tag); err != nil {
			return err
		}
	}

	var alts [][]json.RawMessage
	if err = json.Unmarshal(raw[10], &alts); err != nil {
		return err
	}

	for _, a := range alts {
		if len(a) != 2 {
			return fmt.Errorf("alternative of length %d", len(a))
		}

		v := zzC07Sig{Name: "alt"}
		if err = json.Unmarshal(a[0], &v.Data); err != nil {
			return err
		}

		if err = json.Unmarshal(a[1], &v.Oldest); err != nil {
			return err
		}

		q.Alts = append(q.Alts, v)
	}

	dst := []any{&q.Older, &q.Limit, &q.Offset, &q.Term, &q.Status, &q.Class, &q.Data, &q.Oldest}
	for i, d := range dst {
		if err = json.Unmarshal(raw[i], d); err != nil {
			return err
		}
	}

	var sigs [][]json.RawMessage
	if err = json.Unmarshal(raw[8], &sigs); err != nil {
		return err
	}

	for _, sg := range sigs {
		if len(sg) != 3 {
			return fmt.Errorf("signature of length %d", len(sg))
		}

		v := zzC07Sig{}
		if err = json.Unmarshal(sg[0], &v.Name); err != nil {
			return err
		}

		if err = json.Unmarshal(sg[1], &v.Data); err != nil {
			return err
		}

		if err = json.Unmarshal(sg[2], &v.Oldest); err != nil {
			return err
		}

		q.Sigs = append(q.Sigs, v)
	}

	return json.Unmarshal(raw[9], &q.Scan)
}

func (q *zzC07Q) MarshalJSON() (b []byte, err error) {
	sigs := []any{}
	for _, sg := range q.Sigs {
		sigs = append(sigs, []any{sg.Name, zzC07NZ(sg.Data), sg.Oldest})
	}

	alts := []any{}
	for _, a := range q.Alts {
		alts = append(alts, []any{zzC07NZ(a.Data), a.Oldest})
	}

	return json.Marshal([]any{
		q.Older, q.Limit, q.Offset, q.Term, q.Status, q.Class, zzC07NZ(q.Data), q.Oldest, sigs, q.Scan, alts,
	})
}

type zzC07Reply struct {
	St     string `json:"st"`
	Data   []int  `json:"data"`
	Oldest int    `json:"oldest"`
	Msg    string `json:"msg,omitempty"`
	URL    string `json:"url,omitempty"`

	entries []map[string]any
}

// search puts one request to GET /control/querylog and abstracts the reply.
func (x *zzC07Log) search(q *zzC07Q) (r zzC07Reply) {
	v := url.Values{}
	if q.Older != 0 {
		v.Set("older_than", x.concOlder(q.Older))
	}

	if q.Limit != zzC07DefaultLimit {
		v.Set("limit", zzC07ConcInt(q.Limit))
	}

	// An explicit offset=0 turns the server's scan limit off; that makes no
	// difference below 50000 records, so it is sent now and then.
	if q.Offset != 0 || q.Scan == zzC07DefaultScan && x.clock < 10000 && x.rng.Intn(2) == 0 {
		v.Set("offset", zzC07ConcInt(q.Offset))
	}

	if t := zzC07Terms[q.Term]; t != "" {
		v.Set("search", t)
	}

	if q.Status != "none" {
		st := q.Status
		if odd, ok := zzC07OddStatuses[st]; ok {
			st = odd
		}

		v.Set("response_status", st)
	}

	x.queries++
	r.URL = v.Encode()
	var code int
	var body []byte
	var pan string
	if q.Scan == zzC07DefaultScan || q.Scan == 0 && q.Offset != 0 {
		code, body, pan = x.serve(http.MethodGet, "/control/querylog", r.URL, nil)
	} else {
		code, body, pan = x.serveScaled(r.URL, q.Scan)
		r.URL += fmt.Sprintf(" [scan limit %d]", q.Scan)
	}

	switch {
	case pan != "":
		r.St, r.Msg = "panic", pan

		return r
	case code == http.StatusBadRequest:
		r.St, r.Msg = "bad_request", strings.TrimSpace(string(body))

		return r
	case code != http.StatusOK:
		r.St, r.Msg = "http_"+strconv.Itoa(code), strings.TrimSpace(string(body))

		return r
	}

	var resp struct {
		Data   []map[string]any `json:"data"`
		Oldest string           `json:"oldest"`
	}

	if err := json.Unmarshal(body, &resp); err != nil {
		r.St, r.Msg = "bad_json", err.Error()

		return r
	}

	r.St = "ok"
	r.Data = []int{}
	r.entries = resp.Data
	for _, e := range resp.Data {
		r.Data = append(r.Data, x.idOfTime(e["time"]))
	}

	if resp.Oldest != "" {
		r.Oldest = x.idOfTime(resp.Oldest)
	}

	return r
}

func (x *zzC07Log) idOfTime(v any) (id int) {
	s, _ := v.(string)
	t, err := time.Parse(time.RFC3339Nano, s)
	if err != nil {
		return -1
	}

	n, ok := x.byTime[t.UnixNano()]
	if !ok {
		return -1
	}

	return 2 * n
}

func zzC07IsSubseq(a, b []int) (ok bool) {
	j := 0
	for _, v := range a {
		for j < len(b) && b[j] != v {
			j++
		}

		if j == len(b) {
			return false
		}

		j++
	}

	return true
}

func zzC07EqInts(a, b []int) (ok bool) {
	if len(a) != len(b) {
		return false
	}

	for i := range a {
		if a[i] != b[i] {
			return false
		}
	}

	return true
}

// zzC07WindowOK is QueryLog!AdmissibleWindow: universe is the sequence of
// selected entries older than the request's cursor (newest first).
func (x *zzC07Log) windowOK(older, limit int, universe []int, r *zzC07Reply) (ok bool) {
	if r.St != "ok" {
		return false
	}

	n := len(r.Data)
	if n > limit || n > len(universe) || !zzC07EqInts(r.Data, universe[:n]) {
		return false
	}

	if n > 0 {
		return r.Oldest == universe[n-1]
	}

	if len(universe) == 0 && r.Oldest == 0 {
		return true
	}

	// A cursor: the timestamp of a stored entry (idOfTime knows only those
	// ever recorded; the spec's "stored" is implied by the two bounds when
	// something is still to come), older than the request's, newer than
	// everything still to come.
	if r.Oldest <= 0 || older > 0 && r.Oldest >= older {
		return false
	}

	return len(universe) == 0 || r.Oldest > universe[0]
}

// admissible is QueryLog!Admissible on the row TLC computed.
func (x *zzC07Log) admissible(q *zzC07Q, r *zzC07Reply) (ok bool) {
	switch q.Class {
	case "exact":
		if r.St == "ok" && zzC07EqInts(r.Data, q.Data) && r.Oldest == q.Oldest {
			return true
		}

		for _, a := range q.Alts {
			if r.St == "ok" && zzC07EqInts(r.Data, a.Data) && r.Oldest == a.Oldest {
				return true
			}
		}

		return false
	case "window":
		if x.windowOK(q.Older, q.Limit, q.Data, r) {
			return true
		}

		for _, a := range q.Alts {
			if x.windowOK(q.Older, q.Limit, a.Data, r) {
				return true
			}
		}

		return false
	default:
		return r.St == "bad_request" || r.St == "ok" && zzC07IsSubseq(r.Data, q.Data)
	}
}

// zzC07Below returns the elements of the newest-first id list u below c.
func zzC07Below(u []int, c int) (v []int) {
	for _, id := range u {
		if c == 0 || id < c {
			v = append(v, id)
		}
	}

	return v
}

// ---------------------------------------------------------------- payload

func zzC07Canon(e map[string]any) (s string) {
	b, _ := json.Marshal(e)

	return string(b)
}

// checkInput compares what the API shows for an entry with what was given to
// Add.  Only fields the harness can state independently are compared.
func (x *zzC07Log) checkInput(id int, e map[string]any, anon bool) (diff string) {
	rec := x.recs[id]
	n, c, sh := zzC07Names[rec.name], zzC07Clients[rec.cli], &zzC07Shapes[rec.shape]

	want := map[string]any{
		"client_proto": string(sh.proto),
		"cached":       sh.cached,
		"upstream":     sh.upstream,
		"reason":       zzC07Reasons[sh.reason].name,
	}
	if !anon {
		want["client"] = c.ip
	} else {
		ip := net.ParseIP(c.ip)
		AnonymizeIP(ip)
		want["client"] = ip.String()
	}

	question := map[string]any{"name": n.ascii, "type": dns.TypeToString[sh.qtype], "class": "IN"}
	if n.unicode != "" {
		question["unicode_name"] = n.unicode
	}

	want["question"] = question
	if c.cid != "" {
		want["client_id"] = c.cid
	}

	if sh.ecs != "" {
		want["ecs"] = sh.ecs
	}

	res := sh.res()
	if res == nil {
		res = &filtering.Result{}
	}

	rs := []any{}
	for _, r := range res.Rules {
		rs = append(rs, map[string]any{"filter_list_id": float64(r.FilterListID), "text": r.Text})
	}

	want["rules"] = rs
	if len(res.Rules) > 0 && res.Rules[0].Text != "" {
		want["rule"] = res.Rules[0].Text
		want["filterId"] = float64(res.Rules[0].FilterListID)
	}

	if res.ServiceName != "" {
		want["service_name"] = res.ServiceName
	}

	if sh.answer != "" {
		rcode := "NOERROR"
		if sh.answer == "nxdomain" {
			rcode = "NXDOMAIN"
		}

		want["status"] = rcode
		want["answer_dnssec"] = sh.ad
	}

	if a, known := zzC07ExpectAnswer(sh.answer); known && a != nil {
		l := []any{}
		for _, m := range a {
			l = append(l, m)
		}

		want["answer"] = l
	}

	if a, known := zzC07ExpectAnswer(sh.orig); known && a != nil && !rec.hooked {
		l := []any{}
		for _, m := range a {
			l = append(l, m)
		}

		want["original_answer"] = l
	}

	keys := make([]string, 0, len(want))
	for k := range want {
		keys = append(keys, k)
	}

	sort.Strings(keys)
	for _, k := range keys {
		if !reflect.DeepEqual(e[k], want[k]) {
			return fmt.Sprintf("field %q: served %v, recorded %v", k, e[k], want[k])
		}
	}

	for _, k := range []string{"client_id", "ecs", "rule", "filterId", "service_name", "answer", "original_answer", "status"} {
		if _, known := zzC07ExpectAnswer(sh.answer); k == "answer" && !known {
			continue
		}

		if k == "original_answer" && rec.hooked {
			// The original answer of this record is the scheduling hook.
			continue
		}

		if _, has := want[k]; !has {
			if _, served := e[k]; served {
				return fmt.Sprintf("field %q served as %v but nothing of the kind was recorded", k, e[k])
			}
		}
	}

	if !anon && c.cname != "" {
		ci, _ := e["client_info"].(map[string]any)
		if ci == nil || ci["name"] != c.cname {
			return fmt.Sprintf("client_info: served %v, client name is %q", e["client_info"], c.cname)
		}
	}

	if fmt.Sprint(e["elapsedMs"]) != strconv.FormatFloat(sh.elapsed.Seconds()*1000, 'f', -1, 64) {
		return fmt.Sprintf("elapsedMs: served %v, recorded %v", e["elapsedMs"], sh.elapsed)
	}

	return ""
}

// checkPayload compares every served entry with the recorded input and with
// what was served for the same entry before (possibly from another store).
func (x *zzC07Log) checkPayload(r *zzC07Reply, anon bool, where func(id int) string) (diffs []map[string]any) {
	for i, e := range r.entries {
		id := r.Data[i] / 2
		if r.Data[i] < 0 {
			continue
		}

		key := fmt.Sprintf("%d/%v", id, anon)
		canon := zzC07Canon(e)
		if prev, ok := x.first[key]; ok {
			if prev != canon {
				diffs = append(diffs, map[string]any{
					"id": 2 * id, "shape": zzC07Shapes[x.recs[id].shape].name, "kind": "differential",
					"first": prev, "first_at": x.firstAt[key], "now": canon, "now_at": where(id),
				})
			}

			continue
		}

		x.first[key], x.firstAt[key] = canon, where(id)
		if d := x.checkInput(id, e, anon); d != "" {
			diffs = append(diffs, map[string]any{
				"id": 2 * id, "shape": zzC07Shapes[x.recs[id].shape].name, "kind": "input",
				"diff": d, "at": where(id), "served": canon,
			})
		}
	}

	return diffs
}

// ---------------------------------------------------------------- direction A

// zzC07Step is one labelled step: the action, its arguments and the spec's
// admissible destination states (ids into the state table).
type zzC07Step struct {
	Act  string
	Args map[string]any
	Dsts []int
}

func (s *zzC07Step) UnmarshalJSON(b []byte) (err error) {
	var raw []json.RawMessage
	if err = json.Unmarshal(b, &raw); err != nil {
		return err
	}

	if len(raw) != 3 {
		return fmt.Errorf("step tuple of length %d", len(raw))
	}

	if err = json.Unmarshal(raw[0], &s.Act); err != nil {
		return err
	}

	if err = json.Unmarshal(raw[1], &s.Args); err != nil {
		return err
	}

	return json.Unmarshal(raw[2], &s.Dsts)
}

func (s zzC07Step) MarshalJSON() (b []byte, err error) {
	return json.Marshal([]any{s.Act, s.Args, s.Dsts})
}

// zzC07Walk is an explicit walk: used for reproduction and for --replay.
type zzC07Walk struct {
	ID    int         `json:"id"`
	Init  int         `json:"init"`
	Steps []zzC07Step `json:"steps"`
	// Probe, if set: after the last step ask this one query.  ProbeState:
	// compare the projection after the last step.
	Probe      *zzC07Q `json:"probe,omitempty"`
	ProbeState bool    `json:"probe_state,omitempty"`
}

// zzC07Group is the set of edges TLC emitted for one (source, action,
// arguments): more than one destination where the spec is nondeterministic.
type zzC07Group struct {
	Src  int            `json:"src"`
	Act  string         `json:"act"`
	Args map[string]any `json:"args"`
	Dsts []int          `json:"dsts"`

	covered bool
	self    bool
	// took is the destination the real code reached when the group was
	// executed (-1: not yet).  Where the spec admits several destinations the
	// planner routes through the one the code takes; states that can only be
	// reached through the others are not reachable with this code.
	took int
}

// planned is the destination the planner expects of g.
func (g *zzC07Group) planned() (d int) {
	if g.took >= 0 {
		return g.took
	}

	return g.Dsts[0]
}

type zzC07Cfg struct {
	Budget  int   `json:"budget"`  // total number of steps; 0 = until everything is covered
	WalkLen int   `json:"walklen"` // maximal number of steps of one walk
	Inits   []int `json:"inits"`
	Workers int   `json:"workers"`
}

// zzC07StateRow is a state of the spec with its observation table.  The
// table stays encoded until it is used: thousands of decoded tables would
// only be work for the garbage collector.
type zzC07StateRow struct {
	ID  int             `json:"id"`
	St  zzC07State      `json:"st"`
	Obs json.RawMessage `json:"obs"`
}

func (row *zzC07StateRow) table() (qs []*zzC07Q) {
	if len(row.Obs) == 0 {
		return nil
	}

	if err := json.Unmarshal(row.Obs, &qs); err != nil {
		panic(fmt.Errorf("observation table of state %d: %w", row.ID, err))
	}

	return qs
}

type zzC07Input struct {
	kinds  []struct{ Name, Cli, Reason string }
	states map[int]*zzC07StateRow
	walks  []*zzC07Walk
	groups []*zzC07Group
	out    map[int][]*zzC07Group
	cfg    zzC07Cfg
}

type zzC07Out struct {
	mu sync.Mutex
	w  *zzWriter
}

func (o *zzC07Out) put(v any) {
	o.mu.Lock()
	defer o.mu.Unlock()

	o.w.put(v)
}

func zzC07ArgInt(a map[string]any, k string) (v int) {
	f, _ := a[k].(float64)

	return int(f)
}

func zzC07ArgBool(a map[string]any, k string) (v bool) {
	v, _ = a[k].(bool)

	return v
}

// zzC07ShapeFor picks the payload shape of a record of the given reason.
func zzC07ShapeFor(rng *rand.Rand, reason string) (i int) {
	idx := zzC07ShapesOf(reason)

	return idx[rng.Intn(len(idx))]
}

// step performs one labelled action of the spec on the real object.
// blockFile makes the log file path unwritable for the next flush: the file,
// if any, is moved aside and a directory takes its place, so that
// flushToFile's OpenFile fails.  restoreFile undoes it.
func (x *zzC07Log) blockFile() (err error) {
	p := filepath.Join(x.dir, queryLogFileName)
	if _, serr := os.Stat(p); serr == nil {
		x.aside = p + ".verif-aside"
		if err = os.Rename(p, x.aside); err != nil {
			return err
		}
	}

	return os.Mkdir(p, 0o700)
}

func (x *zzC07Log) restoreFile() (err error) {
	p := filepath.Join(x.dir, queryLogFileName)
	if err = os.Remove(p); err != nil {
		return err
	}

	if x.aside != "" {
		err = os.Rename(x.aside, p)
		x.aside = ""
	}

	return err
}

// releaseGate lets a held-back flushing goroutine run.
func (x *zzC07Log) releaseGate() {
	if x.gate {
		x.gate = false
		x.l.fileFlushLock.Unlock()
	}
}

// step performs one labelled action of the spec on the real object.  expectFp
// says that the spec's state after the step has an automatic flush requested.
func (x *zzC07Log) step(in *zzC07Input, st *zzC07Step, expectFp bool) (err error) {
	ctx := context.Background()
	switch st.Act {
	case "rec":
		if expectFp && !x.held && !x.gate {
			// The Add is going to start the flushing goroutine: hold it back,
			// so that the state in between can be compared and the walk can
			// choose between a flush that works and one that fails.
			x.l.fileFlushLock.Lock()
			x.gate = true
		}

		k := in.kinds[zzC07ArgInt(st.Args, "kind")-1]
		x.record(k.Name, k.Cli, zzC07ShapeFor(x.rng, k.Reason))
	case "stamp":
		k := in.kinds[zzC07ArgInt(st.Args, "kind")-1]
		x.stamp(k.Name, k.Cli, zzC07ShapeFor(x.rng, k.Reason))
	case "push":
		if expectFp && !x.held && !x.gate {
			x.l.fileFlushLock.Lock()
			x.gate = true
		}

		x.push(zzC07ArgInt(st.Args, "i"))
	case "enc":
		// First half of flushLogBuffer.
		x.l.fileFlushLock.Lock()
		var b *bytes.Buffer
		b, err = x.l.encodeEntries(ctx)
		if err != nil {
			// "nothing to write": flushLogBuffer returns here.
			x.l.fileFlushLock.Unlock()

			return nil
		}

		x.held, x.batch = true, b
		ts, lerr := zzC07LineTimes(b.Bytes())
		if lerr != nil {
			return lerr
		}

		x.batchIDs = x.ids(ts)
	case "app":
		// Second half of flushLogBuffer.
		if !x.held {
			return fmt.Errorf("app without enc")
		}

		err = x.l.flushToFile(ctx, x.batch)
		x.held, x.batch, x.batchIDs = false, nil, nil
		if expectFp {
			// An Add inside the window has a flushing goroutine waiting.
			x.gate = true
		} else {
			x.l.fileFlushLock.Unlock()
		}
	case "appfail":
		// Second half of flushLogBuffer with the file unwritable.
		if !x.held {
			return fmt.Errorf("appfail without enc")
		}

		if err = x.blockFile(); err != nil {
			return err
		}

		werr := x.l.flushToFile(ctx, x.batch)
		err = x.restoreFile()
		x.held, x.batch, x.batchIDs = false, nil, nil
		if expectFp {
			x.gate = true
		} else {
			x.l.fileFlushLock.Unlock()
		}

		if werr == nil && err == nil {
			err = fmt.Errorf("write fault was not injected")
		}
	case "flush":
		// Both halves through the real function.
		err = x.l.flushLogBuffer(ctx)
		if err != nil && strings.Contains(err.Error(), "nothing to write") {
			err = nil
		}
	case "flushfail":
		// Both halves through the real function, the file unwritable.
		if err = x.blockFile(); err != nil {
			return err
		}

		werr := x.l.flushLogBuffer(ctx)
		err = x.restoreFile()
		if err == nil && (werr == nil || strings.Contains(werr.Error(), "nothing to write")) {
			err = fmt.Errorf("write fault was not injected: %v", werr)
		}
	case "autoflush":
		x.releaseGate()
		if !x.waitFlush() {
			x.discard = "automatic flush did not finish"
		}
	case "autoflushfail":
		// The flush that Add requested, with the file unwritable.
		if err = x.blockFile(); err != nil {
			return err
		}

		x.releaseGate()
		if !x.waitFlush() {
			x.discard = "automatic flush did not finish"
		}

		err = x.restoreFile()
	case "rotate":
		err = x.l.rotate(ctx)
	case "rotcheck":
		// The periodic rotation check (at start, then hourly).
		x.l.checkAndRotate(ctx)
	case "clear":
		code, _, pan := x.serve(http.MethodPost, "/control/querylog_clear", "", nil)
		if pan != "" || code != http.StatusOK {
			err = fmt.Errorf("clear: code %d panic %q", code, pan)
		}
	case "conf":
		body, _ := json.Marshal(map[string]any{
			"enabled": zzC07ArgBool(st.Args, "en"), "anonymize_client_ip": zzC07ArgBool(st.Args, "an"),
			"interval": float64(timeutil.Day / time.Millisecond), "ignored": zzC07Ignored(zzC07ArgBool(st.Args, "ig")),
		})
		code, resp, pan := x.serve(http.MethodPut, "/control/querylog/config/update", "", body)
		if pan != "" || code != http.StatusOK {
			err = fmt.Errorf("conf: code %d panic %q body %s", code, pan, resp)
		}
	case "restart":
		c := x.conf()
		err = x.l.Shutdown(ctx)
		if err != nil && strings.Contains(err.Error(), "nothing to write") {
			err = nil
		}

		if err == nil {
			err = x.open(zzC07ArgInt(st.Args, "ms"), c.FileEnabled, c.Enabled, c.AnonymizeClientIP, c.Ignored.Values()...)
		}

		if err == nil {
			// Start runs the rotation check right away (periodicRotate); the
			// goroutine with its hourly ticker is not started here.
			x.l.checkAndRotate(ctx)
		}
	default:
		err = fmt.Errorf("unknown action %q", st.Act)
	}

	return err
}

func (x *zzC07Log) close() {
	for _, f := range x.flight {
		close(f.release)
		<-f.done
	}

	x.flight = nil
	if x.held || x.gate {
		x.l.fileFlushLock.Unlock()
		x.held, x.gate = false, false
	}

	x.waitFlush()
}

func (x *zzC07Log) cleanup() {
	x.close()
	_ = os.RemoveAll(x.dir)
}

func (x *zzC07Log) where(id int) (s string) {
	t := x.exact[id]
	for _, v := range x.ringTimes() {
		if v == t {
			return "memory"
		}
	}

	cur, _ := zzC07FileTimes(filepath.Join(x.dir, queryLogFileName))
	for _, v := range cur {
		if v == t {
			return "file"
		}
	}

	return "rotated file"
}

type zzC07Harness struct {
	t    *testing.T
	in   *zzC07Input
	out  *zzC07Out
	base string
	seed int64

	mu   sync.Mutex // guards everything below and the groups' covered flags
	dead map[int]bool
	rng  *rand.Rand

	steps, queries, bad, flaky, discards, walks, coveredN, transit, unobservable int
	actCov                                                                        map[string]int
	sigCount                                                                      map[string]int
	visits                                                                        map[int]int
	barren                                                                        int
}

// zzC07Run is one walk on one real object.
type zzC07Run struct {
	h     *zzC07Harness
	x     *zzC07Log
	id    int
	init  int
	cur   int
	steps []zzC07Step // executed so far, each with the destination actually reached
}

func (h *zzC07Harness) newRun(id, init int) (r *zzC07Run) {
	dir, err := os.MkdirTemp(h.base, "w")
	if err != nil {
		h.t.Fatalf("tempdir: %v", err)
	}

	x := zzC07NewLog(dir, h.seed*1000003+int64(id))
	st := h.in.states[init].St
	if err = x.open(st.Ms, st.Fe, st.En, st.An, zzC07Ignored(st.Ig)...); err != nil {
		h.t.Fatalf("opening query log: %v", err)
	}

	return &zzC07Run{h: h, x: x, id: id, init: init, cur: init}
}

// do executes st and matches the projection with one of the admissible
// destinations.  status: "ok" (r.cur updated), "unobservable" (r.cur set to
// the single destination without comparison), "mismatch", "error", "discard".
func (r *zzC07Run) do(st zzC07Step) (status string, got zzC07State) {
	h := r.h
	expectFp := len(st.Dsts) >= 1 && h.in.states[st.Dsts[0]].St.Fp
	err := r.x.step(h.in, &st, expectFp)
	if err != nil {
		h.out.put(map[string]any{"kind": "harness_error", "walk": r.id, "step": len(r.steps), "act": st.Act, "err": err.Error()})

		return "error", got
	}

	if r.x.discard != "" {
		return "discard", got
	}

	if len(st.Dsts) == 1 && h.in.states[st.Dsts[0]].St.Fp && !r.x.held && !r.x.gate {
		// An automatic flush has been requested and nothing holds it back (the
		// harness holds fileFlushLock only between enc and app): it runs in
		// its own goroutine, so the state between the request and its
		// completion cannot be sampled.  The autoflush step that must follow
		// (nothing else is enabled) waits for it and compares.
		r.cur = st.Dsts[0]
		r.steps = append(r.steps, zzC07Step{Act: st.Act, Args: st.Args, Dsts: []int{r.cur}})

		return "unobservable", got
	}

	got, err = r.x.project(h.in.states[r.cur].St.Pal)
	if err != nil {
		h.out.put(map[string]any{"kind": "harness_error", "walk": r.id, "step": len(r.steps), "act": st.Act, "err": err.Error()})

		return "error", got
	}

	for _, d := range st.Dsts {
		if reflect.DeepEqual(h.in.states[d].St, got) {
			r.cur = d
			r.steps = append(r.steps, zzC07Step{Act: st.Act, Args: st.Args, Dsts: []int{d}})

			return "ok", got
		}
	}

	return "mismatch", got
}

func (r *zzC07Run) asWalk() (w *zzC07Walk) {
	return &zzC07Walk{ID: r.id, Init: r.init, Steps: append([]zzC07Step{}, r.steps...)}
}

// statesOf collects the state records a replay of w needs.
func (h *zzC07Harness) statesOf(w *zzC07Walk) (m map[string]zzC07State) {
	m = map[string]zzC07State{strconv.Itoa(w.Init): h.in.states[w.Init].St}
	for _, s := range w.Steps {
		for _, d := range s.Dsts {
			m[strconv.Itoa(d)] = h.in.states[d].St
		}
	}

	return m
}

// replayWalk drives an explicit walk on a fresh object without observing.
func (h *zzC07Harness) replayWalk(w *zzC07Walk) (r *zzC07Run, status string, got zzC07State) {
	r = h.newRun(w.ID, w.Init)
	status = "ok"
	for _, st := range w.Steps {
		status, got = r.do(st)
		if status != "ok" && status != "unobservable" {
			return r, status, got
		}
	}

	return r, status, got
}

func (h *zzC07Harness) count(kind string) {
	h.mu.Lock()
	defer h.mu.Unlock()

	switch kind {
	case "bad":
		h.bad++
	case "flaky":
		h.flaky++
	}
}

// reportState reproduces a projection mismatch on a fresh object before
// reporting it.  w is the walk up to the step before, st the failing step.
func (h *zzC07Harness) reportState(w *zzC07Walk, st zzC07Step, got *zzC07State) {
	full := &zzC07Walk{ID: w.ID, Init: w.Init, Steps: append(append([]zzC07Step{}, w.Steps...), st), ProbeState: true}
	r2, status2, got2 := h.replayWalk(full)
	defer r2.x.cleanup()

	kind := "bad"
	if status2 != "mismatch" {
		kind = "flaky"
	}

	h.count(kind)
	want := []zzC07State{}
	for _, d := range st.Dsts {
		want = append(want, h.in.states[d].St)
	}

	src := w.Init
	if n := len(w.Steps); n > 0 {
		src = w.Steps[n-1].Dsts[0]
	}

	h.out.put(map[string]any{
		"kind": kind, "what": "state", "walk": full, "states": h.statesOf(full), "act": st.Act, "args": st.Args,
		"src": h.in.states[src].St, "want": want, "got": got, "got2": got2, "status2": status2,
	})
}

// zzC07Signature recognises the two symptoms that checks/c07.py classifies as
// known findings (the check decides; this only saves repeating the costly
// fresh-object reproduction thousands of times for the same symptom).
func (x *zzC07Log) signature(q *zzC07Q, r *zzC07Reply) (sig string) {
	if r.St == "panic" && strings.Contains(r.Msg, "slice bounds out of range") {
		return "panic"
	}

	for _, sg := range q.Sigs {
		switch q.Class {
		case "exact":
			if sg.Name == "invdisk" {
				// A cursor request over files that are out of timestamp order:
				// anything drawn from the selected sequence.
				if r.St == "ok" && zzC07IsSubseq(r.Data, sg.Data) {
					return "inv"
				}
			} else if r.St == "ok" && zzC07EqInts(r.Data, sg.Data) && r.Oldest == sg.Oldest {
				return sg.Name
			}
		case "window":
			if sg.Name == "invwin" {
				if r.St == "ok" && zzC07IsSubseq(r.Data, sg.Data) {
					return "inv"
				}
			} else if sg.Name == "hid" {
				// An empty page that says "end", entries still to come, and a
				// hidden on-disk record between the cursor and the next one.
				if r.St == "ok" && len(r.Data) == 0 && r.Oldest == 0 && len(q.Data) > 0 {
					for _, h := range sg.Data {
						if (q.Older == 0 || h < q.Older) && h > q.Data[0] {
							return sg.Name
						}
					}
				}
			} else if x.windowOK(q.Older, q.Limit, sg.Data, r) {
				return sg.Name
			}
		}
	}

	return ""
}

// reportQuery re-runs the walk on a fresh object and asks the one query
// again; only a reproduced disagreement is reported as bad.  From the fourth
// occurrence of a recognised symptom on, the request is repeated on the same
// object instead and only counted.
func (h *zzC07Harness) reportQuery(run *zzC07Run, row *zzC07StateRow, q *zzC07Q, r *zzC07Reply) {
	w := run.asWalk()
	if sig := run.x.signature(q, r); sig != "" {
		h.mu.Lock()
		h.sigCount[sig]++
		n := h.sigCount[sig]
		h.mu.Unlock()
		if n > 3 {
			again := run.x.search(q)
			if run.x.signature(q, &again) != sig {
				h.count("flaky")
			}

			return
		}
	}

	r2, status2, _ := h.replayWalk(w)
	defer r2.x.cleanup()

	kind := "bad"
	var rep2 zzC07Reply
	if (status2 != "ok" && len(w.Steps) > 0) || r2.cur != row.ID {
		kind = "flaky"
	} else {
		rep2 = r2.x.search(q)
		if r2.x.admissible(q, &rep2) {
			kind = "flaky"
		}
	}

	h.count(kind)
	p := &zzC07Walk{ID: w.ID, Init: w.Init, Steps: w.Steps, Probe: q}
	act := "init"
	if n := len(w.Steps); n > 0 {
		act = w.Steps[n-1].Act
	}

	h.out.put(map[string]any{
		"kind": kind, "what": "query", "walk": p, "states": h.statesOf(p), "act": act, "state": row.St,
		"q": q, "got": r, "got2": rep2,
	})
}

// observe puts the observation table of the current state to the real
// handler.  lite (a step that only moves to where uncovered edges are): only
// the unfiltered full listing (with the payload comparison) and the default
// request.  From the third covering arrival in the same state on, the filter
// selections and the odd limit/offset rows are not repeated; the full listing,
// all pagings and all cursors always are.
func (r *zzC07Run) observe(lite bool) {
	h := r.h
	row := h.in.states[r.cur]
	reduced := false
	if !lite {
		h.mu.Lock()
		h.visits[r.cur]++
		reduced = h.visits[r.cur] > 1
		h.mu.Unlock()
	}

	for qi, q := range row.table() {
		if lite && qi > 1 {
			break
		}

		if reduced && qi > 0 && (q.Tag == "f" || q.Tag == "x" || q.Tag == "w") {
			continue
		}

		if q.Tag == "w" {
			r.windowChain(row, q)

			continue
		}

		rep := r.x.search(q)
		if qi == 0 && rep.St == "ok" {
			// The first row is the full unfiltered listing: payloads.
			for _, d := range r.x.checkPayload(&rep, row.St.An, r.x.where) {
				h.count("bad")
				d["what"], d["pkind"], d["kind"], d["walk_id"] = "payload", d["kind"], "bad", r.id
				h.out.put(d)
			}
		}

		if r.x.admissible(q, &rep) {
			continue
		}

		h.reportQuery(r, row, q, &rep)
	}
}

// windowChain follows the cursors the real code hands out under a scaled scan
// limit, from "older_than absent" until it says "end".  Every reply must obey
// the window rule; the row carries the selected sequence.  (Each reply being
// admissible implies that the pages concatenate to that sequence; it is
// compared all the same.)
func (r *zzC07Run) windowChain(row *zzC07StateRow, q0 *zzC07Q) {
	var got []int
	cur := 0
	for range 4*len(row.St.Mem) + 4*len(row.St.Cur) + 4*len(row.St.Rot) + 8 {
		q := *q0
		q.Older = cur
		q.Data = zzC07Below(q0.Data, cur)
		q.Sigs, q.Alts = nil, nil
		for _, sg := range q0.Sigs {
			q.Sigs = append(q.Sigs, zzC07Sig{Name: sg.Name, Data: zzC07Below(sg.Data, cur)})
		}

		for _, a := range q0.Alts {
			q.Alts = append(q.Alts, zzC07Sig{Name: a.Name, Data: zzC07Below(a.Data, cur)})
		}

		if cur != 0 && len(r.x.exact) > cur/2 && r.x.exact[cur/2] == 0 {
			// Cannot happen: a handed-out cursor is the time of an entry.
			return
		}

		rep := r.x.search(&q)
		if !r.x.admissible(&q, &rep) {
			r.h.reportQuery(r, row, &q, &rep)

			return
		}

		got = append(got, rep.Data...)
		if rep.Oldest == 0 {
			if !zzC07EqInts(got, q0.Data) {
				rep.Msg = fmt.Sprintf("pages concatenate to %v", got)
				r.h.reportQuery(r, row, q0, &rep)
			}

			return
		}

		cur = rep.Oldest
	}

	rep := zzC07Reply{St: "endless", Data: got}
	r.h.reportQuery(r, row, q0, &rep)
}

// ---- planning

var zzC07ActPrio = map[string]int{
	"conf": 1, "enc": 2, "app": 2, "appfail": 2, "rotcheck": 2, "autoflush": 0, "autoflushfail": 0, "rotate": 2, "restart": 2,
	"rec": 3, "stamp": 3, "push": 2, "clear": 4,
}

// pick chooses the next group to take from state v: an uncovered one if there
// is any (self-loops first, then by action class, seeded choice within the
// class), else the first step of a shortest path to a state that has one.
// It returns nil when nothing uncovered is reachable.  h.mu must be held.
func (h *zzC07Harness) pick(v int) (g *zzC07Group, covering bool) {
	best, bestP := []*zzC07Group{}, 1 << 30
	// With a step budget (quick tier) the order of preference is dropped for
	// one choice in three, so that the sample also reaches deep states.
	flat := h.in.cfg.Budget > 0 && h.rng.Intn(3) == 0
	for _, c := range h.in.out[v] {
		if c.covered {
			continue
		}

		p := 10 * zzC07ActPrio[c.Act]
		if c.self {
			p = -1
		}

		if flat {
			p = 0
		}

		if p < bestP {
			best, bestP = best[:0], p
		}

		if p == bestP {
			best = append(best, c)
		}
	}

	if len(best) > 0 {
		return best[h.rng.Intn(len(best))], true
	}

	// Breadth-first search for the nearest state with an uncovered group.
	type node struct {
		v     int
		first *zzC07Group
	}

	seen := map[int]bool{v: true}
	queue := []node{{v: v}}
	for len(queue) > 0 {
		n := queue[0]
		queue = queue[1:]
		for _, c := range h.in.out[n.v] {
			d := c.planned()
			if seen[d] || h.dead[d] {
				continue
			}

			seen[d] = true
			first := n.first
			if first == nil {
				first = c
			}

			for _, c2 := range h.in.out[d] {
				if !c2.covered {
					return first, false
				}
			}

			queue = append(queue, node{v: d, first: first})
		}
	}

	// Coverage only grows: nothing uncovered will ever be reachable from here.
	for d := range seen {
		h.dead[d] = true
	}

	return nil, false
}

// zzC07MaxBad ends the run early: with that many reproduced disagreements the
// verdict is settled and every further one costs a fresh-object reproduction.
const zzC07MaxBad = 300

// worker runs walks until nothing is left to cover or the budget is used up.
func (h *zzC07Harness) worker(wid int) {
	cfg := &h.in.cfg
	for {
		h.mu.Lock()
		if cfg.Budget > 0 && h.steps >= cfg.Budget || h.bad > zzC07MaxBad || h.barren > 40 {
			h.mu.Unlock()

			return
		}

		init := -1
		for _, k := range h.rng.Perm(len(cfg.Inits)) {
			i := cfg.Inits[k]
			if h.dead[i] {
				continue
			}

			if g, _ := h.pick(i); g != nil {
				init = i

				break
			}
		}

		h.walks++
		id := h.walks
		h.mu.Unlock()
		if init < 0 {
			return
		}

		h.oneWalk(id, init)
	}
}

func (h *zzC07Harness) oneWalk(id, init int) {
	cfg := &h.in.cfg
	r := h.newRun(id, init)
	defer func() { r.x.cleanup() }()

	// news counts the edge groups this walk covers.  Walks that cover nothing
	// (the planner heads for groups that the code never reaches) end the run
	// after a while.
	news := 0
	defer func() {
		h.mu.Lock()
		defer h.mu.Unlock()

		if news == 0 {
			h.barren++
		} else {
			h.barren = 0
		}
	}()

	// The initial state is observed as well.
	r.observe(false)
	for n := 0; n < cfg.WalkLen; n++ {
		h.mu.Lock()
		if cfg.Budget > 0 && h.steps >= cfg.Budget || h.bad > zzC07MaxBad {
			h.mu.Unlock()

			break
		}

		g, covering := h.pick(r.cur)
		fuse := false
		var g2 *zzC07Group
		if g != nil {
			if covering {
				g.covered = true
				h.coveredN++
				h.actCov[g.Act]++
			} else {
				h.transit++
			}

			// An explicit flush whose halves follow each other directly is
			// sometimes taken through the real flushLogBuffer.
			if g.Act == "enc" && !g.self && h.rng.Intn(3) == 0 {
				// ... and now and then with the file unwritable.
				second := "app"
				if h.rng.Intn(3) == 0 {
					second = "appfail"
				}

				for _, c := range h.in.out[g.Dsts[0]] {
					if c.Act == second {
						g2, fuse = c, true
						if !c.covered {
							c.covered = true
							h.coveredN++
							h.actCov[c.Act]++
						}
					}
				}
			}

			h.steps++
		}
		h.mu.Unlock()

		if g == nil {
			break
		}

		st := zzC07Step{Act: g.Act, Args: g.Args, Dsts: g.Dsts}
		if fuse {
			st = zzC07Step{Act: "flush", Args: g.Args, Dsts: g2.Dsts}
			if g2.Act == "appfail" {
				st.Act = "flushfail"
			}
		}

		before := r.asWalk()
		status, got := r.do(st)
		if status == "ok" || status == "unobservable" {
			h.mu.Lock()
			if !fuse {
				g.took = r.cur
			}

			if covering {
				news++
			}
			h.mu.Unlock()
		}

		switch status {
		case "ok":
			// A step that only moves, or one the spec and the projection both
			// say changed nothing in a state whose table has been put before:
			// the short observation.
			h.mu.Lock()
			seen := h.visits[r.cur] > 0
			h.mu.Unlock()
			r.observe(!covering || g.self && seen)
		case "unobservable":
			h.mu.Lock()
			h.unobservable++
			h.mu.Unlock()
		case "mismatch":
			h.reportState(before, st, &got)

			return
		case "discard":
			h.mu.Lock()
			h.discards++
			h.mu.Unlock()
			h.out.put(map[string]any{"kind": "discard", "walk": id, "why": r.x.discard})

			return
		default:
			return
		}
	}

	h.mu.Lock()
	h.queries += r.x.queries
	h.mu.Unlock()
}

func zzC07Load(t *testing.T) (in *zzC07Input) {
	in = &zzC07Input{states: map[int]*zzC07StateRow{}, out: map[int][]*zzC07Group{}}
	zzReadNDJSON(t, "VERIF_IN", func(line []byte) {
		var k struct {
			K string `json:"k"`
		}

		if err := json.Unmarshal(line, &k); err != nil {
			t.Fatalf("bad input line: %v", err)
		}

		switch k.K {
		case "t":
			var tab struct {
				Kinds []struct{ Name, Cli, Reason string } `json:"kinds"`
				Terms map[string]struct {
					N []string `json:"n"`
					C []string `json:"c"`
				} `json:"terms"`
				RawMiss map[string][]string `json:"rawmiss"`
				Loose   []string            `json:"loose"`
			}

			if err := json.Unmarshal(line, &tab); err != nil {
				t.Fatalf("bad table line: %v", err)
			}

			in.kinds = tab.Kinds
			// Bind the spec's term table to the concrete strings.
			for term, sel := range tab.Terms {
				s, ok := zzC07Terms[term]
				if !ok {
					t.Fatalf("term %q of the spec has no concrete string", term)
				}

				if zzC07Has(tab.Loose, term) {
					// What such a term selects is not fixed.
					continue
				}

				for nk, n := range zzC07Names {
					for ck, c := range zzC07Clients {
						want := zzC07Has(sel.N, nk) || zzC07Has(sel.C, ck)
						if got := zzC07TermSelects(s, n, c); got != want {
							t.Fatalf("term table: %q (%s) on name %s client %s: spec %v, strings %v", term, s, nk, ck, want, got)
						}
					}
				}
			}

			// The table behind the escaped-name signature: which names a term
			// selects by the name itself but not by the raw JSON text of the
			// name up to its first double quote.
			for term, miss := range tab.RawMiss {
				if zzC07Has(tab.Loose, term) {
					continue
				}
				for nk, n := range zzC07Names {
					b, _ := json.Marshal(n.ascii)
					raw := string(b[1 : len(b)-1])
					if i := strings.IndexByte(raw, '"'); i >= 0 {
						raw = raw[:i]
					}

					ts := zzC07Terms[term]
					want := ts != "" && zzC07TermSelects(ts, n, zzC07Client{}) &&
						!zzC07TermSelects(ts, zzC07Name{ascii: raw, unicode: n.unicode}, zzC07Client{})
					if got := zzC07Has(miss, nk); got != want {
						t.Fatalf("raw-miss table: %q on name %s (raw %q): spec %v, strings %v", term, nk, raw, got, want)
					}
				}
			}

			if len(tab.Terms) != len(zzC07Terms) {
				t.Fatalf("term table has %d terms, the harness %d", len(tab.Terms), len(zzC07Terms))
			}

			for _, kd := range tab.Kinds {
				if _, ok := zzC07Names[kd.Name]; !ok {
					t.Fatalf("unknown name %q", kd.Name)
				}

				if _, ok := zzC07Clients[kd.Cli]; !ok {
					t.Fatalf("unknown client %q", kd.Cli)
				}

				if len(zzC07ShapesOf(kd.Reason)) == 0 {
					t.Fatalf("no shape for reason %q", kd.Reason)
				}
			}
		case "s":
			row := &zzC07StateRow{}
			if err := json.Unmarshal(line, row); err != nil {
				t.Fatalf("bad state line: %v", err)
			}

			in.states[row.ID] = row
		case "g":
			g := &zzC07Group{}
			if err := json.Unmarshal(line, g); err != nil {
				t.Fatalf("bad group line: %v", err)
			}

			g.took = -1
			g.self = len(g.Dsts) == 1 && g.Dsts[0] == g.Src
			in.groups = append(in.groups, g)
			in.out[g.Src] = append(in.out[g.Src], g)
		case "c":
			if err := json.Unmarshal(line, &in.cfg); err != nil {
				t.Fatalf("bad config line: %v", err)
			}
		case "w":
			w := &zzC07Walk{}
			if err := json.Unmarshal(line, w); err != nil {
				t.Fatalf("bad walk line: %v", err)
			}

			in.walks = append(in.walks, w)
		}
	})

	return in
}

func zzC07Has(l []string, s string) (ok bool) {
	for _, v := range l {
		if v == s {
			return true
		}
	}

	return false
}

// TestZZVerifC07Walk is direction A.
func TestZZVerifC07Walk(t *testing.T) {
	log.SetOutput(io.Discard)
	in := zzC07Load(t)
	if in.kinds == nil {
		t.Fatalf("no table line in input")
	}

	w := zzNewWriter(t, "VERIF_OUT")
	defer w.close()

	h := &zzC07Harness{
		t: t, in: in, out: &zzC07Out{w: w}, base: t.TempDir(), seed: zzSeed(),
		dead: map[int]bool{}, rng: rand.New(rand.NewSource(zzSeed())), actCov: map[string]int{},
		sigCount: map[string]int{}, visits: map[int]int{},
	}

	// Explicit walks (replay of a stored disagreement).
	for _, wk := range in.walks {
		h.doProbe(wk)
	}

	if len(in.groups) > 0 {
		// Every search of the code under test allocates its 1.6 MB read
		// buffer anew; collect less often.
		defer debug.SetGCPercent(debug.SetGCPercent(800))
		defer debug.SetMemoryLimit(debug.SetMemoryLimit(3 << 30))

		if in.cfg.WalkLen <= 0 {
			in.cfg.WalkLen = 40
		}

		workers := in.cfg.Workers
		if workers < 1 {
			workers = 4
		}

		wg := &sync.WaitGroup{}
		for i := range workers {
			wg.Add(1)
			go func() {
				defer wg.Done()

				h.worker(i)
			}()
		}

		wg.Wait()
	}

	h.out.put(map[string]any{
		"kind": "summary", "walks": h.walks, "steps": h.steps, "queries": h.queries, "bad": h.bad,
		"flaky": h.flaky, "discards": h.discards, "groups": len(in.groups), "covered": h.coveredN,
		"transit": h.transit, "unobservable": h.unobservable, "by_act": h.actCov, "symptoms": h.sigCount,
		"stopped_early": h.bad > zzC07MaxBad,
	})
}

// doProbe is the replay entry: drive the walk, then ask one thing.
func (h *zzC07Harness) doProbe(wk *zzC07Walk) {
	r, status, got := h.replayWalk(wk)
	defer r.x.cleanup()

	res := map[string]any{"kind": "probe", "walk": wk.ID, "status": status, "end": r.cur, "discard": r.x.discard}
	if wk.Probe != nil && (status == "ok" || len(wk.Steps) == 0) {
		rep := r.x.search(wk.Probe)
		res["got"] = rep
		res["admissible"] = r.x.admissible(wk.Probe, &rep)
		res["q"] = wk.Probe
	}

	if wk.ProbeState {
		res["state"] = got
		res["admissible"] = status == "ok" || status == "unobservable"
	}

	h.out.put(res)
}

// ---------------------------------------------------------------- payload test

// TestZZVerifC07Payload serves every payload shape from memory, from the file
// and from the rotated file and compares the three JSON objects with each
// other and with the input.
func TestZZVerifC07Payload(t *testing.T) {
	log.SetOutput(io.Discard)
	w := zzNewWriter(t, "VERIF_OUT")
	defer w.close()

	names, clients := zzC07NameKeys, zzC07ClientKeys
	n, bad := 0, 0
	for _, anon := range []bool{false, true} {
		x := zzC07NewLog(t.TempDir(), zzSeed())
		if err := x.open(1000, true, true, anon); err != nil {
			t.Fatalf("open: %v", err)
		}

		k := 0
		for si := range zzC07Shapes {
			for j := 0; j < 6; j++ {
				x.record(names[(k+j)%len(names)], clients[(k/len(names)+j)%len(clients)], si)
				k++
			}
		}

		if x.discard != "" {
			w.put(map[string]any{"kind": "discard", "why": x.discard})

			continue
		}

		all := &zzC07Q{Limit: zzC07Huge, Term: "none", Status: "none", Class: "exact"}
		stages := []struct {
			name string
			do   func() error
		}{
			{"memory", func() error { return nil }},
			{"file", func() error { return x.l.flushLogBuffer(context.Background()) }},
			{"rotated file", func() error { return x.l.rotate(context.Background()) }},
		}
		for _, stg := range stages {
			if err := stg.do(); err != nil {
				t.Fatalf("%s: %v", stg.name, err)
			}

			r := x.search(all)
			if r.St != "ok" || len(r.Data) != x.clock {
				bad++
				w.put(map[string]any{"kind": "bad", "what": "payload", "pkind": "listing", "stage": stg.name, "got": r, "want_n": x.clock, "anon": anon})

				continue
			}

			n += len(r.Data)
			for _, d := range x.checkPayload(&r, anon, func(int) string { return stg.name }) {
				// Reproduce in isolation: the same shape alone in a fresh log.
				if zzC07PayloadAlone(t, x.recs[d["id"].(int)/2], anon) {
					bad++
					d["what"], d["pkind"], d["kind"], d["anon"] = "payload", d["kind"], "bad", anon
				} else {
					d["pkind"], d["kind"] = d["kind"], "flaky"
				}

				w.put(d)
			}
		}

		x.cleanup()
	}

	w.put(map[string]any{"kind": "summary", "n": n, "bad": bad, "shapes": len(zzC07Shapes)})
}

// zzC07PayloadAlone repeats the three-stage comparison for one record.
func zzC07PayloadAlone(t *testing.T, rec zzC07Rec, anon bool) (differs bool) {
	x := zzC07NewLog(t.TempDir(), 1)
	defer x.cleanup()

	if err := x.open(10, true, true, anon); err != nil {
		return false
	}

	x.record(rec.name, rec.cli, rec.shape)
	if x.discard != "" {
		return false
	}

	all := &zzC07Q{Limit: zzC07Huge, Term: "none", Status: "none", Class: "exact"}
	r := x.search(all)
	n := len(x.checkPayload(&r, anon, func(int) string { return "memory" }))
	_ = x.l.flushLogBuffer(context.Background())
	r = x.search(all)
	n += len(x.checkPayload(&r, anon, func(int) string { return "file" }))
	_ = x.l.rotate(context.Background())
	r = x.search(all)
	n += len(x.checkPayload(&r, anon, func(int) string { return "rotated file" }))

	return n > 0
}

// ---------------------------------------------------------------- direction B

// TestZZVerifC07Trace is direction B: long random histories; every call is
// logged in the vocabulary of TraceQueryLog.tla.
func TestZZVerifC07Trace(t *testing.T) {
	log.SetOutput(io.Discard)
	w := zzNewWriter(t, "VERIF_OUT")
	defer w.close()

	nrec, _ := strconv.Atoi(zzGetenv("VERIF_C07_RECORDS"))
	if nrec <= 0 {
		nrec = 300
	}

	hist, _ := strconv.Atoi(zzGetenv("VERIF_C07_HIST"))
	rng := rand.New(rand.NewSource(zzSeed()*7919 + int64(hist)))

	memSizes := []int{0, 1, 2, 7, 50, 200, 1000}
	ms := memSizes[rng.Intn(len(memSizes))]
	if v := zzGetenv("VERIF_C07_MEM"); v != "" {
		ms, _ = strconv.Atoi(v)
	}

	fe := rng.Intn(8) != 0 || ms == 0
	if zzGetenv("VERIF_C07_SCANLOG") != "" || zzGetenv("VERIF_C07_BURST") != "" {
		// These two histories are about the files (flushes, scan windows over
		// them, disorder carried to disk): they run with file logging on.  The
		// spec's shorthands for them (RecordMany, Burst) are stated for that
		// mode as well.
		fe = true
	}
	x := zzC07NewLog(t.TempDir(), zzSeed()+int64(hist))
	if err := x.open(ms, fe, true, false); err != nil {
		t.Fatalf("open: %v", err)
	}

	defer x.cleanup()

	x.incremental = true

	names, clients := zzC07NameKeys, zzC07ClientKeys
	reasons := make([]string, 0, len(zzC07Reasons))
	for r := range zzC07Reasons {
		reasons = append(reasons, r)
	}

	sort.Strings(reasons)
	terms := make([]string, 0, len(zzC07Terms))
	for k := range zzC07Terms {
		terms = append(terms, k)
	}

	sort.Strings(terms)
	statuses := []string{"none", "all", "filtered", "blocked", "blocked_services", "blocked_safebrowsing",
		"blocked_parental", "whitelisted", "rewritten", "safe_search", "processed",
		"bad_quote", "bad_word", "bad_quoted"}

	type proj struct {
		Mem   []int `json:"mem"`
		Cur   []int `json:"cur"`
		Rot   []int `json:"rot"`
		Fp    bool  `json:"fp"`
		Ms    int   `json:"ms"`
		En    bool  `json:"en"`
		An    bool  `json:"an"`
		Ig    bool  `json:"ig"`
		Clock int   `json:"ck"`
	}

	// Compact projection: <<length, first ts, last ts>> per store.
	compact := func(ids []int) []int {
		if len(ids) == 0 {
			return []int{0, 0, 0}
		}

		for _, v := range ids {
			if v < 0 {
				return []int{len(ids), -1, -1}
			}
		}

		return []int{len(ids), ids[0], ids[len(ids)-1]}
	}

	lines := 0
	emit := func(ev string, extra map[string]any) {
		s, err := x.project(0)
		if err != nil {
			t.Fatalf("projection: %v", err)
		}

		m := map[string]any{"ev": ev, "s": proj{
			Mem: compact(s.Mem), Cur: compact(s.Cur), Rot: compact(s.Rot), Fp: s.Fp, Ms: s.Ms, En: s.En, An: s.An, Ig: s.Ig,
			Clock: s.Ck,
		}}
		for k, v := range extra {
			m[k] = v
		}

		// Every line carries every field: TLC reads records.
		for _, k := range []string{"name", "cli", "reason", "shape"} {
			if _, ok := m[k]; !ok {
				m[k] = ""
			}
		}

		if _, ok := m["tss"]; !ok {
			m["tss"] = []int{}
		}

		for _, k := range []string{"ms", "en", "an", "ig", "n"} {
			if _, ok := m[k]; !ok {
				m[k] = 0
			}
		}

		if _, ok := m["p"]; !ok {
			m["p"] = map[string]any{"older": 0, "limit": 0, "offset": 0, "term": "none", "status": "none", "scan": 0}
			m["r"] = map[string]any{"st": "none", "data": []int{}, "oldest": 0}
		}

		w.put(m)
		lines++
	}

	emit("init", map[string]any{"ms": ms, "en": zzC07B2I(fe)})

	// Rare calls are drawn so that a history sees a few of each whatever its
	// length: about one clear, three rotations, four configuration changes,
	// four restarts.  A "big" history (files beyond the 1.6 MB read buffer of
	// the reader) has no clear and half of its records carry the 3 KB rule.
	big := zzGetenv("VERIF_C07_BIG") != ""
	ops := float64(nrec) / 0.78
	pFlush, pRotate, pClear, pConf, pRestart := 25.0/1000, 6/ops, 1/ops, 4/ops, 4/ops
	if big {
		pClear, pRotate = 0, 2/ops
	}

	longShape := 0
	for i, sh := range zzC07Shapes {
		if sh.name == "block-two-long-rules" {
			longShape = i
		}
	}

	if v := zzGetenv("VERIF_C07_BURST"); v != "" {
		zzC07BurstLog(t, x, emit, w, rng)

		return
	}

	if v := zzGetenv("VERIF_C07_SCANLOG"); v != "" {
		scan, _ := strconv.Atoi(v)
		if scan < 2 {
			scan = zzC07DefaultScan
		}

		zzC07ScanLog(t, x, emit, w, scan)

		return
	}

	enabled, anon := true, false
	payloadBad := 0
	for x.clock < nrec && x.discard == "" {
		u := rng.Float64()
		roll := 1000
		switch {
		case u < 0.78:
			roll = 0
		case u < 0.95:
			roll = 800
		case u < 0.95+pFlush:
			roll = 960
		case u < 0.95+pFlush+pRotate:
			roll = 980
		case u < 0.95+pFlush+pRotate+pClear:
			roll = 983
		case u < 0.95+pFlush+pRotate+pClear+pConf:
			roll = 990
		case u < 0.95+pFlush+pRotate+pClear+pConf+pRestart:
			roll = 999
		default:
			continue
		}

		switch {
		case roll < 780:
			reason := reasons[rng.Intn(len(reasons))]
			name, cli := names[rng.Intn(len(names))], clients[rng.Intn(len(clients))]
			sh := zzC07ShapeFor(rng, reason)
			if big && rng.Intn(2) == 0 {
				sh = longShape
				reason = zzC07Shapes[sh].reason
			}
			// Now and then the flush that this Add is about to request finds
			// the file unwritable.  (Whether it will request one is only
			// guessed from the ring's fill to decide when to inject; what
			// happened is read off afterwards.)
			c0 := x.conf()
			ringBefore := len(x.ringTimes())
			fault := c0.Enabled && c0.FileEnabled && ringBefore+1 >= int(c0.MemSize) && rng.Intn(12) == 0
			if fault {
				if err := x.blockFile(); err != nil {
					t.Fatalf("blocking the log file: %v", err)
				}
			}

			sizeBefore := zzC07Size(filepath.Join(x.dir, queryLogFileName))
			x.record(name, cli, sh)
			auto := false
			stalled := false
			if x.waitFlush() {
				if fault {
					auto = len(x.ringTimes()) == 0
				} else {
					auto = zzC07Size(filepath.Join(x.dir, queryLogFileName)) != sizeBefore
				}
			} else {
				stalled = true
			}

			if fault {
				if err := x.restoreFile(); err != nil {
					t.Fatalf("restoring the log file: %v", err)
				}
			}

			emit("rec", map[string]any{"name": name, "cli": cli, "reason": reason, "shape": zzC07Shapes[sh].name})
			if auto && fault {
				emit("autoflushfail", nil)
			} else if auto {
				emit("autoflush", nil)
			}

			if stalled {
				// A flush was requested and has not taken the entries out of
				// the ring within ten seconds.  No action of the spec stalls:
				// the line ends the validation there, with the projection.
				emit("stall", nil)
				x.discard = "stalled"
			}
		case roll < 950:
			q := &zzC07Q{Term: "none", Status: "none", Limit: zzC07DefaultLimit}
			switch rng.Intn(6) {
			case 0:
				q.Term = terms[rng.Intn(len(terms))]
			case 1:
				q.Status = statuses[rng.Intn(len(statuses))]
			case 2:
				q.Term, q.Status = terms[rng.Intn(len(terms))], statuses[rng.Intn(len(statuses))]
			}

			switch rng.Intn(8) {
			case 0:
			case 1:
				q.Limit = []int{-7, -1, 0, zzC07Huge}[rng.Intn(4)]
			default:
				q.Limit = 1 + rng.Intn(40)
			}

			switch rng.Intn(4) {
			case 0:
				if x.clock > 0 {
					// A cursor a client could hold: the time of some entry,
					// biased towards the recent ones and the store boundaries.
					n := x.clock - rng.Intn(1+rng.Intn(x.clock))
					if rng.Intn(3) == 0 {
						s, _ := x.project(0)
						cands := []int{}
						for _, l := range [][]int{s.Mem, s.Cur, s.Rot} {
							if len(l) > 0 {
								cands = append(cands, l[0]/2, l[len(l)-1]/2)
							}
						}

						if len(cands) > 0 {
							n = cands[rng.Intn(len(cands))]
						}
					}

					if n >= 1 {
						q.Older = 2*n + []int{0, 0, 0, 0, 1, -1}[rng.Intn(6)]
					}
				}
			case 1:
				if rng.Intn(4) == 0 {
					q.Older = []int{-1, -2, -3, 2*x.clock + 2}[rng.Intn(4)]
				} else {
					q.Offset = []int{-2, 0, 1, 5, 30, zzC07Huge}[rng.Intn(6)]
				}
			}

			// The scan limit of the request: the server's, or -- for one term
			// search in four -- a scaled one, so that scan windows end inside
			// files of any length.
			q.Scan = zzC07DefaultScan
			if q.Offset != 0 {
				q.Scan = 0
			} else if rng.Intn(4) == 0 {
				q.Scan = []int{2, 3, 10, 100}[rng.Intn(4)]
			}

			r := x.search(q)
			if q.Term == "none" && q.Status == "none" && r.St == "ok" {
				for _, d := range x.checkPayload(&r, anon, x.where) {
					payloadBad++
					d["what"], d["pkind"], d["kind"] = "payload", d["kind"], "bad"
					w.put(map[string]any{"ev": "payload", "d": d})
				}
			}

			if r.Data == nil {
				r.Data = []int{}
			}

			// The same request a second time (the state has not changed):
			// only a reply that repeats is judged.
			r2 := x.search(q)
			same := r2.St == r.St && zzC07EqInts(r2.Data, r.Data) && r2.Oldest == r.Oldest

			emit("search", map[string]any{
				"p": map[string]any{"older": q.Older, "limit": q.Limit, "offset": q.Offset, "term": q.Term, "status": q.Status, "scan": q.Scan},
				"r": map[string]any{"st": r.St, "data": r.Data, "oldest": r.Oldest, "msg": r.Msg, "url": r.URL, "same": same},
			})
		case roll < 975:
			if !fe {
				continue
			}

			if len(x.ringTimes()) > 0 && rng.Intn(5) == 0 {
				if err := x.step(nil, &zzC07Step{Act: "flushfail"}, false); err != nil {
					t.Fatalf("flushfail: %v", err)
				}

				emit("flushfail", nil)
			} else {
				_ = x.step(nil, &zzC07Step{Act: "flush"}, false)
				emit("flush", nil)
			}
		case roll < 982:
			if rng.Intn(2) == 0 {
				_ = x.step(nil, &zzC07Step{Act: "rotcheck"}, false)
				emit("rotcheck", nil)
			} else {
				_ = x.step(nil, &zzC07Step{Act: "rotate"}, false)
				emit("rotate", nil)
			}
		case roll < 984:
			_ = x.step(nil, &zzC07Step{Act: "clear"}, false)
			emit("clear", nil)
		case roll < 992:
			enabled, anon = rng.Intn(4) != 0, rng.Intn(3) == 0
			ig := rng.Intn(3) == 0
			err := x.step(nil, &zzC07Step{Act: "conf", Args: map[string]any{"en": enabled, "an": anon, "ig": ig}}, false)
			if err != nil {
				t.Fatalf("conf: %v", err)
			}

			emit("conf", map[string]any{"en": zzC07B2I(enabled), "an": zzC07B2I(anon), "ig": zzC07B2I(ig)})
		default:
			nm := memSizes[rng.Intn(len(memSizes))]
			if nm == 0 && !fe {
				nm = 3
			}

			err := x.step(nil, &zzC07Step{Act: "restart", Args: map[string]any{"ms": float64(nm)}}, false)
			if err != nil {
				t.Fatalf("restart: %v", err)
			}

			emit("restart", map[string]any{"ms": nm})
		}
	}

	if x.discard == "stalled" {
		x.discard = ""
	}

	w.put(map[string]any{"ev": "summary", "lines": lines, "records": x.clock, "discard": x.discard,
		"payload_bad": payloadBad, "mem": ms, "file": fe, "queries": x.queries,
		"bytes": x.maxFile})

	// The incremental projection is checked against a full read at the end.
	x.incremental = false
	full, err := x.project(0)
	x.incremental = true
	inc, err2 := x.project(0)
	full.Attr = inc.Attr
	if err != nil || err2 != nil || !reflect.DeepEqual(full, inc) {
		t.Fatalf("incremental projection diverged: %v %v\n%v\n%v", err, err2, full, inc)
	}
}

// zzC07ScanLog is the real-scale scan-window history of direction B: the log
// grows beyond the 50000 records one request examines, with the only entries
// a search term selects at its old end, and the term is then searched through
// the real handler by following the returned cursors.  VERIF_C07_MEM must be
// larger than the number of records.
//
// scan is the scan limit of the requests: 50000 = the server's (plain HTTP
// requests), anything else = the same history at that scale (serveScaled).
func zzC07ScanLog(t *testing.T, x *zzC07Log, emit func(ev string, extra map[string]any), w *zzWriter, scan int) {
	bulk := func(n int, name, cli, reason string) {
		sh := zzC07ShapeFor(x.rng, reason)
		for range n {
			x.record(name, cli, sh)
		}

		emit("recn", map[string]any{"n": n, "name": name, "cli": cli, "reason": reason})
	}

	flush := func() {
		_ = x.step(nil, &zzC07Step{Act: "flush"}, false)
		emit("flush", nil)
	}

	bulk(3, "idn", "named", "allow")
	bulk(2, "quo", "cid2", "block")
	// One record of the name that gets ignored later, placed so that the
	// first scan window of a request (50000 records) ends exactly on it.
	bulk(1, "com", "plain", "notfound")
	flush()
	bulk(scan-1, "org", "plain", "notfound")
	flush()
	bulk(4, "sub", "cid", "notfound")
	if x.discard != "" {
		w.put(map[string]any{"ev": "summary", "discard": x.discard})

		return
	}

	ask := func(q *zzC07Q) (r zzC07Reply) {
		q.Scan = scan
		r = x.search(q)
		if r.Data == nil {
			r.Data = []int{}
		}

		r2 := x.search(q)
		same := r2.St == r.St && zzC07EqInts(r2.Data, r.Data) && r2.Oldest == r.Oldest
		emit("search", map[string]any{
			"p": map[string]any{"older": q.Older, "limit": q.Limit, "offset": q.Offset, "term": q.Term, "status": q.Status, "scan": q.Scan},
			"r": map[string]any{"st": r.St, "data": r.Data, "oldest": r.Oldest, "msg": r.Msg, "url": r.URL, "same": same},
		})

		return r
	}

	chains := func() {
		for _, f := range [][2]string{{"idn_puny", "none"}, {"cname_exact", "whitelisted"}, {"nomatch", "none"}, {"sub_example", "blocked"}, {"none", "whitelisted"}} {
			cur := 0
			for range 8 {
				r := ask(&zzC07Q{Older: cur, Limit: 2, Term: f[0], Status: f[1]})
				if r.St != "ok" || r.Oldest <= 0 {
					break
				}

				cur = r.Oldest
			}
		}
	}

	chains()

	// The same searches with that name on the ignore list: its record is now
	// hidden, everything else must still be reachable.
	err := x.step(nil, &zzC07Step{Act: "conf", Args: map[string]any{"en": true, "an": false, "ig": true}}, false)
	if err != nil {
		t.Fatalf("conf: %v", err)
	}

	emit("conf", map[string]any{"en": 1, "an": 0, "ig": 1})
	chains()

	ask(&zzC07Q{Limit: 10, Term: "none", Status: "none"})
	w.put(map[string]any{"ev": "summary", "lines": 0, "records": x.clock, "discard": x.discard,
		"payload_bad": 0, "queries": x.queries, "bytes": x.maxFile})
}

// zzC07BurstLog is the free-running concurrent leg of direction B: several
// goroutines call Add at the same time, as the DNS server does (one goroutine
// per request), with nothing steering them.  After they are done the log is
// at rest; it is flushed and rotated or not, and read sequentially: full
// listing, the older_than chain and the offset chain.  The entries are
// identified by the timestamps they were stored with (rank among the burst),
// in the order they were pushed.  VERIF_C07_MEM must be larger than the
// number of records.
func zzC07BurstLog(t *testing.T, x *zzC07Log, emit func(ev string, extra map[string]any), w *zzWriter, rng *rand.Rand) {
	const goroutines, each = 4, 60

	reads := func() {
		ask := func(q *zzC07Q) (r zzC07Reply) {
			q.Scan = zzC07DefaultScan
			if q.Offset != 0 {
				q.Scan = 0
			}

			r = x.search(q)
			if r.Data == nil {
				r.Data = []int{}
			}

			r2 := x.search(q)
			same := r2.St == r.St && zzC07EqInts(r2.Data, r.Data) && r2.Oldest == r.Oldest
			emit("search", map[string]any{
				"p": map[string]any{"older": q.Older, "limit": q.Limit, "offset": q.Offset, "term": q.Term, "status": q.Status, "scan": q.Scan},
				"r": map[string]any{"st": r.St, "data": r.Data, "oldest": r.Oldest, "msg": r.Msg, "url": r.URL, "same": same},
			})

			return r
		}

		ask(&zzC07Q{Limit: zzC07Huge, Term: "none", Status: "none"})
		cur := 0
		for range x.clock {
			r := ask(&zzC07Q{Older: cur, Limit: 7, Term: "none", Status: "none"})
			if r.St != "ok" || r.Oldest <= 0 || r.Oldest == cur {
				break
			}

			cur = r.Oldest
		}

		for off := 0; off < x.clock+7; off += 7 {
			r := ask(&zzC07Q{Offset: off, Limit: 7, Term: "none", Status: "none"})
			if r.St != "ok" || len(r.Data) == 0 && off > 0 {
				break
			}
		}
	}

	for round := range 2 {
		name, cli, reason := zzC07NameKeys[rng.Intn(4)], zzC07ClientKeys[rng.Intn(len(zzC07ClientKeys))], "notfound"
		sh := zzC07ShapeFor(x.rng, reason)
		base := len(x.ringTimes())

		// The parameters are built beforehand (they use the seeded source,
		// which is not for concurrent use); the Adds run free.
		ps := make([][]*AddParams, goroutines)
		host := ""
		for g := range ps {
			for range each {
				var p *AddParams
				p, host = x.params(name, cli, sh)
				ps[g] = append(ps[g], p)
			}
		}

		t0 := time.Now().UnixNano()
		wg := &sync.WaitGroup{}
		for g := range ps {
			wg.Add(1)
			go func() {
				defer wg.Done()

				for _, p := range ps[g] {
					x.l.Add(p)
				}
			}()
		}

		wg.Wait()
		t1 := time.Now().UnixNano()

		pushed := x.ringTimes()[base:]
		if len(pushed) != goroutines*each {
			t.Fatalf("burst: %d entries in the ring, want %d", len(pushed), goroutines*each)
		}

		sorted := append([]int64{}, pushed...)
		sort.Slice(sorted, func(i, j int) bool { return sorted[i] < sorted[j] })
		rank := map[int64]int{}
		for i, v := range sorted {
			if i > 0 && v == sorted[i-1] || v <= x.last {
				// Two requests read the same nanosecond: the entries cannot be
				// told apart by their timestamps (outside the statement).
				w.put(map[string]any{"ev": "summary", "discard": "equal timestamps in the burst"})

				return
			}

			rank[v] = i + 1
		}

		first := x.clock
		for range sorted {
			x.tick(t0, t1, zzC07Rec{name: name, cli: cli, shape: sh, host: host})
		}

		tss := []int{}
		inversions := 0
		for i, v := range pushed {
			n := first + rank[v]
			x.exact[n], x.byTime[v] = v, n
			tss = append(tss, 2*n)
			if i > 0 && v < pushed[i-1] {
				inversions++
			}
		}

		x.last = t1
		emit("burst", map[string]any{"tss": tss, "name": name, "cli": cli, "reason": reason, "n": len(tss), "inversions": inversions})

		switch round {
		case 0:
			reads()
			_ = x.step(nil, &zzC07Step{Act: "flush"}, false)
			emit("flush", nil)
			reads()
		default:
			if rng.Intn(2) == 0 {
				_ = x.step(nil, &zzC07Step{Act: "rotate"}, false)
				emit("rotate", nil)
			}

			reads()
		}
	}

	w.put(map[string]any{"ev": "summary", "lines": 0, "records": x.clock, "discard": x.discard,
		"payload_bad": 0, "queries": x.queries, "bytes": x.maxFile})
}

func zzC07B2I(b bool) (i int) {
	if b {
		return 1
	}

	return 0
}

func zzC07Size(p string) (n int64) {
	fi, err := os.Stat(p)
	if err != nil {
		return 0
	}

	return fi.Size()
}
