------------------------------- MODULE Persist -------------------------------
(***************************************************************************)
(* G10 -- settings persistence of the AdGuard Home admin API.              *)
(*                                                                         *)
(* STATEMENT (notes/G10.md).  Every settings change the admin API accepts  *)
(* (answers 2xx) is in effect at once, is what the corresponding GET       *)
(* reports, is written to AdGuardHome.yaml, and is in effect and reported  *)
(* again after a restart.  A change that is refused (4xx/5xx) changes      *)
(* neither the running settings nor the file.  After a crash (the process  *)
(* is killed, at a request boundary or in the middle of a request) the     *)
(* server comes back with every change that had been answered 2xx; a       *)
(* change whose answer was never received is either there completely or    *)
(* not at all.                                                             *)
(*                                                                         *)
(* The three variables are the three places a setting lives in:            *)
(*   running  -- the value in effect (what DNS clients experience),        *)
(*   file     -- the value AdGuardHome.yaml holds,                         *)
(*   reported -- the value the GET endpoint of the family answers.         *)
(* Each is a record over the settings components below.  In a correct      *)
(* system the three always coincide at request boundaries; they are kept   *)
(* apart so that the requirement can be written as invariants (and so that *)
(* the seeded faults of the Persist.neg-*.cfg configurations, which let    *)
(* one of them lag, are caught by TLC -- the invariants are not vacuous).   *)
(*                                                                         *)
(* WHICH requests are accepted is transcribed from openapi/openapi.yaml,   *)
(* openapi/CHANGELOG.md and AGHTechDoc.md, not from the handlers:          *)
(*   Good   -- values the documentation allows: must be accepted;          *)
(*   Bad    -- values it excludes (enum members, documented minimum /      *)
(*             maximum, "must be unique", "Client already exists: 400",    *)
(*             "must be known to the server", required fields): must be    *)
(*             refused;                                                     *)
(*   Silent -- values it says nothing about: both outcomes are admitted    *)
(*             (refused and unchanged, or accepted and then stored like    *)
(*             any other value).                                           *)
(* Every Bad request of the harness carries, next to the offending field,  *)
(* a perfectly valid change of ANOTHER field of the same endpoint (or      *)
(* flips another part of the same value): "refused" means none of it may   *)
(* be applied.                                                             *)
(***************************************************************************)
EXTENDS Naturals, FiniteSets, Sequences, TLC, Json

CONSTANTS
    Deep,   \* FALSE: the bounded universe of the exhaustive run; TRUE: no bound (trace validation)
    Bug,    \* "none", or the name of a seeded fault (negative configurations)
    DoEmit  \* TRUE: print one @@V vector per (state, label)

VARIABLES running, file, reported, last

vars == <<running, file, reported, last>>

(***************************************************************************)
(* Components.  A component is the unit a request of the API replaces.     *)
(*                                                                         *)
(*  POST /control/dns_config (GET /control/dns_info):                      *)
(*   ups     upstream_dns            A | B      (two upstreams of the rig) *)
(*   boot    bootstrap_dns           b0 | b1                               *)
(*   blk     blocking_mode(+ips)     default|nxdomain|refused|null_ip|custom1 *)
(*   blkttl  blocked_response_ttl    t10 | t77                             *)
(*   prot    protection_enabled      on | off                              *)
(*   rl      ratelimit               20 | 0 | 77                           *)
(*   rl4     ratelimit_subnet_len_ipv4  24 | 16        (33: above maximum) *)
(*   ecs     edns_cs_*               off | on | custom                     *)
(*   dnssec  dnssec_enabled          off | on                              *)
(*   noaaaa  disable_ipv6            off | on                              *)
(*   csize   cache_size              4m | 0 | 64k                          *)
(*   cttl    cache_ttl_min/max       0-0 | 60-3600   (3600-60: silent)     *)
(*   upmode  upstream_mode           lb | parallel | fastest (bogus: enum) *)
(*   lptr    local_ptr_upstreams     none | L                              *)
(*   useptr  use_private_ptr_resolvers  off | on                           *)
(*   uto     upstream_timeout        10 | 3            (0: below minimum)  *)
(*  POST /control/filtering/config:  fcfg  (enabled, interval) on-24|off-24|on-72|on-0 *)
(*                                          (interval 5 is not in the documented list)  *)
(*  POST /control/filtering/set_rules: rules  none | r1 | r12              *)
(*  add_url / remove_url / set_url:  lists  L1, L2 : absent | on | off     *)
(*  safebrowsing|parental enable/disable:  sb, par   off | on             *)
(*  PUT /control/safesearch/settings (+ deprecated enable / disable):      *)
(*                                   ss  off | all | nogoogle | offng      *)
(*  rewrite add / delete / update:   rw  subsets of {r1, r2, r3}           *)
(*  PUT /control/blocked_services/update (+ deprecated .../set):           *)
(*                                   svc none | s1 | s12 | s1p (paused by schedule) *)
(*                                   (unknown: an id that names no service -- silent;    *)
(*                                    badsched: a day range that ends before it starts)  *)
(*  POST /control/access/set:        acc none | dis | host | allow         *)
(*  clients add / update / delete:   cl  c1, c2 : absent | a | b           *)
(*  PUT /control/querylog/config/update:  qlog def | off | anon | ivl7 | ign *)
(*  PUT /control/stats/config/update:     stats def | off | ivl7 | ign     *)
(*  POST /control/i18n/change_language, PUT /control/profile/update:       *)
(*                                   lang none | en | de ; theme auto | dark | light *)
(*  POST /control/dhcp/set_config (never enabled: the rig must not serve   *)
(*  DHCP on the host), add / remove_static_lease:                          *)
(*                                   dhcp none | cfg1 | cfg2 ; leases subsets of {l1, l2} *)
(*                                   ("file" of the leases is data/leases.json)           *)
(***************************************************************************)
Comps == {"ups", "boot", "blk", "blkttl", "prot", "rl", "rl4", "ecs", "dnssec", "noaaaa", "csize", "cttl",
          "upmode", "lptr", "useptr", "uto", "fcfg", "rules", "lists", "sb", "par", "ss", "rw", "svc", "acc",
          "cl", "qlog", "stats", "lang", "theme", "dhcp", "leases"}

\* The settings of the deployment the harness starts from (a fresh
\* installation bound to loopback).
Init0 == [ups |-> "A", boot |-> "b0", blk |-> "default", blkttl |-> "t10", prot |-> "on", rl |-> "20",
          rl4 |-> "24", ecs |-> "off", dnssec |-> "off", noaaaa |-> "off", csize |-> "4m", cttl |-> "0-0",
          upmode |-> "lb", lptr |-> "none", useptr |-> "off", uto |-> "10", fcfg |-> "on-24",
          rules |-> "none", lists |-> [L1 |-> "absent", L2 |-> "absent"], sb |-> "off", par |-> "off",
          ss |-> "off", rw |-> {}, svc |-> "none", acc |-> "none", cl |-> [c1 |-> "absent", c2 |-> "absent"],
          qlog |-> "def", stats |-> "def", lang |-> "none", theme |-> "auto", dhcp |-> "none", leases |-> {}]

\* Components set as a whole by one request carrying the new value
\* (label op "set").
Scalars == Comps \ {"lists", "rw", "cl", "theme", "leases"}

Good == [ups |-> {"A", "B"}, boot |-> {"b0", "b1"},
         blk |-> {"default", "nxdomain", "refused", "null_ip", "custom1"},
         blkttl |-> {"t10", "t77"}, prot |-> {"on", "off"}, rl |-> {"20", "0", "77"}, rl4 |-> {"24", "16"},
         ecs |-> {"off", "on", "custom"}, dnssec |-> {"off", "on"}, noaaaa |-> {"off", "on"},
         csize |-> {"4m", "0", "64k"}, cttl |-> {"0-0", "60-3600"}, upmode |-> {"lb", "parallel", "fastest"},
         lptr |-> {"none", "L"}, useptr |-> {"off", "on"}, uto |-> {"10", "3"},
         fcfg |-> {"on-24", "off-24", "on-72", "on-0"}, rules |-> {"none", "r1", "r12"},
         sb |-> {"off", "on"}, par |-> {"off", "on"}, ss |-> {"off", "all", "nogoogle"},
         svc |-> {"none", "s1", "s12", "s1p"}, acc |-> {"none", "dis", "host", "allow", "nohosts"},
         qlog |-> {"def", "off", "anon", "ivl7", "ign"}, stats |-> {"def", "off", "ivl7", "ign"},
         lang |-> {"en", "de"}, dhcp |-> {"cfg1", "cfg2"}]

\* Values used only by the longer random histories of direction B.
Extra == [ups |-> {}, boot |-> {}, blk |-> {"custom2"}, blkttl |-> {"t3600"}, prot |-> {}, rl |-> {"5"},
          rl4 |-> {"32"}, ecs |-> {}, dnssec |-> {}, noaaaa |-> {}, csize |-> {}, cttl |-> {"0-600"},
          upmode |-> {}, lptr |-> {}, useptr |-> {}, uto |-> {"30"}, fcfg |-> {"off-72", "on-168"},
          rules |-> {"r2"}, sb |-> {}, par |-> {}, ss |-> {}, svc |-> {"s2"}, acc |-> {}, qlog |-> {"ivl1"},
          stats |-> {"ivl30"}, lang |-> {"fr"}, dhcp |-> {}]

Bad == [ups |-> {}, boot |-> {}, blk |-> {"bogus"}, blkttl |-> {}, prot |-> {}, rl |-> {}, rl4 |-> {"33"},
        ecs |-> {}, dnssec |-> {}, noaaaa |-> {}, csize |-> {}, cttl |-> {}, upmode |-> {"bogus"},
        lptr |-> {}, useptr |-> {}, uto |-> {"0"}, fcfg |-> {"on-5", "off-5"}, rules |-> {}, sb |-> {},
        par |-> {}, ss |-> {}, svc |-> {"badsched"}, acc |-> {"dup", "both"}, qlog |-> {"noenabled"},
        stats |-> {"noenabled"}, lang |-> {"xx"}, dhcp |-> {}]

Silent == [ups |-> {"bad"}, boot |-> {"bad"}, blk |-> {}, blkttl |-> {}, prot |-> {}, rl |-> {}, rl4 |-> {},
           ecs |-> {}, dnssec |-> {}, noaaaa |-> {}, csize |-> {}, cttl |-> {"3600-60"}, upmode |-> {},
           lptr |-> {}, useptr |-> {}, uto |-> {}, fcfg |-> {}, rules |-> {}, sb |-> {}, par |-> {},
           ss |-> {}, svc |-> {"unknown"}, acc |-> {}, qlog |-> {}, stats |-> {}, lang |-> {}, dhcp |-> {}]

GoodOf(c) == IF Deep THEN Good[c] \cup Extra[c] ELSE Good[c]

\* Endpoints that take a JSON body: a body that is not JSON changes nothing,
\* whatever the answer.
Endpoints == {"dns_config", "filtering_config", "set_rules", "add_url", "set_url", "safesearch", "rewrite_add",
              "services", "access", "clients_add", "querylog", "stats", "language", "profile", "dhcp_set_config",
              "dhcp_add_lease"}

ListItems == {"L1", "L2"}
RwItems == IF Deep THEN {"r1", "r2", "r3"} ELSE {"r1", "r2"}
Clients == {"c1", "c2"}
ClientVariants == {"a", "b"}
Themes == {"auto", "dark", "light"}
Leases == {"l1", "l2"}

(***************************************************************************)
(* Labels.  All labels are records of five strings.                        *)
(***************************************************************************)
L(op, x, c, v, w) == [op |-> op, x |-> x, c |-> c, v |-> v, w |-> w]

\* The requests that ask for a change the documentation allows.
ChangeLabels ==
    {L("set", "", c, v, "") : c \in Scalars, v \in UNION {GoodOf(cc) : cc \in Scalars}}
    \cup {L(op, "", "", i, "") : op \in {"ls_add", "ls_rm"}, i \in ListItems}
    \cup {L("ls_set", "", "", i, e) : i \in ListItems, e \in {"on", "off"}}
    \cup {L(op, "", "", r, "") : op \in {"rw_add", "rw_del"}, r \in RwItems}
    \cup {L("rw_upd", "", "", r, q) : r \in RwItems, q \in RwItems}
    \cup {L(op, "", "", k, v) : op \in {"cl_add", "cl_upd"}, k \in Clients, v \in ClientVariants}
    \cup {L("cl_del", "", "", k, "") : k \in Clients}
    \cup {L("ss_enable", "", "", "", ""), L("ss_disable", "", "", "", "")}
    \cup {L("svc_legacy", "", "", v, "") : v \in {"none", "s1", "s12"}}
    \cup {L("profile", "", "", l, t) : l \in GoodOf("lang"), t \in Themes}
    \cup {L(op, "", "", k, "") : op \in {"lease_add", "lease_rm"}, k \in Leases}

WellTyped(lab) == lab.op # "set" \/ lab.v \in GoodOf(lab.c)

RefusedLabels ==
    {L("set", "", c, v, "") : c \in Scalars, v \in UNION {Bad[cc] \cup Silent[cc] : cc \in Scalars}}
    \cup {L("malformed", "", e, "", "") : e \in Endpoints}
    \cup {L("profile", "", "", "xx", "dark"), L("profile", "", "", "de", "pink")}
    \cup {L("cl_add_clash", "", "", "", "")}

ok(s)  == [cls |-> "ok", st |-> s]
rej(s) == [cls |-> "rej", st |-> s]
either(s) == {ok(s), rej(s)}

SsEnable(v)  == CASE v = "off" -> "all" [] v = "offng" -> "nogoogle" [] OTHER -> v
SsDisable(v) == CASE v = "all" -> "off" [] v = "nogoogle" -> "offng" [] OTHER -> v

(***************************************************************************)
(* Out(s, lab): the admissible outcomes of request lab when the settings   *)
(* are s -- a set of [cls, st] with cls "ok" (2xx) or "rej" (4xx / 5xx)    *)
(* and st the settings afterwards (in all three places).                   *)
(***************************************************************************)
Out(s, lab) ==
    CASE lab.op = "set" /\ lab.c = "dhcp" /\ s.leases # {} -> {}
      [] lab.op = "set" ->
            IF lab.v \in GoodOf(lab.c) THEN {ok([s EXCEPT ![lab.c] = lab.v])}
            ELSE IF lab.v \in Bad[lab.c] THEN {rej(s)}
            ELSE IF lab.v \in Silent[lab.c] THEN {rej(s), ok([s EXCEPT ![lab.c] = lab.v])}
            ELSE {}
      [] lab.op = "malformed" -> either(s)
      \* Filter lists.  AGHTechDoc: "For both arrays filters and
      \* whitelist_filters there are unique values: id, url."
      [] lab.op = "ls_add" ->
            IF s.lists[lab.v] = "absent" THEN {ok([s EXCEPT !.lists[lab.v] = "on"])} ELSE {rej(s)}
      [] lab.op = "ls_rm" ->
            IF s.lists[lab.v] # "absent" THEN {ok([s EXCEPT !.lists[lab.v] = "absent"])} ELSE either(s)
      [] lab.op = "ls_set" ->
            IF s.lists[lab.v] # "absent" THEN {ok([s EXCEPT !.lists[lab.v] = lab.w])} ELSE either(s)
      \* Rewrites: nothing is said about adding an entry twice or deleting /
      \* updating one that is not there; as a set nothing changes then.
      [] lab.op = "rw_add" ->
            IF lab.v \notin s.rw THEN {ok([s EXCEPT !.rw = @ \cup {lab.v}])} ELSE either(s)
      [] lab.op = "rw_del" ->
            IF lab.v \in s.rw THEN {ok([s EXCEPT !.rw = @ \ {lab.v}])} ELSE either(s)
      [] lab.op = "rw_upd" ->
            IF lab.v \in s.rw THEN {ok([s EXCEPT !.rw = (@ \ {lab.v}) \cup {lab.w}])} ELSE either(s)
      \* Clients.  AGHTechDoc: add -> "Error response (Client already
      \* exists): 400"; update / delete -> "Error response (Client not
      \* found): 400"; "name, ip and mac values are unique".
      [] lab.op = "cl_add" ->
            IF s.cl[lab.v] = "absent" THEN {ok([s EXCEPT !.cl[lab.v] = lab.w])} ELSE {rej(s)}
      [] lab.op = "cl_upd" ->
            IF s.cl[lab.v] # "absent" THEN {ok([s EXCEPT !.cl[lab.v] = lab.w])} ELSE {rej(s)}
      [] lab.op = "cl_del" ->
            IF s.cl[lab.v] # "absent" THEN {ok([s EXCEPT !.cl[lab.v] = "absent"])} ELSE {rej(s)}
      \* A client named like c2 with the address of c1.
      [] lab.op = "cl_add_clash" -> IF s.cl.c1 # "absent" /\ s.cl.c2 = "absent" THEN {rej(s)} ELSE {}
      [] lab.op = "ss_enable" -> {ok([s EXCEPT !.ss = SsEnable(@)])}
      [] lab.op = "ss_disable" -> {ok([s EXCEPT !.ss = SsDisable(@)])}
      \* The deprecated list-only call replaces the ids and keeps the schedule.
      [] lab.op = "svc_legacy" -> IF s.svc = "s1p" THEN {} ELSE {ok([s EXCEPT !.svc = lab.v])}
      \* Static leases are driven only on the network of cfg1 (the addresses
      \* of l1, l2 lie in it), and the DHCP settings only while there is no
      \* lease: what a lease means after its network is gone is not documented.
      [] lab.op = "lease_add" ->
            IF s.dhcp # "cfg1" THEN {}
            ELSE IF lab.v \notin s.leases THEN {ok([s EXCEPT !.leases = @ \cup {lab.v}])} ELSE either(s)
      [] lab.op = "lease_rm" ->
            IF s.dhcp # "cfg1" THEN {}
            ELSE IF lab.v \in s.leases THEN {ok([s EXCEPT !.leases = @ \ {lab.v}])} ELSE either(s)
      [] lab.op = "profile" ->
            IF lab.v \in GoodOf("lang") /\ lab.w \in Themes
            THEN {ok([s EXCEPT !.lang = lab.v, !.theme = lab.w])} ELSE {rej(s)}
      [] OTHER -> {}

(***************************************************************************)
(* The bounded universe of the exhaustive run: at most one component away  *)
(* from the initial deployment, or two components both at their first      *)
(* alternative value (every ordered pair of components is reached, so a    *)
(* change of one component that disturbs another one is seen).             *)
(***************************************************************************)
Alt1 == [ups |-> "B", boot |-> "b1", blk |-> "nxdomain", blkttl |-> "t77", prot |-> "off", rl |-> "77",
         rl4 |-> "16", ecs |-> "custom", dnssec |-> "on", noaaaa |-> "on", csize |-> "0", cttl |-> "60-3600",
         upmode |-> "parallel", lptr |-> "L", useptr |-> "on", uto |-> "3", fcfg |-> "off-24",
         rules |-> "r1", lists |-> [L1 |-> "on", L2 |-> "absent"], sb |-> "on", par |-> "on", ss |-> "all",
         rw |-> {"r1"}, svc |-> "s1", acc |-> "host", cl |-> [c1 |-> "a", c2 |-> "absent"],
         qlog |-> "anon", stats |-> "off", lang |-> "de", theme |-> "dark", dhcp |-> "cfg1", leases |-> {"l1"}]

Diff(s) == {c \in Comps : s[c] # Init0[c]}
Bounded(s) ==
    \/ Deep
    \/ Cardinality(Diff(s)) <= 1
    \/ Cardinality(Diff(s)) = 2 /\ \A c \in Diff(s) : s[c] = Alt1[c]

\* The labels tried in state s by the exhaustive run.
\* The documentation does not say whether the rewrite list is a set or a
\* list that may hold an entry twice (then "update" and "delete" of one of
\* the copies are not defined by it either): the harness never asks for an
\* entry that is already there.
MakesDuplicate(s, lab) == \/ lab.op = "rw_add" /\ lab.v \in s.rw
                          \/ lab.op = "rw_upd" /\ lab.w \in s.rw /\ lab.w # lab.v

\* In the two-component states only the requests that change something
\* are tried (they lead back), in the others every request, also those
\* that ask for the value already in force.
Labels(s) ==
    {lab \in ChangeLabels : /\ WellTyped(lab) /\ Out(s, lab) # {}
                            /\ \A o \in Out(s, lab) : Bounded(o.st)
                            /\ (Cardinality(Diff(s)) <= 1 \/ \E o \in Out(s, lab) : o.st # s)
                            /\ ~MakesDuplicate(s, lab)}
    \cup (IF Cardinality(Diff(s)) <= 1 THEN {lab \in RefusedLabels : Out(s, lab) # {}} ELSE {})

\* A crash in the middle of a request is tried for every change of the
\* initial deployment.
MidLabels(s) == IF Cardinality(Diff(s)) = 0 THEN {lab \in Labels(s) \cap ChangeLabels : \E o \in Out(s, lab) : o.st # s}
                ELSE {}

(***************************************************************************)
(* Seeded faults (negative configurations only).                           *)
(***************************************************************************)
\* What the three places hold after an accepted request with destination d.
After(lab, d) ==
    CASE Bug = "nowrite" /\ lab.op = "set" /\ lab.c = "rl" ->
            [r |-> d, f |-> file, g |-> d]              \* handler forgets to write the file
      [] Bug = "norun" /\ lab.op = "set" /\ lab.c = "blk" ->
            [r |-> running, f |-> d, g |-> d]           \* file and report updated, server not
      [] Bug = "noreport" /\ lab.op = "rw_add" ->
            [r |-> d, f |-> d, g |-> reported]
      [] OTHER -> [r |-> d, f |-> d, g |-> d]

\* What a refused request leaves behind.
Refused(lab) ==
    IF Bug = "storefirst" /\ lab.op = "set" /\ lab.c = "rl4"
    THEN [r |-> [running EXCEPT !.rl = "77"], f |-> [file EXCEPT !.rl = "77"], g |-> [reported EXCEPT !.rl = "77"]]
    ELSE [r |-> running, f |-> file, g |-> reported]

Booted == IF Bug = "lostonrestart" THEN [file EXCEPT !.lang = "none"] ELSE file

(***************************************************************************)
(* Actions.                                                                *)
(***************************************************************************)
Init == running = Init0 /\ file = Init0 /\ reported = Init0 /\ last = "init"

Request(lab) ==
    \E o \in Out(running, lab) :
        /\ Bounded(o.st)
        /\ IF o.cls = "ok"
           THEN \E a \in {After(lab, o.st)} : running' = a.r /\ file' = a.f /\ reported' = a.g
           ELSE \E a \in {Refused(lab)} : running' = a.r /\ file' = a.f /\ reported' = a.g
        /\ last' = o.cls

\* A clean restart (SIGTERM, new process) and a crash at a request boundary
\* (SIGKILL, new process): the server comes back with what the file holds.
Restart == running' = Booted /\ reported' = Booted /\ file' = file /\ last' = "boot"
Crash   == running' = Booted /\ reported' = Booted /\ file' = file /\ last' = "boot"

\* A crash in the middle of request lab, whose answer is never received: the
\* change is in the file completely or not at all.
CrashDuring(lab) ==
    \E o \in Out(running, lab) : \E f \in {file, o.st} :
        /\ Bounded(f)
        /\ file' = f /\ running' = f /\ reported' = f /\ last' = "crash"

MidOuts(s, lab) == {[cls |-> "boot", st |-> f] : f \in {s} \cup {o.st : o \in Out(s, lab)}}

Vector(s, lab) == [src |-> s, lab |-> lab, outs |-> Out(s, lab)]

EmitAll ==
    /\ \A lab \in Labels(running) : PrintT(<<"@@V", ToJson(Vector(running, lab))>>)
    /\ PrintT(<<"@@V", ToJson([src |-> running, lab |-> L("restart", "", "", "", ""),
                               outs |-> {[cls |-> "boot", st |-> running]}])>>)
    /\ PrintT(<<"@@V", ToJson([src |-> running, lab |-> L("crash", "", "", "", ""),
                               outs |-> {[cls |-> "boot", st |-> running]}])>>)
    /\ \A lab \in MidLabels(running) :
          PrintT(<<"@@V", ToJson([src |-> running, lab |-> L("crashduring", lab.op, lab.c, lab.v, lab.w),
                                  outs |-> MidOuts(running, lab)])>>)
    /\ (running = Init0 => PrintT(<<"@@V", ToJson([init |-> Init0])>>))

Next ==
    /\ (DoEmit /\ running = file /\ running = reported) => EmitAll
    /\ \/ \E lab \in Labels(running) : Request(lab)
       \/ Restart
       \/ Crash
       \/ \E lab \in MidLabels(running) : CrashDuring(lab)

Spec == Init /\ [][Next]_vars

View == <<running, file, reported>>

(***************************************************************************)
(* The requirement.                                                        *)
(***************************************************************************)
\* Write-through: at every request boundary the file holds what is in effect.
WriteThrough == running = file
\* GET = running.
ReportsRunning == reported = running

\* Refused => nothing changes, anywhere.
RefusedChangesNothing == [][last' = "rej" => UNCHANGED <<running, file, reported>>]_vars
\* Restart / crash => the server comes back with the file's settings, and
\* the file is not touched.
RestartRestores == [][last' = "boot" => (running' = file /\ reported' = file /\ file' = file)]_vars
\* Nothing acknowledged is lost by a crash in mid-request, and the
\* unacknowledged change is atomic: the state afterwards is one the
\* requirement admits as a request boundary.
CrashAtomic == [][last' = "crash" => (running' = file' /\ reported' = file')]_vars
\* An accepted change is in all three places at once.
AcceptedEverywhere == [][last' = "ok" => (running' = file' /\ reported' = file')]_vars

\* Every component always holds a value of its type.
TypeOK == /\ \A c \in Scalars : running[c] \in (Good[c] \cup Extra[c] \cup Silent[c] \cup {Init0[c]} \cup {"offng"})
          /\ running.rw \subseteq {"r1", "r2", "r3"} /\ running.leases \subseteq Leases
=============================================================================
