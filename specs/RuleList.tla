------------------------------ MODULE RuleList ------------------------------
(***************************************************************************)
(* C15, parser half, exhaustive universe.                                  *)
(*                                                                         *)
(* Every text of at most MaxLines lines, each line one of LineShapes with  *)
(* one of the endings LF / CRLF / bare CR (the last line may also end at   *)
(* end of input), is built line by line; for each of them TLC              *)
(*   - checks the properties of the statement on the specification itself  *)
(*     (NormalFormIsFixedPoint, NormalIsClean, the enumerated failures),   *)
(*   - emits one vector [t |-> tokens, adm |-> admissible outcomes] that   *)
(*     the Go harness replays into the real rulelist.Parser: the real      *)
(*     outcome must be admissible, the stored bytes must be conc(Normal),  *)
(*     and re-parsing the stored bytes must give the same count, checksum  *)
(*     and bytes.                                                          *)
(*                                                                         *)
(* cfg constants:  MaxLines, Shapes <- ShapesFull | ShapesCore             *)
(***************************************************************************)
EXTENDS RuleListCore, TLC, Json

CONSTANTS MaxLines, Shapes

\* Line shapes (token sequences, without the ending).
ShapesCore == {
    <<"R1">>,                 \* rule
    <<"R2">>,                 \* another rule
    <<"SP", "R1", "SP">>,     \* spaced(rule)
    <<"HASH">>,               \* comment #
    <<"BANG">>,               \* comment !
    <<"TITLE">>,              \* title
    <<>>,                     \* blank
    <<"HTML">>,               \* html line (fails only when first)
    <<"R2", "BIN">>           \* control byte in a rule: binary
}
ShapesFull == ShapesCore \cup {
    <<"SP">>,                 \* white space only
    <<"SP", "HASH">>,         \* indented comment
    <<"HASH", "BIN">>,        \* control byte inside a comment (soft)
    <<"R1", "SP", "R2">>,     \* inner white space is kept
    <<"VT", "R2", "VT">>,     \* VT/FF at the ends are white space
    <<"R1", "VT", "R2">>,     \* ... inside they are control bytes
    <<"RL">>,                 \* long line (1..60 KiB)
    <<"R2", "SP", "HASH">>    \* "rule # trailing text" is a rule
}

Endings == {<<"LF">>, <<"CR", "LF">>, <<"CR">>}

VARIABLES st,      \* "init" | "build"
          text,    \* tokens so far; every line so far is terminated
          n        \* number of lines in text
vars == <<st, text, n>>

Emit(t) == PrintT(<<"@@V", ToJson([t |-> t, adm |-> Admissible(t)])>>)

Init == st = "init" /\ text = <<>> /\ n = 0

\* The empty text.
Start == /\ st = "init"
         /\ st' = "build"
         /\ UNCHANGED <<text, n>>
         /\ Emit(text)

\* Append one terminated line; the same line at end of input (no ending)
\* is a text of its own and is emitted as well, but not extended.
AddLine == /\ st = "build"
           /\ n < MaxLines
           /\ \E s \in Shapes, e \in Endings :
                /\ text' = text \o s \o e
                /\ n' = n + 1
                /\ st' = "build"
                /\ Emit(text')
                /\ (e = <<"LF">> /\ s # <<>> => Emit(text \o s))

Next == Start \/ AddLine
Spec == Init /\ [][Next]_vars

------------------------------------------------------------------------------
\* Properties.
\* The texts this state stands for: text itself and, if its last line ends
\* in LF, the same without that LF.
Here == {text} \cup (IF text # <<>> /\ text[Len(text)] = "LF"
                     THEN {SubSeq(text, 1, Len(text) - 1)} ELSE {})

NormalFormIsFixedPoint == \A t \in Here : FixedPoint(t)
NormalIsClean          == \A t \in Here : Parse(t).ok => Clean(Parse(t).rules)
\* Stored lines are lines of the input: nothing is invented.
RulesAreInputLines ==
    \A t \in Here : \A i \in DOMAIN Parse(t).rules :
        \E j \in DOMAIN Lines(t) : Trim(Lines(t)[j]) = Parse(t).rules[i]
\* The enumerated failures are failures: an HTML line before any rule, a
\* control byte in a line that is not a comment.
HTMLFirstFails ==
    \A t \in Here :
        (\E j \in DOMAIN Lines(t) :
            /\ Trim(Lines(t)[j]) # <<>> /\ Head(Trim(Lines(t)[j])) = "HTML"
            /\ \A k \in 1..(j - 1) : Class(Trim(Lines(t)[k]), TRUE) \in {"blank", "comment"})
        => Admissible(t) = {Fail}
BinaryFails ==
    \A t \in Here :
        (Lines(t) # <<>> /\ LET l1 == Trim(Lines(t)[1]) IN
            l1 # <<>> /\ Head(l1) \notin Comment /\ Has(l1, Control))
        => Admissible(t) = {Fail}
\* A text without any soft feature has exactly one outcome.
Deterministic == \A t \in Here : ~Soft(t) => Cardinality(Admissible(t)) = 1
=============================================================================
