package home

// G08 conformance harness (overlaid at build time, never part of /repo).
//
// Two admin state machines of package home are driven through the real mux
// (withMiddlewares(globalContext.mux, limitRequestBody), the handler web.start
// gives to http.Server) of a server that is booted on package home's globals
// the way run() boots it:
//
//   - arena I (Install.tla): a first run in an empty working directory, taken
//     through GET /control/install/get_addresses, POST .../check_config and
//     POST .../configure (the REAL handleInstallConfigure: addUser, startMods,
//     config.write, registerControlHandlers), with process restarts (teardown
//     as cleanup() does, then the boot sequence again over the same directory)
//     and a factory reset.
//
//   - arena T (TLSSettings.tla): a configured installation (an AdGuardHome.yaml
//     with one administrator is on disk before the first boot), driven through
//     GET /control/tls/status, POST /control/tls/validate and
//     POST /control/tls/configure with restarts.
//
// No web listener is started: web.start is never called, so
// web.tlsConfigChanged only records (enabled, certificate) in web.httpsServer,
// which the harness reads as "what the HTTPS server would serve", as home's own
// tls_internal_test.go does.  The plain DNS server is really started (on a
// picked loopback port) because handleInstallConfigure / handleTLSConfigure
// start it themselves.
//
// After EVERY step the harness projects: firstRun, the accounts in memory,
// the content of the configuration file (users, http/dns addresses, tls
// section), whether DNS runs, what the probe route /control/status answers
// without and with credentials, and -- arena T -- GET /control/tls/status.
// The specification decides (the walker only compares the projection with the
// destinations TLC emitted; direction B traces are decided by TLC itself).

import (
	"bytes"
	"context"
	"crypto/ecdsa"
	"crypto/elliptic"
	crand "crypto/rand"
	"crypto/tls"
	"crypto/x509"
	"crypto/x509/pkix"
	"encoding/base64"
	"encoding/json"
	"encoding/pem"
	"fmt"
	"io"
	"math/big"
	"math/rand"
	"net"
	"net/http"
	"net/http/httptest"
	"net/netip"
	"os"
	"path/filepath"
	"sort"
	"strings"
	"testing"
	"testing/fstest"
	"time"

	"github.com/AdguardTeam/AdGuardHome/internal/filtering"
	"github.com/AdguardTeam/golibs/log"
	"github.com/AdguardTeam/golibs/logutil/slogutil"
	"golang.org/x/crypto/bcrypt"
	yaml "gopkg.in/yaml.v3"
)

// ------------------------------------------------------------------- world

// zzG08World is the environment of one arena: a working directory, the picked
// ports and the foreign listeners that keep some of them busy.
type zzG08World struct {
	t        testing.TB
	root     string // scratch root, removed at the end
	dir      string // working directory of the current deployment
	confDir  string // directory of the configuration file (given like -c)
	defaults []byte // YAML of the pristine package-level configuration
	ports    map[string]uint16
	closers  []io.Closer
	handler  http.Handler
	up       bool
	bootErr  string
	certs    map[string]*zzG08Cert
	keyOf    map[string]string // PEM of a private key -> id
	certDir  string
	boots    int
}

const (
	zzG08Host   = "127.0.0.1"
	zzG08Pass1  = "first password 1"
	zzG08Pass2  = "second password 2"
	zzG08TUser  = "admin"
	zzG08TPass  = "tls arena password"
	zzG08Name   = "agh.test"
	zzG08Other  = "other.test"
	zzG08NoSuch = "nosuch.pem"
)

func zzG08Scratch(t testing.TB) (dir string) {
	base := ""
	if st, err := os.Stat("/dev/shm"); err == nil && st.IsDir() {
		base = "/dev/shm"
	}

	dir, err := os.MkdirTemp(base, "zzg08-")
	if err != nil {
		t.Fatalf("tempdir: %v", err)
	}

	t.Cleanup(func() { _ = os.RemoveAll(dir) })

	return dir
}

// zzG08FreePort picks a loopback port that is free for TCP and UDP now.
func zzG08FreePort(t testing.TB, taken map[uint16]bool) (port uint16) {
	for i := 0; i < 200; i++ {
		c, err := net.ListenPacket("udp", zzG08Host+":0")
		if err != nil {
			t.Fatalf("picking port: %v", err)
		}

		p := uint16(c.LocalAddr().(*net.UDPAddr).Port)
		_ = c.Close()
		if taken[p] {
			continue
		}

		l, err := net.Listen("tcp", fmt.Sprintf("%s:%d", zzG08Host, p))
		if err != nil {
			continue
		}

		_ = l.Close()
		taken[p] = true

		return p
	}

	t.Fatal("no free port")

	return 0
}

// zzG08NewWorld picks the ports.  names are abstract port names; "w0" is held
// by a TCP listener standing for the running plain web server, "pb" is busy on
// TCP and UDP, "pt" on TCP only (all three for the whole life of the arena).
func zzG08NewWorld(t testing.TB, names []string) (w *zzG08World) {
	log.SetOutput(io.Discard)
	log.SetLevel(log.OFF)

	w = &zzG08World{t: t, root: zzG08Scratch(t), ports: map[string]uint16{}}
	var err error
	w.defaults, err = yaml.Marshal(config)
	if err != nil {
		t.Fatalf("marshalling defaults: %v", err)
	}

	taken := map[uint16]bool{}
	for _, n := range names {
		p := zzG08FreePort(t, taken)
		w.ports[n] = p
		addr := fmt.Sprintf("%s:%d", zzG08Host, p)
		if n == "w0" || n == "pb" || n == "pt" {
			l, lerr := net.Listen("tcp", addr)
			if lerr != nil {
				t.Fatalf("occupying %s: %v", addr, lerr)
			}

			w.closers = append(w.closers, l)
		}

		if n == "pb" {
			c, cerr := net.ListenPacket("udp", addr)
			if cerr != nil {
				t.Fatalf("occupying %s: %v", addr, cerr)
			}

			w.closers = append(w.closers, c)
		}
	}

	t.Cleanup(func() {
		w.teardown()
		for _, c := range w.closers {
			_ = c.Close()
		}
	})

	return w
}

// newDeployment gives the arena a new, empty working directory.
func (w *zzG08World) newDeployment() {
	w.teardown()
	w.boots++
	w.dir = filepath.Join(w.root, fmt.Sprintf("work%d", w.boots))
	w.confDir = filepath.Join(w.dir, "conf")
	if err := os.MkdirAll(w.confDir, 0o755); err != nil {
		w.t.Fatalf("mkdir: %v", err)
	}
}

func (w *zzG08World) confPath() (p string) { return filepath.Join(w.confDir, "AdGuardHome.yaml") }

// breakDisk makes the location of the configuration file unwritable (the
// directory is replaced by a regular file); healDisk undoes it.
func (w *zzG08World) breakDisk() {
	if err := os.Rename(w.confDir, w.confDir+".real"); err != nil {
		w.t.Fatalf("breakDisk: %v", err)
	}

	if err := os.WriteFile(w.confDir, []byte("not a directory"), 0o644); err != nil {
		w.t.Fatalf("breakDisk: %v", err)
	}
}

func (w *zzG08World) healDisk() {
	if _, err := os.Stat(w.confDir + ".real"); err != nil {
		return
	}

	_ = os.Remove(w.confDir)
	if err := os.Rename(w.confDir+".real", w.confDir); err != nil {
		w.t.Fatalf("healDisk: %v", err)
	}
}

func zzG08ClientFS() (fsys fstest.MapFS) {
	return fstest.MapFS{
		"build/static/index.html":    {Data: []byte("<html>dashboard</html>")},
		"build/static/login.html":    {Data: []byte("<html>login</html>")},
		"build/static/install.html":  {Data: []byte("<html>install</html>")},
		"build/static/assets/app.js": {Data: []byte("console.log(1)")},
	}
}

// boot runs the part of run() between initWorkingDir and web.start on the
// working directory of the arena.  Where run() ends the process
// (fatalOnError) boot returns the error.
func (w *zzG08World) boot() (err error) {
	defer func() {
		if r := recover(); r != nil {
			err = fmt.Errorf("boot panics: %v", r)
		}

		w.up = err == nil
		w.bootErr = ""
		if err != nil {
			w.bootErr = err.Error()
		}
	}()

	ctx := context.Background()
	l := slogutil.NewDiscardLogger()

	// A new process starts from the package-level defaults.
	config = &configuration{}
	if err = yaml.Unmarshal(w.defaults, config); err != nil {
		return fmt.Errorf("restoring defaults: %w", err)
	}

	config.fileData = nil

	// Keep the server off the network and off the host's files: these
	// settings are not the subject of G08.
	up := fmt.Sprintf("%s:%d", zzG08Host, w.ports["up"])
	config.DNS.UpstreamDNS = []string{up}
	config.DNS.BootstrapDNS = []string{up}
	config.DNS.FallbackDNS = nil
	config.DNS.UsePrivateRDNS = false
	config.DNS.HostsFileEnabled = false
	config.Clients.Sources = &clientSourcesConfig{}
	config.Filters = nil
	config.Filtering.FiltersUpdateIntervalHours = 0

	opts := options{
		workDir:       w.dir,
		confFilename:  w.confPath(),
		bindAddr:      netip.AddrPortFrom(netip.MustParseAddr(zzG08Host), w.ports["w0"]),
		noEtcHosts:    true,
		disableUpdate: true,
		noPermCheck:   true,
	}

	globalContext = homeContext{}
	webHandlersRegistered = false
	GLMode = false
	globalContext.workDir = w.dir
	initConfigFilename(opts)

	// setupContext, without the privileged-port check of a first run.
	globalContext.firstRun = detectFirstRun()
	globalContext.mux = http.NewServeMux()
	if !globalContext.firstRun {
		if err = parseConfig(); err != nil {
			return fmt.Errorf("parsing configuration file: %w", err)
		}
	}

	filtering.InitModule()
	sigHdlr := newSignalHandler(make(chan os.Signal, 1), func(ctx context.Context) {})
	if err = initContextClients(ctx, l, sigHdlr); err != nil {
		return fmt.Errorf("initContextClients: %w", err)
	}

	tlsMgr, terr := newTLSManager(ctx, &tlsManagerConfig{
		logger:         l,
		configModified: onConfigModified,
		tlsSettings:    config.TLS,
		servePlainDNS:  config.DNS.ServePlainDNS,
	})
	if terr != nil {
		onConfigModified()
	}

	globalContext.tls = tlsMgr
	if err = setupDNSFilteringConf(ctx, l, config.Filtering, tlsMgr); err != nil {
		return fmt.Errorf("setupDNSFilteringConf: %w", err)
	}

	if globalContext.firstRun {
		// The wizard of a first run is served where the command line says;
		// a configured installation binds what its file says.
		if err = setupOpts(opts); err != nil {
			return fmt.Errorf("setupOpts: %w", err)
		}
	}

	upd, customURL := newUpdater(ctx, l, globalContext.workDir, configFilePath(), os.Args[0], config)
	if !globalContext.firstRun {
		if err = config.write(nil); err != nil {
			return fmt.Errorf("writing configuration at start: %w", err)
		}
	}

	if err = os.MkdirAll(globalContext.getDataDir(), 0o755); err != nil {
		return fmt.Errorf("creating data dir: %w", err)
	}

	globalContext.auth, err = initUsers()
	if err != nil {
		return fmt.Errorf("initUsers: %w", err)
	}

	web, err := initWeb(ctx, opts, zzG08ClientFS(), upd, l, tlsMgr, customURL)
	if err != nil {
		return fmt.Errorf("initWeb: %w", err)
	}

	globalContext.web = web
	tlsMgr.setWebAPI(web)

	statsDir, querylogDir, err := checkStatsAndQuerylogDirs(&globalContext, config)
	if err != nil {
		return fmt.Errorf("checkStatsAndQuerylogDirs: %w", err)
	}

	if !globalContext.firstRun {
		if err = initDNS(l, tlsMgr, statsDir, querylogDir); err != nil {
			return fmt.Errorf("initDNS: %w", err)
		}

		tlsMgr.start(ctx)
		if err = startDNSServer(); err != nil {
			closeDNSServer()

			return fmt.Errorf("startDNSServer: %w", err)
		}

		if globalContext.dhcpServer != nil {
			_ = globalContext.dhcpServer.Start()
		}
	}

	w.handler = withMiddlewares(globalContext.mux, limitRequestBody)

	return nil
}

// teardown is cleanup() of home.go.
func (w *zzG08World) teardown() {
	defer func() { _ = recover() }()

	ctx := context.Background()
	if globalContext.web != nil {
		globalContext.web.close(ctx)
		globalContext.web = nil
	}

	if globalContext.auth != nil {
		globalContext.auth.Close()
		globalContext.auth = nil
	}

	_ = stopDNSServer()
	if globalContext.dhcpServer != nil {
		_ = globalContext.dhcpServer.Stop()
		globalContext.dhcpServer = nil
	}

	w.up = false
	w.handler = nil
}

// restart is a process restart over the same working directory.
func (w *zzG08World) restart() (err error) {
	w.teardown()

	return w.boot()
}

// ---------------------------------------------------------------- requests

type zzG08Resp struct {
	Status   int
	Location string
	Body     []byte
	Panic    string
}

// do serves one request through the real mux.  user == "" sends no
// credentials.
func (w *zzG08World) do(method, target string, body []byte, user, pass string) (resp zzG08Resp) {
	if w.handler == nil {
		return zzG08Resp{Status: -1, Panic: "server is not up: " + w.bootErr}
	}

	var rd io.Reader
	if body != nil {
		rd = bytes.NewReader(body)
	}

	r := httptest.NewRequest(method, target, rd)
	r.Host = fmt.Sprintf("%s:%d", zzG08Host, w.ports["w0"])
	if body != nil {
		r.Header.Set("Content-Type", "application/json")
	}

	if user != "" || pass != "" {
		r.SetBasicAuth(user, pass)
	}

	rec := httptest.NewRecorder()
	func() {
		// net/http recovers a panicking handler and drops the connection.
		defer func() {
			if p := recover(); p != nil {
				resp.Panic = fmt.Sprint(p)
			}
		}()

		w.handler.ServeHTTP(rec, r)
	}()

	resp.Status = rec.Code
	resp.Location = rec.Header().Get("Location")
	resp.Body = rec.Body.Bytes()
	if resp.Panic != "" {
		resp.Status = -2
	}

	return resp
}

// probeClass classifies the answer of the probe route GET /control/status.
func zzG08ProbeClass(r zzG08Resp) (cls string) {
	switch {
	case r.Status < 0:
		return "down"
	case r.Status == http.StatusFound && strings.HasSuffix(r.Location, "install.html"):
		return "install"
	case r.Status == http.StatusForbidden || r.Status == http.StatusUnauthorized ||
		(r.Status == http.StatusFound && strings.HasSuffix(r.Location, "login.html")):
		return "denied"
	case r.Status == http.StatusOK && bytes.Contains(r.Body, []byte(`"dns_port"`)):
		return "ok"
	case r.Status == http.StatusNotFound:
		return "notfound"
	default:
		return fmt.Sprintf("other%d", r.Status)
	}
}

// ------------------------------------------------------------ config file

type zzG08File struct {
	HTTP struct {
		Address string `yaml:"address"`
	} `yaml:"http"`
	Users []struct {
		Name     string `yaml:"name"`
		Password string `yaml:"password"`
	} `yaml:"users"`
	DNS struct {
		BindHosts     []string `yaml:"bind_hosts"`
		Port          uint16   `yaml:"port"`
		ServePlainDNS bool     `yaml:"serve_plain_dns"`
	} `yaml:"dns"`
	TLS struct {
		Enabled   bool   `yaml:"enabled"`
		Name      string `yaml:"server_name"`
		Force     bool   `yaml:"force_https"`
		HTTPS     uint16 `yaml:"port_https"`
		DoT       uint16 `yaml:"port_dns_over_tls"`
		DoQ       uint16 `yaml:"port_dns_over_quic"`
		Chain     string `yaml:"certificate_chain"`
		Key       string `yaml:"private_key"`
		ChainPath string `yaml:"certificate_path"`
		KeyPath   string `yaml:"private_key_path"`
	} `yaml:"tls"`
}

// readFile parses the configuration file; ok is false when there is none.
func (w *zzG08World) readFile() (f *zzG08File, ok bool, err error) {
	b, err := os.ReadFile(w.confPath())
	if err != nil {
		return nil, false, nil
	}

	f = &zzG08File{}
	if err = yaml.Unmarshal(b, f); err != nil {
		return nil, true, err
	}

	return f, true, nil
}

func (w *zzG08World) portName(p uint16) (n string) {
	if p == 0 {
		return "zero"
	}

	var names []string
	for k, v := range w.ports {
		if v == p {
			names = append(names, k)
		}
	}

	if len(names) == 0 {
		return fmt.Sprintf("?%d", p)
	}

	sort.Strings(names)

	return names[0]
}

// ------------------------------------------------------------ certificates

type zzG08Cert struct {
	id       string
	chainPEM []byte
	keyPEM   []byte
	chainB64 string
	keyB64   string
	certPath string
	keyPath  string
}

func zzG08Key(t testing.TB) (k *ecdsa.PrivateKey) {
	k, err := ecdsa.GenerateKey(elliptic.P256(), crand.Reader)
	if err != nil {
		t.Fatalf("ecdsa: %v", err)
	}

	return k
}

func zzG08PEM(typ string, der []byte) (b []byte) {
	return pem.EncodeToMemory(&pem.Block{Type: typ, Bytes: der})
}

// makeCerts generates the test PKI: a root CA (trusted through SSL_CERT_FILE),
// an intermediate CA, and the leaves
//
//	A  issued by the intermediate, valid now, names agh.test + 127.0.0.1
//	C  the same shape with another key (a second good chain)
//	B  self-signed (unknown authority), names agh.test + 127.0.0.1
//	X  issued by the intermediate, expired
//	Y  issued by the intermediate, not yet valid
//	N  issued by the intermediate, valid now, names other.test + 127.0.0.1
//
// The subject common name of a leaf is "zz-<id>".
func (w *zzG08World) makeCerts() {
	t := w.t
	w.certs = map[string]*zzG08Cert{}
	w.keyOf = map[string]string{}
	w.certDir = filepath.Join(w.root, "pki")
	if err := os.MkdirAll(filepath.Join(w.certDir, "empty"), 0o755); err != nil {
		t.Fatal(err)
	}

	now := time.Now()
	serial := int64(1000)
	mk := func(tmpl, parent *x509.Certificate, pub *ecdsa.PublicKey, signer *ecdsa.PrivateKey) (der []byte, c *x509.Certificate) {
		serial++
		tmpl.SerialNumber = big.NewInt(serial)
		der, err := x509.CreateCertificate(crand.Reader, tmpl, parent, pub, signer)
		if err != nil {
			t.Fatalf("creating certificate: %v", err)
		}

		c, err = x509.ParseCertificate(der)
		if err != nil {
			t.Fatalf("parsing certificate: %v", err)
		}

		return der, c
	}

	rootKey := zzG08Key(t)
	rootTmpl := &x509.Certificate{
		Subject:   pkix.Name{CommonName: "zz-root"},
		NotBefore: now.Add(-48 * time.Hour), NotAfter: now.Add(10 * 365 * 24 * time.Hour),
		IsCA: true, BasicConstraintsValid: true, KeyUsage: x509.KeyUsageCertSign | x509.KeyUsageDigitalSignature,
	}
	rootDER, root := mk(rootTmpl, rootTmpl, &rootKey.PublicKey, rootKey)

	intKey := zzG08Key(t)
	intTmpl := &x509.Certificate{
		Subject:   pkix.Name{CommonName: "zz-intermediate"},
		NotBefore: now.Add(-48 * time.Hour), NotAfter: now.Add(10 * 365 * 24 * time.Hour),
		IsCA: true, BasicConstraintsValid: true, KeyUsage: x509.KeyUsageCertSign | x509.KeyUsageDigitalSignature,
	}
	intDER, inter := mk(intTmpl, root, &intKey.PublicKey, rootKey)

	rootPath := filepath.Join(w.certDir, "root.pem")
	if err := os.WriteFile(rootPath, zzG08PEM("CERTIFICATE", rootDER), 0o644); err != nil {
		t.Fatal(err)
	}

	// crypto/x509 loads the system pool once, on first use.
	_ = os.Setenv("SSL_CERT_FILE", rootPath)
	_ = os.Setenv("SSL_CERT_DIR", filepath.Join(w.certDir, "empty"))

	leaf := func(id string, selfSigned bool, nb, na time.Time, name string) {
		k := zzG08Key(t)
		tmpl := &x509.Certificate{
			Subject:   pkix.Name{CommonName: "zz-" + id},
			NotBefore: nb, NotAfter: na,
			KeyUsage:    x509.KeyUsageDigitalSignature,
			ExtKeyUsage: []x509.ExtKeyUsage{x509.ExtKeyUsageServerAuth},
			DNSNames:    []string{name},
			IPAddresses: []net.IP{net.ParseIP(zzG08Host)},
		}

		var chain []byte
		if selfSigned {
			der, _ := mk(tmpl, tmpl, &k.PublicKey, k)
			chain = zzG08PEM("CERTIFICATE", der)
		} else {
			der, _ := mk(tmpl, inter, &k.PublicKey, intKey)
			chain = append(zzG08PEM("CERTIFICATE", der), zzG08PEM("CERTIFICATE", intDER)...)
		}

		kder, err := x509.MarshalPKCS8PrivateKey(k)
		if err != nil {
			t.Fatal(err)
		}

		c := &zzG08Cert{
			id: id, chainPEM: chain, keyPEM: zzG08PEM("PRIVATE KEY", kder),
			certPath: filepath.Join(w.certDir, id+".crt"), keyPath: filepath.Join(w.certDir, id+".key"),
		}
		c.chainB64 = base64.StdEncoding.EncodeToString(c.chainPEM)
		c.keyB64 = base64.StdEncoding.EncodeToString(c.keyPEM)
		if err = os.WriteFile(c.certPath, c.chainPEM, 0o600); err != nil {
			t.Fatal(err)
		}

		if err = os.WriteFile(c.keyPath, c.keyPEM, 0o600); err != nil {
			t.Fatal(err)
		}

		w.certs[id] = c
		w.keyOf[strings.TrimSpace(string(c.keyPEM))] = id
	}

	day := 24 * time.Hour
	leaf("A", false, now.Add(-day), now.Add(365*day), zzG08Name)
	leaf("C", false, now.Add(-day), now.Add(365*day), zzG08Name)
	leaf("B", true, now.Add(-day), now.Add(365*day), zzG08Name)
	leaf("X", false, now.Add(-30*day), now.Add(-day), zzG08Name)
	leaf("Y", false, now.Add(30*day), now.Add(365*day), zzG08Name)
	leaf("N", false, now.Add(-day), now.Add(365*day), zzG08Other)

	// Something that is no PEM at all, inline and as files.
	g := &zzG08Cert{
		id: "garbage", chainPEM: []byte("this is not a certificate\n"), keyPEM: []byte("this is not a key\n"),
		certPath: filepath.Join(w.certDir, "garbage.crt"), keyPath: filepath.Join(w.certDir, "garbage.key"),
	}
	g.chainB64 = base64.StdEncoding.EncodeToString(g.chainPEM)
	g.keyB64 = base64.StdEncoding.EncodeToString(g.keyPEM)
	_ = os.WriteFile(g.certPath, g.chainPEM, 0o600)
	_ = os.WriteFile(g.keyPath, g.keyPEM, 0o600)
	w.certs["garbage"] = g
}

// certID maps PEM data to the id of the leaf ("none" for empty data,
// "garbage" for anything that does not parse, "?" for a foreign certificate).
func (w *zzG08World) certID(pemData []byte) (id string) {
	if len(bytes.TrimSpace(pemData)) == 0 {
		return "none"
	}

	blk, _ := pem.Decode(pemData)
	if blk == nil {
		return "garbage"
	}

	c, err := x509.ParseCertificate(blk.Bytes)
	if err != nil {
		return "garbage"
	}

	return strings.TrimPrefix(c.Subject.CommonName, "zz-")
}

func (w *zzG08World) keyID(pemData []byte) (id string) {
	s := strings.TrimSpace(string(pemData))
	if s == "" {
		return "none"
	}

	if id = w.keyOf[s]; id != "" {
		return id
	}

	if _, _, err := parsePrivateKeyForID(pemData); err != nil {
		return "garbage"
	}

	return "?"
}

func parsePrivateKeyForID(pemData []byte) (k any, typ string, err error) {
	blk, _ := pem.Decode(pemData)
	if blk == nil {
		return nil, "", fmt.Errorf("no pem")
	}

	return parsePrivateKey(blk.Bytes)
}

func (w *zzG08World) pathID(p string) (id string) {
	if p == "" {
		return "none"
	}

	base := filepath.Base(p)
	if filepath.Dir(p) != w.certDir {
		return "?" + p
	}

	if base == zzG08NoSuch {
		return "missing"
	}

	return strings.TrimSuffix(strings.TrimSuffix(base, ".crt"), ".key")
}

// keep the imports used while the file grows
var (
	_ = rand.New
	_ = tls.X509KeyPair
	_ = bcrypt.MinCost
	_ = json.Marshal
)
