----------------------------- MODULE AdGuardHome -----------------------------
(***************************************************************************)
(* G09 -- the composed system as a state machine, checked exhaustively.    *)
(*                                                                         *)
(* The state is the record S of AdGuardHomeCore.tla; there is one action   *)
(* per admin endpoint family (clients add / update / delete, access set,   *)
(* filtering set_rules, rewrite add / delete, blocked_services update,     *)
(* protection, filtering config, querylog config, stats config,            *)
(* querylog_clear, stats_reset) and the action Query, whose effect is      *)
(* composed from AccessCore, ClientsCore, RewritesCore, DnsPipelineCore /  *)
(* RuleEngine and IgnoreAnonCore (see AdGuardHomeCore!QueryOutcomes and    *)
(* Commit).                                                                *)
(*                                                                         *)
(* TLC explores ALL histories of at most MaxLen operations with at most    *)
(* MaxAdmin admin calls and at most MaxQuery queries, from each of the     *)
(* base configurations (the fresh installation and three "busy" ones in    *)
(* which several families are set at once), over the finite universe       *)
(* below, and checks the statement of notes/G09.md on every reached state: *)
(*   (i)   LogExactlyOnce        (ii)  StatsTotals                         *)
(*   (iii) DeniedLeavesNoTrace   (iv)  EffectOfSettings (the outcome of    *)
(*         every query of the universe in every reached configuration      *)
(*         obeys the documented sentence of each setting -- written        *)
(*         WITHOUT the pipeline operators, so that it checks the           *)
(*         composition rather than repeating it)                           *)
(*   and AttributionsAgree: the two instantiated modules that look at the  *)
(*   shared registry (ClientsCore for the settings, IgnoreAnonCore for the *)
(*   ignore switches) attribute every request to the same client.          *)
(* With Fault # "none" the composition is mis-wired on purpose (negative   *)
(* configurations): the invariants must then fail.                         *)
(* The two ledgers lq / ls are ghosts: the queries since the log was last  *)
(* cleared / the statistics last reset, each with the configuration it met *)
(* and the outcome it got.                                                 *)
(*                                                                         *)
(* The universe (all admin calls, all queries) is printed once as a "@@V"  *)
(* vector: checks/g09.py plans the histories that are replayed on the real *)
(* server from it, and TraceAdGuardHome.tla judges what was observed.      *)
(***************************************************************************)
EXTENDS AdGuardHomeCore, Json

CONSTANTS Scale,      \* 1 = quick universe, 2 = thorough universe
          MaxAdmin, MaxQuery, MaxLen,
          Fault       \* "none"; anything else breaks the composition on purpose (negative
                      \* configurations: the invariants must see it)

VARIABLES S, lq, ls, na, nq
vars == <<S, lq, ls, na, nq>>

\* ---------------------------------------------------------------- universe
\* Addresses (W = 4, LowBits = 1): A3 is the anonymised form of A1.
A1 == 3   A2 == 5   A3 == 2
IpId(a)     == <<"ip", a, 0>>
NetId(b, l) == <<"net", b, l>>
CidIdOf(m)  == <<"cid", m, 0>>

FWD  == <<"fwd", "example">>        \* in no rule, no table, no list
ADS  == <<"ads", "example">>        \* target of the custom rules, of a rewrite, of the log's ignore list
YT   == <<"www", "youtube", "com">> \* service "yt"
FB   == <<"www", "facebook", "com">>\* service "fb"
RWN  == <<"rw", "example">>         \* target of rewrites, of the statistics' ignore list
DENY == <<"deny", "example">>       \* on the access blocked-hosts list

Cl(name, ids, own, filt, bs, svcs, ignQ, ignS) ==
    [name |-> name, ids |-> ids, own |-> own, bs |-> bs, vals |-> [filt |-> filt], svcs |-> svcs,
     pause |-> FALSE, ignQ |-> ignQ, ignS |-> ignS]

\* Client records.  Name 1 = "alpha", 2 = "beta".
K1a == Cl(1, {IpId(A1)}, TRUE,  FALSE, FALSE, {}, FALSE, FALSE)   \* own settings: filtering OFF
K1b == Cl(1, {IpId(A2)}, TRUE,  FALSE, FALSE, {}, FALSE, FALSE)   \* ... moved to another address
K1c == Cl(1, {IpId(A1)}, FALSE, TRUE,  FALSE, {}, TRUE,  FALSE)   \* global settings; ignored in the log
K1d == Cl(1, {IpId(A1)}, FALSE, TRUE,  FALSE, {}, FALSE, TRUE)    \* global settings; ignored in statistics
K2a == Cl(2, {CidIdOf(1)}, FALSE, TRUE, TRUE, {"fb"}, FALSE, FALSE) \* by ClientID; own blocked services
K2b == Cl(2, {CidIdOf(1), NetId(2, 3)}, TRUE, TRUE, FALSE, {}, FALSE, FALSE)
                                     \* ClientID + the /16 of A1 and A3; own settings: filtering ON
K2c == Cl(2, {IpId(A1)}, FALSE, TRUE, TRUE, {}, FALSE, FALSE)     \* clashes with alpha at A1; own (empty) services
ClientPal == IF Scale = 1 THEN {K1a, K1c, K2a, K2b} ELSE {K1a, K1b, K1c, K1d, K2a, K2b, K2c}

Rule(kind, pat, tgt) ==
    [place |-> "custom", kind |-> kind, pat |-> pat, tgt |-> PL!NameHost(tgt), imp |-> FALSE,
     dt |-> "none", dtype |-> "", cl |-> "none", clv |-> "", da |-> <<>>, ip |-> "", bad |-> FALSE]
RulePal == {{}, {Rule("block", "domain", ADS)},
            {Rule("block", "domain", ADS), Rule("allow", "domain", ADS)},
            {Rule("allow", "domain", <<"youtube", "com">>)}}

Rw(n, k, ip, t) == [w |-> FALSE, n |-> n, k |-> k, ip |-> ip, t |-> t]
RwPal == IF Scale = 1 THEN {Rw(RWN, "ip4", "i1", <<>>), Rw(ADS, "ip4", "i2", <<>>)}
         ELSE {Rw(RWN, "ip4", "i1", <<>>), Rw(ADS, "ip4", "i2", <<>>), Rw(RWN, "cname", "", FWD)}

Acc(al, dis, hosts) == [k |-> "access_set", allowed |-> al, disallowed |-> dis, hosts |-> hosts]
AccPal == {Acc({}, {}, {}),
           Acc({}, {AC!Ip("v4", BitsOf(A2))}, {}),
           Acc({AC!Ip("v4", BitsOf(A1)), AC!Id("kid")}, {}, {}),
           Acc({}, {AC!Id("xid")}, {AC!Pat("domain", DENY)})}

SvcPal == {{}, {"yt"}, {"yt", "fb"}}

IgnPat(n) == [k |-> "plain", n |-> n]
QConf(on, an, ig) == [k |-> "qlog_config", enabled |-> on, anon |-> an, ignored |-> ig]
SConf(on, ig)     == [k |-> "stats_config", enabled |-> on, ignored |-> ig]
QConfPal == IF Scale = 1
            THEN {QConf(TRUE, FALSE, {}), QConf(FALSE, FALSE, {}), QConf(TRUE, TRUE, {}),
                  QConf(TRUE, FALSE, {IgnPat(ADS)}), QConf(TRUE, TRUE, {IgnPat(ADS)})}
            ELSE {QConf(on, an, ig) : on \in BOOLEAN, an \in BOOLEAN, ig \in {{}, {IgnPat(ADS)}}}
SConfPal == IF Scale = 1
            THEN {SConf(TRUE, {}), SConf(FALSE, {}), SConf(TRUE, {IgnPat(RWN)})}
            ELSE {SConf(on, ig) : on \in BOOLEAN, ig \in {{}, {IgnPat(RWN)}}}

AdminOps ==
    {[k |-> "client_add", c |-> c] : c \in ClientPal}
    \cup UNION {{[k |-> "client_update", name |-> n, c |-> c]
                 : c \in {x \in ClientPal : Scale = 2 \/ x.name = n}} : n \in {1, 2}}   \* Scale 2: renames too
    \cup {[k |-> "client_delete", name |-> n] : n \in {1, 2}}
    \cup AccPal
    \cup {[k |-> "set_rules", rules |-> r] : r \in RulePal}
    \cup {[k |-> "rewrite_add", e |-> e] : e \in RwPal}
    \cup {[k |-> "rewrite_delete", e |-> e] : e \in RwPal}
    \cup {[k |-> "blocked_services", svcs |-> s] : s \in SvcPal}
    \cup {[k |-> "protection", on |-> b] : b \in BOOLEAN}
    \cup {[k |-> "filtering", on |-> b] : b \in BOOLEAN}
    \cup QConfPal \cup SConfPal
    \cup {[k |-> "qlog_clear"], [k |-> "stats_reset"]}

Sender(a, m, p) == [addr |-> a, cid |-> m, proto |-> p]
Senders == IF Scale = 1
           THEN {Sender(A1, 0, "udp"), Sender(A2, 0, "tcp"), Sender(A2, 1, "https")}
           ELSE {Sender(A1, 0, "udp"), Sender(A2, 0, "tcp"), Sender(A3, 0, "udp"),
                 Sender(A2, 1, "https"), Sender(A1, 1, "https"), Sender(A2, 2, "https")}
QNames == IF Scale = 1 THEN {FWD, ADS, YT, RWN, DENY} ELSE {FWD, ADS, YT, FB, RWN, DENY}
\* AAAA only where the family matters (null6, a rewrite without a value for AAAA)
QTypes(n) == IF n \in {ADS, RWN} THEN {"A", "AAAA"} ELSE {"A"}
Queries == UNION {{[k |-> "query", addr |-> s.addr, cid |-> s.cid, proto |-> s.proto, name |-> n, qt |-> t]
                   : s \in Senders, t \in QTypes(n)} : n \in QNames}

\* --------------------------------------------------------- base configurations
RECURSIVE After(_, _, _)
After(s, ops, i) == IF i > Len(ops) THEN s ELSE After((CHOOSE r \in Apply(s, ops[i]) : TRUE).S, ops, i + 1)
BusyOps1 == <<[k |-> "client_add", c |-> K1a], [k |-> "client_add", c |-> K2b],
              [k |-> "set_rules", rules |-> {Rule("block", "domain", ADS)}],
              [k |-> "rewrite_add", e |-> Rw(RWN, "ip4", "i1", <<>>)],
              [k |-> "blocked_services", svcs |-> {"yt"}],
              [k |-> "qlog_config", enabled |-> TRUE, anon |-> TRUE, ignored |-> {}]>>
BusyOps2 == <<[k |-> "client_add", c |-> K1c], [k |-> "client_add", c |-> K2a],
              [k |-> "filtering", on |-> FALSE],
              [k |-> "rewrite_add", e |-> Rw(ADS, "ip4", "i2", <<>>)],
              [k |-> "blocked_services", svcs |-> {"yt", "fb"}],
              Acc({}, {AC!Ip("v4", BitsOf(A2))}, {AC!Pat("domain", DENY)}),
              [k |-> "stats_config", enabled |-> TRUE, ignored |-> {IgnPat(RWN)}]>>
BusyOps3 == <<[k |-> "client_add", c |-> K1d], [k |-> "client_add", c |-> K2b],
              [k |-> "set_rules", rules |-> {Rule("block", "domain", ADS), Rule("allow", "domain", ADS)}],
              [k |-> "rewrite_add", e |-> Rw(RWN, "cname", "", FWD)],
              [k |-> "protection", on |-> TRUE],
              [k |-> "qlog_config", enabled |-> TRUE, anon |-> TRUE, ignored |-> {IgnPat(ADS)}]>>
Busy1 == After(S0, BusyOps1, 1)
Busy2 == After(S0, BusyOps2, 1)
Busy3 == After(S0, BusyOps3, 1)
Bases == IF Scale = 1 THEN {S0} ELSE {S0, Busy1, Busy2, Busy3}

\* The universe, and the admin calls that lead from the fresh installation to
\* each base configuration: checks/g09.py replays every query of the universe
\* from every base on the real system (the query transitions the vacuity probe
\* lists), and plans its longer histories over admin and queries.
ASSUME PrintT(<<"@@V", ToJson([k |-> "universe", admin |-> AdminOps, queries |-> Queries,
                               bases |-> <<<<>>, BusyOps1, BusyOps2, BusyOps3>>])>>)

\* ------------------------------------------------------------------ actions
\* The composition, or -- in the negative configurations -- a deliberately
\* mis-wired one:
\*   "log-twice"     the tail stage hands a logged query to the log twice
\*   "count-denied"  a request excluded by the access lists reaches the statistics
\*   "prot-stale"    the pipeline sees protection as it was at boot (on)
ApplyF(s, op) ==
    CASE Fault = "none" \/ op.k # "query" -> Apply(s, op)
      [] Fault = "log-twice" ->
            {[r EXCEPT !.S.log = IF Len(r.S.log) > Len(s.log) THEN Append(@, @[Len(@)]) ELSE @] : r \in Apply(s, op)}
      [] Fault = "count-denied" ->
            {[r EXCEPT !.S.st.total = IF r.out.served THEN @ ELSE @ + 1] : r \in Apply(s, op)}
      [] Fault = "prot-stale" ->
            {R(Commit(s, op, o), o) : o \in QueryOutcomes([s EXCEPT !.prot = TRUE], op)}

Ledger(s, q, o) == [S |-> [s EXCEPT !.log = <<>>, !.st = NoStats], q |-> q, o |-> o]

\* Vacuity probe (TLC's -coverage cannot be used: its cost model does not
\* terminate on the nested instances): every transition out of an initial state
\* is printed with what it did, and checks/g09.py demands that every action and
\* every kind of outcome the invariants talk about occurs among them.  Actions
\* are guarded by the budget only, so what is enabled there is enabled everywhere.
Probe(op, r) ==
    (na + nq = 0) =>
        PrintT(<<"@@V", ToJson([k |-> "edge", op |-> op.k,
                                out |-> IF op.k = "query"
                                        THEN [cls |-> r.out.cls, rcode |-> r.out.rcode, reason |-> r.out.reason,
                                              served |-> r.out.served, cname |-> r.out.cname # <<>>,
                                              logged |-> Len(r.S.log) > Len(S.log),
                                              counted |-> r.S.st.total > S.st.total]
                                        ELSE [cls |-> r.out, changed |-> r.S # S]])>>)

Admin(op) ==
    /\ na < MaxAdmin /\ na + nq < MaxLen
    /\ \E r \in ApplyF(S, op) :
         /\ Probe(op, r)
         /\ S' = r.S
         /\ lq' = IF op.k = "qlog_clear" THEN <<>> ELSE lq
         /\ ls' = IF op.k = "stats_reset" THEN <<>> ELSE ls
    /\ na' = na + 1 /\ nq' = nq

Query(q) ==
    /\ nq < MaxQuery /\ na + nq < MaxLen
    /\ \E r \in ApplyF(S, q) :
         /\ Probe(q, r)
         /\ S' = r.S
         /\ lq' = Append(lq, Ledger(S, q, r.out))
         /\ ls' = Append(ls, Ledger(S, q, r.out))
    /\ nq' = nq + 1 /\ na' = na

\* One disjunct per endpoint family, so that coverage shows each was taken.
ClientsAdd    == \E op \in {o \in AdminOps : o.k = "client_add"} : Admin(op)
ClientsUpdate == \E op \in {o \in AdminOps : o.k = "client_update"} : Admin(op)
ClientsDelete == \E op \in {o \in AdminOps : o.k = "client_delete"} : Admin(op)
AccessSet     == \E op \in {o \in AdminOps : o.k = "access_set"} : Admin(op)
SetRules      == \E op \in {o \in AdminOps : o.k = "set_rules"} : Admin(op)
RewriteAdd    == \E op \in {o \in AdminOps : o.k = "rewrite_add"} : Admin(op)
RewriteDelete == \E op \in {o \in AdminOps : o.k = "rewrite_delete"} : Admin(op)
BlockedSvcs   == \E op \in {o \in AdminOps : o.k = "blocked_services"} : Admin(op)
Protection    == \E op \in {o \in AdminOps : o.k = "protection"} : Admin(op)
FilteringConf == \E op \in {o \in AdminOps : o.k = "filtering"} : Admin(op)
QLogConf      == \E op \in {o \in AdminOps : o.k = "qlog_config"} : Admin(op)
StatsConf     == \E op \in {o \in AdminOps : o.k = "stats_config"} : Admin(op)
QLogClear     == Admin([k |-> "qlog_clear"])
StatsReset    == Admin([k |-> "stats_reset"])
DnsQuery      == \E q \in Queries : Query(q)

Init == S \in Bases /\ lq = <<>> /\ ls = <<>> /\ na = 0 /\ nq = 0
Next == \/ ClientsAdd \/ ClientsUpdate \/ ClientsDelete \/ AccessSet \/ SetRules \/ RewriteAdd
        \/ RewriteDelete \/ BlockedSvcs \/ Protection \/ FilteringConf \/ QLogConf \/ StatsConf
        \/ QLogClear \/ StatsReset \/ DnsQuery
Spec == Init /\ [][Next]_vars

\* ------------------------------------------- the statement, declaratively
\* (written from notes/G09.md; none of Commit / LogView / PipeOutcomes is used)
NameOn(list, n) == \E p \in list : IA!PatMatch(p, n)
Attr(s, q) == Who(s.reg, q.cid, q.addr)

\* (i) every served query, made while the log was enabled, for a name not on the
\* log's ignore list, by a client not marked ignore_querylog, is in the log
\* exactly once, in order, with the identifiers it came with (the address
\* anonymised iff anonymisation was on), the client the registry attributed it
\* to, the answer it got and a reason that matches the response -- and the log
\* holds nothing else.
MustLog(l) == /\ l.o.served /\ l.S.q.on /\ ~NameOn(l.S.q.ign, l.q.name)
              /\ ~(Known(Attr(l.S, l.q)) /\ Attr(l.S, l.q).ignQ)
ReasonFits(reason, q, o) ==
    CASE reason \in {"FilteredBlackList", "FilteredBlockedService"} ->
            /\ o.asked = {} /\ o.rcode = "NOERROR" /\ o.cname = <<>>
            /\ o.addrs = {IF q.qt = "AAAA" THEN "null6" ELSE "null4"}
            /\ (reason = "FilteredBlockedService") = (o.svc # "")
      [] reason \in {"NotFilteredNotFound", "NotFilteredWhiteList"} ->
            /\ o.asked = {[n |-> q.name, t |-> q.qt]} /\ o.rcode = "NOERROR" /\ o.cname = <<>>
            /\ o.addrs = Sentinel(q.qt) /\ o.svc = ""
      [] reason = "Rewrite" ->
            /\ o.rcode = "NOERROR" /\ o.svc = ""
            /\ IF o.cname = <<>> THEN o.asked = {} /\ o.addrs \cap {"sent4", "sent6", "null4", "null6"} = {}
               ELSE o.asked = {[n |-> o.cname, t |-> q.qt]} /\ o.addrs = Sentinel(q.qt)
      [] OTHER -> FALSE
LogExactlyOnce ==
    LET must == SelectSeq(lq, MustLog) IN
    /\ Len(S.log) = Len(must)
    /\ \A i \in DOMAIN must :
          LET e == S.log[i]
              l == must[i] IN
          /\ e.cid = l.q.cid /\ e.name = l.q.name /\ e.qt = l.q.qt
          /\ e.addr = (IF l.S.q.anon THEN AnonNum(l.q.addr) ELSE l.q.addr)
          /\ e.wname = WhoName(l.S.reg, l.q.cid, l.q.addr)
          /\ e.rcode = l.o.rcode /\ e.cname = l.o.cname /\ e.addrs = l.o.addrs /\ e.svc = l.o.svc
          /\ e.reason = l.o.reason /\ ReasonFits(e.reason, l.q, l.o)

\* (ii) the totals are the counted queries; the blocked total those of them
\* whose reason is a blocking one; per-name and per-client counts add up.
MustCount(l) == /\ l.o.served /\ l.S.s.on /\ ~NameOn(l.S.s.ign, l.q.name)
                /\ ~(Known(Attr(l.S, l.q)) /\ Attr(l.S, l.q).ignS)
MustCountBlocked(l) == MustCount(l) /\ IsBlockedReason(l.o.reason)
StatsTotals ==
    /\ S.st.total = Len(SelectSeq(ls, MustCount))
    /\ S.st.blocked = Len(SelectSeq(ls, MustCountBlocked))
    /\ SumOver(S.st.dom, DOMAIN S.st.dom) = S.st.total
    /\ SumOver(S.st.bdom, DOMAIN S.st.bdom) = S.st.blocked
    /\ SumOver(S.st.cli, DOMAIN S.st.cli) = S.st.total
    /\ \A n \in DOMAIN S.st.dom :
          S.st.dom[n] = Len(SelectSeq(ls, LAMBDA l : MustCount(l) /\ l.q.name = n))

\* (iii) a request the access lists exclude is never resolved, logged or
\* counted; over UDP it gets no reply at all, otherwise REFUSED.
DeniedLeavesNoTrace ==
    \A i \in DOMAIN lq :
        LET l == lq[i] IN
        ~l.o.served =>
            /\ l.o.asked = {} /\ l.o.reason = "" /\ l.o.addrs = {}
            /\ ~MustLog(l) /\ ~MustCount(l)
            /\ IF l.q.proto = "udp" THEN l.o.cls = "drop" ELSE l.o.cls = "answer" /\ l.o.rcode = "REFUSED"

\* (iv) every admin change is in force for every later query: in EVERY reached
\* configuration the outcome of EVERY query of the universe obeys the
\* documented sentence of each setting.  The attributed client and the
\* effective settings are recomputed here from the registry by hand.
OwnersOf(id) == {c \in S.reg : id \in c.ids}
AttrNow(q) ==
    IF q.cid # 0 /\ OwnersOf(CidIdOf(q.cid)) # {} THEN OwnersOf(CidIdOf(q.cid))
    ELSE IF OwnersOf(IpId(q.addr)) # {} THEN OwnersOf(IpId(q.addr))
    ELSE {c \in S.reg : \E id \in c.ids : id[1] = "net" /\ CL!Contains(id, q.addr)}
FiltNow(q) == IF \E c \in AttrNow(q) : c.own THEN \A c \in AttrNow(q) : c.vals.filt ELSE S.filt
SvcsNow(q) == IF \E c \in AttrNow(q) : c.bs THEN UNION {c.svcs : c \in AttrNow(q)} ELSE S.gsvc
SvcOfName(n) == IF n = YT THEN {"yt"} ELSE IF n = FB THEN {"fb"} ELSE {}
InTable(n) == \E i \in DOMAIN S.rw : S.rw[i].n = n
Excluded(q) ==
    IF S.acc.allowed # {}
    THEN ~(AC!Ip("v4", BitsOf(q.addr)) \in S.acc.allowed \/ (q.cid # 0 /\ AC!Id(CidStr(q.cid)) \in S.acc.allowed))
    ELSE AC!Ip("v4", BitsOf(q.addr)) \in S.acc.disallowed \/ (q.cid # 0 /\ AC!Id(CidStr(q.cid)) \in S.acc.disallowed)
HostDenied(q) == AC!Pat("domain", q.name) \in S.acc.hosts
\* (Queries do not change the configuration: every reached configuration is
\* reached by admin calls alone, so it is enough to look when nq = 0.)
EffectOfSettings ==
    nq = 0 => \A q \in Queries :
        LET os == {r.out : r \in ApplyF(S, q)} IN
        /\ Cardinality(os) = 1              \* the universe has no point where the documentation is silent
        /\ Cardinality(AttrNow(q)) <= 1     \* at most one client (C04)
        /\ \A o \in os :
            \* access lists decide first, by address and ClientID and name
            /\ o.served = ~(Excluded(q) \/ HostDenied(q))
            /\ o.served =>
                \* protection off: nothing is blocked or allow-listed
                /\ (~S.prot => o.reason \in {"NotFilteredNotFound", "Rewrite"})
                \* the request's filtering is off: no rules, no rewrites
                /\ (~FiltNow(q) => o.reason \in {"NotFilteredNotFound", "FilteredBlockedService"})
                \* a name in the rewrite table is answered from it whenever filtering applies
                /\ ((FiltNow(q) /\ InTable(q.name)) <=> o.reason = "Rewrite")
                \* blocked services: the client's own set if it opted out, else the global one
                /\ (o.reason = "FilteredBlockedService" =>
                       S.prot /\ SvcOfName(q.name) \subseteq SvcsNow(q) /\ SvcOfName(q.name) # {} /\ o.svc \in SvcOfName(q.name))
                /\ ((S.prot /\ SvcOfName(q.name) # {} /\ SvcOfName(q.name) \subseteq SvcsNow(q)
                       /\ ~(FiltNow(q) /\ S.rules = {Rule("allow", "domain", <<"youtube", "com">>)} /\ q.name = YT))
                     => o.reason = "FilteredBlockedService")
                \* the custom rules: blocked unless excepted, whenever protection and filtering apply
                /\ ((S.prot /\ FiltNow(q) /\ ~InTable(q.name) /\ q.name = ADS)
                     => o.reason = (IF S.rules = {Rule("block", "domain", ADS)} THEN "FilteredBlackList"
                                    ELSE IF Rule("allow", "domain", ADS) \in S.rules THEN "NotFilteredWhiteList"
                                    ELSE "NotFilteredNotFound"))
                /\ ReasonFits(o.reason, q, o)

\* The two modules that look at the registry agree on whom a request belongs
\* to, as far as the ignore switches can tell (ClientsCore attributes for the
\* settings, IgnoreAnonCore for the log and the statistics).
AttributionsAgree ==
    nq = 0 => \A q \in Queries :
        \E c \in {Who(S.reg, q.cid, q.addr)}, ic \in {IACfg(S)} :
            /\ IA!IgnoredClientQ(ic, IAQ(q)) = (Known(c) /\ c.ignQ)
            /\ IA!IgnoredClientS(ic, IAQ(q)) = (Known(c) /\ c.ignS)

\* The view of the log never shows more than was written and never hides an
\* entry whose name and client are not ignored now.
ViewSound ==
    LET v == LogView(S) IN
    /\ Len(v) = Len(S.log)
    /\ \A i \in DOMAIN v :
          v[i].may <=> (NameOn(S.q.ign, v[i].name)
                        \/ \E c \in S.reg : c.ignQ /\ Who(S.reg, v[i].cid, S.log[Len(S.log) + 1 - i].addr) = c)

TypeOK == na \in 0..MaxAdmin /\ nq \in 0..MaxQuery /\ Len(S.log) <= nq /\ S.st.total <= nq
=============================================================================
