"""C06 -- custom DNS rewrites follow the documented precedence and always terminate.

Spec: specs/RewritesCore.tla (decision procedure Outcomes / Serve), specs/Rewrites.tla
(universe, table enumeration, statement invariants, termination), specs/TraceRewrites.tla.

  half 1   TLC checks the clauses of the statement as invariants of every
           enumerated table x query, and termination (liveness + variant) on
           the step machine.
  A        every emitted table is replayed into the real filtering.New /
           CheckHost in every ordering (all queries, membership in the admissible
           set); a sample goes through a real dnsforward.Server with a recording
           mock upstream (pipeline clauses).
  B        random 10-20 entry tables driven through both levels, validated by
           TraceRewrites.tla; a rejected observation is re-executed alone before
           it is reported.
"""
import json
import os
import random
import re
import threading

import vlib

FPKG = "internal/filtering"
DPKG = "internal/dnsforward"
FILES = ["zz_verif_common_test.go", "zz_verif_c06_test.go"]

KEY_FORWARD = "canon-in-table-without-value-forwarded"
WHAT_FORWARD = ("a CNAME rewrite whose canonical name is itself matched by the table but has no value for the "
                "requested type is forwarded upstream for the canonical name (the upstream's records are "
                "answered) instead of the empty successful answer")


# --------------------------------------------------------------------------- classification
def classify(rec):
    """Key of a reproduced disagreement, or None.  Narrow: pipeline level only, the
    spec admits 'CNAME X, empty answer, nothing asked upstream' and the code did exactly
    'CNAME X + the upstream's answer for X' with everything else in order."""
    got, exp = rec.get("got"), rec.get("expected")
    if rec.get("lvl") != "pipe" or not isinstance(got, dict) or not exp:
        return None
    x = got.get("cname")
    if not x or got.get("odd") or not got.get("qok") or got.get("rcode") != "NOERROR" or got.get("ips"):
        return None
    if got.get("fromup") != x or len(got.get("ask", [])) != 1 or got["ask"][0][0] != x:
        return None
    for e in exp:
        if e.get("cname") == x and not e.get("ask") and not e.get("ips") and not e.get("fromup"):
            return KEY_FORWARD
    return None


class Tally:
    def __init__(self):
        self.known = 0
        self.lock = threading.Lock()

    def report(self, ctx, rec, what):
        key = classify(rec)
        with self.lock:
            r = ctx.disagreement(key, rec, what if key is None else WHAT_FORWARD)
            if r == "known":
                self.known += 1
            return r


# --------------------------------------------------------------------------- helpers
def decode_sample(hdr, v):
    names = hdr["names"]

    def nm(i):
        return ".".join(names[i - 1]) if i else ""

    def ent(e):
        pat = ("*." if e[0] else "") + nm(e[1])
        ans = e[3] if e[2] in ("ip4", "ip6") else e[2] if e[2] in ("A", "AAAA") else nm(e[4])
        return pat + " -> " + ans
    return {"table": [ent(e) for e in v["t"]],
            "verdicts": [{"name": nm(q[0]), "qtype": q[1],
                          "admissible": [{"r": o[0], "canon": nm(o[1]), "ips": o[2], "upstream": o[3]} for o in q[2]]}
                         for q in v["v"][:6]]}


def out_class(o):
    if o[0] == "pass":
        return "pass"
    if o[3]:
        return "cname-upstream"
    if o[2] and o[1]:
        return "cname-addresses"
    if o[2]:
        return "addresses"
    if o[1]:
        return "cname-empty"
    return "empty"


def subst_cfg(ctx, cfg, name, **consts):
    """Copy specs/<cfg> to the work dir with constants replaced (Shard = n)."""
    s = open(os.path.join(vlib.SPECS, cfg)).read()
    for k, v in consts.items():
        s, n = re.subn(r"\b%s = \S+" % k, "%s = %s" % (k, v), s)
        if n != 1:
            raise vlib.Inconclusive("cannot substitute %s in %s" % (k, cfg))
    p = ctx.path(name)
    with open(p, "w") as fh:
        fh.write(s)
    return p


def split_vectors(vectors):
    hdrs = [v for v in vectors if v.get("hdr") == 1]
    if len(hdrs) != 1:
        raise vlib.Inconclusive("expected one header vector, got %d" % len(hdrs))
    return hdrs[0], [v for v in vectors if v.get("hdr") != 1]


def go_rows(ctx, pkg, run, env, name):
    vout = ctx.path(name)
    e = dict(env)
    e["VERIF_OUT"] = vout
    rc, out = ctx.go_test(pkg, FILES, run, env=e, timeout=1500)
    rows = vlib.read_ndjson(vout)
    return rc, out, rows


# --------------------------------------------------------------------------- the parts
def run_parallel(fs):
    """Run thunks concurrently; re-raise the first failure (Inconclusive last)."""
    errs = []

    def guard(f):
        def g():
            try:
                f()
            except BaseException as e:  # re-raised in the calling thread
                errs.append(e)
        return g
    ts = [threading.Thread(target=guard(f)) for f in fs]
    for t in ts:
        t.start()
    for t in ts:
        t.join()
    for e in errs:
        if not isinstance(e, vlib.Inconclusive):
            raise e
    if errs:
        raise errs[0]


def part_generate(ctx, res):
    """TLC: enumerate tables, check the statement's invariants, emit vectors."""
    groups = {}
    if ctx.quick:
        groups["quick"] = ctx.tlc("Rewrites", "Rewrites.quick.cfg", workers=5, timeout=900, heap="4g")
        order = ["quick"]
    else:
        def gen(name, cfg):
            def f():
                groups[name] = ctx.tlc("Rewrites", cfg, workers=4, timeout=2400, heap="4g")
            return f

        def perms():
            # Order-independence of the specification (the harness replays every
            # ordering of an entry-built table against one verdict table).
            ctx.tlc("Rewrites", "Rewrites.perm2.cfg", workers=2, timeout=1500, heap="3g")
            shard = 1 + random.Random(ctx.seed).randrange(7)
            ctx.tlc("Rewrites", subst_cfg(ctx, "Rewrites.perm.cfg", "perm_shard.cfg", Shard=shard), workers=2,
                    timeout=1500, heap="3g")
            res["perm_shard"] = shard
        run_parallel([gen("full", "Rewrites.full.cfg"), gen("three", "Rewrites.three.cfg"), perms])
        order = ["full", "three"]
    sets = []
    witnessed, clauses = set(), []
    for name in order:
        g = groups[name]
        hdr, vs = split_vectors(g["vectors"])
        if not vs:
            raise vlib.Inconclusive("no vectors from %s" % name)
        clauses = hdr["clauses"]
        for v in vs:
            witnessed.update(v["w"])
        sets.append((name, hdr, vs))
    missing = [c for c in clauses if c not in witnessed]
    if missing:
        raise vlib.Inconclusive("vacuous: antecedents never true: %s" % ", ".join(missing))
    res["sets"] = sets
    res["clauses_witnessed"] = sorted(witnessed)


def part_live(ctx, res):
    """TLC: termination (liveness, variant) on the step machine; action coverage."""
    cfg = "Rewrites.live.cfg" if ctx.quick else "Rewrites.live2.cfg"
    r = ctx.tlc("Rewrites", cfg, workers=3, timeout=1800, coverage=True, heap="4g")
    acts = dict((m[0], int(m[1])) for m in re.findall(r"^<(\w+) line \d+, col \d+ to line \d+, col \d+ of module Rewrites>: (\d+):\d+", r["out"], re.M))
    need = ["AddEntry", "PickShape", "PickFamily", "PickQuery", "ChaseStep"]
    dead = [a for a in need if acts.get(a, 0) == 0]
    if dead:
        raise vlib.Inconclusive("vacuous: actions never taken in %s: %s" % (cfg, dead))
    if "Checking temporal properties" not in r["out"] and "temporal properties" not in r["out"]:
        raise vlib.Inconclusive("TLC did not check the temporal property in %s" % cfg)
    res["live"] = {"cfg": cfg, "states": r["distinct"], "actions": acts}


def part_replay(ctx, res, tally):
    """Direction A: filtering level (everything) and pipeline level (sample)."""
    sets = res["sets"]
    vin = ctx.path("c06_vectors.ndjson")
    nvec = 0
    with open(vin, "w") as fh:
        for name, hdr, vs in sets:
            fh.write(json.dumps(hdr) + "\n")
            for v in vs:
                fh.write(json.dumps({"t": v["t"], "v": v["v"], "o": v["o"]}) + "\n")
                nvec += 1
    rc, out, rows = go_rows(ctx, FPKG, "^TestZZVerifC06Replay$", {"VERIF_IN": vin}, "c06_replay_out.ndjson")
    summ = [r for r in rows if r.get("kind") == "summary"]
    if rc != 0 or not summ:
        raise vlib.Inconclusive("C06 filtering replay did not complete:\n" + out[-3000:])
    summ = summ[0]
    for r in rows:
        if r.get("kind") == "bad":
            r["lvl"] = "filt"
            tally.report(ctx, r, "CheckHost(%s, %s) = %s is not admitted by the spec %s for table %s" % (
                r["query"], r["qt"], json.dumps(r["got"]), json.dumps(r["want"]), json.dumps(r["table"])))
        elif r.get("kind") == "hang":
            r["lvl"] = "filt"
            tally.report(ctx, r, "CheckHost(%s, %s) did not terminate within 20 s (alone, fresh filter) for table %s" % (
                r["query"], r["qt"], json.dumps(r["table"])))
    if summ.get("aborted") and not ctx.violations:
        raise vlib.Inconclusive("filtering replay aborted without a reproduced disagreement")
    if summ["vectors"] != nvec and not summ.get("aborted"):
        raise vlib.Inconclusive("filtering replay consumed %d of %d vectors" % (summ["vectors"], nvec))
    res["replay"] = summ

    # Pipeline sample: stratified by the outcome classes of Serve, seeded.
    rng = random.Random(ctx.seed)
    want_n = 250 if ctx.quick else 2500
    pin = ctx.path("c06_pipe_vectors.ndjson")
    npipe = 0
    with open(pin, "w") as fh:
        for name, hdr, vs in sets:
            share = max(20, want_n * len(vs) // max(1, nvec))
            by_class = {}
            for i, v in enumerate(vs):
                for q in v["v"]:
                    for o in q[2]:
                        by_class.setdefault(out_class(o), []).append(i)
            pick = set()
            for c, idx in sorted(by_class.items()):
                pick.update(rng.sample(idx, min(len(idx), max(5, share // 8))))
            rest = [i for i in range(len(vs)) if i not in pick]
            if len(pick) < share:
                pick.update(rng.sample(rest, min(len(rest), share - len(pick))))
            fh.write(json.dumps(hdr) + "\n")
            for i in sorted(pick):
                v = vs[i]
                fh.write(json.dumps({"t": v["t"], "v": v["v"], "o": v["o"]}) + "\n")
                npipe += 1
    rc, out, rows = go_rows(ctx, DPKG, "^TestZZVerifC06Pipeline$", {"VERIF_IN": pin}, "c06_pipe_out.ndjson")
    psum = [r for r in rows if r.get("kind") == "summary"]
    if rc != 0 or not psum:
        raise vlib.Inconclusive("C06 pipeline replay did not complete:\n" + out[-3000:])
    psum = psum[0]
    if psum.get("setup_errors"):
        raise vlib.Inconclusive("pipeline replay could not set %d tables through the HTTP API" % psum["setup_errors"])
    for r in rows:
        if r.get("kind") == "bad":
            r["lvl"] = "pipe"
            tally.report(ctx, r, "query %s %s through the server: observed %s, spec admits %s, table %s" % (
                r["query"], r["qt"], json.dumps(r["got"]), json.dumps(r["expected"]), json.dumps(r["table"])))
        elif r.get("kind") == "hang":
            r["lvl"] = "pipe"
            tally.report(ctx, r, "query %s %s got no reply within 15 s (alone) for table %s" % (
                r["query"], r["qt"], json.dumps(r["table"])))
    if psum["hangs"] and not ctx.violations:
        raise vlib.Inconclusive("pipeline replay stopped on a hang that was not reproduced")
    if psum["vectors"] != npipe and not psum["hangs"]:
        raise vlib.Inconclusive("pipeline replay consumed %d of %d vectors" % (psum["vectors"], npipe))
    res["pipe"] = psum


def part_trace(ctx, res, tally):
    """Direction B at both levels."""
    rc, out, frows = go_rows(ctx, FPKG, "^TestZZVerifC06Trace$", {}, "c06_trace_f.ndjson")
    if rc != 0 or not frows:
        raise vlib.Inconclusive("C06 filtering trace driver did not complete:\n" + out[-3000:])
    rc, out, prows = go_rows(ctx, DPKG, "^TestZZVerifC06PipeTrace$", {}, "c06_trace_p.ndjson")
    if rc != 0 or not prows:
        raise vlib.Inconclusive("C06 pipeline trace driver did not complete:\n" + out[-3000:])
    rows = frows + prows
    tpath = ctx.path("c06_trace.ndjson")
    vlib.write_ndjson(tpath, [{"lvl": r["lvl"], "tab": r["tab"], "qs": r["qs"]} for r in rows])
    r = ctx.tlc("TraceRewrites", "TraceRewrites.cfg", workers=1, timeout=1500, heap="3g",
                extra_files=[(tpath, "trace.ndjson")])
    if not r["vectors"]:
        raise vlib.Inconclusive("trace spec produced no verdict")
    verdict = r["vectors"][-1]
    if verdict["n"] != len(rows):
        raise vlib.Inconclusive("trace spec consumed %s of %d lines" % (verdict["n"], len(rows)))
    nq = sum(len(x["qs"]) for x in rows)
    rejected = verdict["bad"]
    # Reproduce every rejected observation alone before reporting it.
    probes = {"filt": [], "pipe": []}
    for b in rejected:
        ln = rows[b["l"] - 1]
        x = ln["qs"][b["q"] - 1]
        probes[ln["lvl"]].append((b, ln, x))
    reproduced = not_reproduced = 0
    for lvl, lst in probes.items():
        if not lst:
            continue
        pin = ctx.path("c06_probe_%s.ndjson" % lvl)
        vlib.write_ndjson(pin, [{"tab": ln["tab"], "h": x["h"], "qt": x["qt"], "query": x["query"], "expect": b["exp"]}
                                for b, ln, x in lst])
        pkg, run = (FPKG, "^TestZZVerifC06Probe$") if lvl == "filt" else (DPKG, "^TestZZVerifC06PipeProbe$")
        rc, out, prs = go_rows(ctx, pkg, run, {"VERIF_IN": pin}, "c06_probe_%s_out.ndjson" % lvl)
        if rc != 0 or len(prs) != len(lst):
            raise vlib.Inconclusive("C06 probe (%s) did not complete:\n%s" % (lvl, out[-3000:]))
        for (b, ln, x), pr in zip(lst, prs):
            if pr.get("admissible") or pr.get("skipped"):
                not_reproduced += 1
                continue
            reproduced += 1
            rec = {"lvl": lvl, "tab": ln["tab"], "table": ln["table"], "h": x["h"], "qt": x["qt"], "query": x["query"],
                   "expect": b["exp"], "expected": pr.get("expected") or b["exp"], "got": pr.get("got"),
                   "hang": pr.get("hang", False),
                   "trace_observation": x}
            tally.report(ctx, rec, "trace (%s): %s %s observed %s, spec admits %s, table %s" % (
                lvl, x["query"], x["qt"], json.dumps(pr.get("got")), json.dumps(pr.get("expected")), json.dumps(ln["table"])))
    if not_reproduced:
        raise vlib.Inconclusive("%d rejected trace observations were not reproduced alone" % not_reproduced)
    res["trace"] = {"lines": len(rows), "queries": nq, "rejected": len(rejected), "reproduced": reproduced,
                    "filt_lines": len(frows), "pipe_lines": len(prows),
                    "sample": {"table": rows[0]["table"], "first_queries": rows[0]["qs"][:3]}}


# --------------------------------------------------------------------------- entry points
def run(ctx):
    res = {}
    tally = Tally()
    # Independent strands run concurrently: (generate -> replay), termination, traces.
    def strand_a():
        part_generate(ctx, res)
        part_replay(ctx, res, tally)

    run_parallel([strand_a, lambda: part_live(ctx, res), lambda: part_trace(ctx, res, tally)])

    # Vacuity of the pipeline sample (only meaningful when nothing is reported:
    # a disagreement can be the very reason a class was not observed).
    # cname-empty is exactly the open finding: it is never observed while that is open.
    seen = {c for c, n in res["pipe"]["classes"].items() if n}
    need = {"pass", "cname-upstream", "cname-addresses", "addresses", "empty"}
    if not ctx.violations and not need <= seen:
        raise vlib.Inconclusive("pipeline sample did not exercise: %s" % sorted(need - seen))

    sets = res["sets"]
    nvec = sum(len(vs) for _, _, vs in sets)
    nontrivial = sum(len(v["v"]) for _, _, vs in sets for v in vs)
    multi = sum(1 for _, _, vs in sets for v in vs for q in v["v"] if len(q[2]) > 1)
    rp, pp, tr = res["replay"], res["pipe"], res["trace"]
    samples = []
    for name, hdr, vs in sets:
        samples.append(decode_sample(hdr, vs[len(vs) // 3]))
        samples.append(decode_sample(hdr, vs[-1]))
    samples.append({"trace_line": tr.pop("sample")})
    cov = {
        "traces_validated_against_impl": rp["orderings"] + pp["orderings"] + tr["lines"],
        "evaluations": rp["evals"] + pp["evals"] + tr["queries"],
        "distinct_nontrivial": nontrivial,
        "rule": "one vector per enumerated table with the admissible outcomes of every query (name x {A, AAAA, TXT}); "
                "non-trivial = (table, query) whose name is matched by the table (the others must pass through and are "
                "checked too); every table is replayed in every ordering at the filtering level, a stratified seeded "
                "sample through the real DNS server; trace lines are random 10-20 entry tables with 30-40 queries each",
        "vectors_generated": nvec, "vectors_replayed_filtering": rp["vectors"], "table_orderings_replayed": rp["orderings"],
        "checkhost_calls": rp["evals"], "vectors_replayed_pipeline": pp["vectors"], "dns_queries": pp["evals"],
        "pipeline_classes": pp["classes"], "verdicts_with_several_admissible_outcomes": multi,
        "trace_lines": tr["lines"], "trace_queries": tr["queries"], "trace_rejected": tr["rejected"],
        "trace_rejected_reproduced": tr["reproduced"],
        "flaky": rp["flaky"] + pp["flaky"], "hangs": rp["hangs"] + pp["hangs"],
        "known_finding_disagreements": tally.known, "truncated_by_known_finding": 0,
        "clauses_witnessed": res["clauses_witnessed"], "termination": res["live"],
        "universes": [name for name, _, _ in sets],
        "exhaustive": not ctx.quick, "samples": samples,
    }
    if not ctx.quick:
        cov["order_independence_shard"] = res.get("perm_shard")
    return ctx.finish("model_checking", cov, assumptions=[
        "TLC; conc()/abs() of the two zz_verif_c06_test.go files (label dictionary, seeded addresses, request-side "
        "letter case); the pipeline projection (leading CNAME, table addresses, records recognised as the mock "
        "upstream's)",
        "the specification is independent of the order of the table (TLC: PermutationInvariant) so one verdict table "
        "stands for every ordering replayed",
        "table entries are concretised in lower case; only the request side varies case",
        "where the statement is silent (ties, meaning of 'kind', outcome of cycles, exception reached through a CNAME) "
        "the specification admits several outcomes: see the SILENT marks in RewritesCore.tla",
    ])


def replay(ctx, path):
    rec = json.load(open(path))["record"]
    lvl = rec.get("lvl", "filt")
    tab = rec["tab"]
    if "order" in rec:
        tab = [tab[i] for i in rec["order"]]
    probe = {"tab": tab, "h": rec["h"], "qt": rec["qt"], "query": rec.get("query", "")}
    if "want" in rec:
        probe["want"] = rec["want"]
    else:
        probe["expect"] = rec["expect"]
    pin = ctx.path("c06_replay_in.ndjson")
    vlib.write_ndjson(pin, [probe])
    pkg, run_ = (FPKG, "^TestZZVerifC06Probe$") if lvl == "filt" else (DPKG, "^TestZZVerifC06PipeProbe$")
    rc, out, prs = go_rows(ctx, pkg, run_, {"VERIF_IN": pin}, "c06_replay_out.ndjson")
    if rc != 0 or len(prs) != 1:
        raise vlib.Inconclusive("C06 probe did not complete:\n" + out[-3000:])
    pr = prs[0]
    print(json.dumps({"table": rec.get("table"), "query": [rec.get("query"), rec["qt"]],
                      "expected": pr.get("expected"), "observed": pr.get("got"),
                      "admissible": pr.get("admissible")}, indent=1))
    return 0 if pr.get("admissible") else 1
