SPECIFICATION Spec
