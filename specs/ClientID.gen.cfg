SPECIFICATION Spec
INVARIANTS OnlyFromPathOrSNI Lowercased ValidLabelOrError PlainAndDNSCryptNever StrictRejectsForeign InvalidNeverSilent NonEmptyOutcome
PROPERTIES HistoryIndependent
