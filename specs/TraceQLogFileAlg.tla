-------------------------- MODULE TraceQLogFileAlg --------------------------
(***************************************************************************)
(* C20, direction B: validation of op logs recorded from the real qLogFile *)
(* against the ALGORITHM-level spec QLogFileAlg.tla with the REAL          *)
(* constants (MaxEntry = 16384, BufSize = 1638400, DepthLimit = 100).      *)
(*                                                                         *)
(* trace.ndjson:                                                           *)
(*   {k:"file",  ends:[..], ts:[..]}    newline offsets and timestamps     *)
(*   {k:"start", res, pos, bs, bn}                                         *)
(*   {k:"seek",  t, res, depth, pos, bs, bn}                               *)
(*   {k:"reads", n, eof, idx:[..], ps:[..], bss:[..], pos, bs, bn}         *)
(*        per call: index of the returned line (0 = io.EOF, -1 = not a     *)
(*        stored line), q.position and q.bufferStart after the call        *)
(*   {k:"reads", n, eof, runs:[[hi,lo],..], pos, bs, bn}                   *)
(*        same without the per-call state (only the final one is checked)  *)
(* pos / bs / bn are q.position, q.bufferStart, q.buffer == nil after the  *)
(* (last) call; depth is the second result of seekTS.                      *)
(*                                                                         *)
(* SeekStart and ReadNext are one step of the spec each.  seekTS is        *)
(* SeekTSBegin (which returns at once on a file of 0 bytes) followed by as *)
(* many Probe steps as the spec needs; the                                 *)
(* record is compared when the spec's loop returns.  The spec is           *)
(* deterministic, so TLC walks a single path; a record it does not         *)
(* reproduce is added to `bad` and the rest of the case is skipped.        *)
(***************************************************************************)
EXTENDS Integers, Sequences, FiniteSets, TLC, Json

CONSTANTS MaxEntry, BufSize, DepthLimit, EmptyGuard

Trace == ndJsonDeserialize("trace.ndjson")

VARIABLES fl, position, bufferStart, bufNil, pc, sTarget, sStart, sEnd, sProbe, sLast, sDepth,
          seeked, out, l, j, bad, skip
tvars == <<fl, position, bufferStart, bufNil, pc, sTarget, sStart, sEnd, sProbe, sLast, sDepth,
           seeked, out, l, j, bad, skip>>

A == INSTANCE QLogFileAlg WITH ends <- Trace[fl].ends, tss <- Trace[fl].ts

R == Trace[l]

RECURSIVE LineAt(_, _)
LineAt(runs, i) ==
    IF runs = <<>> THEN 0
    ELSE LET hi == runs[1][1]
             lo == runs[1][2]
             sz == hi - lo + 1
         IN IF sz < 1 THEN 0
            ELSE IF i <= sz THEN hi - i + 1
            ELSE LineAt(Tail(runs), i - sz)

Finish == (l' = Len(Trace) + 1) => PrintT(<<"@@V", ToJson([n |-> Len(Trace), bad |-> bad'])>>)
Accept == l' = l + 1 /\ j' = 0 /\ bad' = bad /\ skip' = FALSE /\ Finish
Reject == l' = l + 1 /\ j' = 0 /\ bad' = bad \cup {l} /\ skip' = TRUE /\ Finish
Verdict(ok) == IF ok THEN Accept ELSE Reject

\* The Go harness's error classes against the spec's replies.
ResMatch(specRes, goRes) == specRes = goRes \/ (specRes = "nots" /\ goRes = "other")
StateMatch == position' = R.pos /\ bufferStart' = R.bs /\ bufNil' = R.bn

Init == /\ fl = 1 /\ l = 1 /\ j = 0 /\ bad = {} /\ skip = FALSE /\ A!Opened

InRange == l <= Len(Trace)

TFile == /\ InRange /\ R.k = "file"
         /\ fl' = l
         /\ position' = 0 /\ bufferStart' = 0 /\ bufNil' = TRUE /\ pc' = "idle" /\ seeked' = FALSE
         /\ out' = A!NoReply
         /\ sTarget' = 0 /\ sStart' = 0 /\ sEnd' = 0 /\ sProbe' = 0 /\ sLast' = -1 /\ sDepth' = 0
         /\ Accept

TSkip == /\ InRange /\ skip /\ R.k # "file"
         /\ l' = l + 1
         /\ UNCHANGED <<fl, position, bufferStart, bufNil, pc, sTarget, sStart, sEnd, sProbe, sLast,
                        sDepth, seeked, out, j, bad, skip>>
         /\ Finish

TStart == /\ InRange /\ ~skip /\ R.k = "start" /\ pc = "idle"
          /\ A!SeekStart
          /\ Verdict(ResMatch(out'.res, R.res) /\ StateMatch)
          /\ UNCHANGED fl

\* j = 0: the call has not begun; j = 1: the spec is inside the loop.
TSeekBegin == /\ InRange /\ ~skip /\ R.k = "seek" /\ pc = "idle" /\ j = 0
              /\ A!SeekTSBegin(R.t)
              /\ IF pc' = "probe" THEN j' = 1 /\ UNCHANGED <<l, bad, skip>>
                 \* the empty-file guard: seekTS returned before the loop
                 ELSE Verdict(ResMatch(out'.res, R.res) /\ StateMatch /\ sDepth' = R.depth)
              /\ UNCHANGED fl

TProbe == /\ InRange /\ ~skip /\ R.k = "seek" /\ pc = "probe" /\ j = 1
          /\ A!Probe
          /\ IF pc' = "probe" THEN UNCHANGED <<l, j, bad, skip>>
             ELSE Verdict(ResMatch(out'.res, R.res) /\ StateMatch /\ sDepth' = R.depth)
          /\ UNCHANGED fl

Detailed == "idx" \in DOMAIN R

TRead == /\ InRange /\ ~skip /\ R.k = "reads" /\ pc = "idle" /\ j < R.n
         /\ A!ReadNext
         /\ LET i == j + 1
                want == IF Detailed THEN R.idx[i]
                        ELSE IF R.eof /\ i = R.n THEN 0 ELSE LineAt(R.runs, i)
                got  == CASE out'.res = "eof" -> 0
                          [] out'.res = "ok"  -> out'.line
                          [] OTHER            -> -1
                okCall == /\ got = want
                          /\ (Detailed => position' = R.ps[i] /\ bufferStart' = R.bss[i])
                okAll == okCall /\ (i = R.n => StateMatch)
            IN IF ~okAll THEN Reject
               ELSE IF i = R.n THEN Accept
               ELSE j' = i /\ UNCHANGED <<l, bad, skip>>
         /\ UNCHANGED fl

Next == TFile \/ TSkip \/ TStart \/ TSeekBegin \/ TProbe \/ TRead
Spec == Init /\ [][Next]_tvars
=============================================================================
