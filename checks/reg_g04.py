PROPERTY = "G04"
ENTRY = {
        "text": "Growth item: the protection on / off / pause timed automaton.  Protection.tla (written from openapi.yaml, the changelogs and the doc comments: mode ON / OFF / PAUSED until U; "
                "in effect iff ON or the deadline reached; POST /control/protection {enabled, duration} with duration absent / 0 / 1..3 ticks / 'big' / 'huge', the protection_enabled member of "
                "POST /control/dns_config, GET /control/status and GET /control/dns_info, DNS queries of eight kinds -- rule lists, blocked service, safe browsing, parental, safe search, blocked CNAME "
                "in the answer, DNS rewrite, clean --, clock advances before / at / after the deadline, restart, and the write-back worker run at any later point) is explored by TLC exhaustively modulo "
                "time translation (no bound on history length) with the statement as invariants / action properties over a ghost that only accepted calls move; three negative configurations show that "
                "the properties see the code's as-built behaviours.  The same run emits every labelled edge (583 + 18 status edges); the Go harness walks them under the synctest virtual clock against a "
                "real dnsforward.Server + filtering.DNSFilter (real handlers, Server.handleDNSRequest with a mock upstream, the real enableProtectionAfterPause both as its own goroutine and held back, "
                "restart = YAML written on every ConfigModified -> new filter and server) with tick lengths from 1 ms to 1 day, comparing reply and projected state (memory, file, worker pending) after every step; "
                "seeded random histories in milliseconds (package dnsforward, and package home for the real handleStatus) are validated line by line by TraceProtection.tla.",
        "design_ref": "DESIGN.md section 5 item 4; notes/G04.md",
        "note": "Trusted: TLC, the abstraction function of zz_verif_g04_test.go, testing/synctest.  Handler level, no sockets.  A started-but-unscheduled worker is modelled by setting "
                "protectionUpdateInProgress and calling enableProtectionAfterPause later.  The instant now = deadline is left open, as are enabled=true with a duration, a duration whose deadline is not "
                "representable (reject or pause beyond every horizon, never a shorter pause) and dns_config protection_enabled=false during a running pause.  Three open findings "
                "(known_findings/G04.jsonl) with proposed fixes.",
        "technique": "TLA+ timed automaton model-checked by TLC; exhaustive edge-covering walks + random walks of the spec graph against the real code; TLC trace validation",
    }
