SPECIFICATION GenSpec
CONSTANTS
  MaxEntry = 4
  BufSize = 12
  DepthLimit = 100
  EmptyFileSeek = {"ioerr", "tooEarly"}
  MaxLines = 6
  MinLen = 1
  MaxLen = 3
  SkipEmpty = FALSE
