------------------------------- MODULE Routes -------------------------------
(***************************************************************************)
(* C11 -- every admin endpoint requires a valid session or credentials     *)
(* once a user exists.                                                     *)
(*                                                                         *)
(* The quantifier of the property is over PROGRAMS: every route registered *)
(* anywhere in the code base.  The set of routes is therefore not written  *)
(* here; it is the constant operator Routes of module RoutesGenerated,     *)
(* which tools/c11_routes (go/ast) writes from the Go sources each time    *)
(* the check runs: one record per registration call with the declared      *)
(* method and the wrapper chain read off the handler expression,           *)
(*                                                                         *)
(*   [pat |-> "/control/status", method |-> "GET",                         *)
(*    chain |-> <<"postInstall", "optionalAuth", "gzip", "ensure">>, ...]  *)
(*                                                                         *)
(* This module has two layers.                                             *)
(*                                                                         *)
(*  1. The MECHANISM: Serve interprets the chain of the route a request is *)
(*     dispatched to, wrapper by wrapper, and yields the set of admissible *)
(*     response classes ("handler" = the wrapped handler ran).  It is      *)
(*     bound to the code by replaying every (state, route, request shape)  *)
(*     into the real mux (direction A) and by validating recorded traffic  *)
(*     (TraceRoutes.tla, direction B).  Where the statement leaves the     *)
(*     mechanism free the set has several members:                         *)
(*       - an unauthenticated request may be answered 403 OR redirected    *)
(*         to the login page (the statement allows both everywhere);       *)
(*       - a request with an invalid cookie AND correct basic credentials  *)
(*         may be served or denied (the statement lets it be served, the   *)
(*         code looks at the cookie only).                                 *)
(*                                                                         *)
(*  2. The REQUIREMENT, written from the statement alone, as invariants    *)
(*     over what Serve yields: NoUnauthenticatedHandler / OnlyPublic,      *)
(*     MutatingNeedsMethodAndJSON, PublicReachable.  A route registered on *)
(*     the mux without the auth wrapper is extracted with a chain lacking  *)
(*     "optionalAuth"; Serve then lets its handler run for a request       *)
(*     without credentials and TLC reports NoUnauthenticatedHandler        *)
(*     violated, the offending route being part of the counterexample      *)
(*     state (variable last).                                              *)
(*                                                                         *)
(* State: firstRun, users, sessions (token -> expiry) with their persisted  *)
(* copy store, clock -- and last, the request just served with its         *)
(* outcome.  FinishInstall, Login, Logout, Tick, Restart move the state;      *)
(* Serve(route, request) is explored from every reachable state for every  *)
(* route and every request shape.                                          *)
(***************************************************************************)
EXTENDS Naturals, Sequences, FiniteSets, TLC, Json, RoutesGenerated

CONSTANT DoEmit     \* TRUE in the vector-generating configuration

VARIABLES firstRun,   \* no configuration yet: only the install wizard is served
          users,      \* configured administrator accounts
          sessions,   \* function: issued session token -> expiry time (in memory)
          store,      \* the same table as persisted in sessions.db; survives Restart
          hist,       \* history of tokens that are no longer sessions: how they ended
          clock,
          last,       \* None, or the request just served with its outcome
          focus       \* None, or the route whose requests are being explored

vars == <<firstRun, users, sessions, store, hist, clock, last, focus>>

None == [none |-> TRUE]

\* ------------------------------------------------------------ vocabulary
Admin    == "admin"
Tokens   == {"t1"}            \* tokens the server may issue; "tX" is never issued
TTL      == 1
MaxClock == 1

\* Method tokens.  net/http passes the token of the request line through as it
\* is, so next to the four canonical methods a request may carry the route's
\* declared method SPELLED differently: all lower case ("post") or mixed case
\* ("Post", "gET").  These are other tokens than the declared method ("accept
\* only their declared method"); for a route without a declared method the
\* harness spells GET.
MisSpelled == {"declLower", "declMixed"}
Methods    == {"GET", "POST", "PUT", "DELETE"} \cup MisSpelled
Mutating   == {"POST", "PUT", "DELETE"}             \* control.go modifiesData
CTypes    == {"none", "json", "form"}
\* How a body is framed: no body; a body announced by Content-Length; a body of
\* unknown length sent with Transfer-Encoding: chunked (HTTP/1.1: the server
\* sees length -1 and the transfer encoding); a streamed body of unknown length
\* without any transfer encoding (HTTP/2, h2c, HTTP/3: length -1, nothing
\* else).  A body is a body in every framing.
Bodies    == {"none", "length", "chunked", "stream"}
Cookies   == {"none", "tX"} \cup Tokens
Basics    == {"none", "wrong", "right"}
Spellings == {"canonical", "trailingSlash", "dotSegment", "doubleSlash"}

\* Paths below a subtree pattern (one ending in "/") that are requested.
Subs(pat) == IF pat = "/"
             THEN {"", "index.html", "login.html", "assets/app.js", "install.html",
                   "nosuch.html", "control/nosuch"}
             ELSE {"", "cid"}

\* Response classes.
Handler == "handler"          \* the wrapped handler ran (any status it likes)
Deny    == {"deny403", "redirLogin"}

\* ----------------------------------------------- the statement's vocabulary
\* "The only routes reachable without credentials are the login call, the
\*  login page and static assets, the mobileconfig generators and the
\*  DNS-over-HTTPS resolver."
PublicPats == {"/control/login",
               "/apple/doh.mobileconfig", "/apple/dot.mobileconfig",
               "/dns-query", "/dns-query/"}

\* e is an effective dispatch (see Eff): the pattern that serves the request
\* and what the request path is.
Public(e) == \/ e.pat \in PublicPats
             \/ e.pat = "/" /\ (e.loginPage \/ e.asset)

CookieClass(c) == IF c = "none" THEN "none"
                  ELSE IF c \notin DOMAIN sessions THEN "unknown"
                  ELSE IF sessions[c] <= clock THEN "expired"
                  ELSE "valid"

\* The finer label under which vectors are emitted: a token that is no session
\* any more is "unknown" to the mechanism, but the harness has to present a
\* cookie with that very history (logged out; logged out and then the server
\* restarted; expired and then the server restarted).
CookieLabel(c) == IF c \in DOMAIN hist /\ c \notin DOMAIN sessions THEN hist[c] ELSE CookieClass(c)

\* "a valid unexpired session cookie or correct basic credentials"
Authenticated(q) == CookieClass(q.cookie) = "valid" \/ q.basic = "right"

\* "a JSON content type": a body -- in whatever framing -- must be declared
\* JSON; a request without a body carries no content type at all.
HasBody(q)  == q.body # "none"
JSONOnly(q) == \/ HasBody(q) /\ q.ctype = "json"
               \/ ~HasBody(q) /\ q.ctype = "none"

\* ------------------------------------------------------------- dispatch
RoutesAt(pat) == {r \in Routes : r.pat = pat}

Targets(r) == IF r.subtree THEN {[pat |-> r.pat, sub |-> s] : s \in Subs(r.pat)}
              ELSE {[pat |-> r.pat, sub |-> ""]}

\* What the mux does with the spelling of the path.  Result: [disp, ...].
\*   "route": dispatched to pattern pat, with the facts about the path that
\*            the wrappers look at; norm = TRUE when the path had to be
\*            normalised first (dot segment, doubled slash): today's ServeMux
\*            answers 301 to the cleaned path itself, and the statement only
\*            asks that such a spelling does not get past the guard of the path
\*            it normalises to, so serving it like the canonical path is
\*            admitted as well;
\*   "none":  no pattern matches (404 by the mux).
Eff(r, t, sp) ==
    LET rootP  == r.pat = "/" /\ t.sub \in {"", "index.html"}
        loginP == r.pat = "/" /\ t.sub = "login.html"
        assetP == r.pat = "/" /\ t.sub = "assets/app.js"
        instP  == r.installPfx \/ (r.pat = "/" /\ t.sub = "install.html")
        assP   == r.assetsPfx \/ assetP
        canon(n) == [disp |-> "route", norm |-> n, pat |-> r.pat, root |-> rootP, loginPage |-> loginP,
                     asset |-> assetP, installPfx |-> instP, assetsPfx |-> assP]
    IN
    CASE sp \in {"dotSegment", "doubleSlash"} -> canon(TRUE)
      [] sp = "canonical" -> canon(FALSE)
      [] sp = "trailingSlash" ->
            IF r.subtree /\ t.sub = "" THEN canon(TRUE)     \* "//" is cleaned to "/"
            ELSE LET to == IF r.subtree THEN r.pat ELSE r.slash IN
                 IF to = "" THEN [disp |-> "none", norm |-> FALSE]
                 ELSE \* "<path>/" is no longer the root, the login page or an asset
                      [disp |-> "route", norm |-> FALSE, pat |-> to, root |-> FALSE, loginPage |-> FALSE,
                       asset |-> FALSE, installPfx |-> instP, assetsPfx |-> assP]

\* ------------------------------------------------------------- mechanism
\* Run(r, e, q, i): admissible outcomes of passing request q, dispatched as e
\* to route r, through the wrappers r.chain[i..].
RECURSIVE Run(_, _, _, _)
Run(r, e, q, i) ==
    IF i > Len(r.chain) THEN {Handler}
    ELSE
    LET w    == r.chain[i]
        next == Run(r, e, q, i + 1)
    IN
    CASE w = "postInstall" ->
            \* before installation everything but the wizard and the assets
            \* is redirected to the wizard
            IF firstRun /\ ~e.installPfx /\ ~e.assetsPfx THEN {"redirInstall"} ELSE next
      [] w = "preInstall" ->
            IF firstRun THEN next ELSE {"deny403"}
      [] w = "optionalAuth" ->
            IF e.loginPage
            THEN \* an already authenticated visitor is sent on to the dashboard
                 \* (or simply shown the page: the statement does not care)
                 IF users # {} /\ CookieClass(q.cookie) = "valid" THEN {"redirDash"} \cup next ELSE next
            ELSE IF e.asset \/ users = {} THEN next
            ELSE IF CookieClass(q.cookie) = "valid" THEN next
            ELSE IF q.cookie = "none" THEN (IF q.basic = "right" THEN next ELSE Deny)
            ELSE \* invalid cookie: denied; correct basic credentials next to it
                 \* may be honoured or not
                 IF q.basic = "right" THEN next \cup Deny ELSE Deny
      [] w = "gzip" -> next
      [] w = "ensure" ->
            IF q.method # r.method THEN {"m405"}
            ELSE IF r.method \in Mutating /\ ~JSONOnly(q)
                 THEN (IF HasBody(q) /\ q.ctype = "jsonParam" THEN {"c415"} \cup next ELSE {"c415"})
                 ELSE next
      [] OTHER -> next   \* a wrapper the extractor has no meaning for protects nothing

\* Outcomes of request q for target t of route r: the set of admissible
\* classes together with the effective dispatch.
Outcomes(r, t, q) ==
    LET e == Eff(r, t, q.spelling) IN
    CASE e.disp = "none" -> {[e |-> e, by |-> r, outs |-> {"mux404"}]}
      [] OTHER -> \* served by r itself, or -- "<path>/" falling through to a subtree
                  \* pattern -- by whatever is registered for that pattern
                  {[e |-> e, by |-> r2,
                    outs |-> Run(r2, e, q, 1) \cup (IF e.norm THEN {"mux301"} ELSE {})] :
                      r2 \in (IF e.pat = r.pat THEN {r} ELSE RoutesAt(e.pat))}

\* --------------------------------------------------------- requirement
\* Evaluated on one served request; the invariants below apply them to last.
\* o is a member of Outcomes(r, t, q).
Ran(o) == Handler \in o.outs

\* "runs its handler only for requests carrying a valid unexpired session
\*  cookie or correct basic credentials" / "the only routes reachable without
\*  credentials are ..."
P_NoUnauth(q, o) ==
    users # {} /\ Ran(o) /\ ~Public(o.e) => Authenticated(q)

\* "State-changing endpoints additionally accept only their declared method
\*  and a JSON content type."
P_Mutating(q, o) ==
    Ran(o) /\ o.by.method \in Mutating => q.method = o.by.method /\ (JSONOnly(q) \/ q.ctype = "jsonParam")

\* The public routes ARE reachable without credentials once installed (the
\* statement lists them as reachable; also guards the model against being
\* vacuously restrictive).
P_PublicReachable(q, o) ==
    /\ ~firstRun /\ o.e.disp = "route" /\ Public(o.e) /\ q.spelling = "canonical"
    /\ (o.by.method = "" \/ (q.method = o.by.method /\ JSONOnly(q)))
    /\ ~(o.e.loginPage /\ CookieClass(q.cookie) = "valid")
    => o.outs = {Handler}

\* An authenticated request with the declared method and content type is
\* served (sanity: the model must not satisfy the property by serving nobody).
P_AuthServed(q, o) ==
    /\ ~firstRun /\ o.e.disp = "route" /\ q.spelling = "canonical"
    /\ CookieClass(q.cookie) = "valid" /\ ~o.e.loginPage
    /\ "preInstall" \notin {o.by.chain[i] : i \in DOMAIN o.by.chain}
    /\ (o.by.method = "" \/ "ensure" \notin {o.by.chain[i] : i \in DOMAIN o.by.chain}
           \/ (q.method = o.by.method /\ (o.by.method \notin Mutating \/ JSONOnly(q))))
    => o.outs = {Handler}

Bad(q, o) == {n \in {"NoUnauthenticatedHandler", "MutatingNeedsMethodAndJSON",
                      "PublicReachable", "AuthServed"} :
                CASE n = "NoUnauthenticatedHandler"   -> ~P_NoUnauth(q, o)
                  [] n = "MutatingNeedsMethodAndJSON" -> ~P_Mutating(q, o)
                  [] n = "PublicReachable"            -> ~P_PublicReachable(q, o)
                  [] n = "AuthServed"                 -> ~P_AuthServed(q, o)}

\* ------------------------------------------------------------- behaviour
\* The shapes explored.  For the two spellings that today's ServeMux answers
\* itself (301 to the cleaned path, before any route is consulted) content type
\* and body are not varied; mis-spelled method tokens are sent to the canonical
\* path only.
Shape(q) == /\ q.spelling \in {"dotSegment", "doubleSlash"} => q.ctype = "none" /\ q.body = "none"
            /\ q.body \in {"chunked", "stream"} => q.spelling = "canonical"
            /\ q.method \in MisSpelled => q.spelling = "canonical"   \* one dimension at a time
Requests == {q \in [method : Methods, ctype : CTypes, body : Bodies, cookie : Cookies,
                    basic : Basics, spelling : Spellings] : Shape(q)}

Init == /\ last = None /\ focus = None
        /\ clock = 0
        /\ sessions = <<>> /\ store = <<>> /\ hist = <<>>
        /\ \/ firstRun = TRUE  /\ users = {}
           \/ firstRun = FALSE /\ users \in {{}, {Admin}}

\* The install wizard creates the first account and leaves first-run mode
\* (controlinstall.go handleInstallConfigure) -- in the running process, no
\* restart.  The state it leads to IS the state of an installation that was
\* booted with the account in its configuration file (same variables, same
\* values): "once an administrator account exists" does not depend on how the
\* account came to exist, so the outcomes admitted after FinishInstall are
\* exactly those of the configured boot.  The harness replays the vectors of
\* that state against both histories (arena R: configured boot; arenas S and
\* H: first run taken through the wizard, H through the real wizard call).
FinishInstall ==
           /\ last = None /\ firstRun /\ users = {}
           /\ firstRun' = FALSE /\ users' = {Admin}
           /\ UNCHANGED <<sessions, store, hist, clock, last, focus>>

Put(f, t, e) == [x \in DOMAIN f \cup {t} |-> IF x = t THEN e ELSE f[x]]
Drop(f, T)   == [x \in DOMAIN f \ T |-> f[x]]

\* A successful login issues a fresh token valid for TTL, in memory and in the
\* store.
Login(t) == /\ last = None /\ ~firstRun /\ users # {}
            /\ t \notin DOMAIN sessions /\ t \notin DOMAIN hist
            /\ clock + TTL <= MaxClock
            /\ sessions' = Put(sessions, t, clock + TTL) /\ store' = Put(store, t, clock + TTL)
            /\ UNCHANGED <<firstRun, users, hist, clock, last, focus>>

\* Logout ends the session for good: in memory AND in the store.
Logout(t) == /\ last = None /\ t \in DOMAIN sessions /\ sessions[t] > clock
             /\ sessions' = Drop(sessions, {t}) /\ store' = Drop(store, {t})
             /\ hist' = Put(hist, t, "loggedOut")
             /\ UNCHANGED <<firstRun, users, clock, last, focus>>

Tick == /\ last = None /\ clock < MaxClock /\ DOMAIN sessions # {}
        /\ clock' = clock + 1
        /\ UNCHANGED <<firstRun, users, sessions, store, hist, last, focus>>

\* The process (the auth module) restarts: memory is rebuilt from the store,
\* sessions that have expired meanwhile are purged from both.  A session that
\* was logged out is not in the store and does not come back.
Restart == /\ last = None /\ ~firstRun /\ users # {}
           /\ (DOMAIN hist # {} \/ DOMAIN store # {})
           /\ LET dead == {t \in DOMAIN store : store[t] <= clock} IN
              /\ sessions' = Drop(store, dead) /\ store' = Drop(store, dead)
              /\ hist' = [t \in DOMAIN hist \cup dead |->
                            IF t \in dead THEN "expiredRestarted"
                            ELSE IF hist[t] = "loggedOut" THEN "loggedOutRestarted" ELSE hist[t]]
           /\ UNCHANGED <<firstRun, users, clock, last, focus>>

\* One request.  Whatever the outcome, the only state the request layer
\* itself touches is an expired session, which is dropped when it is seen;
\* users and firstRun never change ("no side effect").
Serve(r, t, q) ==
    /\ \E o \in Outcomes(r, t, q) :
         last' = [route |-> r.pat, site |-> r.site, reg |-> r.reg, target |-> t, req |-> q,
                  cookieClass |-> CookieClass(q.cookie), o |-> o]
    /\ IF CookieClass(q.cookie) = "expired"
       THEN sessions' = Drop(sessions, {q.cookie}) /\ store' = Drop(store, {q.cookie})
       ELSE UNCHANGED <<sessions, store>>
    /\ UNCHANGED <<firstRun, users, hist, clock, focus>>

\* Purely a device for TLC: the successors of one state are computed by one
\* worker, so the exploration of the request universe is split per route.
Focus(r) == /\ focus = None /\ focus' = r
            /\ UNCHANGED <<firstRun, users, sessions, store, hist, clock, last>>

\* Vector generation.  Serve looks at a route only through its fields other than
\* the site and -- unless the pattern is one that the statement or the dispatch
\* names (the public patterns, "/", subtree patterns) -- the pattern.  Routes
\* that agree on everything else form a class; tables are computed once per
\* class, for a representative, and carry the members of the class (the model
\* checking run explores every route on its own; the orchestrator refuses to
\* go on if the two runs disagree about violations).
\* One line per (state, class, target, method, spelling) with the verdict table
\* over ctype x body x cookie x basic, one row <<ctype, body, cookie class,
\* basic, dispatched to, site of the serving registration, admissible outcomes,
\* violated requirements>> per request ("$self" = the member itself).  The
\* cookie is reported by class; the classes present depend on the state.
Named(r)   == r.pat \in PublicPats \cup {"/"} \/ r.subtree
Cls(r)     == [r EXCEPT !.site = "*", !.pat = IF Named(r) THEN r.pat ELSE "*"]
Members(r) == {x \in Routes : Cls(x) = Cls(r)}
Reps       == {CHOOSE x \in Members(r) : TRUE : r \in Routes}

Table(r, t, m, sp) ==
    [x \in {y \in {<<ct, b, ck, ba>> : ct \in CTypes, b \in Bodies, ck \in Cookies, ba \in Basics} :
                Shape([ctype |-> y[1], body |-> y[2], spelling |-> sp, method |-> m])} |->
        LET q == [method |-> m, ctype |-> x[1], body |-> x[2], cookie |-> x[3], basic |-> x[4],
                  spelling |-> sp]
        IN {<<x[1], x[2], CookieLabel(x[3]), x[4],
              (IF o.e.disp = "none" THEN "none" ELSE IF o.e.norm THEN "redirect"
               ELSE IF o.e.pat = r.pat THEN "$self" ELSE o.e.pat),
              (IF o.by = r THEN "$self" ELSE o.by.site), o.outs, Bad(q, o)>> :
                o \in Outcomes(r, t, q)}]

Emit(r, t, m, sp) ==
    LET tab == Table(r, t, m, sp) IN
    PrintT(<<"@@V", ToJson([firstRun |-> firstRun, hasUser |-> users # {},
                            members |-> {<<x.pat, x.site>> : x \in Members(r)},
                            reg |-> r.reg, decl |-> r.method,
                            chain |-> r.chain,
                            sub |-> t.sub, method |-> m, spelling |-> sp,
                            rows |-> UNION {tab[x] : x \in DOMAIN tab}])>>)

EmitTables == /\ \E t \in Targets(focus) : \E m \in Methods, sp \in Spellings :
                    Emit(focus, t, m, sp)
              /\ UNCHANGED vars

\* A state in which a request has been served is a leaf: the guard is hoisted
\* out of the quantifiers so that TLC does not enumerate the request universe
\* there.
Skeleton == \/ FinishInstall
            \/ \E t \in Tokens : Login(t) \/ Logout(t)
            \/ Tick
            \/ Restart
            \/ \E r \in (IF DoEmit THEN Reps ELSE Routes) : Focus(r)

Next == /\ last = None
        /\ \/ (focus = None /\ Skeleton)
           \/ (focus # None /\ ~DoEmit /\ \E t \in Targets(focus) : \E q \in Requests : Serve(focus, t, q))
           \/ (focus # None /\ DoEmit /\ EmitTables)

Spec == Init /\ [][Next]_vars

\* ------------------------------------------------------------ invariants
TypeOK == /\ firstRun \in BOOLEAN /\ (focus = None \/ focus \in Routes) /\ users \subseteq {Admin} /\ clock \in 0..MaxClock
          /\ DOMAIN sessions \subseteq Tokens /\ DOMAIN hist \subseteq Tokens
          /\ (firstRun => users = {})

\* Design properties of the session table itself (they hold by construction of
\* the actions; the conformance replay binds them to the code): memory and
\* store agree, and a session that was ended -- by logout, or by expiry seen at
\* a restart -- never is a session again.
StoreAgrees    == store = sessions
NoResurrection == \A t \in DOMAIN hist : t \notin DOMAIN sessions

NoUnauthenticatedHandler   == last # None => P_NoUnauth(last.req, last.o)
\* The same requirement read as the statement's last sentence: whatever runs
\* without credentials is one of the five public things.
OnlyPublic == last # None /\ users # {} /\ Ran(last.o) /\ ~Authenticated(last.req) => Public(last.o.e)
MutatingNeedsMethodAndJSON == last # None => P_Mutating(last.req, last.o)
PublicReachable            == last # None => P_PublicReachable(last.req, last.o)
AuthServed                 == last # None => P_AuthServed(last.req, last.o)
\* Denied means untouched: a request that does not reach its handler leaves
\* users and firstRun as they were (by construction of Serve; stated for the
\* reader) and at most drops the expired session it presented.
=============================================================================
