package dnsforward

// G04 conformance harness: the protection on / off / pause timed automaton.
//
// Direction A: walks the labelled edge graph emitted by TLC for
// specs/Protection.tla against a real dnsforward.Server + filtering.DNSFilter
// under the virtual clock of testing/synctest: the real handlers of POST
// /control/protection, POST /control/dns_config and GET /control/dns_info,
// Server.handleDNSRequest with a recording mock upstream for the queries, the
// real write-back worker (enableProtectionAfterPause), and restarts through
// the YAML form of the filtering configuration (what home writes on every
// ConfigModified and loads at start-up).  After every step the reply and the
// projected state (stored flag + deadline in memory and on "disk", worker
// pending) must be one of the outcomes the spec admits from the current spec
// state.
//
// Direction B: seeded random timed histories in milliseconds (durations 1 ms
// .. days, "big" and "huge" ones), recorded as NDJSON for TraceProtection.tla.
//
// Unexported identifiers are used to construct objects the way the package's
// own tests do (handlers called as methods, upstreams replaced after Prepare),
// to read state for the abstraction function (ProtectionStatus,
// protectionUpdateInProgress) and -- one scheduling device -- to decide WHEN
// the write-back worker runs: to model a worker that has been started but not
// yet scheduled, the harness sets protectionUpdateInProgress itself just
// before an observation that would start the worker (so the code's
// CompareAndSwap finds it started) and later calls enableProtectionAfterPause
// synchronously, which is exactly what the started goroutine executes.

import (
	"bytes"
	"context"
	"encoding/json"
	"fmt"
	"io"
	"math/rand"
	"net"
	"net/http"
	"net/http/httptest"
	"net/netip"
	"os"
	"sort"
	"strconv"
	"strings"
	"sync"
	"testing"
	"testing/synctest"
	"time"

	"github.com/AdguardTeam/AdGuardHome/internal/aghtest"
	"github.com/AdguardTeam/AdGuardHome/internal/client"
	"github.com/AdguardTeam/AdGuardHome/internal/filtering"
	"github.com/AdguardTeam/AdGuardHome/internal/filtering/hashprefix"
	"github.com/AdguardTeam/AdGuardHome/internal/filtering/safesearch"
	"github.com/AdguardTeam/AdGuardHome/internal/schedule"
	"github.com/AdguardTeam/dnsproxy/proxy"
	"github.com/AdguardTeam/dnsproxy/upstream"
	"github.com/AdguardTeam/golibs/logutil/slogutil"
	"github.com/AdguardTeam/golibs/netutil"
	"github.com/AdguardTeam/golibs/timeutil"
	"github.com/miekg/dns"
	"gopkg.in/yaml.v3"
)

// ---------------------------------------------------------------- vocabulary

const (
	zzG04Sentinel = "203.0.113.77" // what the mock upstream answers
	zzG04RwAddr   = "198.51.100.1" // the answer of the legacy rewrite
	zzG04SBHost   = "192.0.2.66"   // safe-browsing block "host"
	zzG04ParHost  = "192.0.2.67"   // parental block "host"
	zzG04Anon     = "10.77.2.20"
	zzG04Kid      = "10.77.1.10"
	zzG04SvcG     = "4chan" // blocked globally
	zzG04SvcK     = "9gag"  // blocked for the persistent client
	zzG04SBName   = "malware.g04.example"
	zzG04ParName  = "adult.g04.example"

	// The largest duration (ms) whose deadline is representable:
	// time.Duration(d) * time.Millisecond does not overflow.
	zzG04MaxMS = uint64(9223372036854)

	// Deadlines at least this far (ms) from the origin of a history are
	// "forever" (Forever of Protection.tla).
	zzG04Horizon = int64(2000000000)
)

var zzG04InitOnce sync.Once

// zzG04Up is the recording mock upstream: every A question is answered with
// the sentinel address; the alias name with a CNAME to a blocked name first.
type zzG04Up struct {
	mu    sync.Mutex
	calls int
}

func (u *zzG04Up) Exchange(req *dns.Msg) (resp *dns.Msg, err error) {
	u.mu.Lock()
	defer u.mu.Unlock()

	u.calls++
	resp = (&dns.Msg{}).SetReply(req)
	resp.RecursionAvailable = true
	q := req.Question[0]
	hdr := func(name string, t uint16) dns.RR_Header {
		return dns.RR_Header{Name: name, Rrtype: t, Class: dns.ClassINET, Ttl: 300}
	}

	owner := q.Name
	if strings.HasPrefix(strings.ToLower(q.Name), "alias.") {
		tgt := "tracker.g04.example."
		resp.Answer = append(resp.Answer, &dns.CNAME{Hdr: hdr(q.Name, dns.TypeCNAME), Target: tgt})
		owner = tgt
	}

	if q.Qtype == dns.TypeA {
		resp.Answer = append(resp.Answer, &dns.A{Hdr: hdr(owner, dns.TypeA), A: net.ParseIP(zzG04Sentinel).To4()})
	}

	return resp, nil
}

func (u *zzG04Up) Address() (addr string) { return "zz-verif-g04-mock" }
func (u *zzG04Up) Close() (err error)     { return nil }

type zzG04DHCP struct{}

func (zzG04DHCP) HostByIP(netip.Addr) (host string) { return "" }
func (zzG04DHCP) IPByHost(string) (ip netip.Addr)   { return netip.Addr{} }
func (zzG04DHCP) Enabled() (ok bool)                { return false }

// zzG04Sys is a real server + filter (one "process" at a time) together with
// the "disk" a restart reads and the abstraction function.
type zzG04Sys struct {
	t    *testing.T
	dir  string
	unit time.Duration // one tick of the spec
	init string        // "on" / "off": what the configuration file says at first

	// Concretisation choices of this history.
	cache bool
	bmode filtering.BlockingMode

	f  *filtering.DNSFilter
	s  *Server
	up *zzG04Up
	st *client.Storage

	// disk is the YAML form of the filtering configuration as of the last
	// ConfigModified call (home: onConfigModified -> config.write ->
	// filters.WriteDiskConfig), and what the next start loads.
	disk   []byte
	nwrite int

	// vpend: the write-back worker has been "started" (see the file comment)
	// and has not run yet.
	vpend bool

	t0    time.Time
	reqID uint64
	nboot int
}

// zzG04Rules is the content of the one block list (id 7) and of the custom
// rules (id 0).
const (
	zzG04ListRules   = "||ads.g04.example^\n||tracker.g04.example^\n0.0.0.0 hosts.g04.example\n"
	zzG04CustomRules = "||custom.g04.example^\n"
)

// runtimeFields fills the members of the filtering configuration that do not
// come from the file.
func (z *zzG04Sys) runtimeFields(fc *filtering.Config) (err error) {
	fc.DataDir = z.dir
	fc.ConfigModified = z.configModified
	fc.ApplyClientFiltering = z.st.ApplyClientFiltering
	fc.SafeBrowsingChecker = hashprefix.New(&hashprefix.Config{
		CacheTime: 10 * time.Minute, CacheSize: 10000,
		Upstream: aghtest.NewBlockUpstream(zzG04SBName, true),
	})
	fc.ParentalControlChecker = hashprefix.New(&hashprefix.Config{
		CacheTime: 10 * time.Minute, CacheSize: 10000,
		Upstream: aghtest.NewBlockUpstream(zzG04ParName, true),
	})
	fc.SafeSearch, err = safesearch.NewDefault(context.Background(), &safesearch.DefaultConfig{
		Logger:         slogutil.NewDiscardLogger(),
		ServicesConfig: fc.SafeSearchConf,
		CacheSize:      1000,
		CacheTTL:       30 * time.Minute,
	})

	return err
}

func zzG04Services(ids ...string) (b *filtering.BlockedServices) {
	return &filtering.BlockedServices{Schedule: schedule.EmptyWeekly(), IDs: ids}
}

// initialConfig is the filtering section of a configuration file that was
// never touched by the API.
func (z *zzG04Sys) initialConfig() (fc *filtering.Config) {
	return &filtering.Config{
		BlockingMode:          z.bmode,
		BlockingIPv4:          netip.MustParseAddr("192.0.2.44"),
		BlockingIPv6:          netip.MustParseAddr("2001:db8:44::44"),
		BlockedResponseTTL:    10,
		SafeBrowsingBlockHost: zzG04SBHost,
		ParentalBlockHost:     zzG04ParHost,
		SafeSearchConf:        filtering.SafeSearchConfig{Enabled: true, Yandex: true},
		SafeSearchCacheSize:   1000,
		CacheTime:             30,
		BlockedServices:       zzG04Services(zzG04SvcG),
		Rewrites: []*filtering.LegacyRewrite{{
			Domain: "rw.g04.example", Answer: zzG04RwAddr,
		}},
		FilteringEnabled:    true,
		ParentalEnabled:     true,
		SafeBrowsingEnabled: true,
		ProtectionEnabled:   z.init == "on",
	}
}

// configModified is the ConfigModified callback of both the filter and the
// server: the configuration file is rewritten from the live objects.
func (z *zzG04Sys) configModified() {
	if z.f == nil {
		return
	}

	c := &filtering.Config{}
	z.f.WriteDiskConfig(c)
	b, err := yaml.Marshal(c)
	if err != nil {
		z.t.Fatalf("g04: yaml: %v", err)
	}

	z.disk = b
	z.nwrite++
}

// boot starts a "process" from the file.
func (z *zzG04Sys) boot() (err error) {
	zzG04InitOnce.Do(filtering.InitModule)

	ctx := context.Background()
	z.st, err = client.NewStorage(ctx, &client.StorageConfig{
		Logger: slogutil.NewDiscardLogger(), Clock: timeutil.SystemClock{}, DHCP: client.EmptyDHCP{},
	})
	if err != nil {
		return fmt.Errorf("client storage: %w", err)
	}

	err = z.st.Add(ctx, &client.Persistent{
		Name: "kid", UID: client.MustNewUID(),
		IPs:                   []netip.Addr{netip.MustParseAddr(zzG04Kid)},
		UseOwnSettings:        true,
		FilteringEnabled:      true,
		SafeBrowsingEnabled:   true,
		ParentalEnabled:       true,
		SafeSearchConf:        filtering.SafeSearchConfig{Enabled: true, Yandex: true},
		UseOwnBlockedServices: true,
		BlockedServices:       zzG04Services(zzG04SvcK),
	})
	if err != nil {
		return fmt.Errorf("adding client: %w", err)
	}

	fc := &filtering.Config{}
	if err = yaml.Unmarshal(z.disk, fc); err != nil {
		return fmt.Errorf("reading the file: %w", err)
	}

	if err = z.runtimeFields(fc); err != nil {
		return fmt.Errorf("runtime fields: %w", err)
	}

	z.f, err = filtering.New(fc, []filtering.Filter{
		{ID: 0, Data: []byte(zzG04CustomRules)},
		{ID: 7, Data: []byte(zzG04ListRules)},
	})
	if err != nil {
		return fmt.Errorf("filtering.New: %w", err)
	}

	z.f.SetEnabled(fc.FilteringEnabled)

	z.up = &zzG04Up{}
	z.s, err = NewServer(DNSCreateParams{
		DHCPServer: zzG04DHCP{}, DNSFilter: z.f,
		PrivateNets: netutil.SubnetSetFunc(netutil.IsLocallyServed),
		Logger:      slogutil.NewDiscardLogger(),
	})
	if err != nil {
		return fmt.Errorf("NewServer: %w", err)
	}

	sc := &ServerConfig{
		UDPListenAddrs: []*net.UDPAddr{{IP: net.IP{127, 0, 0, 1}}},
		TCPListenAddrs: []*net.TCPAddr{{IP: net.IP{127, 0, 0, 1}}},
		TLSConf:        &TLSConfig{},
		Config: Config{
			UpstreamMode:     UpstreamModeLoadBalance,
			EDNSClientSubnet: &EDNSClientSubnet{},
			ClientsContainer: z.st,
		},
		ConfigModified: z.configModified,
		ServePlainDNS:  true,
	}
	if z.cache {
		// The production default.
		sc.CacheSize = 4 * 1024 * 1024
	}

	if err = z.s.Prepare(sc); err != nil {
		return fmt.Errorf("Prepare: %w", err)
	}

	// As the package's own tests do: replace the upstreams after Prepare.
	z.s.conf.UpstreamConfig.Upstreams = []upstream.Upstream{z.up}
	z.vpend = false
	z.nboot++

	return nil
}

func (z *zzG04Sys) shutdown() {
	if z.s != nil {
		z.s.Close()
		z.s = nil
	}

	if z.f != nil {
		z.f.Close()
		z.f = nil
	}

	if z.st != nil {
		_ = z.st.Shutdown(context.Background())
		z.st = nil
	}
}

// reset starts a new history: a fresh file and a fresh process.
func (z *zzG04Sys) reset(seed int64) {
	z.shutdown()
	rng := rand.New(rand.NewSource(seed))
	z.cache = rng.Intn(2) == 0
	z.bmode = []filtering.BlockingMode{
		filtering.BlockingModeDefault, filtering.BlockingModeNullIP, filtering.BlockingModeNXDOMAIN,
		filtering.BlockingModeREFUSED, filtering.BlockingModeCustomIP,
	}[rng.Intn(5)]

	// A random phase, so that deadlines are not aligned with anything.
	time.Sleep(time.Duration(rng.Int63n(int64(time.Hour))))

	b, err := yaml.Marshal(z.initialConfig())
	if err != nil {
		z.t.Fatalf("g04: yaml: %v", err)
	}

	z.disk = b
	if err = z.boot(); err != nil {
		z.t.Fatalf("g04: boot: %v", err)
	}

	z.t0 = time.Now()
}

func (z *zzG04Sys) describe() (d string) {
	return fmt.Sprintf("unit=%s cache=%t mode=%s boots=%d writes=%d", z.unit, z.cache, z.bmode, z.nboot, z.nwrite)
}

// ------------------------------------------------------------------ actions

func zzG04Call(h http.HandlerFunc, method, path string, body []byte) (code int, resp []byte) {
	var rd io.Reader
	if body != nil {
		rd = bytes.NewReader(body)
	}

	r := httptest.NewRequest(method, path, rd)
	if body != nil {
		r.Header.Set("Content-Type", "application/json")
	}

	w := httptest.NewRecorder()
	h(w, r)

	return w.Code, w.Body.Bytes()
}

func zzG04Status(code int) (res string) {
	switch code {
	case http.StatusOK:
		return "ok"
	case http.StatusBadRequest, http.StatusUnprocessableEntity:
		return "rej"
	default:
		return "status:" + strconv.Itoa(code)
	}
}

// setProtection sends POST /control/protection.  ms < 0: no duration member.
func (z *zzG04Sys) setProtection(en bool, ms string) (res, detail string) {
	body := fmt.Sprintf(`{"enabled":%t}`, en)
	if ms != "" {
		body = fmt.Sprintf(`{"enabled":%t,"duration":%s}`, en, ms)
	}

	code, resp := zzG04Call(z.s.handleSetProtection, http.MethodPost, "/control/protection", []byte(body))

	return zzG04Status(code), fmt.Sprintf("%s -> %d %s", body, code, strings.TrimSpace(string(resp)))
}

// setFlag sends POST /control/dns_config with the protection_enabled member.
func (z *zzG04Sys) setFlag(en bool) (res, detail string) {
	body := fmt.Sprintf(`{"protection_enabled":%t}`, en)
	code, resp := zzG04Call(z.s.handleSetConfig, http.MethodPost, "/control/dns_config", []byte(body))

	return zzG04Status(code), fmt.Sprintf("%s -> %d %s", body, code, strings.TrimSpace(string(resp)))
}

// info sends GET /control/dns_info and returns protection_enabled and
// protection_disabled_until.
func (z *zzG04Sys) info() (en bool, until *time.Time, detail string, err error) {
	code, resp := zzG04Call(z.s.handleGetConfig, http.MethodGet, "/control/dns_info", nil)
	v := &struct {
		Enabled *bool      `json:"protection_enabled"`
		Until   *time.Time `json:"protection_disabled_until"`
	}{}
	if code != http.StatusOK {
		return false, nil, "", fmt.Errorf("dns_info: status %d", code)
	}

	if err = json.Unmarshal(resp, v); err != nil || v.Enabled == nil {
		return false, nil, "", fmt.Errorf("dns_info: %v in %s", err, resp)
	}

	return *v.Enabled, v.Until, fmt.Sprintf("protection_enabled=%t protection_disabled_until=%v", *v.Enabled, v.Until), nil
}

// zzG04Names are the names asked for each kind of query of the spec, by
// client (index 0: anonymous, 1: the persistent client).
var zzG04Names = map[string][2][]string{
	"rule":  {{"ads.g04.example", "sub.ads.g04.example", "hosts.g04.example", "custom.g04.example"}, {"ads.g04.example", "custom.g04.example", "hosts.g04.example"}},
	"svc":   {{"4chan.org", "boards.4chan.org", "4cdn.org"}, {"9gag.com", "img.9cache.com"}},
	"sb":    {{zzG04SBName}, {zzG04SBName}},
	"par":   {{zzG04ParName}, {zzG04ParName}},
	"ss":    {{"www.yandex.by", "www.yandex.com.am"}, {"www.yandex.az", "www.yandex.by"}},
	"cname": {{"alias.g04.example", "alias.cdn.g04.example"}, {"alias.g04.example"}},
	"rw":    {{"rw.g04.example"}, {"rw.g04.example"}},
	"clean": {{"clean.g04.example", "example.org"}, {"clean.g04.example", "9gag.org.example"}},
}

func zzG04MixCase(s string, rng *rand.Rand) (m string) {
	if rng.Intn(3) != 0 {
		return s
	}

	b := []byte(s)
	for i := range b {
		if b[i] >= 'a' && b[i] <= 'z' && rng.Intn(2) == 0 {
			b[i] -= 'a' - 'A'
		}
	}

	return string(b)
}

// query sends one A question through handleDNSRequest and classifies the
// answer: "up" the client got the upstream's answer, "rw" the rewrite's,
// "blk" neither (a synthetic answer without upstream data).
func (z *zzG04Sys) query(kind string, rng *rand.Rand) (res, detail string) {
	ci := rng.Intn(2)
	names := zzG04Names[kind][ci]
	if len(names) == 0 {
		return "unknown-kind", kind
	}

	name := zzG04MixCase(names[rng.Intn(len(names))], rng)
	cli := []string{zzG04Anon, zzG04Kid}[ci]
	m := &dns.Msg{}
	m.SetQuestion(dns.Fqdn(name), dns.TypeA)
	m.Id = uint16(rng.Intn(1 << 16))

	z.up.mu.Lock()
	before := z.up.calls
	z.up.mu.Unlock()

	z.reqID++
	pctx := &proxy.DNSContext{
		Proto: proxy.ProtoUDP, Req: m, RequestID: z.reqID,
		Addr: netip.AddrPortFrom(netip.MustParseAddr(cli), uint16(1024+rng.Intn(60000))),
	}
	herr := z.s.handleDNSRequest(z.s.dnsProxy, pctx)

	z.up.mu.Lock()
	calls := z.up.calls - before
	z.up.mu.Unlock()

	detail = fmt.Sprintf("%s A from %s: err=%v upstream_calls=%d", name, cli, herr, calls)
	if herr != nil || pctx.Res == nil {
		return "error", detail
	}

	var addrs []string
	for _, rr := range pctx.Res.Answer {
		if a, ok := rr.(*dns.A); ok {
			addrs = append(addrs, a.A.String())
		}
	}

	detail += fmt.Sprintf(" rcode=%s answer=%v", dns.RcodeToString[pctx.Res.Rcode], addrs)
	has := func(ip string) (ok bool) {
		for _, a := range addrs {
			if a == ip {
				return true
			}
		}

		return false
	}

	switch {
	case has(zzG04Sentinel) && pctx.Res.Rcode == dns.RcodeSuccess:
		return "up", detail
	case has(zzG04RwAddr):
		return "rw", detail
	default:
		// No upstream data.  A name blocked at the request stage must not
		// have been forwarded either.
		if kind != "cname" && calls != 0 {
			return "blk+forwarded", detail
		}

		return "blk", detail
	}
}

// wouldStart says whether the next observation finds a pause whose deadline
// has been reached and no worker in progress, i.e. starts the worker.
func (z *zzG04Sys) wouldStart() (ok bool) {
	_, until := z.f.ProtectionStatus()

	return until != nil && !time.Now().Before(*until) && !z.s.protectionUpdateInProgress.Load()
}

// observe runs f, an observation (dns_info read or query).  lazy: if it would
// start the write-back worker, the worker is held back (vpend) instead of
// running in its goroutine; otherwise the real goroutine runs to completion
// (synctest.Wait) before observe returns.  started says whether the worker
// was started by this observation.
func (z *zzG04Sys) observe(lazy bool, f func()) (started bool) {
	started = z.wouldStart()
	if started && lazy {
		z.s.protectionUpdateInProgress.Store(true)
		z.vpend = true
	}

	f()
	synctest.Wait()

	return started
}

// worker lets the held-back worker run.
func (z *zzG04Sys) worker() {
	z.s.enableProtectionAfterPause()
	z.vpend = false
}

// restart stops the process and starts a new one from the file.
func (z *zzG04Sys) restart() (err error) {
	z.shutdown()

	return z.boot()
}

// ------------------------------------------------------------- abstraction

// zzG04Stored is the stored pair: the flag and the deadline (nil: none).
type zzG04Stored struct {
	en    bool
	until *time.Time
}

func (z *zzG04Sys) mem() (st zzG04Stored) {
	st.en, st.until = z.f.ProtectionStatus()

	return st
}

func (z *zzG04Sys) onDisk() (st zzG04Stored, err error) {
	v := &struct {
		En    bool       `yaml:"protection_enabled"`
		Until *time.Time `yaml:"protection_disabled_until"`
	}{}
	err = yaml.Unmarshal(z.disk, v)

	return zzG04Stored{en: v.En, until: v.Until}, err
}

// zzG04Units renders d in units, exactly.
func zzG04Units(d, unit time.Duration) (s string) {
	if d%unit == 0 {
		return strconv.FormatInt(int64(d/unit), 10)
	}

	return fmt.Sprintf("%d/%d", int64(d), int64(unit))
}

// rel is Rel of Protection.tla for a stored pair: "on", "off", "p<ticks
// left>", "pF" (forever), "pP" (deadline in the past); a set flag together
// with a deadline has no counterpart in the spec and is shown as such.
func (z *zzG04Sys) rel(st zzG04Stored) (s string) {
	if st.until == nil {
		if st.en {
			return "on"
		}

		return "off"
	}

	p := "p"
	if st.en {
		p = "FLAG+p"
	}

	left := st.until.Sub(time.Now())
	switch {
	case left < 0:
		return p + "P"
	case left >= time.Duration(zzG04Horizon)*time.Millisecond:
		return p + "F"
	default:
		return p + zzG04Units(left, z.unit)
	}
}

// state is the projected state: memory, worker pending; what the file holds
// is shown only when it differs from memory (the spec has one state: a
// restart must change nothing).
func (z *zzG04Sys) state() (s string) {
	s = z.rel(z.mem())
	d, err := z.onDisk()
	if err != nil {
		return s + "!disk:" + err.Error()
	}

	if ds := z.rel(d); ds != s {
		s += "!disk=" + ds
	}

	pend := z.s.protectionUpdateInProgress.Load()
	if pend != z.vpend {
		s += fmt.Sprintf("!inprogress=%t", pend)
	}

	if pend {
		s += "+w"
	}

	return s
}

// ------------------------------------------------------------------ probe

// TestZZVerifG04Probe is a smoke test of the machinery.
func TestZZVerifG04Probe(t *testing.T) {
	synctest.Run(func() {
		z := &zzG04Sys{t: t, dir: t.TempDir(), unit: time.Second, init: "on"}
		z.reset(1)
		defer z.shutdown()

		rng := rand.New(rand.NewSource(1))
		t.Logf("state %s", z.state())
		for _, k := range []string{"rule", "svc", "sb", "par", "ss", "cname", "rw", "clean"} {
			r, d := z.query(k, rng)
			t.Logf("query %s: %s (%s)", k, r, d)
		}

		r, d := z.setProtection(false, "3000")
		t.Logf("set: %s %s; state %s", r, d, z.state())
		for _, k := range []string{"rule", "svc", "sb", "par", "ss", "cname", "rw", "clean"} {
			r, d = z.query(k, rng)
			t.Logf("query %s: %s (%s)", k, r, d)
		}

		en, until, d, err := z.info()
		t.Logf("info: %t %v %s %v", en, until, d, err)
		time.Sleep(3 * time.Second)
		t.Logf("state %s", z.state())
		started := z.observe(true, func() { r, d = z.query("rule", rng) })
		t.Logf("query rule: %s (%s) started=%t state %s", r, d, started, z.state())
		r, d = z.setFlag(false)
		t.Logf("flag: %s %s; state %s", r, d, z.state())
		z.worker()
		t.Logf("worker; state %s", z.state())
		r, d = z.setProtection(false, "18446744073710")
		t.Logf("set: %s %s; state %s", r, d, z.state())
		if err = z.restart(); err != nil {
			t.Fatalf("restart: %v", err)
		}
		t.Logf("restart; state %s", z.state())
		t.Logf("disk:\n%s", z.disk)
	})

	_ = os.Getenv
	_ = sort.Strings
}
