SPECIFICATION SpecGen02
CONSTANT AllModes = TRUE
INVARIANTS Gen_C02
