package home

// C14 conformance harness, configuration-file writer.  See the comment in
// harness/internal/filtering/zz_verif_c14_test.go for the child-process
// protocol; the driver part (zzC14Run and friends) is the same text in the
// three packages.
//
// Writers:
//
//   - "config": the real save path of the configuration file, driven through
//     the HTTP handler of PUT /control/profile/update, which ends in
//     onConfigModified -> config.write -> maybe.WriteFile.  The document size
//     is varied through the user rules kept in the configuration.
//   - "config-upgrade": parseConfig on an AdGuardHome.yaml of an older schema
//     version, which rewrites the file after the migration.

import (
	"bytes"
	"crypto/sha256"
	"encoding/hex"
	"encoding/json"
	"fmt"
	"net/http"
	"net/http/httptest"
	"os"
	"os/signal"
	"path/filepath"
	"strings"
	"sync"
	"sync/atomic"
	"syscall"
	"testing"
	"time"
	"unsafe"

	"github.com/AdguardTeam/AdGuardHome/internal/client"
	"github.com/AdguardTeam/AdGuardHome/internal/configmigrate"
	"github.com/AdguardTeam/AdGuardHome/internal/filtering"
	"github.com/AdguardTeam/golibs/logutil/slogutil"
	"github.com/AdguardTeam/golibs/testutil"
	"gopkg.in/yaml.v3"
)

// zzC14Spec is the scenario description passed in ZZC14_SPEC.
type zzC14Spec struct {
	Mode   string `json:"mode"`   // "trace" | "poll" | "crash"
	Writer string `json:"writer"` // "filter"
	Root   string `json:"root"`   // scratch root, exists, empty
	Out    string `json:"out"`    // NDJSON result file
	Sizes  []int  `json:"sizes"`  // requested document size per save
	Seed   int64  `json:"seed"`
	// MaxReads bounds the number of reads of the concurrent reader.
	MaxReads int `json:"maxreads"`
	// Resume: the scratch root is what an earlier (killed) child left behind;
	// set-up must take the destination and everything else as it finds them.
	Resume bool `json:"resume"`
	// Gen distinguishes the documents of successive children on one root.
	Gen int `json:"gen"`
	// Faults, parallel to Sizes: the failure injected into that save ("":
	// none), see zzC14Fault.
	Faults []string `json:"faults"`
	// Serve, parallel to Sizes (filter writer only): how the new list is
	// offered: "" or "length" (HTTP with Content-Length), "chunked" (HTTP,
	// size not announced), "file" (a local source file).
	Serve []string `json:"serve"`
}

// zzC14Writer is one of the real save paths.
type zzC14Writer interface {
	// setup prepares everything and returns the destination path and the
	// size of the document that is there already (-1: none).
	setup(t *testing.T, sp *zzC14Spec) (dst string, init int)
	// save performs the real save of version ver with the requested size.
	save(t *testing.T, ver, size int) (err error)
	// check reports whether data is the complete document of version ver.
	check(ver int, data []byte) (ok bool)
	// intended returns -1 if save number ver is expected to install version
	// ver, and otherwise (a save that is made to fail on purpose) the size
	// the document would have had: the path must then keep what it holds.
	intended(ver int) (size int)
}

// zzC14Mark issues a system call that is visible, in order, in the strace
// log and has no effect.
func zzC14Mark(s string) {
	f, err := os.Open("/zzc14/" + s)
	if err == nil {
		_ = f.Close()
	}
}

func zzC14Sha(b []byte) (s string) {
	h := sha256.Sum256(b)

	return hex.EncodeToString(h[:8])
}

// zzC14Log is the event log of a run.
type zzC14Log struct {
	mu   sync.Mutex
	rows []map[string]any
}

func (l *zzC14Log) add(r map[string]any) {
	l.mu.Lock()
	defer l.mu.Unlock()

	l.rows = append(l.rows, r)
}

func (l *zzC14Log) flush(t *testing.T, p string) {
	l.mu.Lock()
	defer l.mu.Unlock()

	buf := &bytes.Buffer{}
	for _, r := range l.rows {
		b, err := json.Marshal(r)
		if err != nil {
			t.Fatalf("c14: %v", err)
		}

		buf.Write(b)
		buf.WriteByte('\n')
	}

	if err := os.WriteFile(p, buf.Bytes(), 0o644); err != nil {
		t.Fatalf("c14: %v", err)
	}
}

// zzC14Run is the scenario driver shared by the modes.
func zzC14Run(t *testing.T, sp *zzC14Spec, w zzC14Writer) {
	lg := &zzC14Log{}
	zzC14Mark("setup")
	dst, init := w.setup(t, sp)
	lg.add(map[string]any{"ev": "meta", "dst": dst, "init": init, "writer": sp.Writer, "mode": sp.Mode})

	ver := 0
	last := 0 // the version the path holds now; 0: none
	shas := map[string]int{}
	if init >= 0 {
		ver, last = 1, 1
		data, err := os.ReadFile(dst)
		if err != nil || len(data) != init {
			t.Fatalf("c14: initial document: %v (%d bytes, want %d)", err, len(data), init)
		}

		shas[zzC14Sha(data)] = 1
	}

	zzC14Mark(fmt.Sprintf("arm/%d", init))
	lg.add(map[string]any{"ev": "arm", "n": init})

	var stop atomic.Bool
	var wg sync.WaitGroup
	type obs struct {
		sha string
		row map[string]any
	}
	var seen []obs
	if sp.Mode == "poll" {
		wg.Add(1)
		go func() {
			defer wg.Done()

			for id := 1; !stop.Load() && id <= sp.MaxReads; id++ {
				lg.add(map[string]any{"ev": "rbegin", "id": id})
				data, err := os.ReadFile(dst)
				row := map[string]any{"ev": "rend", "id": id, "n": len(data)}
				if err != nil {
					row["enoent"] = os.IsNotExist(err)
					row["err"] = err.Error()
				}

				// The version is resolved after the run, when the digest
				// of every version is known.
				seen = append(seen, obs{sha: zzC14Sha(data), row: row})
				lg.add(row)
				if id%64 == 0 {
					time.Sleep(50 * time.Microsecond)
				}
			}
		}()
	}

	for i, size := range sp.Sizes {
		if sp.Mode == "crash" && i == len(sp.Sizes)-1 {
			zzC14CrashWatcher(dst)
		}

		fault := ""
		if i < len(sp.Faults) {
			fault = sp.Faults[i]
		}

		ver++
		lg.add(map[string]any{"ev": "begin", "id": ver, "want": size})
		// What the harness itself has to write for this save (a source
		// file) is written before the environment turns hostile.
		if p, ok := w.(interface {
			prepare(t *testing.T, ver, size int)
		}); ok {
			p.prepare(t, ver, size)
		}

		undo, faulted := zzC14Fault(t, fault, dst)
		zzC14Mark(fmt.Sprintf("begin/%d", ver))
		err := w.save(t, ver, size)
		zzC14Mark(fmt.Sprintf("end/%d", ver))
		undo()

		row := map[string]any{"ev": "end", "id": ver}
		if err != nil {
			row["err"] = err.Error()
		}

		// is: the version found at the path after the save (0: no file,
		// -1: not a complete version).
		data, rerr := os.ReadFile(dst)
		is := -1
		switch {
		case rerr != nil && os.IsNotExist(rerr):
			is = 0
		case rerr != nil:
			row["readerr"] = rerr.Error()
		case w.check(ver, data):
			is = ver
		default:
			if v, known := shas[zzC14Sha(data)]; known {
				is = v
			}
		}

		row["n"] = len(data)
		row["is"] = is
		row["sha"] = zzC14Sha(data)
		if fault != "" {
			row["fault"] = fault
			row["faulted"] = faulted
		}

		if want := w.intended(ver); want >= 0 {
			row["noop"] = true
			row["decl"] = want
			row["ok"] = is == last
		} else if faulted && is != ver {
			// The save failed under the injected fault: there is no new
			// version, the path must hold what it held.
			row["noop"] = true
			row["decl"] = -1
			row["ok"] = is == last
		} else {
			row["decl"] = len(data)
			row["ok"] = is == ver
		}

		if is == ver {
			shas[zzC14Sha(data)] = ver
			last = ver
		}

		lg.add(row)
	}

	stop.Store(true)
	wg.Wait()
	zzC14Mark("done")

	for _, o := range seen {
		if v, ok := shas[o.sha]; ok && o.row["err"] == nil {
			o.row["ver"] = v
		} else if o.row["enoent"] == true {
			o.row["ver"] = -2
		} else {
			o.row["ver"] = -1
		}
	}

	lg.add(map[string]any{"ev": "done"})
	lg.flush(t, sp.Out)
}

// zzC14CrashWatcher is the "power cord" of the crash mode: as soon as a file
// that did not exist before the last save shows up next to the destination
// (or in TMPDIR) with a non-zero, no longer growing size -- i.e. the writer is
// somewhere between its last write and the end of the save -- the whole
// process is killed with SIGKILL.  Whatever it leaves behind (typically a
// left-over temporary file) is the starting state of the next child.
func zzC14CrashWatcher(dst string) {
	dirs := []string{filepath.Dir(dst)}
	if td := os.TempDir(); td != dirs[0] {
		dirs = append(dirs, td)
	}

	known := map[string]bool{dst: true}
	for _, d := range dirs {
		ents, _ := os.ReadDir(d)
		for _, e := range ents {
			known[filepath.Join(d, e.Name())] = true
		}
	}

	go func() {
		last := map[string]int64{}
		for {
			for _, d := range dirs {
				ents, _ := os.ReadDir(d)
				for _, e := range ents {
					p := filepath.Join(d, e.Name())
					if known[p] || e.IsDir() {
						continue
					}

					fi, err := e.Info()
					if err != nil {
						continue
					}

					if n := fi.Size(); n > 0 && last[p] == n {
						_ = syscall.Kill(syscall.Getpid(), syscall.SIGKILL)
					} else {
						last[p] = n
					}
				}
			}

			time.Sleep(100 * time.Microsecond)
		}
	}()
}

// zzC14SetImmutable sets or clears the immutable attribute of p.
func zzC14SetImmutable(p string, on bool) (err error) {
	const (
		getFlags = 0x80086601 // FS_IOC_GETFLAGS
		setFlags = 0x40086602 // FS_IOC_SETFLAGS
		immFlag  = 0x10       // FS_IMMUTABLE_FL
	)

	f, err := os.Open(p)
	if err != nil {
		return err
	}
	defer func() { _ = f.Close() }()

	var fl int64
	_, _, en := syscall.Syscall(syscall.SYS_IOCTL, f.Fd(), getFlags, uintptr(unsafe.Pointer(&fl)))
	if en != 0 {
		return en
	}

	if on {
		fl |= immFlag
	} else {
		fl &^= immFlag
	}

	_, _, en = syscall.Syscall(syscall.SYS_IOCTL, f.Fd(), setFlags, uintptr(unsafe.Pointer(&fl)))
	if en != 0 {
		return en
	}

	return nil
}

// zzC14Fault makes the environment hostile for the duration of one save and
// returns the function that undoes it.  A failing system call is a point of a
// save like any other: the path must keep the complete previous version (or
// get the complete new one).  Kinds:
//
//	fsize:K  RLIMIT_FSIZE = K bytes with SIGXFSZ ignored: every write beyond
//	         K bytes of any file is cut short / fails with EFBIG ("disk full");
//	nodir    the destination's directory is moved away: creating the
//	         temporary file fails with ENOENT;
//	immdir   the directory is immutable: creating fails with EPERM;
//	immdst   the destination file is immutable: the rename onto it (and any
//	         open for writing) fails with EPERM.
//
// applied is false if the fault cannot be produced here (then the save runs
// undisturbed).
func zzC14Fault(t *testing.T, kind, dst string) (undo func(), applied bool) {
	dir := filepath.Dir(dst)
	switch {
	case kind == "":
		return func() {}, false
	case strings.HasPrefix(kind, "fsize:"):
		var k uint64
		_, _ = fmt.Sscanf(kind, "fsize:%d", &k)
		old := syscall.Rlimit{}
		if err := syscall.Getrlimit(syscall.RLIMIT_FSIZE, &old); err != nil {
			return func() {}, false
		}

		signal.Ignore(syscall.SIGXFSZ)
		if err := syscall.Setrlimit(syscall.RLIMIT_FSIZE, &syscall.Rlimit{Cur: k, Max: old.Max}); err != nil {
			return func() {}, false
		}

		return func() {
			if err := syscall.Setrlimit(syscall.RLIMIT_FSIZE, &old); err != nil {
				t.Fatalf("c14: restoring RLIMIT_FSIZE: %v", err)
			}
		}, true
	case kind == "nodir":
		away := dir + ".zzc14away"
		if err := os.Rename(dir, away); err != nil {
			return func() {}, false
		}

		return func() {
			if err := os.Rename(away, dir); err != nil {
				t.Fatalf("c14: moving the directory back: %v", err)
			}
		}, true
	case kind == "immdir" || kind == "immdst":
		p := dir
		if kind == "immdst" {
			p = dst
		}

		if err := zzC14SetImmutable(p, true); err != nil {
			return func() {}, false
		}

		return func() {
			if err := zzC14SetImmutable(p, false); err != nil {
				t.Fatalf("c14: clearing the immutable attribute of %q: %v", p, err)
			}
		}, true
	default:
		t.Fatalf("c14: unknown fault %q", kind)

		return nil, false
	}
}

func zzC14LoadSpec(t *testing.T) (sp *zzC14Spec) {
	s := os.Getenv("ZZC14_SPEC")
	if s == "" {
		t.Skip("no ZZC14_SPEC")
	}

	sp = &zzC14Spec{}
	if err := json.Unmarshal([]byte(s), sp); err != nil {
		t.Fatalf("c14: spec: %v", err)
	}

	return sp
}

// zzC14Doc is the part of the configuration document the harness looks at.
// schema_version is the last key of the document.
type zzC14Doc struct {
	Language      string   `yaml:"language"`
	Theme         string   `yaml:"theme"`
	UserRules     []string `yaml:"user_rules"`
	SchemaVersion uint     `yaml:"schema_version"`
}

// zzC14Rules returns the user rules of version ver: a marker line and filler
// rules, size bytes in total.
func zzC14Rules(gen, ver, size int) (rules []string) {
	rules = []string{fmt.Sprintf("# zzc14 g%d v%d", gen, ver)}
	const line = "||abcdefghijklmnopqrstuvwxyz0123456789-abcdefghijklmnopqrstuvwxyz0123456789.example^"
	for n := len(rules[0]); n < size; n += len(line) + 3 {
		rules = append(rules, line)
	}

	return rules
}

// zzC14SyncPath makes a file prepared by the harness and its directory
// durable, so that "arm" can truthfully declare it the previous version.
func zzC14SyncPath(t *testing.T, p string) {
	for _, q := range []string{p, filepath.Dir(p)} {
		f, err := os.Open(q)
		if err != nil {
			t.Fatalf("c14: %v", err)
		}

		if err = f.Sync(); err != nil {
			t.Fatalf("c14: %v", err)
		}

		_ = f.Close()
	}
}

// zzC14Globals points the package's global state at the scratch directory the
// way the package's own tests do.
func zzC14Globals(t *testing.T, sp *zzC14Spec) (dst string) {
	workDir := filepath.Join(sp.Root, "work")
	if err := os.MkdirAll(workDir, 0o755); err != nil {
		t.Fatalf("c14: %v", err)
	}

	globalContext.workDir = workDir
	globalContext.confFilePath = filepath.Join(workDir, "AdGuardHome.yaml")

	if globalContext.clients.storage == nil {
		globalContext.clients.testing = true
		ctx := testutil.ContextWithTimeout(t, time.Minute)
		err := globalContext.clients.Init(
			ctx,
			slogutil.NewDiscardLogger(),
			nil,
			client.EmptyDHCP{},
			nil,
			nil,
			&filtering.Config{},
			newSignalHandler(nil, nil),
		)
		if err != nil {
			t.Fatalf("c14: clients init: %v", err)
		}
	}

	return globalContext.confFilePath
}

// zzC14Config drives the configuration save.
type zzC14Config struct {
	sp     *zzC14Spec
	rules  map[int]int
	themes map[int]Theme
}

func (w *zzC14Config) setup(t *testing.T, sp *zzC14Spec) (dst string, init int) {
	w.sp = sp
	w.rules = map[int]int{}
	w.themes = map[int]Theme{}

	dst = zzC14Globals(t, sp)
	init = -1
	if fi, serr := os.Stat(dst); sp.Resume && serr == nil {
		init = int(fi.Size())
	}

	return dst, init
}

func (w *zzC14Config) save(t *testing.T, ver, size int) (err error) {
	rules := zzC14Rules(w.sp.Gen, ver, size)
	func() {
		config.Lock()
		defer config.Unlock()

		config.UserRules = rules
	}()

	theme := []Theme{ThemeAuto, ThemeDark, ThemeLight}[ver%3]
	w.rules[ver] = len(rules)
	w.themes[ver] = theme

	body, _ := json.Marshal(map[string]any{"name": "", "language": "en", "theme": theme})
	rec := httptest.NewRecorder()
	req := httptest.NewRequest(http.MethodPut, "/control/profile/update", bytes.NewReader(body))
	req.Header.Set("Content-Type", "application/json")
	handlePutProfile(rec, req)
	if rec.Code != http.StatusOK {
		return fmt.Errorf("profile update: status %d: %s", rec.Code, rec.Body.String())
	}

	return nil
}

func (w *zzC14Config) check(ver int, data []byte) (ok bool) {
	doc := &zzC14Doc{}
	if err := yaml.Unmarshal(data, doc); err != nil {
		return false
	}

	return doc.SchemaVersion == configmigrate.LastSchemaVersion &&
		doc.Theme == string(w.themes[ver]) &&
		len(doc.UserRules) == w.rules[ver] &&
		doc.UserRules[0] == fmt.Sprintf("# zzc14 g%d v%d", w.sp.Gen, ver) &&
		bytes.HasSuffix(data, []byte(fmt.Sprintf("schema_version: %d\n", configmigrate.LastSchemaVersion)))
}

// zzC14Upgrade drives the rewrite of the configuration file after a schema
// migration.
type zzC14Upgrade struct {
	rules int
}

func (w *zzC14Upgrade) setup(t *testing.T, sp *zzC14Spec) (dst string, init int) {
	dst = zzC14Globals(t, sp)

	size := 0
	if len(sp.Sizes) > 0 {
		size = sp.Sizes[0]
	}

	rules := zzC14Rules(0, 1, size)
	w.rules = len(rules)

	buf := &bytes.Buffer{}
	buf.WriteString("http:\n  address: 127.0.0.1:3000\n  session_ttl: 720h\n")
	buf.WriteString("dns:\n  bind_hosts:\n    - 127.0.0.1\n  port: 5353\n")
	buf.WriteString("user_rules:\n")
	for _, r := range rules {
		fmt.Fprintf(buf, "  - %q\n", r)
	}

	buf.WriteString("schema_version: 24\n")
	if err := os.WriteFile(dst, buf.Bytes(), 0o644); err != nil {
		t.Fatalf("c14: %v", err)
	}

	zzC14SyncPath(t, dst)

	return dst, buf.Len()
}

func (w *zzC14Upgrade) save(t *testing.T, ver, size int) (err error) {
	config.fileData = nil
	// The result of the later validation of the upgraded document is not
	// what is looked at here: the file has been rewritten by then.
	perr := parseConfig()
	if perr != nil {
		t.Logf("c14: parseConfig: %v", perr)
	}

	return nil
}

func (w *zzC14Upgrade) check(ver int, data []byte) (ok bool) {
	doc := &zzC14Doc{}
	if err := yaml.Unmarshal(data, doc); err != nil {
		return false
	}

	return doc.SchemaVersion == configmigrate.LastSchemaVersion &&
		len(doc.UserRules) == w.rules &&
		doc.UserRules[0] == "# zzc14 g0 v1"
}

func (w *zzC14Config) intended(ver int) (size int) { return -1 }

func (w *zzC14Upgrade) intended(ver int) (size int) { return -1 }

func TestZZVerifC14Child(t *testing.T) {
	sp := zzC14LoadSpec(t)
	switch sp.Writer {
	case "config":
		zzC14Run(t, sp, &zzC14Config{})
	case "config-upgrade":
		sp.Sizes = sp.Sizes[:1]
		zzC14Run(t, sp, &zzC14Upgrade{})
	default:
		t.Fatalf("c14: unknown writer %q", sp.Writer)
	}
}

var _ = strings.Repeat
