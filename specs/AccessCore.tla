----------------------------- MODULE AccessCore -----------------------------
(***************************************************************************)
(* C03 -- access lists: the decision procedure, written from the STATEMENT *)
(* of the property and not from the control flow of access.go /            *)
(* IsBlockedClient / HandleBefore.  Pure operators only (no constants, no  *)
(* variables): Access.tla builds the state machine and the exhaustive      *)
(* universes on top of it, TraceAccess.tla re-evaluates the very same      *)
(* operators on decisions logged from the real server over a larger        *)
(* universe.                                                               *)
(*                                                                         *)
(* Vocabulary (DESIGN.md section 3):                                       *)
(*                                                                         *)
(*  address  [fam, bits]   fam \in {"v4","v6"}, bits a 0/1 sequence of the *)
(*           universe's width W (4 exhaustively, 8 in traces).  The        *)
(*           *presentation* of an address on the wire (plain, IPv4-mapped  *)
(*           IPv6 "::ffff:a.b.c.d", IPv6 with a zone "%eth0") is a field   *)
(*           of the request (form) that NO operator below looks at: a      *)
(*           4-in-6 address IS the IPv4 address, a zoned address IS the    *)
(*           IPv6 address.  The statement quantifies over these forms and  *)
(*           gives them no meaning of their own.                           *)
(*  entry    an element of the allowed / disallowed list:                  *)
(*             Ip(fam, bits)    one address                                *)
(*             Cidr(fam, p)     prefix p (a 0/1 sequence, Len(p) = prefix  *)
(*                              length inside the variable bits)           *)
(*             Id(c)            a ClientID written in lower case           *)
(*             IdM(c)           the same ClientID written in another       *)
(*                              letter case ("Client-1")                   *)
(*             IpM(b), CidrM(p) an IPv4 address / prefix written in        *)
(*                              IPv4-mapped IPv6 form ("::ffff:1.2.3.4",   *)
(*                              "::ffff:1.2.3.0/120")                      *)
(*           The field sp records how an entry is written; like the form   *)
(*           of a request address, NO operator reads it: ClientIDs are     *)
(*           compared up to ASCII letter case on both sides, and address   *)
(*           identity is up to the 4-in-6 mapping on both sides (a prefix  *)
(*           at or beyond ::ffff:0:0/96 denotes the IPv4 prefix).          *)
(*           All are records of ONE shape so that TLC may compare them and *)
(*           ToJson prints them uniformly.                                 *)
(*  name     sequence of labels, canonical spelling, e.g. <<"b","a","com">>*)
(*  pattern  [k, n, qt]: k \in {"exact","domain","wild","all"} for          *)
(*           n , ||n^ , *.n , ||*^ ; qt = "" or a query type to which the  *)
(*           rule is restricted ($dnstype=qt); k = "re" for one of the     *)
(*           regular-expression rules of ReMatches, n = <<shape>>; wl =    *)
(*           TRUE for an exception rule (@@...)                            *)
(*  request  [addr, form, id, idcase, name, spell, qtype, proto]           *)
(*           id = "" when the client sent no ClientID; idcase / spell /    *)
(*           form are carried only so that the statement's quantifiers are *)
(*           visible: no operator reads them.  qtype is read only by       *)
(*           type-restricted patterns.                                     *)
(***************************************************************************)
EXTENDS Naturals, Sequences, FiniteSets

NoId == ""

Ip(f, b)   == [k |-> "ip",   fam |-> f,  bits |-> b,    id |-> NoId, sp |-> "lower"]
Cidr(f, p) == [k |-> "cidr", fam |-> f,  bits |-> p,    id |-> NoId, sp |-> "lower"]
Id(c)      == [k |-> "id",   fam |-> "", bits |-> <<>>, id |-> c,    sp |-> "lower"]
IdM(c)     == [k |-> "id",   fam |-> "", bits |-> <<>>, id |-> c,    sp |-> "mixed"]
IpM(b)     == [k |-> "ip",   fam |-> "v4", bits |-> b,  id |-> NoId, sp |-> "mapped"]
CidrM(p)   == [k |-> "cidr", fam |-> "v4", bits |-> p,  id |-> NoId, sp |-> "mapped"]

\* The ClientID of a request whose ClientID label is not a valid label (C16:
\* such a request fails).  It names no client.
BadId == "~bad"

Pat(k, n)      == [k |-> k, n |-> n, qt |-> "", wl |-> FALSE, fq |-> FALSE]
PatT(k, n, qt) == [k |-> k, n |-> n, qt |-> qt, wl |-> FALSE, fq |-> FALSE]
\* The same exact name / wildcard written fully qualified, with the final dot
\* ("ads.com.", "*.ads.com."): a legal spelling of a domain name.  Like sp of
\* a client entry, fq is read by NO operator.
PatF(k, n)     == [k |-> k, n |-> n, qt |-> "", wl |-> FALSE, fq |-> TRUE]
\* Exception rules ("@@" in the list's AdBlock-style syntax): the names they
\* match are excepted from the list, not put on it.
PatX(k, n)      == [k |-> k, n |-> n, qt |-> "", wl |-> TRUE, fq |-> FALSE]
PatXT(k, n, qt) == [k |-> k, n |-> n, qt |-> qt, wl |-> TRUE, fq |-> FALSE]

\* ----------------------------------------------------------------- addresses
\* p is a prefix of the bit string b ("Contains" of section 3).
IsPrefix(p, b) == /\ Len(p) <= Len(b)
                  /\ \A i \in 1..Len(p) : p[i] = b[i]

\* Entry e names the address a.  Families never mix: an IPv4 prefix of length
\* 0 contains every IPv4 address and no IPv6 address.
EntryHasAddr(e, a) ==
    /\ e.fam = a.fam
    /\ \/ e.k = "ip"   /\ e.bits = a.bits
       \/ e.k = "cidr" /\ IsPrefix(e.bits, a.bits)

\* Entry e names the ClientID c.  A request without a (valid) ClientID is
\* named by no entry ("absent" in the statement's quantifier).  The statement
\* quantifies over ClientIDs "present, absent, differing case": the letter
\* case differs on either side -- in the request (idcase) or in the entry
\* (e.sp) -- and never matters.
EntryHasId(e, c) == e.k = "id" /\ c \notin {NoId, BadId} /\ e.id = c

\* "its address or its ClientID is <on the list>".
Listed(list, a, c) == \E e \in list : EntryHasAddr(e, a) \/ EntryHasId(e, c)

\* ------------------------------------------------------------ client decision
\* "If the allowed list is non-empty a client is admitted exactly when its
\*  address or its ClientID is allowed (the disallowed list is then ignored);
\*  otherwise it is excluded exactly when its address or ClientID is
\*  disallowed."  cfg is always the configuration posted LAST, as posted:
\* nothing of an earlier configuration enters the decision.
AllowListMode(cfg) == cfg.allowed # {}

Excluded(cfg, a, c) ==
    IF AllowListMode(cfg)
    THEN ~Listed(cfg.allowed, a, c)
    ELSE Listed(cfg.disallowed, a, c)
Admitted(cfg, a, c) == ~Excluded(cfg, a, c)

\* --------------------------------------------------------------------- names
IsSuffix(s, n) == /\ Len(s) <= Len(n)
                  /\ \A i \in 1..Len(s) : s[i] = n[Len(n) - Len(s) + i]

\* s occurs in n as a run of whole labels that starts after at least one
\* label and ends before the end of n (i.e. s followed by more labels).
OccursInside(s, n) ==
    \E off \in 1..(Len(n) - Len(s) - 1) : \A i \in 1..Len(s) : s[i] = n[off + i]

\* Regular-expression rules (/re/ in the rule engine's syntax: matched against
\* the whole lower-cased name, case-insensitively).  Regular expressions are
\* not re-implemented here; three fixed expressions are transcribed to the
\* label vocabulary, the classes naming the labels of both vocabularies
\* (exhaustive universe / traces) that have the shape in question:
\*   "nondigit"  /^ads\D+\.com$/     the name's text is "ads", then one or more
\*                                   non-digits (dots included: the run may
\*                                   span labels), then ".com"
\*   "capital"   /^Beta\.COM$/        capital literals: still beta.com
\*   "named"     /^(?P<sub>ads|beta)\.org$/    named group: ads.org, beta.org
AdsLabel     == {"a", "ads"}
BetaLabel    == {"b", "beta"}
AdsNonDigits == {"ar", "adsrv"}      \* "ads" + non-digits
AdsDigits    == {"a1", "ads1"}       \* "ads" + digits; the only labels with a digit
ReMatches(shape, n) ==
    CASE shape = "nondigit" ->
           /\ Len(n) >= 2 /\ n[Len(n)] = "com"
           /\ n[1] \in AdsLabel \cup AdsNonDigits
           /\ (Len(n) = 2 => n[1] \in AdsNonDigits)
           /\ \A i \in 1..(Len(n) - 1) : n[i] \notin AdsDigits
      [] shape = "capital"  -> Len(n) = 2 /\ n[2] = "com" /\ n[1] \in BetaLabel
      [] shape = "named"    -> Len(n) = 2 /\ n[2] = "org" /\ n[1] \in AdsLabel \cup BetaLabel

\* The name n, asked with query type q, is on the list because of pattern p.
\*   exact  n0   : that very name
\*   domain n0   : ||n0^  -- n0 and every subdomain of n0
\*   wild   n0   : *.n0   -- every proper subdomain of n0
\*   all         : ||*^   -- every name
\* and, if the pattern is restricted to a query type ($dnstype=qt), only for
\* requests of that type.
TypeOk(p, q) == p.qt = "" \/ p.qt = q
NameOnListBy(p, n) ==
    CASE p.k = "exact"  -> n = p.n
      [] p.k = "domain" -> IsSuffix(p.n, n)
      [] p.k = "wild"   -> IsSuffix(p.n, n) /\ Len(n) > Len(p.n)
      [] p.k = "all"    -> TRUE
      [] p.k = "re"     -> ReMatches(p.n[1], n)
OnListBy(p, n, q) == TypeOk(p, q) /\ NameOnListBy(p, n)

\* The blocked-hosts list is written in the rule engine's adblock syntax, in
\* which "*.n0" is a wildcard over the text of the name: it also matches
\* "x.n0.evil.org".  The statement ("a name on the blocked-hosts list") does
\* not say whether such a name is "on the list", so for exactly this shape
\* both answers are admissible.
Undetermined(p, n, q) ==
    p.k = "wild" /\ TypeOk(p, q) /\ ~NameOnListBy(p, n) /\ OccursInside(p.n, n)

\* Set of admissible answers to "is name n / type q on the blocked-hosts list H".
\* An exception rule that matches wins over every blocking rule that matches
\* (the rule engine's precedence without $important, which is not generated):
\* an excepted name is not "a name on the blocked-hosts list", whether a blocking
\* rule stands around it or not, and its requests are "other requests".
Excepted(H, n, q) == \E p \in H : p.wl /\ OnListBy(p, n, q)
HostBlocked(H, n, q) ==
    IF Excepted(H, n, q) THEN {FALSE}
    ELSE IF \E p \in H : ~p.wl /\ OnListBy(p, n, q) THEN {TRUE}
    ELSE IF \E p \in H : ~p.wl /\ Undetermined(p, n, q) THEN {TRUE, FALSE}
    ELSE {FALSE}

\* What an empty blocked-hosts list of a *configuration* stands for
\* (defaultBlockedHosts: names asked by all kinds of DNS probes).  A list
\* posted through the API is taken as it is, empty or not.
DefaultHosts == { Pat("exact", <<"version","bind">>), Pat("exact", <<"id","server">>),
                 Pat("exact", <<"hostname","bind">>) }
EffectiveHosts(H) == IF H = {} THEN DefaultHosts ELSE H

\* ------------------------------------------------------------------ response
Protos      == {"udp", "tcp", "tls", "https", "quic", "dnscrypt"}
\* Transports on which a denied request gets no reply at all.
SilentProto == {"udp", "dnscrypt"}
\* Transports that can carry a ClientID at all (C16).
IdProtos    == {"tls", "https", "quic"}

Denial(proto) == IF proto \in SilentProto THEN "drop" ELSE "refused"

\* Admissible outcomes of request r under configuration cfg:
\*   "drop"    no reply at all          "refused"  a reply with rcode REFUSED
\*   "served"  processed normally (resolved, filtered, logged, counted)
Denied(cfg, r) ==
    {Excluded(cfg, r.addr, r.id) \/ h : h \in HostBlocked(cfg.hosts, r.name, r.qtype)}

\* A request whose ClientID label is invalid is the subject of two statements:
\* C16 says it fails (a SERVFAIL reply, "servfail"), this one says that an
\* excluded client, or a request for a blocked name, gets nothing but the
\* denial.  Where both apply they contradict each other, so both outcomes are
\* admitted; where only C16 applies, only the failure.  It is never served.
Outcomes(cfg, r) ==
    IF r.id = BadId
    THEN {"servfail"} \cup {Denial(r.proto) : d \in {x \in Denied(cfg, r) : x}}
    ELSE {IF d THEN Denial(r.proto) ELSE "served" : d \in Denied(cfg, r)}

\* What a request does to the three observers named by the statement
\* ("never resolved, filtered, logged or counted"): number of upstream
\* exchanges, query-log entries and statistics updates it causes.
Effect(out) == IF out = "served" THEN 1 ELSE 0
=============================================================================
