PROPERTY = "C05"
ENTRY = {
    "text": "Concurrency.tla models request stages vs admin operations / background workers over shared configuration cells "
            "(TLC: every request is answered whatever is interleaved; observed versions exist) and derives the conflict pairs "
            "(writer x stage sharing a cell) and the pairs of a background worker with the persist step that ends every admin operation (PersistPairs); every derived scenario family is executed against the fully wired server (real run() wiring "
            "in package home: real HTTP mux, real UDP/TCP DNS sockets, real filtering/querylog/stats/clients/DHCP objects) with concurrent "
            "request goroutines, admin goroutines and the background workers under the Go race detector; race reports, panics, "
            "malformed responses and reproduced stalls (goroutine dump of lock-blocked goroutines) are disagreements with the spec's "
            "assumption that every access to a cell is protected and no process blocks another forever.",
    "design_ref": "DESIGN.md section 4 C05",
    "note": "The spec cannot see a memory access that bypasses the lock protocol: the race detector is the instrument and it only sees executed schedules "
            "(quick 2.5 s, thorough 15 s per family). Safe browsing/parental lookups are not exercised (service unreachable offline). "
            "One open known finding (config.write serialises the live filtering configuration).",
    "technique": "TLA+ spec of stages/writers (TLC) deriving stress scenarios; execution on the real wired server under the Go race detector with stall watchdog",
}
