"""G12 -- unbounded safety of three small specifications by inductive invariants.

Additional evidence on the DESIGN level (DESIGN.md section 5, last paragraph); the
deciding checks of C04 / C10 / C09 stay TLC + conformance.  notes/G12.md has the details.

For each of Clients (C04), Dhcp4 (C10), RateLimit (C12; instead of Stats (C09), whose inductive
step Apalache cannot discharge: notes/G12.md) there is a typed re-statement
specs/ind/<M>Ind.tla over unbounded constants with an inductive invariant IndInv, and

  * TLC CORRESPONDENCE runs (specs/ind/<M>RefA.tla: root = the original module, the Ind
    module instantiated with the same constants, PROPERTY Ind!Spec, IndInv / Safety as
    invariants of the original; <M>RefB.tla: the other direction; equal state counts);
  * APALACHE obligations (specs/ind/<M>IndApa.tla):
        Init => IndInv                         --init=Init    --inv=IndInv --length=0
        IndInv /\\ Next => IndInv'              --init=IndInit --inv=IndInv --length=1
        IndInv => Safety                       --init=IndInit --inv=Safety --length=0
        action invariants from IndInv states   --init=IndInit --inv=<A>    --length=1
    and NEGATIVE CONTROLS: a one-line mutation of an action for which Apalache must
    find a counterexample to inductiveness (otherwise IndInit would be vacuous);
  * thorough: TLAPS proofs (specs/ind/<M>Proof.tla), larger Apalache bounds, bounded
    checks from Init with a longer --length, the larger TLC universes.

Exit codes: 0 = every obligation discharged; 2 = timeout / tool error / correspondence
or negative control failed (all of them mean "this machinery is broken", not "the design
is wrong"); 1 = Apalache produced a counterexample to one of the positive obligations
(IndInv too weak or the Ind module wrong) -- the counterexample is kept as the replay.
"""
import concurrent.futures
import json
import os
import re
import shutil
import subprocess
import sys
import time

import vlib

IND = os.path.join(vlib.SPECS, "ind")
JVM = "-Xmx5g -Xss64m"


# ------------------------------------------------------------------ obligations
def apa(name, module, inv, init, length, cinit=None, cfg=None, next_=None, tiers=("quick", "thorough"),
        timeout=420, expect="ok", mutate=None, what=""):
    return dict(kind="apalache", name=name, module=module, inv=inv, init=init, length=length, cinit=cinit,
                cfg=cfg, next=next_, tiers=tiers, timeout=timeout, expect=expect, mutate=mutate, what=what)


def tlc(name, module, cfg, tiers=("quick", "thorough"), timeout=600, workers=3, group=None, what=""):
    return dict(kind="tlc", name=name, module=module, cfg=cfg, tiers=tiers, timeout=timeout, workers=workers,
                group=group, what=what)


def tlaps(name, module, tiers=("thorough",), timeout=900, what=""):
    return dict(kind="tlaps", name=name, module=module, tiers=tiers, timeout=timeout, what=what)


Q, T, QT = ("quick",), ("thorough",), ("quick", "thorough")

# One-line mutations of the Ind modules for the negative controls: (file, old, new).
MUT_CLIENTS = ("ClientsInd.tla", "IF Clashes(rest, c) THEN [out |-> \"err\", reg |-> R]",
               "IF c.name \\in NamesOf(rest) THEN [out |-> \"err\", reg |-> R]")
MUT_DHCP = ("Dhcp4Ind.tla", "FreeAddrs(S)  == {a \\in Pool : On(S, a) = {}}", "FreeAddrs(S)  == Pool")
MUT_RATE = ("RateLimitInd.tla", "until |-> IF n1 >= n THEN now + b ", "until |-> IF n1 >= n THEN now ")

OBLIGATIONS = [
    # ------------------------------------------------------------------ Clients (C04)
    tlc("clients.refA.cov", "ClientsRefA", "ClientsRefA.cov.cfg", group="clients.cov",
        what="Clients!Spec => ClientsInd!Spec; IndInv, Safety invariants of Clients (universe cov)"),
    tlc("clients.refB.cov", "ClientsRefB", "ClientsRefB.cov.cfg", group="clients.cov",
        what="ClientsInd!Spec => Clients!Spec (universe cov)"),
    tlc("clients.refA.zone", "ClientsRefA", "ClientsRefA.zone.cfg", tiers=T, group="clients.zone"),
    tlc("clients.refB.zone", "ClientsRefB", "ClientsRefB.zone.cfg", tiers=T, group="clients.zone"),
    tlc("clients.refA.misc", "ClientsRefA", "ClientsRefA.misc.cfg", tiers=T, group="clients.misc"),
    tlc("clients.refB.misc", "ClientsRefB", "ClientsRefB.misc.cfg", tiers=T, group="clients.misc"),
    tlc("clients.refA.set", "ClientsRefA", "ClientsRefA.set.cfg", tiers=T, group="clients.set", workers=4),
    tlc("clients.refB.set", "ClientsRefB", "ClientsRefB.set.cfg", tiers=T, group="clients.set", workers=4),
    apa("clients.init", "ClientsIndApa", "IndInv", "Init", 0, cinit="CInitQ", what="Init => IndInv"),
    apa("clients.step", "ClientsIndApa", "IndInv", "IndInitQ", 1, cinit="CInitQ", tiers=Q,
        what="IndInv /\\ Next => IndInv'"),
    apa("clients.step.T", "ClientsIndApa", "IndInv", "IndInitT", 1, cinit="CInitT", tiers=T,
        what="IndInv /\\ Next => IndInv' (larger bounds)"),
    apa("clients.safety", "ClientsIndApa", "Safety", "IndInitQ", 0, cinit="CInitQ", what="IndInv => Safety"),
    apa("clients.rejected", "ClientsIndApa", "RejectedLeavesUnchanged", "IndInitQ", 1, cinit="CInitQ",
        what="IndInv /\\ Next => (rejected => registry unchanged)"),
    apa("clients.neg", "ClientsIndApa", "IndInv", "IndInitQ", 1, cinit="CInitQ", expect="cex", mutate=MUT_CLIENTS,
        what="negative control: Update that does not compare identifiers must break IndInv"),
    apa("clients.bmc", "ClientsIndApa", "Safety", "Init", 4, cinit="CInitQ", tiers=T,
        what="bounded check from Init, 4 steps"),
    tlaps("clients.tlaps", "ClientsProof", what="TLAPS: Spec => []IndInv, IndInv => Safety, rejected => unchanged"),
    # ------------------------------------------------------------------ Dhcp4 (C10)
    tlc("dhcp4.refA.mc", "Dhcp4RefA", "Dhcp4RefA.mc.cfg", workers=4,
        what="same outcome sets / guards in every reachable state of Dhcp4.mc.cfg; IndInv, Safety invariants"),
    tlc("dhcp4.refA.small", "Dhcp4RefA", "Dhcp4RefA.small.cfg", group="dhcp4.small",
        what="Dhcp4!Spec => Dhcp4Ind!Spec (small universe)"),
    tlc("dhcp4.refB.small", "Dhcp4RefB", "Dhcp4RefB.small.cfg", group="dhcp4.small",
        what="Dhcp4Ind!Spec => Dhcp4!Spec (small universe)"),
    apa("dhcp4.init", "Dhcp4IndApa", "IndInvB", "Init", 0, cinit="CInitQ", what="Init => IndInv"),
    apa("dhcp4.step", "Dhcp4IndApa", "IndInv", "IndInitQ", 1, cinit="CInitQ", tiers=Q,
        what="IndInv /\\ Next => IndInv'"),
    apa("dhcp4.step.T", "Dhcp4IndApa", "IndInv", "IndInitT", 1, cinit="CInitT", tiers=T, timeout=900,
        what="IndInv /\\ Next => IndInv' (larger bounds)"),
    apa("dhcp4.stepB", "Dhcp4IndApa", "IndInvB", "IndInitBQ", 1, cinit="CInitQ", tiers=T,
        what="(IndInv /\\ BoundedStatics) inductive"),
    apa("dhcp4.safetyA", "Dhcp4IndApa", "SafetyA", "IndInitS", 0, cinit="CInitS", tiers=Q, what="IndInv => Safety (1/3)"),
    apa("dhcp4.safetyB", "Dhcp4IndApa", "SafetyB", "IndInitS", 0, cinit="CInitS", tiers=Q, what="IndInv => Safety (2/3)"),
    apa("dhcp4.safetyC", "Dhcp4IndApa", "SafetyC", "IndInitS", 0, cinit="CInitS", tiers=Q, what="IndInv => Safety (3/3)"),
    apa("dhcp4.safetyA.T", "Dhcp4IndApa", "SafetyA", "IndInitQ", 0, cinit="CInitQ", tiers=T, timeout=900,
        what="IndInv => Safety (1/3, larger bounds)"),
    apa("dhcp4.safetyB.T", "Dhcp4IndApa", "SafetyB", "IndInitQ", 0, cinit="CInitQ", tiers=T, timeout=900,
        what="IndInv => Safety (2/3, larger bounds)"),
    apa("dhcp4.safetyC.T", "Dhcp4IndApa", "SafetyC", "IndInitQ", 0, cinit="CInitQ", tiers=T, timeout=900,
        what="IndInv => Safety (3/3, larger bounds)"),
    apa("dhcp4.statics", "Dhcp4IndApa", "StaticsStable", "IndInitQ", 1, cinit="CInitQ", next_="ProtocolNext",
        what="IndInv /\\ ProtocolNext => reservations unchanged"),
    apa("dhcp4.neg", "Dhcp4IndApa", "IndInv", "IndInitQ", 1, cinit="CInitQ", expect="cex", mutate=MUT_DHCP,
        what="negative control: allocation that ignores occupied addresses must break IndInv"),
    apa("dhcp4.bmc", "Dhcp4IndApa", "SafetyA", "Init", 2, cinit="CInitQ", tiers=T, timeout=900,
        what="bounded check from Init, 2 steps"),
    tlaps("dhcp4.tlaps", "Dhcp4Proof", what="TLAPS: Spec => []IndInv, IndInv => the single-state invariants of C10"),
    # ------------------------------------------------------------------ RateLimit (C12, first half)
    tlc("ratelimit.refA.mc", "RateLimitRefA", "RateLimitRefA.mc.cfg", group="ratelimit.mc",
        what="RateLimit!Spec => RateLimitInd!Spec; IndInv, Safety, step properties on RateLimit (RateLimit.mc.cfg)"),
    tlc("ratelimit.refB.mc", "RateLimitRefB", "RateLimitRefB.mc.cfg", group="ratelimit.mc",
        what="RateLimitInd!Spec => RateLimit!Spec (RateLimit.mc.cfg)"),
    apa("ratelimit.init", "RateLimitIndApa", "IndInv", "Init", 0, cinit="CInit", what="Init => IndInv"),
    apa("ratelimit.step", "RateLimitIndApa", "IndInv", "IndInit", 1, cinit="CInit", tiers=Q,
        what="IndInv /\\ Next => IndInv'"),
    apa("ratelimit.step.T", "RateLimitIndApa", "IndInv", "IndInitT", 1, cinit="CInitT", tiers=T, timeout=900,
        what="IndInv /\\ Next => IndInv' (larger bounds)"),
    apa("ratelimit.safety", "RateLimitIndApa", "Safety", "IndInit", 0, cinit="CInit",
        what="IndInv => TypeOK /\\ NoBlockBeforeLimit /\\ LimitIsSharp"),
    apa("ratelimit.props", "RateLimitIndApa", "StepProps", "IndInit", 1, cinit="CInit",
        what="IndInv /\\ Next => the five step properties (BlockedNeverEvaluates .. OthersUntouched)"),
    apa("ratelimit.neg", "RateLimitIndApa", "IndInv", "IndInit", 1, cinit="CInit", expect="cex", mutate=MUT_RATE,
        what="negative control: a block of zero length must break IndInv"),
    apa("ratelimit.bmc", "RateLimitIndApa", "Safety", "Init", 4, cinit="CInit", tiers=T, timeout=900,
        what="bounded check from Init, 4 steps"),
    tlaps("ratelimit.tlaps", "RateLimitProof", what="TLAPS: Spec => []IndInv, IndInv => Safety"),
    # ------------------------------------------------------------------ Stats (C09): NOT discharged
    # The inductive step of StatsInd is beyond Apalache within any reasonable time box (bag folds, see
    # notes/G12.md); what does go through is kept in the thorough tier so that the candidate stays honest:
    # correspondence, Init => IndInv, and TLC finding the candidate true in every reachable state.
    tlc("stats.candidate.refA", "StatsRefA", "StatsRefA.mc.cfg", tiers=T, group="stats.mc", workers=4,
        what="Stats!Spec => StatsInd!Spec; the CANDIDATE IndInv holds in every reachable state of Stats.mc.cfg (no proof of inductiveness)"),
    tlc("stats.candidate.refB", "StatsRefB", "StatsRefB.mc.cfg", tiers=T, group="stats.mc", workers=4,
        what="StatsInd!Spec => Stats!Spec (Stats.mc.cfg)"),
    apa("stats.candidate.init", "StatsIndApa", "IndInv", "Init", 0, cinit="CInit", cfg="StatsIndApa.cfg", tiers=T,
        what="Init => candidate IndInv (the inductive step is NOT discharged)"),
]


# ------------------------------------------------------------------ runners
def stage(ctx, name, mutate=None):
    """A scratch directory with specs/*.tla and specs/ind/* (tools litter)."""
    d = ctx.path("job_" + name.replace(".", "_"))
    shutil.rmtree(d, ignore_errors=True)
    os.makedirs(d)
    for f in os.listdir(vlib.SPECS):
        if f.endswith(".tla"):
            shutil.copy(os.path.join(vlib.SPECS, f), d)
    for f in os.listdir(IND):
        p = os.path.join(IND, f)
        if os.path.isfile(p) and (f.endswith(".tla") or f.endswith(".cfg")):
            shutil.copy(p, d)
    if mutate:
        fn, old, new = mutate
        txt = open(os.path.join(d, fn)).read()
        if txt.count(old) != 1:
            raise vlib.Inconclusive("negative control %s: text to mutate not found exactly once in %s" % (name, fn))
        open(os.path.join(d, fn), "w").write(txt.replace(old, new))
    return d


def run_cmd(cmd, cwd, timeout, env=None, log="out.log"):
    """Run under timeout(1) as well as subprocess's own (SIGKILL on expiry: JVMs ignore TERM under load)."""
    t = time.time()
    full = ["timeout", "-s", "KILL", str(int(timeout))] + cmd
    with open(os.path.join(cwd, log), "w") as fh:
        try:
            p = subprocess.run(full, cwd=cwd, stdout=fh, stderr=subprocess.STDOUT, env=env, timeout=timeout + 30)
            rc = p.returncode
        except subprocess.TimeoutExpired:
            rc = -9
    out = open(os.path.join(cwd, log), errors="replace").read()
    return rc, out, time.time() - t


def run_apalache(ctx, ob):
    d = stage(ctx, ob["name"], ob.get("mutate"))
    cmd = ["apalache-mc", "check", "--out-dir=" + os.path.join(d, "_out"), "--run-dir=" + os.path.join(d, "_run"),
           "--init=" + ob["init"], "--inv=" + ob["inv"], "--length=%d" % ob["length"]]
    if ob["cinit"]:
        cmd.append("--cinit=" + ob["cinit"])
    if ob["cfg"]:
        cmd.append("--config=" + ob["cfg"])
    if ob["next"]:
        cmd.append("--next=" + ob["next"])
    cmd.append(ob["module"] + ".tla")
    env = dict(os.environ)
    env["JVM_ARGS"] = JVM
    env["TMPDIR"] = d
    rc, out, wall = run_cmd(cmd, d, ob["timeout"], env=env)
    res = dict(ob=ob, wall=round(wall, 1), cmd=" ".join(cmd[:1] + [c for c in cmd[1:] if not c.startswith("--out-dir") and not c.startswith("--run-dir")]))
    m = re.search(r"EXITCODE: (\w+)(?: \((\d+)\))?", out)
    code = (m.group(1), m.group(2)) if m else None
    ntrans = re.findall(r"picking a transition out of (\d+) transition", out)
    res["transitions"] = [int(x) for x in ntrans]
    if rc in (-9, 137) or code is None:
        res["status"] = "timeout" if rc in (-9, 137) else "error"
        res["detail"] = "rc=%s after %.0fs; tail: %s" % (rc, wall, out[-600:])
    elif code[0] == "OK" and "The outcome is: NoError" in out:
        res["status"] = "ok"
    elif code == ("ERROR", "12") and ("The outcome is: Error" in out or "violat" in out):
        res["status"] = "cex"
        cex = None
        for root, _, files in os.walk(os.path.join(d, "_run")):
            for f in files:
                if f.startswith("violation") and f.endswith(".tla"):
                    cex = os.path.join(root, f)
        res["cex"] = open(cex, errors="replace").read()[:20000] if cex else out[-3000:]
    else:
        res["status"] = "error"
        res["detail"] = "EXITCODE %s; tail: %s" % (code, "\n".join(l for l in out.splitlines() if not l.startswith("  >"))[-1200:])
    return res


def run_tlc(ctx, ob):
    d = stage(ctx, ob["name"])
    cmd = ["java", "-XX:+UseParallelGC", "-Xss256m", "-Xmx4g", "-cp", vlib.TLA_JAR, "tlc2.TLC",
           "-metadir", os.path.join(d, "_meta"), "-workers", str(ob["workers"]), "-deadlock",
           "-config", ob["cfg"], ob["module"] + ".tla"]
    rc, out, wall = run_cmd(cmd, d, ob["timeout"])
    res = dict(ob=ob, wall=round(wall, 1), cmd="tlc2.TLC -workers %d -deadlock -config %s %s.tla" % (ob["workers"], ob["cfg"], ob["module"]))
    m = re.findall(r"(\d+) states generated, (\d+) distinct states found", out)
    res["generated"], res["distinct"] = (int(m[-1][0]), int(m[-1][1])) if m else (0, 0)
    if rc in (-9, 137):
        res["status"] = "timeout"
        res["detail"] = "killed after %.0fs" % wall
    elif rc == 0 and "Model checking completed. No error has been found." in out and res["distinct"] > 0:
        res["status"] = "ok"
    else:
        res["status"] = "error"
        res["detail"] = "rc=%s; " % rc + "\n".join(
            l for l in out.splitlines() if not re.match(r"^(Semantic|Linting|Parsing|Warning)", l))[-1800:]
    return res


def run_tlaps(ctx, ob):
    d = stage(ctx, ob["name"])
    if not os.path.exists(os.path.join(d, ob["module"] + ".tla")):
        return dict(ob=ob, wall=0.0, status="absent", cmd="", detail="no proof file (see notes/G12.md)")
    cmd = ["tlapm", "--threads", "6", "--cleanfp", ob["module"] + ".tla"]
    env = dict(os.environ)
    env["TMPDIR"] = d
    rc, out, wall = run_cmd(cmd, d, ob["timeout"], env=env)
    res = dict(ob=ob, wall=round(wall, 1), cmd=" ".join(cmd))
    m = re.search(r"All (\d+) obligations? proved", out)
    f = re.search(r"(\d+)/(\d+) obligations? failed", out)
    if rc in (-9, 137):
        res["status"] = "timeout"
        res["detail"] = "killed after %.0fs" % wall
    elif rc == 0 and m:
        res["status"] = "ok"
        res["proved"] = int(m.group(1))
    else:
        # A failed backend is "could not prove", never "refuted": tool-level, inconclusive.
        res["status"] = "error"
        res["detail"] = (f.group(0) if f else "rc=%s" % rc) + "; " + out[-800:]
    return res


RUN = {"apalache": run_apalache, "tlc": run_tlc, "tlaps": run_tlaps}
# rough cost (for scheduling the long jobs first)
COST = {"dhcp4.safetyA.T": 9, "dhcp4.safetyB.T": 9, "dhcp4.safetyC.T": 9, "ratelimit.step.T": 9, "ratelimit.step": 6,
        "ratelimit.bmc": 8, "ratelimit.tlaps": 6, "stats.candidate.refA": 5, "stats.candidate.refB": 5, "clients.refA.set": 9, "clients.refB.set": 9,
        "dhcp4.step.T": 9, "dhcp4.bmc": 8, "clients.step.T": 7, "dhcp4.safetyC": 6, "dhcp4.safetyB": 5,
        "dhcp4.safetyA": 5, "stats.refA.mc": 5, "stats.refB.mc": 5, "dhcp4.refA.mc": 5, "clients.tlaps": 6,
        "dhcp4.tlaps": 6}


GENERATORS = {"dhcp4": "mkdhcp4ind.py", "stats": "mkstatsind.py", "ratelimit": "mkratelimitind.py"}


def generated_in_sync(ctx, obs):
    """Dhcp4Ind / RateLimitInd / StatsInd.tla are generated from the owners' modules: they must be current."""
    for gen in sorted({GENERATORS[k] for o in obs for k in GENERATORS if o["name"].startswith(k)}):
        p = subprocess.run([sys.executable, os.path.join(IND, gen), "--check"], capture_output=True, text=True, timeout=60)
        if p.returncode != 0:
            raise vlib.Inconclusive("%s: %s -- the original module changed; regenerate with --write and re-run G12"
                                    % (gen, (p.stdout + p.stderr).strip()[:300]))


def execute(ctx, obs, parallel):
    obs = sorted(obs, key=lambda o: -COST.get(o["name"], 1))
    results = []
    with concurrent.futures.ThreadPoolExecutor(max_workers=parallel) as ex:
        futs = {ex.submit(RUN[o["kind"]], ctx, o): o for o in obs}
        for fu in concurrent.futures.as_completed(futs):
            r = fu.result()
            results.append(r)
            extra = ""
            if r["ob"]["kind"] == "tlc":
                extra = " %d generated / %d distinct" % (r.get("generated", 0), r.get("distinct", 0))
            if r.get("proved"):
                extra = " %d obligations proved" % r["proved"]
            ctx.log("%-18s %-8s %6.1fs%s" % (r["ob"]["name"], r["status"], r["wall"], extra))
    return results


def run(ctx):
    obs = [o for o in OBLIGATIONS if ctx.tier in o["tiers"]]
    only = os.environ.get("G12_ONLY")
    if only:
        obs = [o for o in obs if re.search(only, o["name"])]
    generated_in_sync(ctx, obs)
    results = execute(ctx, obs, parallel=int(os.environ.get("G12_PARALLEL", "10" if ctx.quick else "8")))
    return conclude(ctx, results)


def conclude(ctx, results):
    by = {r["ob"]["name"]: r for r in results}
    problems = []          # tool-level: inconclusive
    discharged = 0
    total = 0
    samples = []
    for r in results:
        ob = r["ob"]
        if r["status"] == "absent":
            continue
        total += 1
        want = ob.get("expect", "ok")
        if r["status"] == want:
            discharged += 1
        elif ob["kind"] == "apalache" and want == "ok" and r["status"] == "cex":
            ctx.disagreement(None, {"obligation": ob["name"], "what": ob["what"], "cmd": r["cmd"],
                                    "counterexample": r["cex"]},
                             "Apalache counterexample to '%s' (IndInv too weak or Ind module wrong)" % ob["what"])
        elif ob["kind"] == "apalache" and want == "cex":
            problems.append("%s: negative control not refuted (%s): IndInit may be vacuous" % (ob["name"], r["status"]))
        else:
            problems.append("%s: %s %s" % (ob["name"], r["status"], r.get("detail", "")[:700]))
        if ob["kind"] == "apalache" and r["status"] == "ok" and ob["length"] >= 1 and want == "ok":
            # every symbolic transition of Next must have been offered at the step
            if not r["transitions"] or r["transitions"][-1] < 1:
                problems.append("%s: Apalache explored no transition at step 1" % ob["name"])
    # equal numbers of reachable states / generated transitions in both directions
    groups = {}
    for r in results:
        g = r["ob"].get("group")
        if g and r["status"] == "ok":
            groups.setdefault(g, []).append(r)
    pairs = []
    for g, rs in sorted(groups.items()):
        if len(rs) == 2:
            a, b = rs
            pairs.append({"group": g, "distinct": [a["distinct"], b["distinct"]], "generated": [a["generated"], b["generated"]]})
            if a["distinct"] != b["distinct"] or a["generated"] != b["generated"]:
                problems.append("correspondence %s: state counts differ: %s/%s distinct, %s/%s generated"
                                % (g, a["distinct"], b["distinct"], a["generated"], b["generated"]))
    for r in sorted(results, key=lambda r: r["ob"]["name"]):
        if r["status"] != "absent":
            samples.append({"obligation": r["ob"]["name"], "what": r["ob"]["what"], "tool": r["ob"]["kind"],
                            "cmd": r["cmd"], "status": r["status"], "wall_s": r["wall"],
                            **({"distinct": r["distinct"], "generated": r["generated"]} if r["ob"]["kind"] == "tlc" else {}),
                            **({"tlaps_obligations": r["proved"]} if r.get("proved") else {})})
    if problems and not ctx.violations:
        raise vlib.Inconclusive("; ".join(problems)[:3000])
    tl = [r for r in results if r["ob"]["kind"] == "tlc" and r["status"] == "ok"]
    tlaps_proved = sum(r.get("proved", 0) for r in results)
    kinds = {}
    for r in results:
        if r["status"] != "absent":
            kinds[r["ob"]["kind"]] = kinds.get(r["ob"]["kind"], 0) + 1
    level = "proof" if tlaps_proved else "model_checking"
    cov = {
        "obligations": total, "discharged": discharged,
        "checker_cmd": "apalache-mc 0.58.0 check --cinit=.. --init=IndInit|Init --inv=.. --length=0|1 <M>IndApa.tla; "
                       "tlc2.TLC -config <M>Ref{A,B}.*.cfg; tlapm --threads 6 <M>Proof.tla (thorough)",
        "trusted_base": ["Apalache 0.58.0 + Z3 (bounded: sets of at most Gen(n) elements)", "TLC 2026.09", "SANY",
                         "TLAPS (zenon, Isabelle/TLA+, Z3) in thorough",
                         "the refinement argument of notes/G12.md for universes TLC does not enumerate"],
        "by_tool": kinds, "tlaps_obligations_proved": tlaps_proved,
        "states": sum(r["distinct"] for r in tl), "transitions": sum(r["generated"] for r in tl),
        "traces_validated_against_impl": 0,
        "correspondence_pairs": pairs,
        "evaluations": total, "distinct_nontrivial": discharged,
        "rule": "one evaluation = one obligation (an Apalache inductiveness / implication check, a negative control "
                "that must be refuted, a TLC correspondence run, a TLAPS proof file); non-trivial = discharged with the "
                "expected outcome; all obligations are distinct",
        "samples": samples, "exhaustive": False,
    }
    assumptions = [
        "design-level evidence only: nothing here touches /repo; the binding to the code is C04/C10/C09's",
        "Apalache obligations quantify over arbitrary elements but sets of bounded size (Gen(n)); only the TLAPS proofs are unbounded",
        "Stats (C09) is NOT covered: its inductive step is not discharged (thorough only re-checks the candidate on reachable states)",
        "the lifting to universes TLC does not enumerate rests on the Ind module being the same transition relation "
        "(textual identity for Dhcp4/Stats, per-action argument for Clients) -- mechanically checked on the small universes only",
    ]
    return ctx.finish(level, cov, assumptions)


def replay(ctx, path):
    """Re-run the obligation a recorded counterexample belongs to."""
    rec = json.load(open(path))["record"]
    obs = [o for o in OBLIGATIONS if o["name"] == rec["obligation"]]
    if not obs:
        raise vlib.Inconclusive("unknown obligation %r" % rec.get("obligation"))
    generated_in_sync(ctx, obs)
    return conclude(ctx, execute(ctx, obs, 1))
