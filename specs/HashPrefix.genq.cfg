\* As HashPrefix.gen.cfg with a smaller service database universe (quick tier).
SPECIFICATION Spec
CONSTANTS
  T = 2
  DbIds = {"com", "x.com", "a.x.com", "io"}
  EmitOn = TRUE
  ImplOnly = TRUE
  ImplNegAgain = FALSE
VIEW GraphView
INVARIANTS TypeOK CacheTransparent ImplAdmissible
