SPECIFICATION Spec
CONSTANTS
  Dst = "d/dst"
  Protocol <- ProtoAtomic
  MaxSaves = 3
  MaxChunks = 2
  MaxCrashes = 2
  InitPresent = FALSE
  WithReader = TRUE
INVARIANTS TypeOK DstOldOrNew CrashSafe CrashStrict ReaderOK
PROPERTIES Effective CrashAgree
