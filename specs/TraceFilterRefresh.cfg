SPECIFICATION Spec
