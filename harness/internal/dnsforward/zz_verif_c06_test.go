package dnsforward

// C06 conformance harness, pipeline level: the clauses of the statement that
// are only visible to the DNS client and to the upstream ("else resolved
// upstream with the original name restored in the answer", "an empty
// successful answer, not the upstream's").
//
// One real Server (UDP listener on loopback, real filtering.DNSFilter) with a
// recording mock upstream.  The rewrite table is set through the filter's own
// HTTP API (/control/rewrite/add, .../delete); every query of a vector is sent
// over UDP; the projected observation (upstream questions, reply code,
// question section, leading CNAME, addresses from the table, upstream records
// appended) must equal Serve(o) of specs/RewritesCore.tla for one admissible
// outcome o.
//
// TestZZVerifC06Pipeline is direction A (vectors from TLC), TestZZVerifC06PipeTrace
// direction B (random larger tables, validated by specs/TraceRewrites.tla).

import (
	"bytes"
	"encoding/json"
	"fmt"
	"hash/fnv"
	"math/rand"
	"net"
	"net/http"
	"net/http/httptest"
	"net/netip"
	"sort"
	"strings"
	"sync"
	"testing"
	"time"

	"github.com/AdguardTeam/AdGuardHome/internal/filtering"
	"github.com/AdguardTeam/AdGuardHome/internal/schedule"
	"github.com/AdguardTeam/dnsproxy/proxy"
	"github.com/AdguardTeam/dnsproxy/upstream"
	"github.com/AdguardTeam/golibs/logutil/slogutil"
	"github.com/AdguardTeam/golibs/netutil"
	"github.com/miekg/dns"
)

// ------------------------------------------------------------ abstract side

type zzC06Entry struct {
	W  bool     `json:"w"`
	N  []string `json:"n"`
	K  string   `json:"k"`
	IP string   `json:"ip"`
	T  []string `json:"t"`
	// MC: the answer (a canonical name) is written with every label in
	// another letter case than the lower-case form.
	MC bool `json:"mc"`
	// DS is the spelling variant of the pattern (normalised by the code).
	DS int `json:"ds,omitempty"`
}

type zzC06Out struct {
	R     string   `json:"r"`
	Canon []string `json:"canon"`
	IPs   []string `json:"ips"`
	Up    bool     `json:"up"`
}

type zzC06Verdict struct {
	H    []string
	QT   string
	Outs []zzC06Out
}

type zzC06Vec struct {
	Tab     []zzC06Entry
	Ordered bool
	Verd    map[string]*zzC06Verdict
	// VerdC: the outcomes when CNAME answers are in another case and read
	// verbatim; VerdK: the outcomes when one known deviation ("tie", "exact",
	// "late", "all") is admitted.  Both only serve to attribute a disagreement
	// to a finding.
	VerdC map[string]*zzC06Verdict
	VerdK map[string]map[string][]zzC06Out
}

type zzC06Header struct {
	Names  [][]string      `json:"names"`
	QNames []int           `json:"qnames"`
	Serve  []zzC06ServeRow `json:"serve"`
}

type zzC06RawVec struct {
	Hdr int               `json:"hdr"`
	T   []json.RawMessage `json:"t"`
	V   []json.RawMessage `json:"v"`
	VC  []json.RawMessage `json:"vc"`
	VK  []json.RawMessage `json:"vk"`
	O   int               `json:"o"`
}

func zzC06Key(h []string, qt string) (k string) { return strings.Join(h, ".") + "|" + qt }

func zzC06Decode(hdr *zzC06Header, raw *zzC06RawVec) (v *zzC06Vec, err error) {
	name := func(i int) (n []string) {
		if i <= 0 || i > len(hdr.Names) {
			return []string{}
		}

		return hdr.Names[i-1]
	}

	v = &zzC06Vec{Ordered: raw.O == 1}
	for _, rt := range raw.T {
		var tup []any
		if err = json.Unmarshal(rt, &tup); err != nil || len(tup) != 5 {
			return nil, fmt.Errorf("bad entry %s: %v", rt, err)
		}

		v.Tab = append(v.Tab, zzC06Entry{
			W:  tup[0].(float64) == 1,
			N:  name(int(tup[1].(float64))),
			K:  tup[2].(string),
			IP: tup[3].(string),
			T:  name(int(tup[4].(float64))),
		})
	}

	if v.Verd, err = zzC06DecodeVerdicts(name, raw.V); err != nil {
		return nil, err
	}

	if len(raw.VC) > 0 {
		if v.VerdC, err = zzC06DecodeVerdicts(name, raw.VC); err != nil {
			return nil, err
		}
	}

	v.VerdK = map[string]map[string][]zzC06Out{}
	for _, rk := range raw.VK {
		// [name, qtype, deviation, outcomes]
		var tup []json.RawMessage
		var flag string
		if err = json.Unmarshal(rk, &tup); err != nil || len(tup) != 4 || json.Unmarshal(tup[2], &flag) != nil {
			return nil, fmt.Errorf("bad vk %s: %v", rk, err)
		}

		three, _ := json.Marshal([]json.RawMessage{tup[0], tup[1], tup[3]})
		var m map[string]*zzC06Verdict
		if m, err = zzC06DecodeVerdicts(name, []json.RawMessage{three}); err != nil {
			return nil, err
		}

		for k, vd := range m {
			if v.VerdK[k] == nil {
				v.VerdK[k] = map[string][]zzC06Out{}
			}

			v.VerdK[k][flag] = vd.Outs
		}
	}

	return v, nil
}

func zzC06DecodeVerdicts(
	name func(i int) (n []string),
	raws []json.RawMessage,
) (m map[string]*zzC06Verdict, err error) {
	m = map[string]*zzC06Verdict{}
	for _, rv := range raws {
		var tup []json.RawMessage
		if err = json.Unmarshal(rv, &tup); err != nil || len(tup) != 3 {
			return nil, fmt.Errorf("bad verdict %s: %v", rv, err)
		}

		var hi int
		var qt string
		var outs [][]any
		if err = json.Unmarshal(tup[0], &hi); err != nil {
			return nil, err
		} else if err = json.Unmarshal(tup[1], &qt); err != nil {
			return nil, err
		} else if err = json.Unmarshal(tup[2], &outs); err != nil {
			return nil, err
		}

		vd := &zzC06Verdict{H: name(hi), QT: qt}
		for _, o := range outs {
			out := zzC06Out{R: o[0].(string), Canon: name(int(o[1].(float64))), Up: o[3].(bool), IPs: []string{}}
			for _, ip := range o[2].([]any) {
				out.IPs = append(out.IPs, ip.(string))
			}

			sort.Strings(out.IPs)
			vd.Outs = append(vd.Outs, out)
		}

		m[zzC06Key(vd.H, qt)] = vd
	}

	return m, nil
}

var zzC06PassOnly = []zzC06Out{{R: "pass", Canon: []string{}, IPs: []string{}, Up: true}}

// zzC06ServeRow is one row of Serve of RewritesCore.tla as evaluated by TLC
// (header vector): for a kind of outcome ("pass", "up": canonical name resolved
// upstream, "local": answered from the table) and a behaviour of the upstream
// towards the name asked, who is asked ("h0", "canon", "none"), whose upstream
// records are appended, and the reply code.
type zzC06ServeRow struct {
	Kind   string `json:"kind"`
	Mode   string `json:"mode"`
	Ask    string `json:"ask"`
	FromUp string `json:"fromup"`
	Rcode  string `json:"rcode"`
	CNAME  bool   `json:"cname"`
	// CNAMEOpt: the reply may or may not carry the CNAME record (an error
	// reply has no answer section).
	CNAMEOpt bool `json:"cnameopt"`
}

// zzC06ServeRows is set from the header of the vector file.
var zzC06ServeRows []zzC06ServeRow

// zzC06Serve is the observation the specification expects for outcome o when
// the upstream behaves as mode says (Serve), in the vocabulary of zzC06Obs.
func zzC06Serve(o *zzC06Out, h []string, qt string, mode func(name string) (m string)) (e zzC06Obs) {
	e = zzC06Obs{Ask: [][2]string{}, QOK: true, IPs: []string{}, Rcode: "no row of Serve"}
	kind, asked := "local", ""
	switch {
	case o.R == "pass":
		kind, asked = "pass", zzC06Name(h)
	case o.Up:
		kind, asked = "up", zzC06Name(o.Canon)
	}

	m := "answer"
	if asked != "" {
		m = mode(asked)
	}

	sym := func(s string) (name string) {
		switch s {
		case "h0":
			return zzC06Name(h)
		case "canon":
			return zzC06Name(o.Canon)
		default:
			return ""
		}
	}

	for _, r := range zzC06ServeRows {
		if r.Kind != kind || r.Mode != m {
			continue
		}

		if a := sym(r.Ask); a != "" {
			e.Ask = [][2]string{{a, qt}}
		}

		e.FromUp, e.Rcode, e.CNAMEOpt = sym(r.FromUp), r.Rcode, r.CNAMEOpt
		if kind != "pass" {
			// The CNAME record of a followed rewrite is always there.
			e.CNAME = zzC06Name(o.Canon)
		}

		if kind == "local" {
			e.IPs = zzC06Cur.concrete(o.IPs)
		}
	}

	return e
}

// ------------------------------------------------------------ concrete side

var zzC06Labels = map[string]string{
	"c": "com", "d": "org", "a": "host", "b": "other", "x": "www", "y": "sub", "e": "ext",
	"xa": "wwwhost", "*": "*",
}

func zzC06Name(ls []string) (s string) {
	parts := make([]string, len(ls))
	for i, l := range ls {
		if r, ok := zzC06Labels[l]; ok {
			parts[i] = r
		} else {
			parts[i] = l
		}
	}

	return strings.Join(parts, ".")
}

type zzC06Conc struct {
	ips map[string]string
	rev map[string]string
}

func zzC06NewConc(seed int64) (c *zzC06Conc) {
	rng := rand.New(rand.NewSource(seed))
	c = &zzC06Conc{ips: map[string]string{}, rev: map[string]string{}}
	c.ips["v4a"] = fmt.Sprintf("192.0.2.%d", 1+rng.Intn(100))
	c.ips["v4b"] = fmt.Sprintf("198.51.100.%d", 101+rng.Intn(100))
	c.ips["v6a"] = fmt.Sprintf("2001:db8::%x", 1+rng.Intn(0xfffe))
	c.ips["v6b"] = fmt.Sprintf("2001:db8:1::%x", 1+rng.Intn(0xfffe))
	zzC06RareAddrs(c.ips, rng)
	zzC06Cur = c

	return c
}

// zzC06RareAddrs completes the seeded choice of concrete addresses with the
// rare but legal ones: "v6m" is always an IPv4-mapped IPv6 address (an AAAA
// value: the family of an entry is that of the text written), and in some runs
// "v6a" is the loopback or the unspecified address and "v4b" is 0.0.0.0.
func zzC06RareAddrs(ips map[string]string, rng *rand.Rand) {
	ips["v6m"] = fmt.Sprintf("::ffff:203.0.113.%d", 1+rng.Intn(200))
	switch rng.Intn(4) {
	case 1:
		ips["v6a"] = "::1"
	case 2:
		ips["v6a"] = "::"
	}

	if rng.Intn(3) == 0 {
		ips["v4b"] = "0.0.0.0"
	}
}

// zzC06SpellIP writes an address in another legal spelling: IPv6 in upper-case
// hex, in the full form without zero compression, or both; an IPv4-mapped
// address with an upper-case prefix, a hexadecimal tail or an uncompressed
// prefix.  IPv4 has only one spelling.
func zzC06SpellIP(canonical string, variant int) (s string) {
	a, err := netip.ParseAddr(canonical)
	if err != nil || a.Is4() {
		return canonical
	}

	if variant < 0 {
		variant = -variant
	}

	s = canonical
	switch {
	case a.Is4In6():
		b := a.As16()
		switch variant % 4 {
		case 1:
			s = "::FFFF:" + a.Unmap().String()
		case 2:
			s = fmt.Sprintf("::ffff:%x:%x", uint16(b[12])<<8|uint16(b[13]), uint16(b[14])<<8|uint16(b[15]))
		case 3:
			s = "0:0:0:0:0:ffff:" + a.Unmap().String()
		}
	default:
		switch variant % 4 {
		case 1:
			s = strings.ToUpper(canonical)
		case 2:
			s = a.StringExpanded()
		case 3:
			s = strings.ToUpper(a.StringExpanded())
		}
	}

	if b, perr := netip.ParseAddr(s); perr != nil || b != a {
		// Not a spelling of the same address after all.
		return canonical
	}

	return s
}

func (c *zzC06Conc) ip(a string) (s string) {
	if s, ok := c.ips[a]; ok {
		return s
	}

	return a
}

// abs is the canonical text of an observed address.  Observed and expected
// addresses are compared in this form (see concrete): the abstract ids of the
// vectors are made concrete, literal addresses (traces) stand for themselves.
func (c *zzC06Conc) abs(a netip.Addr) (s string) {
	return a.String()
}

// concrete maps expected addresses (abstract ids or literals) to canonical
// concrete text, sorted.
func (c *zzC06Conc) concrete(ips []string) (r []string) {
	r = []string{}
	for _, ip := range ips {
		t := c.ip(ip)
		if a, err := netip.ParseAddr(t); err == nil {
			t = a.String()
		}

		r = append(r, t)
	}

	sort.Strings(r)

	return r
}

// zzC06Cur is the concretisation of the running test (one per process).
var zzC06Cur *zzC06Conc

type zzC06RW struct {
	Domain string `json:"domain"`
	Answer string `json:"answer"`
}

// zzC06OtherCase writes a name so that every label differs in case from its
// lower-case form: all upper case, or the first letter of every label.
func zzC06OtherCase(name string, variant int) (s string) {
	if variant%2 == 0 {
		return strings.ToUpper(name)
	}

	ls := strings.Split(name, ".")
	for i, l := range ls {
		if l != "" {
			ls[i] = strings.ToUpper(l[:1]) + l[1:]
		}
	}

	return strings.Join(ls, ".")
}

func (c *zzC06Conc) rewrite(e *zzC06Entry) (rw zzC06RW) {
	rw.Domain = zzC06Spell(zzC06Name(e.N), e.DS)
	if e.W {
		rw.Domain = "*." + rw.Domain
	}

	switch e.K {
	case "ip4", "ip6":
		rw.Answer = zzC06SpellIP(c.ip(e.IP), e.DS)
	case "A", "AAAA":
		rw.Answer = e.K
	default:
		rw.Answer = zzC06Name(e.T)
		if e.MC {
			rw.Answer = zzC06OtherCase(rw.Answer, len(e.T)+len(e.N)+e.DS)
		}
	}

	return rw
}

func zzC06Spell(s string, variant int) (r string) {
	switch variant % 3 {
	case 1:
		return strings.ToUpper(s)
	case 2:
		b := []byte(s)
		for i := range b {
			if i%2 == 0 && b[i] >= 'a' && b[i] <= 'z' {
				b[i] -= 'a' - 'A'
			}
		}

		return string(b)
	default:
		return s
	}
}

// ------------------------------------------------------------ mock upstream

// zzC06Upstream answers every question with records derived from the
// question name and logs the questions.
type zzC06Upstream struct {
	mu   sync.Mutex
	seed int64
	// epoch changes with every table, so that over a run every name meets
	// every behaviour of the upstream.
	epoch int
	log   [][2]string
	// data maps the textual data of every record ever served to the name it
	// was served for.
	data map[string]string
}

func zzC06UpData(name string, qt uint16) (s string) {
	h := fnv.New32a()
	_, _ = h.Write([]byte(name))
	x := h.Sum32()
	switch qt {
	case dns.TypeA:
		return netip.AddrFrom4([4]byte{10, byte(x >> 16), byte(x >> 8), byte(x)}).String()
	case dns.TypeAAAA:
		return netip.AddrFrom16([16]byte{0xfd, 0x99, 12: byte(x >> 24), 13: byte(x >> 16), 14: byte(x >> 8), 15: byte(x)}).String()
	default:
		return "up:" + name
	}
}

func (u *zzC06Upstream) setEpoch(e int) {
	u.mu.Lock()
	defer u.mu.Unlock()

	u.epoch = e
}

// mode is what the upstream does when asked for name (seeded): it answers six
// names out of ten, has no data for one, says that one does not exist, replies
// with a server failure for one and cannot be reached for one.
func (u *zzC06Upstream) mode(name string) (m string) {
	h := fnv.New32a()
	u.mu.Lock()
	epoch := u.epoch
	u.mu.Unlock()
	_, _ = h.Write([]byte(fmt.Sprintf("%d/%d/%s", u.seed, epoch, strings.ToLower(name))))
	switch h.Sum32() % 10 {
	case 5:
		return "nodata"
	case 6:
		return "nxdomain"
	case 7:
		return "servfail"
	case 8:
		return "error"
	default:
		return "answer"
	}
}

func (u *zzC06Upstream) Exchange(req *dns.Msg) (resp *dns.Msg, err error) {
	q := req.Question[0]
	name := strings.ToLower(strings.TrimSuffix(q.Name, "."))
	data := zzC06UpData(name, q.Qtype)
	switch m := u.mode(name); m {
	case "error":
		u.mu.Lock()
		u.log = append(u.log, [2]string{name, dns.TypeToString[q.Qtype]})
		u.mu.Unlock()

		return nil, fmt.Errorf("zzC06Upstream: %s is unreachable", name)
	case "nodata", "nxdomain", "servfail":
		u.mu.Lock()
		u.log = append(u.log, [2]string{name, dns.TypeToString[q.Qtype]})
		u.mu.Unlock()

		resp = (&dns.Msg{}).SetReply(req)
		resp.RecursionAvailable = true
		resp.Rcode = map[string]int{
			"nodata": dns.RcodeSuccess, "nxdomain": dns.RcodeNameError, "servfail": dns.RcodeServerFailure,
		}[m]

		return resp, nil
	}

	u.mu.Lock()
	u.log = append(u.log, [2]string{name, dns.TypeToString[q.Qtype]})
	u.data[data] = name
	u.mu.Unlock()

	resp = (&dns.Msg{}).SetReply(req)
	resp.RecursionAvailable = true
	hdr := dns.RR_Header{Name: q.Name, Rrtype: q.Qtype, Class: dns.ClassINET, Ttl: 300}
	switch q.Qtype {
	case dns.TypeA:
		resp.Answer = []dns.RR{&dns.A{Hdr: hdr, A: net.ParseIP(data)}}
	case dns.TypeAAAA:
		resp.Answer = []dns.RR{&dns.AAAA{Hdr: hdr, AAAA: net.ParseIP(data)}}
	default:
		hdr.Rrtype = dns.TypeTXT
		resp.Answer = []dns.RR{&dns.TXT{Hdr: hdr, Txt: []string{data}}}
	}

	return resp, nil
}

func (u *zzC06Upstream) Address() (addr string) { return "upstream.example" }
func (u *zzC06Upstream) Close() (err error)     { return nil }

func (u *zzC06Upstream) take() (log [][2]string) {
	u.mu.Lock()
	defer u.mu.Unlock()

	log, u.log = u.log, nil
	if log == nil {
		log = [][2]string{}
	}

	return log
}

func (u *zzC06Upstream) owner(data string) (name string, ok bool) {
	u.mu.Lock()
	defer u.mu.Unlock()

	name, ok = u.data[data]

	return name, ok
}

var _ upstream.Upstream = (*zzC06Upstream)(nil)

type zzC06DHCP struct{}

func (zzC06DHCP) HostByIP(_ netip.Addr) (host string) { return "" }
func (zzC06DHCP) IPByHost(_ string) (ip netip.Addr)   { return netip.Addr{} }
func (zzC06DHCP) Enabled() (ok bool)                  { return false }

// ------------------------------------------------------------------- server

type zzC06Srv struct {
	conc     *zzC06Conc
	s        *Server
	ups      *zzC06Upstream
	handlers map[string]http.HandlerFunc
	addr     string
	cur      []zzC06RW
	// updates counts the tables reached by updates in place.
	updates int
	// f and fconf: the filter and the object it was created with, which is
	// also what its configuration is saved into.
	f     *filtering.DNSFilter
	fconf *filtering.Config
	saves int
}

func zzC06NewSrv(t *testing.T, conc *zzC06Conc) (z *zzC06Srv) {
	z = &zzC06Srv{
		conc:     conc,
		ups:      &zzC06Upstream{data: map[string]string{}, seed: zzSeed()},
		handlers: map[string]http.HandlerFunc{},
	}

	fconf := &filtering.Config{
		ApplyClientFiltering: func(_ string, _ netip.Addr, _ *filtering.Settings) {},
		BlockedServices:      &filtering.BlockedServices{Schedule: schedule.EmptyWeekly()},
		BlockingMode:         filtering.BlockingModeDefault,
		DataDir:              t.TempDir(),
		// home.onConfigModified -> config.write -> filters.WriteDiskConfig with
		// the very *Config the filter was created with: every change through
		// the API is followed by a save.
		ConfigModified: func() {
			if z.f != nil {
				z.saves++
				z.f.WriteDiskConfig(z.fconf)
			}
		},
		HTTPRegister: func(method, url string, h http.HandlerFunc) {
			z.handlers[method+" "+url] = h
		},
	}

	f, err := filtering.New(fconf, nil)
	if err != nil {
		t.Fatalf("filtering.New: %v", err)
	}

	z.f, z.fconf = f, fconf

	f.SetEnabled(true)
	f.RegisterFilteringHandlers()

	z.s, err = NewServer(DNSCreateParams{
		DHCPServer:  zzC06DHCP{},
		DNSFilter:   f,
		PrivateNets: netutil.SubnetSetFunc(netutil.IsLocallyServed),
		Logger:      slogutil.NewDiscardLogger(),
	})
	if err != nil {
		t.Fatalf("NewServer: %v", err)
	}

	err = z.s.Prepare(&ServerConfig{
		UDPListenAddrs: []*net.UDPAddr{{IP: net.IP{127, 0, 0, 1}}},
		TCPListenAddrs: []*net.TCPAddr{{IP: net.IP{127, 0, 0, 1}}},
		TLSConf:        &TLSConfig{},
		Config: Config{
			UpstreamDNS:      []string{"8.8.8.8:53"},
			UpstreamMode:     UpstreamModeLoadBalance,
			EDNSClientSubnet: &EDNSClientSubnet{Enabled: false},
			ClientsContainer: EmptyClientsContainer{},
		},
		ServePlainDNS: true,
	})
	if err != nil {
		t.Fatalf("Prepare: %v", err)
	}

	z.s.conf.UpstreamConfig.Upstreams = []upstream.Upstream{z.ups}
	if err = z.s.Start(); err != nil {
		t.Fatalf("Start: %v", err)
	}

	z.addr = z.s.dnsProxy.Addr(proxy.ProtoUDP).String()

	return z
}

func (z *zzC06Srv) call(key string, body any) (code int, resp string) {
	h, ok := z.handlers[key]
	if !ok {
		return 0, "no handler " + key
	}

	b, _ := json.Marshal(body)
	parts := strings.SplitN(key, " ", 2)
	r := httptest.NewRequest(parts[0], parts[1], bytes.NewReader(b))
	r.Header.Set("Content-Type", "application/json")
	w := httptest.NewRecorder()
	h(w, r)

	return w.Code, w.Body.String()
}

// setTable changes the rewrite table of the LIVE server to rws through the
// HTTP API and reads it back.  A table of the same length is reached by
// updating the entries that differ in place (PUT .../update), any other one
// by deleting and adding.
func (z *zzC06Srv) setTable(rws []zzC06RW) (err error) {
	// Entries that the server may consider equal: the pattern is normalised,
	// and so may be the letter case of a canonical name.
	norm := func(rw zzC06RW) (n zzC06RW) {
		n = zzC06RW{Domain: strings.ToLower(rw.Domain), Answer: rw.Answer}
		if _, err := netip.ParseAddr(rw.Answer); err != nil && rw.Answer != "A" && rw.Answer != "AAAA" {
			n.Answer = strings.ToLower(rw.Answer)
		}

		return n
	}
	dup := false
	for i := range z.cur {
		for j := range z.cur {
			dup = dup || i != j && norm(z.cur[i]) == norm(z.cur[j])
		}
	}

	if len(rws) == len(z.cur) && len(rws) > 0 && !dup {
		for i, rw := range rws {
			// (skip only what is stored exactly like this already)
			if strings.ToLower(z.cur[i].Domain) == strings.ToLower(rw.Domain) && z.cur[i].Answer == rw.Answer {
				continue
			}

			target := zzC06RW{Domain: strings.ToLower(z.cur[i].Domain), Answer: z.cur[i].Answer}
			body := map[string]any{"target": target, "update": rw}
			if code, resp := z.call("PUT /control/rewrite/update", body); code != http.StatusOK {
				return fmt.Errorf("update %v: %d %s", body, code, resp)
			}

			// The entry at i may now equal a later one that is still to be
			// replaced: an update of that one would hit i again.
			z.cur[i] = rw
			for j := i + 1; j < len(z.cur); j++ {
				if norm(z.cur[j]) == norm(rw) && norm(rws[j]) != norm(rw) {
					return z.replaceTable(rws)
				}
			}
		}

		z.updates++

		return z.checkList(rws)
	}

	return z.replaceTable(rws)
}

func (z *zzC06Srv) replaceTable(rws []zzC06RW) (err error) {
	// Delete what the API lists, as the web interface does.
	code, body := z.call("GET /control/rewrite/list", nil)
	var listed []zzC06RW
	if code != http.StatusOK || json.Unmarshal([]byte(body), &listed) != nil {
		return fmt.Errorf("list: %d %s", code, body)
	}

	for _, rw := range listed {
		if code, body = z.call("POST /control/rewrite/delete", rw); code != http.StatusOK {
			return fmt.Errorf("delete %v: %d %s", rw, code, body)
		}
	}

	z.cur = nil
	for _, rw := range rws {
		if code, body := z.call("POST /control/rewrite/add", rw); code != http.StatusOK {
			return fmt.Errorf("add %v: %d %s", rw, code, body)
		}
	}

	return z.checkList(rws)
}

func (z *zzC06Srv) checkList(rws []zzC06RW) (err error) {
	z.cur = append([]zzC06RW{}, rws...)
	code, body := z.call("GET /control/rewrite/list", nil)
	var got []zzC06RW
	if code != http.StatusOK || json.Unmarshal([]byte(body), &got) != nil || len(got) != len(rws) {
		return fmt.Errorf("list: %d %s", code, body)
	}

	for i := range got {
		// (the letter case in which a canonical name is stored is immaterial)
		if got[i].Domain != strings.ToLower(rws[i].Domain) || !strings.EqualFold(got[i].Answer, rws[i].Answer) {
			return fmt.Errorf("list differs at %d: %v vs %v", i, got[i], rws[i])
		}
	}

	return nil
}

// zzC06Obs is what the client and the upstream saw for one query.
type zzC06Obs struct {
	// Ask is the upstream's question log.
	Ask [][2]string `json:"ask"`
	// Rcode of the reply.
	Rcode string `json:"rcode"`
	// QOK: the reply has exactly the question that was sent.
	QOK bool `json:"qok"`
	// CNAME is the target of the CNAME record leading the answer (owned by
	// the queried name), "" if there is none.
	CNAME string `json:"cname"`
	// IPs are the addresses in the answer that did not come from upstream.
	IPs []string `json:"ips"`
	// FromUp is the name whose upstream records are in the answer, "" if none.
	FromUp string `json:"fromup"`
	// Odd describes anything else in the answer.
	Odd string `json:"odd,omitempty"`
	// CNAMEOpt (expectations only): the CNAME record may be missing.
	CNAMEOpt bool `json:"cnameopt,omitempty"`
}

var zzC06QTypes = map[string]uint16{"A": dns.TypeA, "AAAA": dns.TypeAAAA, "TXT": dns.TypeTXT}

// query sends one question and projects what happened.  ok is false if no
// reply arrived within the bound.
func (z *zzC06Srv) query(name string, qtype uint16, bound time.Duration) (o zzC06Obs, ok bool) {
	z.ups.take()
	req := &dns.Msg{}
	req.Id = dns.Id()
	req.RecursionDesired = true
	req.Question = []dns.Question{{Name: name + ".", Qtype: qtype, Qclass: dns.ClassINET}}

	// Like real stub resolvers the client advertises a 4096-octet UDP buffer
	// (EDNS0): random tables pile up duplicate entries, and an answer beyond
	// 512 octets read through a 512-octet buffer fails to unpack although the
	// reply itself is fine.
	req.SetEdns0(4096, false)
	cl := &dns.Client{Net: "udp", Timeout: bound, UDPSize: 4096}
	reply, _, err := cl.Exchange(req, z.addr)
	o = zzC06Obs{Ask: z.ups.take(), IPs: []string{}}
	if err != nil {
		o.Odd = "exchange: " + err.Error()

		return o, false
	}

	o.Rcode = dns.RcodeToString[reply.Rcode]
	o.QOK = len(reply.Question) == 1 && reply.Question[0] == req.Question[0]
	odd := []string{}
	for i, rr := range reply.Answer {
		data := ""
		switch rr := rr.(type) {
		case *dns.CNAME:
			if i == 0 && strings.EqualFold(rr.Hdr.Name, name+".") {
				// Names are compared case-insensitively.
				o.CNAME = strings.ToLower(strings.TrimSuffix(rr.Target, "."))
			} else {
				odd = append(odd, "cname@"+fmt.Sprint(i)+":"+rr.String())
			}

			continue
		case *dns.A:
			a, _ := netip.AddrFromSlice(rr.A.To4())
			data = a.String()
		case *dns.AAAA:
			a, _ := netip.AddrFromSlice(rr.AAAA)
			data = a.String()
		case *dns.TXT:
			data = strings.Join(rr.Txt, "")
		default:
			odd = append(odd, rr.String())

			continue
		}

		if owner, fromUp := z.ups.owner(data); fromUp {
			if o.FromUp != "" && o.FromUp != owner {
				odd = append(odd, "second upstream owner "+owner)
			}

			o.FromUp = owner
		} else if a, perr := netip.ParseAddr(data); perr == nil {
			o.IPs = append(o.IPs, z.conc.abs(a))
		} else {
			odd = append(odd, rr.String())
		}
	}

	sort.Strings(o.IPs)
	o.IPs = zzC06Uniq(o.IPs)
	o.Odd = strings.Join(odd, "; ")

	return o, true
}

func zzC06Uniq(ss []string) (r []string) {
	r = []string{}
	for i, s := range ss {
		if i == 0 || s != ss[i-1] {
			r = append(r, s)
		}
	}

	return r
}

func zzC06SameObs(e, g *zzC06Obs, anyQuestion bool) (ok bool) {
	// The reply always carries the client's own question (anyQuestion is only
	// set when attributing a disagreement to the finding about error replies).
	if !g.QOK && !anyQuestion {
		return false
	}

	if e.CNAME != g.CNAME && !(e.CNAMEOpt && g.CNAME == "") {
		return false
	}

	if len(e.Ask) != len(g.Ask) || g.Odd != "" || e.FromUp != g.FromUp {
		return false
	}

	for i := range e.Ask {
		if e.Ask[i] != g.Ask[i] {
			return false
		}
	}

	if g.Rcode != e.Rcode || len(e.IPs) != len(g.IPs) {
		return false
	}

	for i := range e.IPs {
		if e.IPs[i] != g.IPs[i] {
			return false
		}
	}

	return true
}

func (z *zzC06Srv) admissible(outs []zzC06Out, h []string, qt string, g *zzC06Obs) (ok bool) {
	return z.admits(outs, h, qt, g, false, false)
}

// admits: is g what Serve says for one of outs?  fwd admits the deviation
// "canonical name in the table without a value is forwarded", errq the
// deviation "an error reply carries the rewritten question".
func (z *zzC06Srv) admits(outs []zzC06Out, h []string, qt string, g *zzC06Obs, fwd, errq bool) (ok bool) {
	for i := range outs {
		o := outs[i]
		for pass := 0; pass < 2; pass++ {
			if pass == 1 {
				if !fwd || o.R != "rw" || len(o.Canon) == 0 || len(o.IPs) > 0 || o.Up {
					break
				}

				o.Up = true
			}

			e := zzC06Serve(&o, h, qt, z.ups.mode)
			anyQ := errq && len(e.Ask) == 1 && z.ups.mode(e.Ask[0][0]) == "error"
			if zzC06SameObs(&e, g, anyQ) {
				return true
			}
		}
	}

	return false
}

// deviation attributes an observation that the specification does not admit
// to the known deviation(s) that do: "fwd", "err", "tie", "exact", "late",
// "case", combinations "x+fwd", or "all"; "" if none does.
func (z *zzC06Srv) deviation(v *zzC06Vec, q zzC06Query, cased bool, want []zzC06Out, g *zzC06Obs) (dev string) {
	k := zzC06Key(q.h, q.qt)
	sets := []struct {
		name string
		outs []zzC06Out
	}{{"", want}}
	for _, f := range []string{"tie", "exact", "late"} {
		if outs, ok := v.VerdK[k][f]; ok {
			sets = append(sets, struct {
				name string
				outs []zzC06Out
			}{f, outs})
		}
	}

	if outs, ok := v.VerdK[k]["all"]; ok {
		sets = append(sets, struct {
			name string
			outs []zzC06Out
		}{"all", outs})
	}

	// Only what no combination of the other deviations explains is put down
	// to the letter case.
	if vc, ok := v.VerdC[k]; cased && ok {
		sets = append(sets, struct {
			name string
			outs []zzC06Out
		}{"case", vc.Outs})
	}

	// Every explanation that does not involve the letter case is tried before
	// one that does.
	for _, withCase := range []bool{false, true} {
		for _, extra := range []struct {
			name      string
			fwd, errq bool
		}{{"", false, false}, {"fwd", true, false}, {"err", false, true}, {"fwd+err", true, true}} {
			for _, st := range sets {
				if (st.name == "case") != withCase || (st.name == "" && extra.name == "") {
					continue
				}

				if !z.admits(st.outs, q.h, q.qt, g, extra.fwd, extra.errq) {
					continue
				}

				switch {
				case st.name == "":
					return extra.name
				case extra.name == "":
					return st.name
				default:
					return st.name + "+" + extra.name
				}
			}
		}
	}

	return ""
}

type zzC06Query struct {
	h  []string
	qt string
}

func zzC06QueryPairs(qs []zzC06Query) (ps [][]any) {
	for _, q := range qs {
		ps = append(ps, []any{q.h, q.qt})
	}

	return ps
}

// TestZZVerifC06Pipeline is direction A at the pipeline level.
func TestZZVerifC06Pipeline(t *testing.T) {
	w := zzNewWriter(t, "VERIF_OUT")
	defer w.close()

	conc := zzC06NewConc(zzSeed())
	z := zzC06NewSrv(t, conc)
	stopped := false
	defer func() {
		if !stopped {
			_ = z.s.Stop()
		}
	}()

	var hdr *zzC06Header
	var qs []zzC06Query
	n, evals, bad, hangs, flaky, slow, setupErrs, orders := 0, 0, 0, 0, 0, 0, 0, 0
	classes := map[string]int{}
	devs := map[string]int{}
	zzReadNDJSON(t, "VERIF_IN", func(line []byte) {
		raw := &zzC06RawVec{}
		if err := json.Unmarshal(line, raw); err != nil {
			t.Fatalf("bad vector: %v", err)
		}

		if raw.Hdr == 1 {
			hdr = &zzC06Header{}
			if err := json.Unmarshal(line, hdr); err != nil {
				t.Fatalf("bad header: %v", err)
			}

			if len(hdr.Serve) == 0 {
				t.Fatalf("header without the Serve table")
			}

			zzC06ServeRows = hdr.Serve
			qs = nil
			for _, qi := range hdr.QNames {
				for _, qt := range []string{"A", "AAAA", "TXT"} {
					qs = append(qs, zzC06Query{h: hdr.Names[qi-1], qt: qt})
				}
			}

			return
		} else if hdr == nil {
			t.Fatalf("vector before header")
		} else if hangs > 0 {
			// A hung evaluation holds the filter's configuration lock: the
			// table cannot be replaced any more.
			return
		}

		v, err := zzC06Decode(hdr, raw)
		if err != nil {
			t.Fatalf("decoding: %v", err)
		}

		n++
		z.ups.setEpoch(n)
		idOrder := make([]int, len(v.Tab))
		for i := range idOrder {
			idOrder[i] = i
		}

		ords := [][]int{idOrder}
		if !v.Ordered && len(v.Tab) > 1 {
			rev := make([]int, len(v.Tab))
			for i := range rev {
				rev[i] = len(v.Tab) - 1 - i
			}

			ords = append(ords, rev)
		}

		npass := len(ords)
		if v.VerdC != nil {
			// One more pass: the table as given with the CNAME answers in
			// another letter case and the patterns in seeded spellings.
			npass++
		}

		for oi := 0; oi < npass; oi++ {
			tab, cased, order := v.Tab, oi >= len(ords), idOrder
			if cased {
				tab = append([]zzC06Entry{}, v.Tab...)
				for i := range tab {
					tab[i].DS = n + i
					tab[i].MC = tab[i].K == "cname"
				}
			} else {
				order = ords[oi]
			}

			rws := make([]zzC06RW, len(order))
			for i, j := range order {
				rws[i] = conc.rewrite(&tab[j])
			}

			// The table the live server had before, for rehearsing the
			// transition when a disagreement has to be reproduced.
			prev := append([]zzC06RW{}, z.cur...)
			if err = z.setTable(rws); err != nil {
				setupErrs++
				w.put(map[string]any{"kind": "setup", "err": err.Error()})

				return
			}

			orders++
			for qi, q := range qs {
				want := zzC06PassOnly
				if vd, ok := v.Verd[zzC06Key(q.h, q.qt)]; ok {
					want = vd.Outs
				}

				name := zzC06Spell(zzC06Name(q.h), n+oi+qi)
				got, ok := z.query(name, zzC06QTypes[q.qt], 3*time.Second)
				evals++
				if ok && z.admissible(want, q.h, q.qt, &got) {
					for i := range want {
						e := zzC06Serve(&want[i], q.h, q.qt, z.ups.mode)
						if zzC06SameObs(&e, &got, false) {
							cl := zzC06Class(&want[i])
							if len(e.Ask) == 1 {
								cl += ":" + z.ups.mode(e.Ask[0][0])
							}

							classes[cl]++

							break
						}
					}

					continue
				}

				// A disagreement that known deviations explain is reproduced
				// and recorded for the first few of each kind only.
				dev := ""
				if ok {
					dev = z.deviation(v, q, cased, want, &got)
				}

				if dev != "" {
					devs[dev]++
					if devs[dev] > 20 {
						continue
					}
				}

				// Reproduce: the previous table is set afresh, all queries are
				// asked, the same transition is made again, then this query
				// alone with a long bound.
				rec := map[string]any{
					"tab": tab, "order": order, "table": rws, "h": q.h, "qt": q.qt, "query": name, "cased": cased,
					"want": want, "prev_table": prev, "qs": zzC06QueryPairs(qs), "seed": zzSeed(), "epoch": n,
				}
				exp := []zzC06Obs{}
				for i := range want {
					exp = append(exp, zzC06Serve(&want[i], q.h, q.qt, z.ups.mode))
				}

				rec["expected"] = exp
				if ok {
					if err = z.replaceTable(prev); err == nil {
						for _, x := range qs {
							_, _ = z.query(zzC06Name(x.h), zzC06QTypes[x.qt], 3*time.Second)
						}

						err = z.setTable(rws)
					}

					if err != nil {
						setupErrs++

						return
					}
				}

				got2, ok2 := z.query(name, zzC06QTypes[q.qt], 15*time.Second)
				switch {
				case !ok2:
					hangs++
					rec["kind"], rec["got"] = "hang", got2
				case z.admissible(want, q.h, q.qt, &got2):
					if !ok {
						// Only slow the first time.
						slow++

						continue
					}

					flaky++
					rec["kind"], rec["got"], rec["first"] = "flaky", got2, got
				default:
					rec["kind"], rec["got"] = "bad", got2
					rec["deviation"] = z.deviation(v, q, cased, want, &got2)
					if rec["deviation"] == "" {
						bad++
					}
				}

				w.put(rec)
				if hangs > 0 {
					return
				}
			}
		}
	})

	if hangs == 0 {
		stopped = true
		if err := z.s.Stop(); err != nil {
			t.Logf("stopping: %v", err)
		}
	} else {
		stopped = true
	}

	w.put(map[string]any{
		"kind": "summary", "vectors": n, "orderings": orders, "evals": evals, "bad": bad, "hangs": hangs,
		"flaky": flaky, "slow": slow, "setup_errors": setupErrs, "classes": classes,
		"tables_reached_by_update": z.updates, "saves": z.saves, "deviations": devs,
	})
}

// zzC06Class names the pipeline case an outcome exercises.
func zzC06Class(o *zzC06Out) (c string) {
	switch {
	case o.R == "pass":
		return "pass"
	case o.Up:
		return "cname-upstream"
	case len(o.IPs) > 0 && len(o.Canon) > 0:
		return "cname-addresses"
	case len(o.IPs) > 0:
		return "addresses"
	case len(o.Canon) > 0:
		return "cname-empty"
	default:
		return "empty"
	}
}

// ---------------------------------------------------------------- direction B

var (
	zzC06BLabels = []string{"k", "m", "z", "srv", "n1", "dev", "p-q"}
	zzC06BTLDs   = []string{"net", "lan", "io"}
	zzC06BV4     = []string{"10.0.0.1", "10.0.0.2", "172.16.5.9", "203.0.113.200", "0.0.0.0"}
	zzC06BV6     = []string{"fd00::1", "fd00::2", "2001:db8:ffff::53", "::ffff:10.1.2.3", "::1", "::"}
)

func zzC06BPick(rng *rand.Rand, ss []string) (s string) { return ss[rng.Intn(len(ss))] }

func zzC06BName(rng *rand.Rand) (n []string) {
	depth := rng.Intn(3)
	for i := 0; i < depth; i++ {
		n = append(n, zzC06BPick(rng, zzC06BLabels))
	}

	return append(append(n, zzC06BPick(rng, zzC06BLabels)), zzC06BPick(rng, zzC06BTLDs))
}

func zzC06BSub(rng *rand.Rand, n []string) (s []string) {
	for i := 0; i <= rng.Intn(2); i++ {
		s = append(s, zzC06BPick(rng, zzC06BLabels))
	}

	return append(s, n...)
}

func zzC06BTable(rng *rand.Rand) (tab []zzC06Entry, pool [][]string) {
	for i := 0; i < 4+rng.Intn(4); i++ {
		n := zzC06BName(rng)
		pool = append(pool, n)
		if rng.Intn(2) == 0 {
			pool = append(pool, zzC06BSub(rng, n))
		}

		if len(n) > 2 && rng.Intn(2) == 0 {
			pool = append(pool, n[1:])
		}
	}

	pick := func() (n []string) { return pool[rng.Intn(len(pool))] }
	size := 10 + rng.Intn(11)
	for len(tab) < size {
		if len(tab) > 0 && rng.Intn(12) == 0 {
			e := tab[rng.Intn(len(tab))]
			tab = append(tab, zzC06Entry{W: e.W, N: e.N})
		} else {
			tab = append(tab, zzC06Entry{W: rng.Intn(5) < 2, N: pick()})
		}

		e := &tab[len(tab)-1]
		e.T = []string{}
		e.DS = rng.Intn(3)
		switch k := rng.Intn(20); {
		case k < 5:
			e.K, e.IP = "ip4", zzC06BPick(rng, zzC06BV4)
		case k < 8:
			e.K, e.IP = "ip6", zzC06BPick(rng, zzC06BV6)
		case k < 9:
			e.K = "A"
		case k < 10:
			e.K = "AAAA"
		case k < 11:
			e.K = "cname"
			if e.W {
				e.T = append([]string{"*"}, e.N...)
			} else {
				e.T = e.N
			}
		case k < 17:
			e.K, e.T = "cname", pick()
		case k < 19:
			e.K, e.T = "cname", zzC06BSub(rng, pick())
		default:
			e.K, e.T = "cname", zzC06BName(rng)
		}

		// A quarter of the canonical names are written in another case.
		e.MC = e.K == "cname" && rng.Intn(4) == 0
	}

	if rng.Intn(4) == 0 {
		tab, pool = zzC06BLongChain(rng, tab, pool)
	}

	return tab, pool
}

// zzC06BLongChain adds a chain of 7 to 33 CNAME entries over fresh names that
// ends in a self entry, a cycle of two or three further names, back at its
// head, in an address, or in a name the table does not mention -- or a short
// lead-in into a cycle of 7 to 33 names; the entries
// are scattered over the table and head, a name in the middle, the name
// entered after eight links and the tail join the pool of query names.
func zzC06BLongChain(rng *rand.Rand, tab []zzC06Entry, pool [][]string) (t2 []zzC06Entry, p2 [][]string) {
	base := zzC06BName(rng)
	name := func(kind string, i int) (n []string) {
		return append([]string{fmt.Sprintf("%s%d", kind, i)}, base...)
	}

	cn := func(from, to []string) (e zzC06Entry) {
		return zzC06Entry{N: from, K: "cname", T: to, DS: rng.Intn(3)}
	}

	if rng.Intn(2) == 0 {
		// A ring: a lead-in of 1, 2 or 9 names into a cycle of 7 to 33 names,
		// i.e. a long cycle entered from a queried name outside it.
		l := []int{1, 2, 9}[rng.Intn(3)]
		c := []int{7, 8, 9, 10, 16, 17, 33}[rng.Intn(7)]
		for i := 1; i <= l; i++ {
			to := name("h", i+1)
			if i == l {
				to = name("g", 1)
			}

			tab = append(tab, cn(name("h", i), to))
		}

		for i := 1; i <= c; i++ {
			tab = append(tab, cn(name("g", i), name("g", i%c+1)))
		}

		rng.Shuffle(len(tab), func(i, j int) { tab[i], tab[j] = tab[j], tab[i] })
		pool = append(pool, name("h", 1), name("h", 1), name("h", (l+1)/2), name("g", 1), name("g", c/2))

		return tab, pool
	}

	l := []int{7, 8, 9, 16, 33}[rng.Intn(5)]
	end := rng.Intn(6)

	for i := 1; i <= l; i++ {
		to := name("h", i+1)
		if i == l {
			to = name("g", 1)
			if end == 3 {
				to = name("h", 1)
			}
		}

		tab = append(tab, cn(name("h", i), to))
	}

	switch end {
	case 0:
		tab = append(tab, cn(name("g", 1), name("g", 1)))
	case 1:
		tab = append(tab, cn(name("g", 1), name("g", 2)), cn(name("g", 2), name("g", 1)))
	case 2:
		tab = append(tab, cn(name("g", 1), name("g", 2)), cn(name("g", 2), name("g", 3)), cn(name("g", 3), name("g", 1)))
	case 4:
		tab = append(tab, zzC06Entry{N: name("g", 1), K: "ip4", IP: zzC06BV4[0], T: []string{}})
	default:
		// Back at the head (3), or the tail is not in the table (5).
	}

	rng.Shuffle(len(tab), func(i, j int) { tab[i], tab[j] = tab[j], tab[i] })
	pool = append(pool, name("h", 1), name("h", 1), name("h", 2), name("h", 9), name("h", l), name("g", 1), name("g", 2))

	return tab, pool
}

func zzC06Split(name string) (ls []string) {
	if name == "" {
		return []string{}
	}

	return strings.Split(name, ".")
}

// TestZZVerifC06PipeTrace is direction B at the pipeline level.
func TestZZVerifC06PipeTrace(t *testing.T) {
	w := zzNewWriter(t, "VERIF_OUT")
	defer w.close()

	rng := rand.New(rand.NewSource(zzSeed() + 7919))
	conc := zzC06NewConc(zzSeed())
	z := zzC06NewSrv(t, conc)
	hung := false
	defer func() {
		if !hung {
			_ = z.s.Stop()
		}
	}()

	ntab := 40
	if zzGetenv("VERIF_TIER") == "thorough" {
		ntab = 400
	}

	prevQS := [][]any{}
	for ti := 0; ti < ntab && !hung; ti++ {
		z.ups.setEpoch(ti + 1)
		tab, pool := zzC06BTable(rng)
		if ti%3 == 2 && len(z.cur) > 0 {
			// Every third table has the size of its predecessor, so that it
			// is reached by updates in place.
			for len(tab) > len(z.cur) {
				tab = tab[:len(tab)-1]
			}

			for len(tab) < len(z.cur) {
				tab = append(tab, tab[rng.Intn(len(tab))])
			}
		}

		rws := make([]zzC06RW, len(tab))
		for i := range tab {
			rws[i] = conc.rewrite(&tab[i])
		}

		// The table the live server had before and the queries it was asked
		// with it: what a reproduction has to rehearse.
		prev := append([]zzC06RW{}, z.cur...)
		if err := z.setTable(rws); err != nil {
			t.Fatalf("setting table: %v", err)
		}

		qs := []map[string]any{}
		for i := 0; i < 30 && !hung; i++ {
			var h []string
			switch k := rng.Intn(10); {
			case k < 3:
				h = pool[rng.Intn(len(pool))]
			case k < 5:
				e := tab[rng.Intn(len(tab))]
				h = e.N
				if e.W {
					h = zzC06BSub(rng, e.N)
				}
			case k < 7:
				h = zzC06BSub(rng, pool[rng.Intn(len(pool))])
			case k < 8:
				n := pool[rng.Intn(len(pool))]
				h = append([]string{"x" + n[0]}, n[1:]...)
			default:
				if e := tab[rng.Intn(len(tab))]; e.K == "cname" && len(e.T) > 0 && e.T[0] != "*" {
					h = e.T
				} else {
					h = zzC06BName(rng)
				}
			}

			qt := []string{"A", "AAAA", "TXT"}[rng.Intn(3)]
			name := zzC06Spell(zzC06Name(h), rng.Intn(3))
			got, ok := z.query(name, zzC06QTypes[qt], 3*time.Second)
			if !ok {
				got, ok = z.query(name, zzC06QTypes[qt], 15*time.Second)
			}

			ask := [][]any{}
			for _, a := range got.Ask {
				ask = append(ask, []any{zzC06Split(a[0]), a[1]})
			}

			rec := map[string]any{
				"h": h, "qt": qt, "query": name, "ask": ask, "rcode": got.Rcode, "qok": got.QOK,
				"cname": zzC06Split(got.CNAME), "ips": got.IPs, "fromup": zzC06Split(got.FromUp),
				"odd": got.Odd, "answered": ok,
			}
			hung = !ok
			qs = append(qs, rec)
		}

		// What the upstream does for the names it can be asked for (only those
		// that are not simply answered).
		upm := [][]any{}
		seen := map[string]bool{}
		note := func(ls []string) {
			name := strings.ToLower(zzC06Name(ls))
			if m := z.ups.mode(name); !seen[name] && m != "answer" && name != "" {
				seen[name] = true
				upm = append(upm, []any{zzC06Split(name), m})
			}
		}
		for _, q := range qs {
			note(q["h"].([]string))
		}

		for i := range tab {
			if tab[i].K == "cname" {
				note(tab[i].T)
			}
		}

		w.put(map[string]any{
			"lvl": "pipe", "tab": tab, "qs": qs, "table": rws, "prev_table": prev, "prev_qs": prevQS, "upm": upm,
			"epoch": ti + 1,
		})
		prevQS = [][]any{}
		for _, q := range qs {
			prevQS = append(prevQS, []any{q["h"], q["qt"]})
		}
	}
}

// ---------------------------------------------------------------------- probe

type zzC06ProbeIn struct {
	Tab   []zzC06Entry `json:"tab"`
	H     []string     `json:"h"`
	QT    string       `json:"qt"`
	Query string       `json:"query"`
	Want  []zzC06Out   `json:"want"`
	// PrevTable, if any, is the concrete table the server had before: it is
	// set first, QS are asked, and Tab is reached from it the way the replay
	// does (update in place where possible).
	PrevTable []zzC06RW           `json:"prev_table"`
	QS        [][]json.RawMessage `json:"qs"`
	// Life, if any, is everything the live server went through before: the
	// tables it was given one after the other and the queries asked with each.
	Life []struct {
		Table []zzC06RW           `json:"table"`
		QS    [][]json.RawMessage `json:"qs"`
	} `json:"life"`
	Expect []struct {
		Ask    [][]json.RawMessage `json:"ask"`
		CNAME  []string            `json:"cname"`
		IPs    []string            `json:"ips"`
		FromUp []string            `json:"fromup"`
		Rcode  string              `json:"rcode"`
		// CNAMEOpt: the CNAME record may be missing (error reply).
		CNAMEOpt bool `json:"cnameopt"`
	} `json:"expect"`
	// Expected are admissible observations in concrete form (as recorded by
	// the replay with a disagreement).
	Expected []zzC06Obs `json:"expected"`
	// Epoch selects the behaviour of the mock upstream for the final query.
	Epoch int `json:"epoch"`
}

// TestZZVerifC06PipeProbe sends every input line's query alone, after setting
// its table: used to reproduce a rejected trace observation in isolation and
// by ./check C06 --replay.
func TestZZVerifC06PipeProbe(t *testing.T) {
	w := zzNewWriter(t, "VERIF_OUT")
	defer w.close()

	conc := zzC06NewConc(zzSeed())
	z := zzC06NewSrv(t, conc)
	hung := false
	defer func() {
		if !hung {
			_ = z.s.Stop()
		}
	}()

	i := 0
	zzReadNDJSON(t, "VERIF_IN", func(line []byte) {
		in := &zzC06ProbeIn{}
		if err := json.Unmarshal(line, in); err != nil {
			t.Fatalf("bad probe: %v", err)
		}

		i++
		if hung {
			w.put(map[string]any{"i": i, "admissible": false, "skipped": true})

			return
		}

		if in.Query == "" {
			in.Query = zzC06Name(in.H)
		}

		exp := append([]zzC06Obs{}, in.Expected...)
		for _, e := range in.Expect {
			o := zzC06Obs{
				Ask: [][2]string{}, Rcode: e.Rcode, QOK: true, CNAME: zzC06Name(e.CNAME), CNAMEOpt: e.CNAMEOpt,
				FromUp: zzC06Name(e.FromUp), IPs: zzC06Cur.concrete(e.IPs),
			}
			sort.Strings(o.IPs)
			for _, a := range e.Ask {
				var n []string
				var qt string
				if len(a) != 2 || json.Unmarshal(a[0], &n) != nil || json.Unmarshal(a[1], &qt) != nil {
					t.Fatalf("bad ask in probe %d", i)
				}

				o.Ask = append(o.Ask, [2]string{zzC06Name(n), qt})
			}

			exp = append(exp, o)
		}

		rws := make([]zzC06RW, len(in.Tab))
		for j := range in.Tab {
			rws[j] = conc.rewrite(&in.Tab[j])
		}

		askAll := func(ps [][]json.RawMessage) {
			for _, p := range ps {
				var h []string
				var qt string
				if len(p) == 2 && json.Unmarshal(p[0], &h) == nil && json.Unmarshal(p[1], &qt) == nil {
					_, _ = z.query(zzC06Name(h), zzC06QTypes[qt], 3*time.Second)
				}
			}
		}

		for k, st := range in.Life {
			var lerr error
			if k == 0 {
				lerr = z.replaceTable(st.Table)
			} else {
				lerr = z.setTable(st.Table)
			}

			if lerr != nil {
				t.Fatalf("rehearsing the life of the server: %v", lerr)
			}

			askAll(st.QS)
		}

		if in.PrevTable != nil && len(in.Life) == 0 {
			if err := z.replaceTable(in.PrevTable); err != nil {
				t.Fatalf("setting previous table: %v", err)
			}

			for _, p := range in.QS {
				var h []string
				var qt string
				if len(p) == 2 && json.Unmarshal(p[0], &h) == nil && json.Unmarshal(p[1], &qt) == nil {
					_, _ = z.query(zzC06Name(h), zzC06QTypes[qt], 3*time.Second)
				}
			}
		}

		if err := z.setTable(rws); err != nil {
			t.Fatalf("setting table: %v", err)
		}

		z.ups.setEpoch(in.Epoch)
		got, ok := z.query(in.Query, zzC06QTypes[in.QT], 15*time.Second)
		if !ok {
			hung = true
			w.put(map[string]any{"i": i, "admissible": false, "hang": true, "got": got, "expected": exp})

			return
		}

		adm := false
		for j := range exp {
			adm = adm || zzC06SameObs(&exp[j], &got, false)
		}

		w.put(map[string]any{"i": i, "admissible": adm, "hang": false, "got": got, "expected": exp})
	})
}
