SPECIFICATION GenSpec
CONSTANTS
  MaxLines = 4
  LenClasses = {"t", "h", "m"}
  LayoutSet <- Layouts
