CONSTANTS Design = "asbuilt" Lis = {0, 3} Plans = "cover"
SPECIFICATION Spec
INVARIANTS SearchNames
