-------------------------- MODULE TraceHashPrefix --------------------------
(***************************************************************************)
(* Trace validation for C19.  A trace is a concatenation of walks; each    *)
(* walk starts with a "reset" line (a new Checker with an empty cache; the *)
(* service database in full; t = life time of its entries in ticks)        *)
(* followed by                                                             *)
(*   check  one call of the real code: the name (labels, cut, opt, and the *)
(*          hash [p, r] of every domain of its last-four-label chain), the *)
(*          set q of prefixes seen in the question(s) sent to the mock     *)
(*          service ({} = no question), the verdict v, and ok = the        *)
(*          harness's own form check of the question (nothing but 4-digit  *)
(*          hex labels + the configured suffix, name not found anywhere in *)
(*          the message); f = the mock service was failing during the call *)
(*          (seeded schedule), x = it answered with an error reply (rcode  *)
(*          SERVFAIL / REFUSED / NOTIMP, no records), e = the call         *)
(*          returned an error;                                             *)
(*   tick   d units of virtual time pass;                                  *)
(*   db     the service adds / deletes hashes.                             *)
(* Used for both directions: A (walks planned from HashPrefix.tla's graph, *)
(* abstract prefixes P1..P3) and B (random histories over a large universe *)
(* of real names, p and r taken from the harness's own SHA-256).           *)
(*                                                                         *)
(* The rules are HashPrefixCore's own (Outcomes, Store, Age, Received).    *)
(* Given the observed q the successor is unique, so the pass is linear.  A *)
(* rejected line ends its walk (the following lines up to the next reset   *)
(* are skipped and counted): the state after it would be meaningless.      *)
(***************************************************************************)
EXTENDS Sequences, Naturals, FiniteSets, TLC, Json

Trace == ndJsonDeserialize("trace.ndjson")

Set(s) == {s[i] : i \in DOMAIN s}

INSTANCE HashPrefixCore

\* the cache is a partial function here: an entry appears when its prefix is
\* first asked (a trace of real names touches thousands of prefixes)
EmptyCache == [p \in {} |-> [ttl |-> 0, hs |-> {}]]

\* taint (diagnostics only, never used to accept or reject): prefix -> ticks
\* for which an implementation that wrongly remembered an error reply as "no
\* hashes" would go on using that; set when an error reply answers a question
\* with a verdict, cleared when the prefix is asked again with success.
VARIABLES l, db, cache, life, skip, bad, nskip, taint

\* f = the mock service was set to fail during this call, x = it was set to
\* answer with an error reply (the environment's moves, known to the harness);
\* e = the call returned an error.
Rules(e) == IF e.f \/ e.x THEN QuietOutcomes(e.n, cache, db) ELSE Outcomes(e.n, cache, db)
Accepts(e) ==
    /\ e.ok
    /\ ~e.e
    /\ \E o \in Rules(e) : o.q = Set(e.q) /\ o.v = e.v
\* the error reply was received: an error, or a verdict without the asked prefixes
AcceptsErrReply(e) ==
    /\ e.ok /\ e.x /\ Set(e.q) \in FailQuestions(e.n)
    /\ e.e \/ e.v \in ErrReplyVerdicts(e.n, cache, Set(e.q))
\* the failure showed: error to the caller, only candidate prefixes asked
AcceptsFailed(e) ==
    e.ok /\ e.f /\ e.e /\ Set(e.q) \in FailQuestions(e.n)

Init == l = 1 /\ db = {} /\ cache = EmptyCache /\ life = 1 /\ skip = FALSE /\ bad = {} /\ nskip = 0
        /\ taint = [p \in {} |-> 0]

Step(e) ==
    IF e.a = "reset"
    THEN /\ db' = Set(e.db) /\ cache' = EmptyCache /\ life' = e.t /\ skip' = FALSE
         /\ taint' = [p \in {} |-> 0]
         /\ UNCHANGED <<bad, nskip>>
    ELSE IF skip
    THEN /\ nskip' = nskip + 1 /\ UNCHANGED <<db, cache, life, skip, bad, taint>>
    ELSE IF e.a = "tick"
    THEN /\ cache' = Age(cache, e.d) /\ UNCHANGED <<db, life, skip, bad, nskip>>
         /\ taint' = [p \in DOMAIN taint |-> IF taint[p] > e.d THEN taint[p] - e.d ELSE 0]
    ELSE IF e.a = "db"
    THEN /\ db' = (db \ Set(e.del)) \cup Set(e.add) /\ UNCHANGED <<cache, life, skip, bad, nskip, taint>>
    ELSE IF AcceptsFailed(e)
    THEN UNCHANGED <<db, cache, life, skip, bad, nskip, taint>>   \* a failed lookup leaves the cache as it was
    ELSE IF AcceptsErrReply(e)
    THEN /\ UNCHANGED <<db, cache, life, skip, bad, nskip>>      \* and so does an error reply
         /\ taint' = [p \in DOMAIN taint \cup Set(e.q) |->
                        IF p \in Set(e.q) /\ ~e.e THEN life
                        ELSE IF p \in DOMAIN taint THEN taint[p] ELSE 0]
    ELSE IF Accepts(e)
    THEN /\ cache' = Store(cache, Set(e.q), Received(db, Set(e.q)), life)
         /\ taint' = [p \in DOMAIN taint |-> IF p \in Set(e.q) THEN 0 ELSE taint[p]]
         /\ UNCHANGED <<db, life, skip, bad, nskip>>
    ELSE /\ bad' = bad \cup {l} /\ skip' = TRUE /\ UNCHANGED <<db, cache, life, nskip, taint>>
         \* diagnostics for the replay record: what the rules admit here
         /\ PrintT(<<"@@V", ToJson([line |-> l,
                                    admissible |-> {[q |-> o.q, v |-> o.v] :
                                        o \in Rules(e)},
                                    failing |-> e.f, errreply |-> e.x,
                                    tainted |-> {p \in DOMAIN taint : taint[p] > 0},
                                    valid |-> {p \in PrefsOf(e.n, Core(e.n) \cup Opt(e.n)) : Valid(cache, p)}])>>)

Next == /\ l <= Len(Trace)
        /\ Step(Trace[l])
        /\ l' = l + 1
        /\ (l' = Len(Trace) + 1 =>
              PrintT(<<"@@V", ToJson([n |-> Len(Trace), bad |-> bad', skipped |-> nskip'])>>))
Spec == Init /\ [][Next]_<<l, db, cache, life, skip, bad, nskip, taint>>
=============================================================================
