---------------------------- MODULE TracePersist ----------------------------
(***************************************************************************)
(* Direction B for G10: seeded random histories recorded from a real       *)
(* server process (requests of the unbounded universe Deep = TRUE --       *)
(* every component at any of its values at once, the extra values, clean   *)
(* restarts, crashes at request boundaries and in mid-request) are         *)
(* validated against Persist.tla.                                          *)
(*                                                                         *)
(* A line is accepted iff Persist!Out (for a crash in mid-request:         *)
(* Persist!MidOuts) admits an outcome with the observed class whose        *)
(* settings are EXACTLY what the GET endpoints report and EXACTLY what the *)
(* parsed AdGuardHome.yaml holds, and the harness saw no DNS behaviour     *)
(* contradicting the reported settings (effbad empty).  After a rejected   *)
(* line the rest of that history is skipped and counted.                   *)
(***************************************************************************)
EXTENDS Persist

Trace == ndJsonDeserialize("trace.ndjson")

VARIABLES l, cur, lost, bad, skipped

tvars == <<l, cur, lost, bad, skipped, running, file, reported, last>>

\* JSON arrays arrive as sequences: the rewrite list and the static leases are
\* compared as sets.
Norm(r) == [c \in Comps |-> IF c \in {"rw", "leases"} THEN {r[c][i] : i \in DOMAIN r[c]} ELSE r[c]]

Clean(ln) == /\ ln.err = "" /\ Len(ln.effbad) = 0
             /\ DOMAIN ln.rep = Comps /\ DOMAIN ln.file = Comps

Outs(s, ln) ==
    CASE ln.lab.op \in {"restart", "crash"} -> {[cls |-> "boot", st |-> s]}
      [] ln.lab.op = "crashduring" -> MidOuts(s, L(ln.lab.x, "", ln.lab.c, ln.lab.v, ln.lab.w))
      [] OTHER -> Out(s, L(ln.lab.op, ln.lab.x, ln.lab.c, ln.lab.v, ln.lab.w))

Matches(s, ln) ==
    IF ~Clean(ln) THEN {}
    ELSE {o \in Outs(s, ln) : o.cls = ln.cls /\ o.st = Norm(ln.rep) /\ o.st = Norm(ln.file)}

TInit == Init /\ l = 1 /\ cur = Init0 /\ lost = FALSE /\ bad = {} /\ skipped = 0

TStep ==
    /\ l <= Len(Trace)
    /\ \E ln \in {Trace[l]} :
       IF ln.ev = "reset"
       THEN IF Clean(ln) /\ Norm(ln.rep) = Init0 /\ Norm(ln.file) = Init0
            THEN cur' = Init0 /\ lost' = FALSE /\ UNCHANGED <<bad, skipped>>
            ELSE /\ bad' = bad \cup {[i |-> l, h |-> ln.h, why |-> "rig"]}
                 /\ lost' = TRUE /\ UNCHANGED <<cur, skipped>>
       ELSE IF ln.ev # "step" \/ lost
       THEN skipped' = skipped + 1 /\ UNCHANGED <<cur, lost, bad>>
       ELSE \E m \in {Matches(cur, ln)} :
            IF m # {}
            THEN cur' = (CHOOSE o \in m : TRUE).st /\ UNCHANGED <<lost, bad, skipped>>
            ELSE /\ bad' = bad \cup {[i |-> l, h |-> ln.h,
                                      why |-> IF Outs(cur, ln) = {} THEN "noout"
                                              ELSE IF ~Clean(ln) THEN "dirty" ELSE "state"]}
                 /\ lost' = TRUE /\ UNCHANGED <<cur, skipped>>
    /\ l' = l + 1
    /\ UNCHANGED vars
    /\ (l' = Len(Trace) + 1 => PrintT(<<"@@V", ToJson([n |-> Len(Trace), bad |-> bad', skipped |-> skipped'])>>))

TSpec == TInit /\ [][TStep]_tvars
=============================================================================
