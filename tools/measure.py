#!/usr/bin/env python3
"""measure.py <tier> <Cxx|Gxx>... : run each check once (sequentially, seed 1) on the current tree and record wall time,
exit status and the main coverage numbers of its evidence in notes/MEASURED.json (merged), from which mkdesign.py
renders the measured cost table (DESIGN section 12.4)."""
import json, os, subprocess, sys, time
V = os.path.dirname(os.path.dirname(os.path.abspath(__file__)))
tier = sys.argv[1]
out = os.path.join(V, "notes", "MEASURED.json")
data = json.load(open(out)) if os.path.exists(out) else {}
for p in sys.argv[2:]:
    t = time.time()
    r = subprocess.run(["./check", p, tier], cwd=V, capture_output=True, text=True, env=dict(os.environ, VERIF_SEED="1"))
    wall = round(time.time() - t, 1)
    ev = {}
    try:
        ev = json.load(open(os.path.join(V, "evidence", p + ".json")))
    except Exception:
        pass
    cov = ev.get("coverage", {})
    load = open("/proc/loadavg").read().split()[0]
    data.setdefault(p, {})[tier] = {
        "exit": r.returncode, "wall_s": wall, "load1": float(load),
        "known_findings": sum(1 for l in r.stdout.splitlines() if l.startswith("KNOWN-FINDING")),
        "states": cov.get("states"), "transitions": cov.get("transitions"),
        "evaluations": cov.get("evaluations"), "traces": cov.get("traces_validated_against_impl"),
        "exhaustive": cov.get("exhaustive"), "tlc_runs": len(cov.get("tlc_runs") or []),
    }
    import fcntl
    with open(out + ".lock", "w") as lk:
        fcntl.flock(lk, fcntl.LOCK_EX)
        cur = json.load(open(out)) if os.path.exists(out) else {}
        cur.setdefault(p, {})[tier] = data[p][tier]
        json.dump(cur, open(out, "w"), indent=1, sort_keys=True)
    print(p, tier, "exit", r.returncode, "wall", wall, "load", load, flush=True)
