SPECIFICATION Spec
CONSTANTS
  MaxEntry = 4
  BufSize = 12
  DepthLimit = 100
  EmptyGuard = TRUE
  MaxLines = 4
  MinLen = 1
  EmitProbes = TRUE
  MaxLen = 4
VIEW View
PROPERTY Refines
