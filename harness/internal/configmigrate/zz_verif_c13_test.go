package configmigrate

// C13 conformance harness (overlaid into the package at build time).
//
//   - TestZZVerifC13Baselines  abs(): abstracts the repository's own golden
//     inputs (testdata/TestMigrateConfig_Migrate/vN/input.yml) into the cell
//     vocabulary of specs/Migrate.tla; TLC reads the result as its universe of
//     valid documents.
//   - TestZZVerifC13Replay     direction A: conc() renders a YAML document
//     from the golden input with the deviations TLC chose, drives the real
//     Migrator.Migrate one-shot and split at every k TLC listed, recovers
//     panics, and compares the projected result with the spec's admissible
//     set (symbolic cells evaluated against the input document).
//   - TestZZVerifC13Trace      direction B: seeded random multi-deviation
//     documents; one NDJSON line of observed facts per document for
//     TraceMigrate.tla.

import (
	"bytes"
	"encoding/json"
	"fmt"
	"math/rand"
	"net/netip"
	"os"
	"path/filepath"
	"reflect"
	"runtime"
	"sort"
	"strconv"
	"strings"
	"sync"
	"testing"
	"time"

	"github.com/AdguardTeam/golibs/timeutil"
	"golang.org/x/crypto/bcrypt"
	yaml "gopkg.in/yaml.v3"
)

const (
	zzC13Last     = int(LastSchemaVersion)
	zzC13DataDir  = "/zzverif/data"
	zzC13WorkDir  = "/zzverif/work"
	zzC13FilePath = "/path/to/file.txt"
)

// zzC13Cell is one cell of the abstract document.
type zzC13Cell struct {
	K string `json:"k"`
	P string `json:"p"`
	N string `json:"n"`
	T string `json:"t"`
	V string `json:"v"`
}

type zzC13TV struct {
	T string `json:"t"`
	V string `json:"v"`
}

type zzC13Dev struct {
	K string `json:"k"`
	D string `json:"d"`
}

// zzC13Vec is a line produced by TLC (kind "base" or "vec").
type zzC13Vec struct {
	Kind string `json:"kind"`
	V    int    `json:"v"`
	Devs []zzC13Dev `json:"devs"`
	// Err says whether an error (document unchanged) is admissible.
	Err bool `json:"err"`
	// Oks are the admissible final shapes: complete for kind "base", a
	// difference against the base shape of the same version for "vec".
	Oks []map[string]zzC13TV `json:"oks"`
	// Start is the version the spec expects the run to start from.
	Start int   `json:"start"`
	Ks    []int `json:"ks"`
	ID    int   `json:"id"`
}

// ---------------------------------------------------------------- golden

// zzC13Golden returns the golden input for schema version v (0..29).
func zzC13Golden(v int) (doc yobj, err error) {
	dir := v + 1
	switch v {
	case 27, 29:
		dir = 29
	}

	name := filepath.Join("testdata", "TestMigrateConfig_Migrate", "v"+strconv.Itoa(dir), "input.yml")
	if v == 29 {
		name = filepath.Join("testdata", "TestMigrateConfig_Migrate", "v29", "output.yml")
	}

	body, err := os.ReadFile(name)
	if err != nil {
		return nil, err
	}

	body = bytes.ReplaceAll(body, []byte("USERFILTERSPATH"), []byte(filepath.Join(zzC13DataDir, "userfilters", "*")))
	body = bytes.ReplaceAll(body, []byte("FILEPATH"), []byte(zzC13FilePath))
	doc = yobj{}
	if err = yaml.Unmarshal(body, &doc); err != nil {
		return nil, err
	}

	if v == 27 {
		// There is no golden file for schema 27: the v29 input (schema 28)
		// without upstream_mode and with the two flags step 28 reads is one.
		doc["schema_version"] = 27
		dns, _ := doc["dns"].(yobj)
		dns["all_servers"] = false
		dns["fastest_addr"] = true
	}

	return doc, nil
}

// ------------------------------------------------------------ key → place

func zzC13DNSName(doc yobj) (name string) {
	if _, ok := doc["coredns"].(yobj); ok {
		if _, isObj := doc["dns"].(yobj); !isObj {
			return "coredns"
		}
	}

	return "dns"
}

// zzC13ClientList returns the container and key holding the client list.
func zzC13ClientList(doc yobj) (m yobj, key string) {
	if c, ok := doc["clients"].(yobj); ok {
		return c, "persistent"
	}

	return doc, "clients"
}

// zzC13ElemIdx returns the index of a client-list pseudo section (cl0, cl1,
// cl2), or -1.
func zzC13ElemIdx(name string) (i int) {
	if len(name) == 3 && name[:2] == "cl" && name[2] >= '0' && name[2] <= '9' {
		return int(name[2] - '0')
	}

	return -1
}

// zzC13Place resolves an abstract key to (container, name); for the
// pseudo-sections cl0 / fl0 the container is the first element of the list.
func zzC13Place(doc yobj, key string) (m yobj, name string, ok bool) {
	parts := strings.Split(key, ".")
	if idx := zzC13ElemIdx(parts[0]); idx >= 0 || parts[0] == "fl0" {
		var l []any
		if idx >= 0 {
			c, k := zzC13ClientList(doc)
			l, _ = c[k].([]any)
		} else {
			idx = 0
			l, _ = doc["filters"].([]any)
		}
		if len(l) <= idx || len(parts) == 1 {
			return nil, "", false
		}
		m, ok = l[idx].(yobj)

		return m, parts[1], ok
	}

	switch parts[0] {
	case "dns":
		if len(parts) > 1 {
			parts[0] = zzC13DNSName(doc)
		}
	}

	m = doc
	for _, p := range parts[:len(parts)-1] {
		m, ok = m[p].(yobj)
		if !ok {
			return nil, "", false
		}
	}

	return m, parts[len(parts)-1], true
}

// zzC13Get returns the value at key.
func zzC13Get(doc yobj, key string) (v any, ok bool) {
	if idx := zzC13ElemIdx(key); idx >= 0 {
		c, k := zzC13ClientList(doc)
		l, _ := c[k].([]any)
		if len(l) <= idx {
			return nil, false
		}

		return l[idx], true
	}

	switch key {
	case "fl0":
		l, _ := doc["filters"].([]any)
		if len(l) == 0 {
			return nil, false
		}

		return l[0], true
	}

	if key == "zz_extra" {
		// The same unknown setting under its hard-to-write key ("nlkey").
		if v, ok = doc[zzC13NLKey]; ok {
			return v, true
		}
	}

	m, name, ok := zzC13Place(doc, key)
	if !ok {
		return nil, false
	}
	v, ok = m[name]

	return v, ok
}

// zzC13NLKey is the key of the deviation kind "nlkey" (Migrate.tla "nlkey:"),
// zzC13NLKeyMark the placeholder it is marshalled as.
const (
	zzC13NLKey     = "\n x\n"
	zzC13NLKeyMark = "zzrawkey-nlx-zz"
)

// zzC13Set sets or (del) removes the value at key; it reports false when the
// parent does not exist.
func zzC13Set(doc yobj, key string, v any, del bool) (ok bool) {
	switch key {
	case "cl0", "fl0":
		var l []any
		if key == "cl0" {
			c, k := zzC13ClientList(doc)
			l, _ = c[k].([]any)
		} else {
			l, _ = doc["filters"].([]any)
		}
		if len(l) == 0 || (del && key == "fl0") {
			return false
		}
		if del {
			// No first client: the list loses it.
			c, k := zzC13ClientList(doc)
			c[k] = l[1:]

			return true
		}
		l[0] = v

		return true
	}

	m, name, ok := zzC13Place(doc, key)
	if !ok {
		return false
	}
	if del {
		delete(m, name)
	} else {
		m[name] = v
	}

	return true
}

// ------------------------------------------------------------------- abs

func zzC13Lit(v any) (s string) {
	b, err := json.Marshal(v)
	if err != nil {
		panic(err)
	}

	return "lit:" + string(b)
}

// zzC13Scalar abstracts a non-container value.
func zzC13Scalar(v any, key string) (t, val string) {
	switch v := v.(type) {
	case nil:
		return "null", "lit:null"
	case int, int64, uint64:
		return "int", zzC13Lit(v)
	case string:
		return "str", zzC13Lit(v)
	case bool:
		return "bool", zzC13Lit(v)
	case float64:
		return "float", zzC13Lit(v)
	case []any:
		return "list", "src:" + key
	case yobj:
		return "obj", "src:" + key
	case time.Time:
		return "time", "src:" + key
	default:
		return "other", "src:" + key
	}
}

// zzC13IsSection tells which maps have their children tracked as cells.
func zzC13IsSection(key string) (ok bool) {
	return !strings.Contains(key, ".") || key == "dhcp.dhcpv4"
}

// zzC13Abs abstracts a golden document into cells.
func zzC13Abs(doc yobj) (cells []zzC13Cell) {
	var walk func(m yobj, prefix, parent string)
	walk = func(m yobj, prefix, parent string) {
		for name, v := range m {
			key := prefix + name
			if parent == "" && name == "coredns" {
				if sub, ok := v.(yobj); ok {
					cells = append(cells, zzC13Cell{K: key, N: name, T: "obj", V: "sec"})
					walk(sub, "dns.", "dns")

					continue
				}
			}

			sub, isObj := v.(yobj)
			if isObj && zzC13IsSection(key) {
				cells = append(cells, zzC13Cell{K: key, P: parent, N: name, T: "obj", V: "sec"})
				walk(sub, key+".", key)

				continue
			}

			l, isList := v.([]any)
			if isList && (key == "clients" || key == "clients.persistent") {
				cells = append(cells, zzC13Cell{K: key, P: parent, N: name, T: "list", V: "cl"})
				if len(l) > 0 {
					t, val := zzC13Scalar(l[0], "cl0")
					if el, ok := l[0].(yobj); ok {
						cells = append(cells, zzC13Cell{K: "cl0", N: "cl0", T: "obj", V: "sec"})
						for en, ev := range el {
							et, eval := zzC13Scalar(ev, "cl0."+en)
							cells = append(cells, zzC13Cell{K: "cl0." + en, P: "cl0", N: en, T: et, V: eval})
						}
					} else {
						cells = append(cells, zzC13Cell{K: "cl0", N: "cl0", T: t, V: val})
					}
				}

				continue
			}

			if isList && key == "filters" && len(l) > 0 {
				if el, ok := l[0].(yobj); ok {
					cells = append(cells, zzC13Cell{K: "fl0", N: "fl0", T: "obj", V: "sec"})
					if u, has := el["url"]; has {
						ut, uv := zzC13Scalar(u, "fl0.url")
						cells = append(cells, zzC13Cell{K: "fl0.url", P: "fl0", N: "url", T: ut, V: uv})
					}
				}
			}

			t, val := zzC13Scalar(v, key)
			cells = append(cells, zzC13Cell{K: key, P: parent, N: name, T: t, V: val})
		}
	}
	walk(doc, "", "")
	sort.Slice(cells, func(i, j int) bool { return cells[i].K < cells[j].K })

	return cells
}

func TestZZVerifC13Baselines(t *testing.T) {
	w := zzNewWriter(t, "VERIF_OUT")
	defer w.close()

	for v := 0; v <= zzC13Last; v++ {
		doc, err := zzC13Golden(v)
		if err != nil {
			t.Fatalf("golden %d: %v", v, err)
		}

		w.put(map[string]any{"v": v, "cells": zzC13Abs(doc)})
	}
}

// ------------------------------------------------------------------ conc

// zzC13Deg spells the degenerate strings that Migrate.tla only names
// ("deg:<name>"): strings a step that looks into a string might trip over.
var zzC13Deg = map[string]string{
	"blank":      "  ",
	"tab":        "\t",
	"hash":       "#",
	"lbr":        "[",
	"lbrs":       "[/",
	"lbrss":      "[//]",
	"scheme":     "://",
	"quicnohost": "quic://",
	"padded":     " 127.0.0.1 ",
}

// zzC13DegList is the value of "deglist:": a list of degenerate strings.
func zzC13DegList() (l []any) {
	for _, s := range []string{
		"", " ", "  ", "\t", " \t ", "#", " #", "\t# c", "#c", "[", "[/", "[//]", "[/]", "[/x/", "[/x/]",
		"[/x/] ", "[/x/]#", "[/x/]quic://", "[/x/]quic://8.8.8.8", "[/x/] quic://8.8.8.8", "://", "quic://",
		"quic://[::1", "quic://a:b:c", "quic://:784", " quic://8.8.8.8", "quic://8.8.8.8 ", "quic:// ", "quic",
		" 127.0.0.1 ", ".", " .", ". ",
	} {
		l = append(l, s)
	}

	return l
}

// zzC13Raw is a value that conc() spells by hand in the YAML text.
type zzC13Raw struct{ name string }

// zzC13RawText maps deviation kinds to YAML spellings.
var zzC13RawText = map[string]string{
	"fdot":     "7.0",
	"fexp":     "1e3",
	"ftag":     "!!float 5",
	"fnegzero": "-0.0",
	"fbig":     "2000000.0",
	"tabml":    `"\tA\nB\n"`,
	"nlonly":   `"\n"`,
	"nl2":      `"\n\n"`,
	"leadnl":   `"\nx"`,
	"indnl":    `"\n  x\n"`,
}

// zzC13ML spells the multi-line strings of Migrate.tla's MLKinds.
var zzC13ML = map[string]string{"tabml": "\tA\nB\n", "nlonly": "\n", "nl2": "\n\n", "leadnl": "\nx",
	"indnl": "\n  x\n"}

// zzC13Unraw replaces raw values by placeholders for the encoder.
func zzC13Unraw(v any) (u any) {
	switch v := v.(type) {
	case zzC13Raw:
		return "zzraw-" + v.name + "-zz"
	case yobj:
		m := make(yobj, len(v))
		for k, e := range v {
			m[k] = zzC13Unraw(e)
		}

		return m
	case []any:
		l := make([]any, len(v))
		for i := range v {
			l[i] = zzC13Unraw(v[i])
		}

		return l
	default:
		return v
	}
}

// zzC13DevValue returns the concrete value of a deviation kind.
func zzC13DevValue(key, kind string, old any) (v any, del bool) {
	if strings.HasPrefix(kind, "perm") || kind == "recs" {
		return zzC13Records(key, kind), false
	}

	if _, isRaw := zzC13RawText[kind]; isRaw {
		return zzC13Raw{name: kind}, false
	}

	switch kind {
	case "mllist":
		return []any{zzC13Raw{name: "tabml"}, "plain", zzC13Raw{name: "nlonly"}, zzC13Raw{name: "nl2"},
			zzC13Raw{name: "leadnl"}}, false
	case "absent":
		return nil, true
	case "null":
		return nil, false
	case "float":
		return 1.5, false
	case "str":
		return "zz", false
	case "empty":
		return yobj{}, false
	case "emptylist":
		return []any{}, false
	case "zero":
		return 0, false
	case "seven":
		return 7, false
	case "true":
		return true, false
	case "false":
		return false, false
	case "flip":
		b, _ := old.(bool)

		return !b, false
	case "neg":
		return -1, false
	case "future":
		return zzC13Last + 1, false
	case "p65535":
		return 65535, false
	case "p65536":
		return 65536, false
	case "huge":
		return int64(9223372036854775807), false
	case "estr":
		return "", false
	case "v6":
		return "::1", false
	case "hostport":
		return "127.0.0.1:80", false
	case "long":
		return "0123456789012345678901234567890123456789012345678901234567890123456789_123456789", false
	case "badelem":
		return []any{1.5, nil}, false
	case "oddstrs":
		return zzC13DegList(), false
	case "blank", "tab", "hash", "lbr", "lbrs", "lbrss", "scheme", "quicnohost", "padded":
		return zzC13Deg[kind], false
	case "dotlist":
		return []any{".", "a", 1.5}, false
	default:
		panic("unknown deviation kind " + kind)
	}
}

// zzC13Conc renders the document for (v, devs).  ok is false when a deviation
// has no place in the document (the vector is then skipped and counted).
func zzC13Conc(v int, devs []zzC13Dev) (doc yobj, body []byte, ok bool, err error) {
	doc, err = zzC13Golden(v)
	if err != nil {
		return nil, nil, false, err
	}

	if len(devs) == 1 && devs[0].K == "@doc" {
		return zzC13ConcDoc(v, devs[0].D)
	}

	for _, d := range devs {
		if d.K == "@clients" {
			if !zzC13Family(doc, v, d.D) {
				return doc, nil, false, nil
			}

			continue
		}

		if d.D == "nlkey" {
			// An unknown setting under a key that the encoder does not write
			// back faithfully; the key's text is put in by hand below.
			doc[zzC13NLKeyMark] = 7

			continue
		}

		old, _ := zzC13Get(doc, d.K)
		val, del := zzC13DevValue(d.K, d.D, old)
		if !zzC13Set(doc, d.K, val, del) {
			return doc, nil, false, nil
		}
	}

	body, err = yaml.Marshal(zzC13Unraw(doc))
	if err != nil {
		return nil, nil, false, err
	}

	// Values that the encoder would spell differently (floats with an
	// integral value) or cannot spell at all (some multi-line strings) are
	// written into the text by hand.
	for name, text := range zzC13RawText {
		body = bytes.ReplaceAll(body, []byte("zzraw-"+name+"-zz"), []byte(text))
	}

	body = bytes.ReplaceAll(body, []byte(zzC13NLKeyMark), []byte(`"\n x\n"`))

	// The symbolic cells are evaluated against what the code really reads.
	doc = yobj{}
	if err = yaml.Unmarshal(body, &doc); err != nil {
		return nil, nil, false, err
	}

	return doc, body, true, nil
}

// zzC13Records returns the lists of records with elements of different
// shapes (Perms / RecsLit of Migrate.tla).
func zzC13Records(key, kind string) (l []any) {
	fa := yobj{"url": "https://a.example/f.txt", "name": "A", "enabled": true, "id": 1}
	fb := yobj{"url": zzC13FilePath, "name": "B", "enabled": false, "id": 2}
	fc := yobj{"name": "C", "enabled": true, "id": 3}
	switch kind {
	case "perm1":
		return []any{fa, fb, fc}
	case "perm2":
		return []any{fa, fc, fb}
	case "perm3":
		return []any{fb, fa, fc}
	case "perm4":
		return []any{fb, fc, fa}
	case "perm5":
		return []any{fc, fa, fb}
	case "perm6":
		return []any{fc, fb, fa}
	}

	switch key {
	case "users":
		return []any{yobj{"name": "u1", "password": "p1"}, yobj{"name": "u2"},
			yobj{"name": "u3", "password": "p3", "zz_extra": "zz"}}
	case "whitelist_filters":
		return []any{fb, fc, fa}
	default:
		return []any{yobj{"domain": "a.example", "answer": "1.2.3.4"}, yobj{"domain": "b.example"},
			yobj{"domain": "*.c.example", "answer": "a.example", "zz_extra": "zz"}}
	}
}

// zzC13Clone copies a parsed YAML value.
func zzC13Clone(v any) (c any) {
	switch v := v.(type) {
	case yobj:
		m := make(yobj, len(v))
		for k, e := range v {
			m[k] = zzC13Clone(e)
		}

		return m
	case []any:
		l := make([]any, len(v))
		for i := range v {
			l[i] = zzC13Clone(v[i])
		}

		return l
	default:
		return v
	}
}

// zzC13Family replaces the client list of the golden document by two or
// three clients of different shapes (FamDoc of Migrate.tla): code is a comma
// separated list of "bs" flags, b = blocked services present, s = safe search
// present, each in the form of schema v.
func zzC13Family(doc yobj, v int, code string) (ok bool) {
	c, k := zzC13ClientList(doc)
	l, _ := c[k].([]any)
	if len(l) == 0 {
		return false
	}
	golden, isObj := l[0].(yobj)
	if !isObj {
		return false
	}

	var elems []any
	for i, f := range strings.Split(code, ",") {
		if len(f) != 2 {
			return false
		}

		e := zzC13Clone(golden).(yobj)
		e["name"] = "c" + strconv.Itoa(i)
		addr := "10.0.0." + strconv.Itoa(i+1)
		if v < 6 {
			e["ip"] = addr
		} else {
			e["ids"] = []any{addr}
		}

		delete(e, "blocked_services")
		if f[0] == 'b' {
			if v < 22 {
				e["blocked_services"] = []any{"500px"}
			} else {
				e["blocked_services"] = yobj{"schedule": yobj{"time_zone": "Local"}, "ids": []any{"500px"}}
			}
		}

		if v < 19 {
			delete(e, "safesearch_enabled")
			if f[1] == 's' {
				e["safesearch_enabled"] = true
			}
		} else {
			delete(e, "safe_search")
			if f[1] == 's' {
				e["safe_search"] = yobj{"enabled": true, "bing": true, "duckduckgo": true, "google": true,
					"pixabay": true, "yandex": true, "youtube": true}
			}
		}

		elems = append(elems, e)
	}
	c[k] = elems

	return true
}

// zzC13ConcDoc renders the document-level shapes: files that hold no mapping
// and the mapping that holds nothing but the stamp.
func zzC13ConcDoc(v int, class string) (doc yobj, body []byte, ok bool, err error) {
	switch class {
	case "empty":
		body = []byte("")
	case "comment":
		body = []byte("# only a comment\n")
	case "null":
		body = []byte("null\n")
	case "tilde":
		body = []byte("---\n~\n")
	case "scalar":
		body = []byte("42\n")
	case "strdoc":
		body = []byte("just a string\n")
	case "list":
		body = []byte("- a\n- b\n")
	case "stamp":
		body = []byte("schema_version: " + strconv.Itoa(v) + "\n")
	default:
		return nil, nil, false, nil
	}

	doc = yobj{}
	if class == "stamp" {
		err = yaml.Unmarshal(body, &doc)
	}

	return doc, body, true, err
}

// ------------------------------------------------------------------- env

// zzC13Env is the state of the part of the file system that steps 1 and 2
// touch (the cells @env.* of Migrate.tla).
type zzC13Env struct {
	WorkDir, DNSFilter, Corefile string
}

// zzC13EnvOf splits the environment pseudo deviations from the others.
func zzC13EnvOf(devs []zzC13Dev) (env *zzC13Env, rest []zzC13Dev) {
	for _, d := range devs {
		if !strings.HasPrefix(d.K, "@env.") {
			rest = append(rest, d)

			continue
		}
		if env == nil {
			env = &zzC13Env{WorkDir: "dir", DNSFilter: "absent", Corefile: "absent"}
		}
		switch d.K {
		case "@env.workdir":
			env.WorkDir = d.D
		case "@env.dnsfilter":
			env.DNSFilter = d.D
		case "@env.corefile":
			env.Corefile = d.D
		}
	}

	return env, rest
}

// zzC13MakeEnv realises env under a fresh temporary directory and returns
// the working directory to hand to the Migrator.  A nil env is the fixed
// working directory that does not exist.
func zzC13MakeEnv(env *zzC13Env) (workDir string, cleanup func(), err error) {
	if env == nil {
		return zzC13WorkDir, func() {}, nil
	}

	root, err := os.MkdirTemp("", "zzc13env")
	if err != nil {
		return "", nil, err
	}
	cleanup = func() { _ = os.RemoveAll(root) }
	workDir = filepath.Join(root, "work")

	file := func(name, state string) (ferr error) {
		p := filepath.Join(workDir, name)
		switch state {
		case "absent":
			return nil
		case "file":
			return os.WriteFile(p, []byte("legacy\n"), 0o600)
		case "emptydir":
			return os.Mkdir(p, 0o700)
		case "nonemptydir":
			if ferr = os.Mkdir(p, 0o700); ferr != nil {
				return ferr
			}

			return os.WriteFile(filepath.Join(p, "inner"), []byte("x"), 0o600)
		case "dangling":
			return os.Symlink("zz-no-such-target", p)
		case "selfloop":
			return os.Symlink(name, p)
		default:
			return fmt.Errorf("unknown file state %q", state)
		}
	}

	switch env.WorkDir {
	case "dir":
		if err = os.Mkdir(workDir, 0o700); err == nil {
			err = file("dnsfilter.txt", env.DNSFilter)
		}
		if err == nil {
			err = file("Corefile", env.Corefile)
		}
	case "notdir":
		err = os.WriteFile(workDir, []byte("not a directory\n"), 0o600)
	case "looplink":
		err = os.Symlink("work", workDir)
	case "dangling":
		err = os.Symlink("zz-no-such-dir", workDir)
	case "toolong":
		workDir = filepath.Join(root, strings.Repeat("x", 300))
	default:
		err = fmt.Errorf("unknown working directory state %q", env.WorkDir)
	}
	if err != nil {
		cleanup()

		return "", nil, err
	}

	return workDir, cleanup, nil
}

// ------------------------------------------------------------------- run

type zzC13Res struct {
	Kind string // "ok" (upgraded), "same" (not upgraded, no error), "err", "panic"
	Msg  string
	Body []byte
	// Same tells whether the returned bytes equal the input bytes.
	Same bool
}

// zzC13Migrate calls the real Migrate, recovering a panic.
func zzC13Migrate(body []byte, target int, workDir string) (res zzC13Res) {
	defer func() {
		if r := recover(); r != nil {
			res = zzC13Res{Kind: "panic", Msg: fmt.Sprint(r)}
		}
	}()

	m := New(&Config{WorkingDir: workDir, DataDir: zzC13DataDir})
	in := bytes.Clone(body)
	out, upgraded, err := m.Migrate(in, uint(target))
	res.Body = out
	res.Same = bytes.Equal(out, body)
	switch {
	case err != nil:
		res.Kind, res.Msg = "err", err.Error()
		if upgraded {
			res.Msg = "upgraded=true with error: " + res.Msg
			res.Same = false
		}
	case upgraded:
		res.Kind = "ok"
	default:
		res.Kind = "same"
	}

	return res
}

// --------------------------------------------------------------- compare

// zzC13Norm brings parsed YAML and evaluated expectations to one vocabulary.
func zzC13Norm(v any) (n any) {
	switch v := v.(type) {
	case int:
		return int64(v)
	case uint64:
		return int64(v)
	case float64:
		if v == float64(int64(v)) {
			return int64(v)
		}

		return v
	case []any:
		l := make([]any, len(v))
		for i := range v {
			l[i] = zzC13Norm(v[i])
		}

		return l
	case []string:
		l := make([]any, len(v))
		for i := range v {
			l[i] = v[i]
		}

		return l
	case yobj:
		m := make(yobj, len(v))
		for k, e := range v {
			m[k] = zzC13Norm(e)
		}

		return m
	case time.Time:
		return v.UTC().Format(time.RFC3339Nano)
	default:
		return v
	}
}

func zzC13Equal(a, b any) (ok bool) { return reflect.DeepEqual(zzC13Norm(a), zzC13Norm(b)) }

type zzC13Hash struct{ pass string }

// zzC13Any stands for a value the spec leaves open ("any:").
type zzC13Any struct{}

// zzC13Eval evaluates a symbolic value against the input document.
func zzC13Eval(val string, in yobj) (v any, err error) {
	tag, rest, _ := strings.Cut(val, ":")
	arg := func(s string) (any, error) {
		if s == "none" {
			return nil, nil
		}

		return zzC13Eval(s, in)
	}
	asInt := func(x any) (i int64, err error) {
		i, ok := zzC13Norm(x).(int64)
		if !ok {
			return 0, fmt.Errorf("%q: not an int: %T", val, x)
		}

		return i, nil
	}

	switch tag {
	case "any":
		return zzC13Any{}, nil
	case "negz":
		return 0, nil
	case "nlkey":
		return 7, nil
	case "mllist":
		return []any{zzC13ML["tabml"], "plain", zzC13ML["nlonly"], zzC13ML["nl2"], zzC13ML["leadnl"]}, nil
	case "deg":
		str, has := zzC13Deg[rest]
		if !has {
			str, has = zzC13ML[rest]
		}
		if !has {
			return nil, fmt.Errorf("unknown degenerate string %q", val)
		}

		return str, nil
	case "deglist":
		return zzC13DegList(), nil
	case "src":
		var ok bool
		v, ok = zzC13Get(in, rest)
		if !ok {
			return nil, fmt.Errorf("%q: no such input key", val)
		}

		return v, nil
	case "lit":
		err = yaml.Unmarshal([]byte(rest), &v)

		return v, err
	case "wrap":
		v, err = arg(rest)

		return []any{v}, err
	case "days", "hours":
		v, err = arg(rest)
		if err != nil {
			return nil, err
		}
		var i int64
		if i, err = asInt(v); err != nil {
			return nil, err
		}
		unit := time.Hour
		if tag == "days" {
			unit = 24 * time.Hour
		}

		return timeutil.Duration(time.Duration(i) * unit).String(), nil
	case "dots":
		v, err = arg(rest)
		l, _ := v.([]any)
		out := make([]any, len(l))
		for i := range l {
			out[i] = l[i]
			if l[i] == "." {
				out[i] = "|.^"
			}
		}

		return out, err
	case "quic":
		// Port defaulting of QUIC upstreams is value-level behaviour the
		// spec does not model: entries that mention quic are not compared.
		v, err = arg(rest)
		l, _ := v.([]any)
		out := make([]any, len(l))
		for i := range l {
			out[i] = l[i]
			if s, ok := l[i].(string); ok && strings.Contains(s, "quic://") {
				out[i] = zzC13Hash{pass: "\x00quic"}
			}
		}

		return out, err
	case "ss":
		v, err = arg(rest)

		return yobj{"enabled": v, "bing": true, "duckduckgo": true, "google": true,
			"pixabay": true, "yandex": true, "youtube": true}, err
	case "edns":
		v, err = arg(rest)

		return yobj{"enabled": v, "use_custom": false, "custom_ip": ""}, err
	case "pprof":
		v, err = arg(rest)

		return yobj{"enabled": v, "port": 6060}, err
	case "rts":
		v, err = arg(rest)

		return yobj{"whois": true, "arp": true, "rdns": v, "dhcp": true, "hosts": true}, err
	case "bsvc":
		m := yobj{"schedule": yobj{"time_zone": "Local"}}
		if rest != "none" {
			v, err = arg(rest)
			if v == nil {
				v = []any{}
			}
			m["ids"] = v
		}

		return m, err
	case "users", "ids", "addr":
		a, b, _ := strings.Cut(rest, "|")
		var av, bv any
		if av, err = arg(a); err != nil {
			return nil, err
		}
		if bv, err = arg(b); err != nil {
			return nil, err
		}
		switch tag {
		case "users":
			u := yobj{"password": zzC13Hash{pass: fmt.Sprint(bv)}}
			if a != "none" {
				u["name"] = av
			}

			return []any{u}, nil
		case "ids":
			ids := []any{}
			for _, x := range []any{av, bv} {
				if s, ok := x.(string); ok && s != "" {
					ids = append(ids, s)
				}
			}

			return ids, nil
		default:
			addr, perr := netip.ParseAddr(fmt.Sprint(av))
			if perr != nil {
				return nil, perr
			}
			var port int64
			if bv != nil {
				if port, err = asInt(bv); err != nil {
					return nil, err
				}
			}

			return netip.AddrPortFrom(addr, uint16(port)).String(), nil
		}
	case "paths":
		v, err = arg(rest)
		l, _ := v.([]any)
		out := []any{filepath.Join(zzC13DataDir, "userfilters", "*")}
		for _, f := range l {
			if m, ok := f.(yobj); ok {
				if u, isStr := m["url"].(string); isStr && filepath.IsAbs(u) {
					out = append(out, u)
				}
			}
		}

		return out, err
	default:
		return nil, fmt.Errorf("unknown symbolic value %q", val)
	}
}

// zzC13Like compares an actual value with an evaluated expectation that may
// contain zzC13Hash placeholders.
func zzC13Like(exp, act any) (ok bool) {
	switch e := exp.(type) {
	case zzC13Any:
		return true
	case zzC13Hash:
		s, isStr := act.(string)
		if !isStr {
			return false
		}
		if e.pass == "\x00quic" {
			return strings.Contains(s, "quic://")
		}

		return zzC13Verify(s, e.pass)
	case []any:
		a, isL := zzC13Norm(act).([]any)
		if !isL || len(a) != len(e) {
			return false
		}
		for i := range e {
			if !zzC13Like(e[i], a[i]) {
				return false
			}
		}

		return true
	case yobj:
		a, isM := act.(yobj)
		if !isM || len(a) != len(e) {
			return false
		}
		for k, ev := range e {
			av, has := a[k]
			if !has || !zzC13Like(ev, av) {
				return false
			}
		}

		return true
	default:
		return zzC13Equal(exp, act)
	}
}

// zzC13Verified caches bcrypt verifications (60 ms each).
var zzC13Verified sync.Map

func zzC13Verify(hash, pass string) (ok bool) {
	key := hash + "\x00" + pass
	if v, has := zzC13Verified.Load(key); has {
		return v.(bool)
	}

	ok = bcrypt.CompareHashAndPassword([]byte(hash), []byte(pass)) == nil
	zzC13Verified.Store(key, ok)

	return ok
}

var zzC13SerialT = map[string]string{"dur": "str", "umode": "str", "strs": "list", "ifloat": "int", "bfloat": "float"}

// zzC13Match checks the real document against one admissible shape; it
// returns the first difference.
func zzC13Match(final yobj, shape map[string]zzC13TV, in yobj) (diff string) {
	seen := map[string]bool{}
	var walk func(m yobj, prefix string) string
	leaf := func(key string, act any) string {
		exp := shape[key]
		seen[key] = true
		t, _ := zzC13Scalar(act, key)
		et := exp.T
		if st, ok := zzC13SerialT[et]; ok {
			et = st
		}
		if et != t {
			return fmt.Sprintf("%s: type %s, spec says %s (%s)", key, t, exp.T, exp.V)
		}

		switch exp.V {
		case "sec":
			return walk(act.(yobj), key+".")
		case "cl":
			l := act.([]any)
			n := 0
			for n < 3 {
				if c, has := shape["cl"+strconv.Itoa(n)]; !has || c.T == "absent" {
					break
				}
				n++
			}
			if len(l) != n {
				return fmt.Sprintf("%s: %d clients, spec says %d", key, len(l), n)
			}
			for i := 0; i < n; i++ {
				name := "cl" + strconv.Itoa(i)
				ci := shape[name]
				seen[name] = true
				if el, ok := l[i].(yobj); ok && ci.V == "sec" {
					if d := walk(el, name+"."); d != "" {
						return d
					}

					continue
				}
				ev, err := zzC13Eval(ci.V, in)
				if err != nil || ci.V == "sec" || !zzC13Like(ev, l[i]) {
					return fmt.Sprintf("%s: %v, spec says %s (%v)", name, l[i], ci.V, err)
				}
			}

			return ""
		}

		ev, err := zzC13Eval(exp.V, in)
		if err != nil {
			return fmt.Sprintf("%s: cannot evaluate %s: %v", key, exp.V, err)
		}
		if !zzC13Like(ev, act) {
			return fmt.Sprintf("%s: value %v, spec says %s = %v", key, act, exp.V, ev)
		}

		return ""
	}
	walk = func(m yobj, prefix string) string {
		names := make([]string, 0, len(m))
		for name := range m {
			names = append(names, name)
		}
		sort.Strings(names)
		for _, name := range names {
			key := prefix + name
			exp, has := shape[key]
			if !has || exp.T == "absent" {
				return key + ": present, spec says absent"
			}
			if d := leaf(key, m[name]); d != "" {
				return d
			}
		}

		return ""
	}

	if d := walk(final, ""); d != "" {
		return d
	}

	keys := make([]string, 0, len(shape))
	for k := range shape {
		keys = append(keys, k)
	}
	sort.Strings(keys)
	for _, k := range keys {
		if shape[k].T == "absent" || seen[k] || strings.HasPrefix(k, "fl0") || strings.HasPrefix(k, "@env.") {
			continue
		}
		if len(k) > 3 && zzC13ElemIdx(k[:3]) >= 0 {
			if ce := shape[k[:3]]; ce.V != "sec" {
				continue
			}
		}

		return k + ": absent, spec says " + shape[k].T + " " + shape[k].V
	}

	return ""
}

// zzC13SameDoc compares two result documents structurally; bcrypt hashes
// (salted) are compared by verification against the input password.
func zzC13SameDoc(a, b []byte, in yobj) (diff string) {
	da, db := yobj{}, yobj{}
	if err := yaml.Unmarshal(a, &da); err != nil {
		return "unparsable result: " + err.Error()
	}
	if err := yaml.Unmarshal(b, &db); err != nil {
		return "unparsable result: " + err.Error()
	}

	// A null password is hashed as the empty string.
	pass, hasPass := in["auth_pass"].(string)
	if v, has := in["auth_pass"]; has && v == nil {
		hasPass = true
	}
	for _, d := range []yobj{da, db} {
		us, _ := d["users"].([]any)
		for _, u := range us {
			um, _ := u.(yobj)
			h, _ := um["password"].(string)
			if hasPass && strings.HasPrefix(h, "$2") && zzC13Verify(h, pass) {
				um["password"] = "verified:" + pass
			}
		}
	}

	if zzC13Equal(da, db) {
		return ""
	}

	for k := range da {
		if !zzC13Equal(da[k], db[k]) {
			return fmt.Sprintf("key %s: %v vs %v", k, da[k], db[k])
		}
	}
	for k := range db {
		if _, ok := da[k]; !ok {
			return fmt.Sprintf("key %s only in the second", k)
		}
	}

	return "documents differ"
}

// ------------------------------------------------------------- direction A

type zzC13Out struct {
	Kind     string     `json:"kind"`
	ID       int        `json:"id"`
	V        int        `json:"v"`
	Devs     []zzC13Dev `json:"devs"`
	Symptom  string     `json:"symptom,omitempty"`
	What     string     `json:"what,omitempty"`
	K        int        `json:"k,omitempty"`
	Got      string     `json:"got,omitempty"`
	Input    string     `json:"input,omitempty"`
	Paths    int        `json:"paths,omitempty"`
	Trunc    int        `json:"trunc,omitempty"`
	Matched  int        `json:"matched"`
	Admitted int        `json:"admitted,omitempty"`
}

// zzC13Check runs one vector.  base is the complete shape of the undeviated
// run from the same version.
func zzC13Check(vec *zzC13Vec, base map[string]zzC13TV) (out zzC13Out) {
	out = zzC13Out{Kind: "pass", ID: vec.ID, V: vec.V, Devs: vec.Devs, Matched: -1}
	env, docDevs := zzC13EnvOf(vec.Devs)
	in, body, ok, err := zzC13Conc(vec.V, docDevs)
	if err == nil && ok {
		// Every upgrade path gets its own copy of the environment; the two
		// halves of a split run share one, as they would on disk.
		var probe func()
		if _, probe, err = zzC13MakeEnv(env); err == nil {
			probe()
		}
	}
	if err != nil {
		out.Kind, out.What = "skip", "conc: "+err.Error()

		return out
	} else if !ok {
		out.Kind, out.What = "skip", "deviation has no place in the golden document"

		return out
	}

	bad := func(symptom, what string, k int, got zzC13Res) zzC13Out {
		out.Kind, out.Symptom, out.What, out.K = "bad", symptom, what, k
		out.Got = got.Kind + " " + got.Msg
		out.Input = string(body)

		return out
	}

	// One-shot.
	workDir, cleanup, _ := zzC13MakeEnv(env)
	defer cleanup()
	one := zzC13Migrate(body, zzC13Last, workDir)
	out.Paths++
	switch one.Kind {
	case "panic":
		return bad("panic", "one-shot upgrade panics: "+one.Msg, 0, one)
	case "err":
		if !one.Same {
			return bad("err-changed-bytes", "error returned with changed bytes", 0, one)
		} else if !vec.Err {
			return bad("unexpected-error", "spec admits no error here: "+one.Msg, 0, one)
		}
	case "same":
		if !one.Same {
			return bad("same-changed-bytes", "upgraded=false with changed bytes", 0, one)
		} else if vec.Start != zzC13Last {
			return bad("not-upgraded", "document below the current version was not upgraded", 0, one)
		}
	case "ok":
		if vec.Start == zzC13Last {
			return bad("current-changed", "a document at the current version was rewritten", 0, one)
		}

		final := yobj{}
		if err = yaml.Unmarshal(one.Body, &final); err != nil {
			return bad("unparsable", "result does not parse: "+err.Error(), 0, one)
		}
		if sv, _ := final["schema_version"].(int); sv != zzC13Last {
			return bad("not-stamped", fmt.Sprintf("result stamped %v", final["schema_version"]), 0, one)
		}

		first := ""
		for i, diffShape := range vec.Oks {
			shape := diffShape
			if vec.Kind == "vec" || vec.Kind == "fam" || vec.Kind == "trace" {
				shape = make(map[string]zzC13TV, len(base)+len(diffShape))
				for k, c := range base {
					shape[k] = c
				}
				for k, c := range diffShape {
					shape[k] = c
				}
			}
			d := zzC13Match(final, shape, in)
			if d == "" {
				out.Matched = i

				break
			} else if first == "" {
				first = d
			}
		}
		out.Admitted = len(vec.Oks)
		if out.Matched < 0 {
			return bad("shape", fmt.Sprintf("result matches none of the %d admissible shapes; first difference: %s",
				len(vec.Oks), first), 0, one)
		}

		// Upgrading the result again changes nothing.
		again := zzC13Migrate(one.Body, zzC13Last, workDir)
		if again.Kind != "same" || !again.Same {
			return bad("not-idempotent", "upgrading the upgraded document is not a no-op", 0, again)
		}
	}

	// Split runs.
	for _, k := range vec.Ks {
		if k <= vec.Start || k >= zzC13Last {
			continue
		}

		out.Paths++
		splitDir, splitCleanup, _ := zzC13MakeEnv(env)
		defer splitCleanup()
		p1 := zzC13Migrate(body, k, splitDir)
		switch p1.Kind {
		case "panic":
			return bad("panic", fmt.Sprintf("partial upgrade to %d panics: %s", k, p1.Msg), k, p1)
		case "err":
			if !p1.Same {
				return bad("err-changed-bytes", "error returned with changed bytes", k, p1)
			} else if one.Kind != "err" {
				return bad("path-dependent", fmt.Sprintf("one-shot succeeds, partial upgrade to %d fails: %s", k, p1.Msg), k, p1)
			}

			continue
		case "same":
			return bad("not-upgraded", "partial upgrade did nothing", k, p1)
		}

		p2 := zzC13Migrate(p1.Body, zzC13Last, splitDir)
		switch p2.Kind {
		case "panic":
			return bad("panic", fmt.Sprintf("upgrade of the serialised version-%d document panics: %s", k, p2.Msg), k, p2)
		case "err":
			if !p2.Same {
				return bad("err-changed-bytes", "error returned with changed bytes", k, p2)
			} else if one.Kind != "err" {
				return bad("path-dependent", fmt.Sprintf("one-shot succeeds, second part from %d fails: %s", k, p2.Msg), k, p2)
			}
		case "same":
			return bad("not-upgraded", "second part did nothing", k, p2)
		case "ok":
			if one.Kind != "ok" {
				return bad("path-dependent", fmt.Sprintf("one-shot fails (%s), split at %d succeeds", one.Msg, k), k, p2)
			}
			if d := zzC13SameDoc(one.Body, p2.Body, in); d != "" {
				return bad("path-dependent", fmt.Sprintf("split at %d gives another document: %s", k, d), k, p2)
			}
		}
	}

	return out
}

func TestZZVerifC13Replay(t *testing.T) {
	var vecs []*zzC13Vec
	bases := map[int]map[string]zzC13TV{}
	zzReadNDJSON(t, "VERIF_IN", func(line []byte) {
		v := &zzC13Vec{}
		if err := json.Unmarshal(line, v); err != nil {
			t.Fatalf("bad vector: %v", err)
		}
		if v.Kind == "base" && len(v.Oks) == 1 {
			bases[v.V] = v.Oks[0]
		}
		vecs = append(vecs, v)
	})

	w := zzNewWriter(t, "VERIF_OUT")
	defer w.close()

	outs := make([]zzC13Out, len(vecs))
	var wg sync.WaitGroup
	next := make(chan int)
	nw := runtime.GOMAXPROCS(0)
	if nw > 12 {
		nw = 12
	}
	for i := 0; i < nw; i++ {
		wg.Add(1)
		go func() {
			defer wg.Done()
			for j := range next {
				outs[j] = zzC13Check(vecs[j], bases[vecs[j].V])
			}
		}()
	}
	for j := range vecs {
		next <- j
	}
	close(next)
	wg.Wait()

	n, paths := 0, 0
	for i := range outs {
		if outs[i].Kind == "bad" {
			// Reproduce in isolation before reporting.
			again := zzC13Check(vecs[i], bases[vecs[i].V])
			if again.Kind != "bad" || again.Symptom != outs[i].Symptom {
				outs[i].Kind = "flaky"
			}
		}
		n++
		paths += outs[i].Paths
		if outs[i].Kind != "pass" {
			w.put(outs[i])
		}
	}
	w.put(map[string]any{"kind": "summary", "n": n, "paths": paths})
}

// TestZZVerifC13Render writes the concrete document of every vector it is
// given, for the loader half of the property (package home).
func TestZZVerifC13Render(t *testing.T) {
	w := zzNewWriter(t, "VERIF_OUT")
	defer w.close()

	zzReadNDJSON(t, "VERIF_IN", func(line []byte) {
		v := &zzC13Vec{}
		if err := json.Unmarshal(line, v); err != nil {
			t.Fatalf("bad vector: %v", err)
		}

		_, body, ok, err := zzC13Conc(v.V, v.Devs)
		if err != nil || !ok {
			return
		}

		w.put(map[string]any{"id": v.ID, "v": v.V, "devs": v.Devs, "body": string(body)})
	})
}

// ------------------------------------------------------------- direction B

// TestZZVerifC13Trace proposes seeded random documents with several
// simultaneous deviations (a larger universe than TLC enumerates on its
// own).  Only the proposals are recorded here: TraceMigrate.tla evaluates
// them with Migrate.tla's own operators (and checks its invariants on them),
// and the admissible sets it returns are replayed by TestZZVerifC13Replay.
func TestZZVerifC13Trace(t *testing.T) {
	out := "VERIF_OUT"
	if zzGetenv("VERIF_OUT2") != "" {
		// one go test run together with TestZZVerifC13Baselines
		out = "VERIF_OUT2"
	}
	w := zzNewWriter(t, out)
	defer w.close()

	rng := rand.New(rand.NewSource(zzSeed()))
	n, _ := strconv.Atoi(zzGetenv("VERIF_N"))
	if n == 0 {
		n = 300
	}

	kinds := []string{"absent", "null", "float", "str", "empty", "emptylist", "zero", "seven", "true", "false",
		"neg", "p65535", "p65536", "huge", "estr", "v6", "hostport", "long", "badelem", "oddstrs", "dotlist",
		"blank", "tab", "hash", "lbr", "lbrs", "lbrss", "scheme", "quicnohost", "padded",
		"fdot", "fexp", "ftag", "fbig"}
	for i := 0; i < n; i++ {
		v := rng.Intn(zzC13Last + 1)
		doc, err := zzC13Golden(v)
		if err != nil {
			t.Fatal(err)
		}

		cells := zzC13Abs(doc)
		nd := 2 + rng.Intn(4)
		devs := []zzC13Dev{}
		for j := 0; j < nd; j++ {
			c := cells[rng.Intn(len(cells))]
			switch rng.Intn(8) {
			case 0:
				c = zzC13Cell{K: "zz_extra"}
			case 1:
				c = zzC13Cell{K: "dns.zz_extra"}
			}
			if c.K == "schema_version" || strings.HasPrefix(c.K, "fl0") || strings.HasPrefix(c.K, "cl0") ||
				c.K == "coredns" || (v < 2 && c.K == "dns") {
				continue
			}

			d := zzC13Dev{K: c.K, D: kinds[rng.Intn(len(kinds))]}
			if strings.HasSuffix(c.K, "zz_extra") {
				d.D = "str"
			}

			devs = append(devs, d)
		}

		if _, _, ok, cerr := zzC13Conc(v, devs); cerr != nil || !ok {
			continue
		}

		w.put(map[string]any{"v": v, "devs": devs})
	}
}
