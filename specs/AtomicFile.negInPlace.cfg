SPECIFICATION Spec
CONSTANTS
  Dst = "d/dst"
  Protocol <- ProtoInPlace
  MaxSaves = 3
  MaxChunks = 2
  MaxCrashes = 2
  InitPresent = TRUE
  WithReader = TRUE
INVARIANTS TypeOK DstOldOrNew CrashSafe ReaderOK
PROPERTIES CrashAgree
