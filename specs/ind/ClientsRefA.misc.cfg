SPECIFICATION Spec
CONSTANTS
  U <- QMisc
  W = 4
  SampleMod = 1
  SampleSeed = 0
VIEW view
INVARIANTS TypeOK UniqueOwner IndIndInv IndSafety SameUniqueOwner
PROPERTIES IndSpec IndRejected
