\* As HashPrefix.gen.cfg for a tree that remembers negative answers after expiry.
\* Thorough tier.
SPECIFICATION Spec
CONSTANTS
  T = 2
  DbIds = {"com", "x.com", "w.y.com", "a.x.com", "io"}
  EmitOn = TRUE
  ImplOnly = TRUE
  ImplNegAgain = TRUE
VIEW GraphView
INVARIANTS TypeOK CacheTransparent ImplAdmissible
