\* The edit machine: every table of at most three entries over ten entries
\* reachable by add / delete / update, every edge emitted, the statement's
\* invariants checked on the table reached after every edit history.
CONSTANTS U = "hist" MaxLen = 3 EmitFrom = 1 Shard = 0 Perms = FALSE Families = 0 Mode = "hist"
INIT Init
NEXT Next
INVARIANTS Unmatched WellFormed CnameBeatsAddress ExactShadowsWildcardCname ExactShadowsWildcard MostSpecificWildcard SelfAndTypeExceptionsPassThrough AddressesComeFromTableForFinalName MatchedButNoValue HistoryIndependent
