SPECIFICATION Spec
VIEW View
CONSTANTS
  MaxRec = 5
  MemSizes = {2}
  FileModes = {TRUE}
  Palettes = {0}
  Kinds = {}
  RestartResizes = FALSE
  IgnoreModes = {TRUE, FALSE}
  AnonModes = {FALSE}
  MaxFlight = 0
  Faults = FALSE
  AllowWindow = FALSE
  EmitEdges = TRUE
INVARIANTS TypeOK Ordered NothingLost
