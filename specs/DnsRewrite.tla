------------------------------ MODULE DnsRewrite ------------------------------
(***************************************************************************)
(* G02 -- the universe, the enumeration and the clauses of the statement   *)
(* for DnsRewriteCore.tla ($dnsrewrite rules, system-hosts rewrites,       *)
(* precedence among legacy rewrites / hosts / $dnsrewrite / ordinary       *)
(* rules).                                                                 *)
(*                                                                         *)
(* One reachable "done" state = one configuration with the verdict of      *)
(* every question of the family's question set (tbl).  TLC checks the      *)
(* clauses of the statement as invariants of every such state and emits    *)
(* one vector per configuration that the Go harness replays into the real  *)
(* filtering.DNSFilter (CheckHost) and the real dnsforward.Server.         *)
(*                                                                         *)
(* Families (Fam)                                                          *)
(*   "comb"   combination and exception logic: every set of <= 3 rules     *)
(*            out of 55 written for one name without $dnstype / $client:   *)
(*            16 rewrite values x $important, 9 exception values x         *)
(*            $important, 4 ordinary rules, one PTR rule for a reverse     *)
(*            name                                                         *)
(*   "mod"    $dnstype / $client / $denyallow / pattern: every set of      *)
(*            <= 2 rules out of 224                                        *)
(*   "prec"   precedence: legacy table x hosts file x hosts_file_enabled x *)
(*            $dnsrewrite rules x ordinary rule x allow list x             *)
(*            filtering_enabled x protection_enabled                       *)
(*   "hosts"  every hosts file of <= 3 lines out of 16 (4 addresses x 4    *)
(*            name sets), with and without a competing $dnsrewrite rule    *)
(*   "hist"   the reconfiguration machine: a small set of configurations   *)
(*            and every change of one component (rules, hosts file,        *)
(*            protection, legacy table) between them, emitted as edges     *)
(* Tier = "quick" takes reduced universes of the first four.               *)
(*                                                                         *)
(* The enumeration fans out in two levels (root -> mid -> done) because    *)
(* all successors of one state are computed by one TLC worker.             *)
(***************************************************************************)
EXTENDS DnsRewriteCore, TLC, Json

CONSTANTS Tier,      \* "quick" | "thorough"
          Fams       \* set of families to enumerate

SX == INSTANCE SequencesExt

VARIABLES st, fam, part, cfg, tbl, wit
vars == <<st, fam, part, cfg, tbl, wit>>

Quick == Tier = "quick"

\* --------------------------------------------------------------- vocabulary
NA == <<"a", "c">>            \* the name the rules are written for
NX == <<"x", "a", "c">>       \* a subdomain of it
NB == <<"b", "c">>            \* another name (CNAME target)
Rev(t) == <<t, "REV">>        \* reverse name of an address token
NP == Rev("p4")               \* reverse name with a $dnsrewrite PTR rule

QTypes == {"A", "AAAA", "TXT", "MX", "PTR", "HTTPS", "SVCB", "SRV", "CNAME"}

Rule(place, kind, pat, n, imp, dt, dtype, cl, da, rw) ==
    [place |-> place, kind |-> kind, pat |-> pat, tgt |-> RE!NameHost(n), imp |-> imp,
     dt |-> dt, dtype |-> dtype, cl |-> cl, clv |-> "ip", da |-> da, ip |-> "", bad |-> FALSE,
     rw |-> rw]

\* A rule for "||a.c^" among the custom rules without further modifiers.
Plain(kind, imp, rw) == Rule("custom", kind, "domain", NA, imp, "none", "", "none", <<>>, rw)

Rq(h, qt, c1) == [host |-> h, qt |-> qt, c1 |-> c1]

NoCfg == [rules |-> {}, hosts |-> {}, hostsOn |-> FALSE, legacy |-> <<>>, filt |-> TRUE, prot |-> TRUE]

\* ------------------------------------------------------------- family "comb"
CombVals == {RRRw("A", "v4a"), RRRw("A", "v4b"), RRRw("AAAA", "v6a"), RRRw("AAAA", "v6m"),
             CnameRw(NB), CnameRw(NA),
             RcodeRw("NXDOMAIN"), RcodeRw("REFUSED"), RcodeRw("SERVFAIL"), NoErrorRw,
             RRRw("TXT", "t1"), RRRw("MX", "m1"), RRRw("HTTPS", "s1"), RRRw("SVCB", "s1"),
             RRRw("PTR", "p1"), RRRw("SRV", "r1")}
CombExcs == {EmptyRw, RRRw("A", "v4a"), RRRw("A", "v4b"), RRRw("AAAA", "v6a"), CnameRw(NB),
             RcodeRw("NXDOMAIN"), RcodeRw("REFUSED"), RRRw("TXT", "t1"), RRRw("MX", "m1")}

CombFull ==
    {Plain("block", i, v) : i \in BOOLEAN, v \in CombVals}
      \cup {Plain("allow", i, v) : i \in BOOLEAN, v \in CombExcs}
      \cup {Plain(k, i, NoRw) : k \in {"block", "allow"}, i \in BOOLEAN}
      \cup {Rule("custom", "block", "domain", NP, FALSE, "none", "", "none", <<>>, RRRw("PTR", "p1"))}

\* The reduced universe whose triples the quick tier enumerates.
CombSmall ==
    {Plain("block", FALSE, v) : v \in {RRRw("A", "v4a"), RRRw("A", "v4b"), CnameRw(NB),
                                       RcodeRw("REFUSED"), NoErrorRw, RRRw("MX", "m1")}}
      \cup {Plain("block", TRUE, RRRw("A", "v4a"))}
      \cup {Plain("allow", FALSE, v) : v \in {EmptyRw, RRRw("A", "v4a"), RRRw("A", "v4b"),
                                              RcodeRw("REFUSED"), RRRw("MX", "m1")}}
      \cup {Plain("allow", TRUE, EmptyRw), Plain("block", FALSE, NoRw)}

CombSeq  == SX!SetToSeq(CombFull)
CombSmallIdx == {i \in DOMAIN CombSeq : CombSeq[i] \in CombSmall}

CombQ == {Rq(NA, t, FALSE) : t \in QTypes}
           \cup {Rq(NX, "A", FALSE), Rq(NB, "A", FALSE), Rq(NP, "PTR", FALSE), Rq(NP, "A", FALSE)}

\* The index sets that complete a configuration whose smallest index is i.
CombRest(i) ==
    LET N == Len(CombSeq)
        pool == IF Quick THEN {j \in CombSmallIdx : j > i} ELSE (i + 1)..N
        two  == IF Quick /\ i \notin CombSmallIdx THEN {} ELSE {{j, k} : j \in pool, k \in pool}
    IN {{}} \cup {{j} : j \in (i + 1)..N} \cup two

\* -------------------------------------------------------------- family "mod"
ModVals == IF Quick THEN {RRRw("A", "v4a"), RcodeRw("NXDOMAIN")}
           ELSE {RRRw("A", "v4a"), RRRw("AAAA", "v6a"), RcodeRw("NXDOMAIN"), CnameRw(NB), NoErrorRw}
ModDts  == IF Quick THEN {<<"none", "">>, <<"only", "A">>, <<"except", "A">>}
           ELSE {<<"none", "">>, <<"only", "A">>, <<"only", "AAAA">>, <<"except", "A">>}
ModPats == IF Quick THEN {<<"domain", NA>>, <<"domain", NX>>}
           ELSE {<<"domain", NA>>, <<"exact", NA>>, <<"domain", NX>>}

ModSet ==
    {Rule("custom", "block", p[1], p[2], FALSE, d[1], d[2], c, <<>>, v)
       : p \in ModPats, d \in ModDts, c \in {"none", "only", "except"}, v \in ModVals}
      \cup {Rule("custom", "block", "domain", NA, FALSE, d[1], d[2], "none", <<NX>>, v)
              : d \in ModDts, v \in ModVals}
      \cup {Rule("custom", "allow", "domain", n, FALSE, d[1], d[2], c, <<>>, v)
              : n \in (IF Quick THEN {NA} ELSE {NA, NX}),
                d \in {<<"none", "">>, <<"only", "A">>} \cup (IF Quick THEN {} ELSE {<<"except", "A">>}),
                c \in {"none", "only"}, v \in {EmptyRw, RRRw("A", "v4a")}}

ModSeq == SX!SetToSeq(ModSet)
ModQ == {Rq(h, t, c) : h \in {NA, NX}, t \in {"A", "AAAA", "TXT"}, c \in BOOLEAN}

\* ------------------------------------------------------------- family "prec"
LEntry(w, n, k, ip, t) == [w |-> w, n |-> n, k |-> k, ip |-> ip, t |-> t]
PrecLegacy == {<<>>, <<LEntry(FALSE, NA, "ip4", "l4", <<>>)>>, <<LEntry(FALSE, NA, "cname", "", NB)>>}
                \cup (IF Quick THEN {} ELSE {<<LEntry(TRUE, NA, "ip6", "l6", <<>>)>>})
HLine(ip, names) == [ip |-> ip, names |-> names]
PrecHosts == {{}, {HLine("h4a", {NA})}, {HLine("h6a", {NA, NX})}}
                \cup (IF Quick THEN {} ELSE {{HLine("h4a", {NA}), HLine("h6a", {NA})}})
PrecDR == {{}, {Plain("block", FALSE, RRRw("A", "v4a"))}, {Plain("block", FALSE, RcodeRw("NXDOMAIN"))},
           {Plain("block", FALSE, CnameRw(NB))}}
            \cup (IF Quick THEN {} ELSE {{Plain("block", TRUE, RRRw("A", "v4a")), Plain("allow", FALSE, EmptyRw)}})
PrecOrd == {{}, {Plain("block", FALSE, NoRw)}, {Plain("allow", FALSE, NoRw)}}
            \cup (IF Quick THEN {} ELSE {{Plain("block", TRUE, NoRw)}})
\* A list of allowed names: in the allow-list engine any matching rule allows.
PrecAllow == {{}, {Rule("allow", "block", "domain", NA, FALSE, "none", "", "none", <<>>, NoRw)}}

PrecQ == {Rq(h, t, FALSE) : h \in {NA, NX, NB}, t \in {"A", "AAAA", "TXT", "PTR"}}
           \cup {Rq(Rev("h4a"), "PTR", FALSE)}

\* ------------------------------------------------------------ family "hosts"
HostsIPs == {"h4a", "h4b", "h6a", "h6m"}
HostsNameSets == {{NA}, {NX}, {NA, NX}, {NB, NA}}
HostsLines == {HLine(ip, ns) : ip \in HostsIPs, ns \in HostsNameSets}
HostsSeq == SX!SetToSeq(HostsLines)
HostsQ == {Rq(h, t, FALSE) : h \in {NA, NX, NB}, t \in {"A", "AAAA", "PTR", "TXT", "MX"}}
            \cup {Rq(Rev(ip), t, FALSE) : ip \in HostsIPs \cup {"v4a"}, t \in {"PTR", "A"}}
HostsRest(i) ==
    LET N == Len(HostsSeq) IN
    {{}} \cup {{j} : j \in (i + 1)..N}
         \cup (IF Quick THEN {} ELSE {{j, k} : j \in (i + 1)..N, k \in (i + 1)..N})

\* ------------------------------------------------------------- family "hist"
(***************************************************************************)
(* The reconfiguration machine.  A configuration changes through           *)
(*   rules   POST /control/filtering/set_rules (the custom rules)          *)
(*   hosts   the hosts file is rewritten and the watcher reports it        *)
(*   prot    POST /control/protection (protection_enabled)                 *)
(*   legacy  POST /control/rewrite/add | delete                            *)
(* and the verdict of every question is that of the CURRENT configuration: *)
(* Outcomes has no other argument.  The machine below is the complete      *)
(* graph over a small set of components; the harness walks its edges on    *)
(* ONE live filter and asks every question after every step.               *)
(***************************************************************************)
HistRuleSets ==
    LET a == Plain("block", FALSE, RRRw("A", "v4a"))
        c == Plain("block", FALSE, CnameRw(NB))
        k == Plain("block", FALSE, RcodeRw("REFUSED"))
        e == Plain("allow", FALSE, EmptyRw)
        b == Plain("block", FALSE, NoRw)
    IN {{}, {a}, {c}, {k}, {a, e}, {a, b}, {b}, {a, k}}
HistHosts == {{}, {HLine("h4a", {NA})}, {HLine("h6a", {NA, NX}), HLine("h4b", {NX})}}
HistLegacy == {<<>>, <<LEntry(FALSE, NA, "ip4", "l4", <<>>)>>}
HistQ == {Rq(h, t, FALSE) : h \in {NA, NX}, t \in {"A", "AAAA", "TXT"}}
           \cup {Rq(Rev("h4a"), "PTR", FALSE)}

HistCfgs == {[rules |-> r, hosts |-> h, hostsOn |-> TRUE, legacy |-> l, filt |-> TRUE, prot |-> p]
               : r \in HistRuleSets, h \in HistHosts, l \in HistLegacy, p \in BOOLEAN}

HistSteps(c) ==
    {[act |-> "rules",  dst |-> [c EXCEPT !.rules = r]]  : r \in HistRuleSets \ {c.rules}}
      \cup {[act |-> "hosts",  dst |-> [c EXCEPT !.hosts = h]]  : h \in HistHosts \ {c.hosts}}
      \cup {[act |-> "legacy", dst |-> [c EXCEPT !.legacy = l]] : l \in HistLegacy \ {c.legacy}}
      \cup {[act |-> "prot",   dst |-> [c EXCEPT !.prot = ~c.prot]]}

\* ------------------------------------------------------- clauses (witnesses)
(***************************************************************************)
(* Each clause of the statement is an implication per question; Ante(c, q) *)
(* is the set of clause names whose antecedent holds for question q, so    *)
(* that the orchestrator can tell a clause that was never exercised        *)
(* (vacuity) from one that held.                                           *)
(***************************************************************************)
LegacyAll(c, q, k) == \A l \in (IF c.filt THEN LR!Outcomes(c.legacy, q.host, q.qt) ELSE {LR!Pass}) : l.r = k
HostsHit(c, q) == HostsOutcomes(c, q) # {}
Reached(c, q) == c.filt /\ LegacyAll(c, q, "pass") /\ ~HostsHit(c, q)     \* the rules decide
Appl(c, q) == Applying(c, q)
SelfCname(c, q) == \E r \in RwRules(Appl(c, q)) : r.rw = CnameRw(q.host)

Kinds(S) == {r.rw.k : r \in S}
Mixed(S) == \/ Cardinality(Kinds(S) \ {"rr"}) > 1
            \/ (Kinds(S) \ {"rr"} # {} /\ "rr" \in Kinds(S))
            \/ Cardinality({r.rw : r \in {x \in S : x.rw.k \in {"cname", "rcode"}}}) > 1

GenericExc(c, q) == \E e \in RwExcs(Appl(c, q)) : e.rw.k = "empty" /\ \A r \in RwRules(Appl(c, q)) : ImpOK(e, r)
SpecificExcs(c, q) == {e \in RwExcs(Appl(c, q)) : e.rw.k # "empty" /\ ~IsStructured(e)
                                                    /\ \A r \in RwRules(Appl(c, q)) : r.rw = e.rw => ImpOK(e, r)}
ImportantRule(c, q) == /\ \E r \in RwRules(Appl(c, q)) : r.imp
                       /\ \A e \in RwExcs(Appl(c, q)) : ~e.imp
SomeSurvive(c, q) == \A S \in Survivors(Appl(c, q)) : S # {}
Silent(c, q) ==
    \/ \E S \in Survivors(Appl(c, q)) : Mixed(S)
    \/ Cardinality(Survivors(Appl(c, q))) > 1
    \/ AllowListed(c, q) /\ RwRules(Appl(c, q)) # {}
    \/ Cardinality(IF c.filt THEN LR!Outcomes(c.legacy, q.host, q.qt) ELSE {LR!Pass}) > 1

Ante(c, q, os, sk) ==
    (IF ~c.filt THEN {"FilteringOff"} ELSE {})
      \cup (IF c.filt /\ LegacyAll(c, q, "rw") THEN {"LegacyFirst"} ELSE {})
      \cup (IF c.filt /\ LegacyAll(c, q, "pass") /\ HostsHit(c, q) THEN {"HostsSecond"} ELSE {})
      \cup (IF ~c.hostsOn /\ c.hosts # {} THEN {"HostsOff"} ELSE {})
      \cup (IF Reached(c, q) /\ ~AllowListed(c, q) /\ SomeSurvive(c, q) /\ ~SelfCname(c, q)
            THEN {"RewriteBeatsOrdinary"} ELSE {})
      \cup (IF Reached(c, q) /\ GenericExc(c, q) /\ RwRules(Appl(c, q)) # {} THEN {"DisableAll"} ELSE {})
      \cup (IF Reached(c, q) /\ SpecificExcs(c, q) # {} /\ RwRules(Appl(c, q)) # {} THEN {"DisableOne"} ELSE {})
      \cup (IF Reached(c, q) /\ ~AllowListed(c, q) /\ ImportantRule(c, q) /\ ~SelfCname(c, q)
               /\ RwExcs(Appl(c, q)) # {}
            THEN {"ImportantSurvives"} ELSE {})
      \cup (IF ~c.prot /\ c.filt /\ \E r \in c.rules : ~IsDR(r) THEN {"ProtectionOff"} ELSE {})
      \cup (IF Reached(c, q) /\ SelfCname(c, q) THEN {"SelfCname"} ELSE {})
      \cup (IF ~Silent(c, q) THEN {"Determinate"} ELSE {"Silent"})
      \cup (IF \E o \in os : o.r = "rule" /\ o.rcode \notin {"", "NOERROR"} THEN {"KeywordEmpty"} ELSE {})
      \cup (IF \E o \in os : o.r = "rule" /\ o.vals # {} THEN {"OnlyQuestionType"} ELSE {})
      \cup (IF \E o \in os : o.r = "rule" /\ o.rcode = "NOERROR" /\ o.vals = {} THEN {"NoData"} ELSE {})
      \cup (IF \E o \in os : o.r = "hosts" /\ o.vals = {} THEN {"HostsOtherFamily"} ELSE {})
      \cup (IF \E o \in os : o.r = "hosts" /\ q.qt = "PTR" THEN {"HostsPTR"} ELSE {})
      \cup (IF sk # {} THEN {"SkipDiffers"} ELSE {})

\* ---------------------------------------------------------------- behaviour
Groups(Q, t, kf) ==
    {[o |-> p[1], kf |-> p[2], q |-> {q \in Q : <<t[q], kf[q]>> = p}] : p \in {<<t[q], kf[q]>> : q \in Q}}

CfgJson(c) == [rules |-> c.rules, hosts |-> c.hosts, hostsOn |-> c.hostsOn, legacy |-> c.legacy,
               filt |-> c.filt, prot |-> c.prot]

Emit(f, c, Q, t, kf, w) ==
    PrintT(<<"@@V", ToJson([kind |-> "cfg", fam |-> f, cfg |-> CfgJson(c), vd |-> Groups(Q, t, kf), wit |-> w])>>)

Finish(f, c, Q) ==
    \E t \in {[q \in Q |-> Outcomes(c, q)]} :
    \E kf \in {[q \in Q |-> SkipOutcomes(c, q) \ t[q]]} :
    \E w \in {[q \in Q |-> Ante(c, q, t[q], kf[q])]} :
        /\ st' = "done" /\ fam' = f /\ cfg' = c /\ tbl' = t /\ wit' = w
        /\ UNCHANGED part
        /\ Emit(f, c, Q, t, kf, UNION {w[q] : q \in Q})

Init == st = "root" /\ fam = "" /\ part = <<>> /\ cfg = NoCfg /\ tbl = << >> /\ wit = << >>

\* Level 1: the family and the first choice.
Root ==
    /\ st = "root"
    /\ \/ /\ "comb" \in Fams
          /\ \E i \in 0..Len(CombSeq) : st' = "mid" /\ fam' = "comb" /\ part' = <<i>>
       \/ /\ "mod" \in Fams
          /\ \E i \in 0..Len(ModSeq) : st' = "mid" /\ fam' = "mod" /\ part' = <<i>>
       \/ /\ "prec" \in Fams
          /\ \E l \in PrecLegacy, h \in PrecHosts : st' = "mid" /\ fam' = "prec" /\ part' = <<l, h>>
       \/ /\ "hosts" \in Fams
          /\ \E i \in 0..Len(HostsSeq) : st' = "mid" /\ fam' = "hosts" /\ part' = <<i>>
       \/ /\ "hist" \in Fams
          /\ \E h \in HistHosts, l \in HistLegacy : st' = "mid" /\ fam' = "hist" /\ part' = <<h, l>>
    /\ UNCHANGED <<cfg, tbl, wit>>

MidComb ==
    /\ st = "mid" /\ fam = "comb"
    /\ LET i == part[1] IN
       IF i = 0 THEN Finish("comb", NoCfg, CombQ)
       ELSE \E T \in CombRest(i) :
              Finish("comb", [NoCfg EXCEPT !.rules = {CombSeq[j] : j \in T \cup {i}}], CombQ)

MidMod ==
    /\ st = "mid" /\ fam = "mod"
    /\ LET i == part[1] IN
       IF i = 0 THEN Finish("mod", NoCfg, ModQ)
       ELSE \E T \in {{}} \cup {{j} : j \in (i + 1)..Len(ModSeq)} :
              Finish("mod", [NoCfg EXCEPT !.rules = {ModSeq[j] : j \in T \cup {i}}], ModQ)

MidPrec ==
    /\ st = "mid" /\ fam = "prec"
    /\ \E on \in BOOLEAN, d \in PrecDR, o \in PrecOrd, a \in PrecAllow, f \in BOOLEAN, p \in BOOLEAN :
         /\ (part[2] = {} => on)                  \* an empty hosts file is not also switched off
         /\ (~f => (p /\ a = {} /\ o = {}))       \* with filtering off one variant of the rest suffices
         /\ Finish("prec", [rules |-> d \cup o \cup a, hosts |-> part[2], hostsOn |-> on,
                            legacy |-> part[1], filt |-> f, prot |-> p], PrecQ)

MidHosts ==
    /\ st = "mid" /\ fam = "hosts"
    /\ LET i == part[1] IN
       IF i = 0 THEN Finish("hosts", [NoCfg EXCEPT !.hostsOn = TRUE], HostsQ)
       ELSE \E T \in HostsRest(i), d \in {{}, {Plain("block", FALSE, RRRw("A", "v4a"))}} :
              Finish("hosts", [NoCfg EXCEPT !.hostsOn = TRUE, !.rules = d,
                                            !.hosts = {HostsSeq[j] : j \in T \cup {i}}], HostsQ)

\* The reconfiguration machine: every configuration is described (vector
\* "cfg", family "hist") and every step out of it is an edge.
MidHist ==
    /\ st = "mid" /\ fam = "hist"
    /\ \E c \in {x \in HistCfgs : x.hosts = part[1] /\ x.legacy = part[2]} :
         /\ Finish("hist", c, HistQ)
         /\ \A s \in HistSteps(c) :
              PrintT(<<"@@V", ToJson([kind |-> "edge", src |-> CfgJson(c), act |-> s.act, dst |-> CfgJson(s.dst)])>>)

Next == Root \/ MidComb \/ MidMod \/ MidPrec \/ MidHosts \/ MidHist
Spec == Init /\ [][Next]_vars

\* --------------------------------------------- the clauses of the statement
Done == st = "done"
Q == DOMAIN tbl
Has(q, name) == name \in wit[q]

NonEmpty == Done => \A q \in Q : tbl[q] # {}

\* With filtering disabled nothing is rewritten, blocked or allowed.
FilteringOff == Done => \A q \in Q : Has(q, "FilteringOff") => tbl[q] = {NoneO}

\* Documented order: legacy table, hosts file, filtering rules.
LegacyFirst == Done => \A q \in Q : Has(q, "LegacyFirst") => \A o \in tbl[q] : o.r = "legacy"
HostsSecond == Done => \A q \in Q : Has(q, "HostsSecond") => \A o \in tbl[q] : o.r = "hosts"
HostsOff    == Done => \A q \in Q : ~cfg.hostsOn => \A o \in tbl[q] : o.r # "hosts"

\* "Rules with the dnsrewrite response modifier have higher priority than
\* other rules": whatever ordinary rules say, a surviving rewrite answers.
RewriteBeatsOrdinary ==
    Done => \A q \in Q : Has(q, "RewriteBeatsOrdinary") => \A o \in tbl[q] : o.r = "rule"

\* "@@||name^$dnsrewrite" removes all rewrites: nothing is rewritten then.
DisableAll == Done => \A q \in Q : Has(q, "DisableAll") => \A o \in tbl[q] : o.r # "rule"

\* "@@||name^$dnsrewrite=v" removes the rewrite with value v.
DisableOne ==
    Done => \A q \in Q : \A e \in (IF Has(q, "DisableOne") THEN SpecificExcs(cfg, q) ELSE {}) :
        \A o \in {x \in tbl[q] : x.r = "rule"} :
            /\ (e.rw.k = "rr" /\ e.rw.t = q.qt => <<e.rw.v>> \notin o.vals)
            /\ (e.rw.k = "cname" => o.canon # e.rw.n)
            /\ (e.rw.k = "rcode" => o.rcode # e.rw.t)

\* An important rewrite is not removed by exceptions that are not important.
ImportantSurvives ==
    Done => \A q \in Q : Has(q, "ImportantSurvives") => \A o \in tbl[q] : o.r = "rule"

\* An exception never answers: every value, canonical name and reply code of
\* a "rule" outcome is that of a REWRITING rule that applies to the question.
ExceptionNeverAnswers ==
    Done => \A q \in Q : \A o \in {x \in tbl[q] : x.r = "rule"} :
        LET rw == RwRules(Appl(cfg, q)) IN
        /\ \A v \in o.vals : \E r \in rw : r.rw = RRRw(q.qt, v[1])
        /\ (o.canon # <<>> => \E r \in rw : r.rw = CnameRw(o.canon))
        /\ (o.rcode \notin {"", "NOERROR"} => \E r \in rw : r.rw = RcodeRw(o.rcode))
        /\ rw # {}

\* Keyword rewrites: "an empty response with an appropriate response code".
KeywordEmpty ==
    Done => \A q \in Q : \A o \in tbl[q] :
        o.r = "rule" /\ o.rcode \notin {"", "NOERROR"} => o.vals = {} /\ o.canon = <<>> /\ ~o.up

\* Hosts file: addresses of the question's family only, all of them, for
\* names on any line; PTR: all names of the address.
HostsAnswers ==
    Done => \A q \in Q : \A o \in {x \in tbl[q] : x.r = "hosts"} :
        IF q.qt = "PTR" THEN o.vals = HostsNames(cfg.hosts, q.host[1]) /\ o.vals # {}
        ELSE /\ q.qt \in {"A", "AAAA"}
             /\ o.vals = {<<a>> : a \in {x \in HostsAddrs(cfg.hosts, q.host) : IsV6(x) = (q.qt = "AAAA")}}
             /\ HostsAddrs(cfg.hosts, q.host) # {}

\* Protection disabled: rewrites of all three kinds are applied as before,
\* ordinary rules and allow lists are not.
ProtectionOff ==
    Done /\ ~cfg.prot => \A q \in Q :
        /\ \A o \in tbl[q] : o.r \notin {"block", "allow"}
        /\ tbl[q] = Outcomes([cfg EXCEPT !.prot = TRUE, !.rules = {r \in @ : IsDR(r) /\ r.place # "allow"}], q)

\* Outside the places the documentation leaves open the verdict is unique.
Determinate == Done => \A q \in Q : Has(q, "Determinate") => Cardinality(tbl[q]) = 1

\* A rewrite of a name to itself is no rewrite.
SelfCnameIsNoRewrite ==
    Done => \A q \in Q : \A o \in tbl[q] : o.canon # q.host

\* Order independence: the verdict is a function of the SET of rules and of
\* the SET of hosts lines (both are sets in cfg), and of nothing else (tbl
\* is computed from cfg alone): nothing to check beyond the types.
=============================================================================
