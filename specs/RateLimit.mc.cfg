\* Exhaustive exploration (modulo time translation, see View) of every
\* configuration N x BlockDur; the same run emits the labelled edges that the
\* Go harness walks (direction A).
CONSTANTS
    Addrs = {"a1", "a2"}
    Claims = {"none", "peer", "trusted", "untrusted"}
    MaxAttemptsSet = {1, 2, 3}
    BlockDurSet = {1, 2, 3}
    Window = 2
    MaxTick = 4
SPECIFICATION Spec
VIEW View
INVARIANTS TypeOK NoBlockBeforeLimit LimitIsSharp
PROPERTIES BlockedNeverEvaluates BlockLastsExactly SuccessClears OthersUntouched ClaimIsIgnored
