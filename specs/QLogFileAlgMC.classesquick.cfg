SPECIFICATION GenSpec
CONSTANTS
  MaxEntry = 4
  BufSize = 12
  DepthLimit = 100
  EmptyGuard = TRUE
  MaxLines = 7
  MinLen = 1
  EmitProbes = FALSE
  MaxLen = 3
