SPECIFICATION Spec
