------------------------------ MODULE Rewrites ------------------------------
(***************************************************************************)
(* C06 -- custom DNS rewrites follow the documented precedence and always  *)
(* terminate.                                                              *)
(*                                                                         *)
(* RewritesCore.tla holds the decision procedure (Outcomes, StepResults,   *)
(* Serve).  This module                                                    *)
(*   - fixes finite universes of names, patterns and answers,              *)
(*   - enumerates rewrite tables: every multiset of at most MaxLen entries *)
(*     (one representative order; the specification does not depend on the *)
(*     order, PermutationInvariant, and the harness replays EVERY order),  *)
(*     plus dedicated families given as sequences: CNAME cycles of length  *)
(*     1..4, the four-rung precedence ladder exact > *.l3 > *.l2 > *.l1,   *)
(*     and long chains (up to 33 links) into cycles, addresses or nothing, *)
(*   - evaluates every query (name x type) against every table, checks the *)
(*     clauses of the statement as invariants of that verdict table and    *)
(*     emits it as one vector per table for the conformance harness,       *)
(*   - runs the evaluation as a step machine (PickQuery / ChaseStep) on    *)
(*     which TLC checks termination: the liveness property Terminates      *)
(*     under weak fairness with no state constraint, and the variant       *)
(*     VariantGrows / VariantBounded.                                      *)
(***************************************************************************)
EXTENDS RewritesCore, TLC, Json

CONSTANTS
    U,          \* "big" | "small": which universe of patterns and answers ("hist": the
                \* small one with the query names of the edit machine)
    MaxLen,     \* tables built entry by entry have at most this many entries
    EmitFrom,   \* tables shorter than this are enumerated but not emitted
    Shard,      \* 0 = all tables; p in 1..7 = only tables whose first entry sits at a
                \* position of EntrySeq congruent to p - 1 modulo 7 (a seventh of them)
    Perms,      \* TRUE: also check PermutationInvariant (costs a factor of Len(tab)!)
    Families,   \* 0: no families; 1: reduced cycle and ladder families; 2: full families;
                \* 3: the long-chain family only (with U = "chain")
    Mode        \* "gen": tables only (+ vectors); "live": also the step machine;
                \* "hist": the edit machine (add / delete / update on one table)

VARIABLES
    stage,      \* "table" | "shape" | "family" | "chase" | "done" | "hist" | "described"
    tab,        \* the rewrite table
    last,       \* position in EntrySeq of the entry added last (tables are built
                \* in non-decreasing entry order: one representative per multiset)
    vt,         \* verdict table of tab: query -> set of admissible outcomes
    wit,        \* which antecedents of the invariants are true for tab (vacuity)
    q,          \* the query being evaluated by the step machine
    cs,         \* chase state of the step machine
    out         \* its outcome

vars == <<stage, tab, last, vt, wit, q, cs, out>>

\* ------------------------------------------------------------------ names
c == <<"c">>
ac == <<"a", "c">>
bc == <<"b", "c">>
xac == <<"x", "a", "c">>
yac == <<"y", "a", "c">>
xbc == <<"x", "b", "c">>
yxac == <<"y", "x", "a", "c">>
xa_c == <<"xa", "c">>     \* look-alike: ends in the characters "a.c", is no subdomain of a.c
ed == <<"e", "d">>        \* never matched by any pattern: "a name that is not in the table"
Star(n) == <<"*">> \o n

\* Every name that can occur, in a fixed order; vectors refer to names by
\* their position in this sequence (the header vector carries the sequence).
\* Names of the long-chain family: leads l1 .. l33 and tails t1 .. t33 under a
\* top-level label of their own (no pattern of the other universes matches).
LN(i) == <<"l" \o ToString(i), "k">>
TN(i) == <<"t" \o ToString(i), "k">>
MaxChain == 33

NameSeq == <<c, ac, bc, xa_c, xac, yac, xbc, yxac, ed,
             Star(c), Star(ac), Star(bc), Star(xac)>>
             \o [i \in 1..MaxChain |-> LN(i)] \o [i \in 1..MaxChain |-> TN(i)]
NameIdx == [n \in {NameSeq[i] : i \in DOMAIN NameSeq} |->
              CHOOSE i \in DOMAIN NameSeq : NameSeq[i] = n]

QNames == IF U = "big" THEN {c, ac, bc, xa_c, xac, yac, xbc, yxac, ed}
          ELSE IF U = "hist" THEN {ac, bc, xa_c, xac, yxac, ed}
          ELSE IF U = "chain" THEN {LN(1), LN(2), LN(5), LN(8), LN(9), LN(MaxChain),
                                    TN(1), TN(2), TN(3), TN(9), ed}
          ELSE {c, ac, bc, xa_c, xac, yxac, ed}
\* (The termination run on the long-chain family asks for one address type
\* and one other type only: the chase of CNAMEs does not look at the type before
\* its last step, and behaviours there are up to 46 steps deep.)
QTypes == IF U = "chain" /\ Mode = "live" THEN {"A", "TXT"} ELSE {"A", "AAAA", "TXT"}
Queries == {[h |-> h, t |-> t] : h \in QNames, t \in QTypes}

\* --------------------------------------------------------------- entries
\* Patterns, in a fixed order.
PatSeq == IF U = "big"
          THEN <<[w |-> FALSE, n |-> ac], [w |-> FALSE, n |-> bc], [w |-> FALSE, n |-> xac],
                 [w |-> FALSE, n |-> yac], [w |-> FALSE, n |-> xbc], [w |-> FALSE, n |-> yxac],
                 [w |-> TRUE, n |-> c], [w |-> TRUE, n |-> ac], [w |-> TRUE, n |-> bc],
                 [w |-> TRUE, n |-> xac]>>
          ELSE <<[w |-> FALSE, n |-> ac], [w |-> FALSE, n |-> bc], [w |-> FALSE, n |-> xac],
                 [w |-> FALSE, n |-> yxac],
                 [w |-> TRUE, n |-> c], [w |-> TRUE, n |-> ac], [w |-> TRUE, n |-> xac]>>

TargetSeq == IF U = "big" THEN <<ac, bc, xac, xbc, yxac, ed>> ELSE <<ac, bc, xac, ed>>
Targets == {TargetSeq[i] : i \in DOMAIN TargetSeq}

Mk(w, n, k, ip, t) == [w |-> w, n |-> n, k |-> k, ip |-> ip, t |-> t]
Ip4(p, a)  == Mk(p.w, p.n, "ip4", a, NoName)
Ip6(p, a)  == Mk(p.w, p.n, "ip6", a, NoName)
Exc(p, k)  == Mk(p.w, p.n, k, "", NoName)
Cn(p, t)   == Mk(p.w, p.n, "cname", "", t)
Self(p)    == Cn(p, IF p.w THEN Star(p.n) ELSE p.n)

\* Everything one pattern can be rewritten to: two IPv4 addresses, one IPv6
\* address, both keywords, a CNAME to each target, and the pattern itself
\* (for an exact pattern whose name is a target that is one of the CNAMEs).
\* "v6m" is an IPv4-mapped IPv6 literal (::ffff:a.b.c.d).  The family of an
\* address entry is that of the TEXT the administrator wrote ("IPv4 address:
\* use this IP in A response, IPv6 address: use this IP in AAAA response"): a
\* mapped literal is IPv6 text, hence an AAAA value and nothing for A.  (The
\* harness writes all addresses in seeded legal spellings: compressed / full /
\* upper-case hex, "::", "::1", 0.0.0.0, the mapped one with dotted or hex tail.)
EntriesOf(p) ==
    <<Ip4(p, "v4a"), Ip4(p, "v4b"), Ip6(p, "v6a"), Exc(p, "A"), Exc(p, "AAAA")>>
      \o (IF U = "big" THEN <<Ip6(p, "v6m")>> ELSE <<>>)
      \o [i \in DOMAIN TargetSeq |-> Cn(p, TargetSeq[i])]
      \o (IF p.w \/ p.n \notin Targets THEN <<Self(p)>> ELSE <<>>)

RECURSIVE EntriesFrom(_)
EntriesFrom(i) == IF i > Len(PatSeq) THEN <<>> ELSE EntriesOf(PatSeq[i]) \o EntriesFrom(i + 1)
\* All entries of the universe in a fixed order, without repetition.
EntrySeq == EntriesFrom(1)

\* ---------------------------------------------------------- cycle family
\* A cycle n1 -> n2 -> ... -> nk -> n1 over distinct names of the pool, each
\* link written with the exact name or with the wildcard over its parent
\* (mask), optionally entered from a name outside (lead), optionally with an
\* address or keyword entry on a member (extra), entries in table order or
\* reversed.  Families = 1 is the reduced family of the quick tier: at most
\* one wildcard link, one lead, one extra, one order.
Pool == <<ac, xac, bc, xbc>>
Inj(k) == {s \in [1..k -> 1..4] : \A i, j \in 1..k : i # j => s[i] # s[j]}
CyclePat(n, wild) == IF wild THEN [w |-> TRUE, n |-> Tail(n)] ELSE [w |-> FALSE, n |-> n]
CycleEntries(s, mask) ==
    LET k == Len(s) IN
    [i \in 1..k |-> Cn(CyclePat(Pool[s[i]], i \in mask), Pool[s[(i % k) + 1]])]
Leads(n1) == {<<>>, <<Cn([w |-> FALSE, n |-> yxac], n1)>>}
               \cup (IF Families = 2 THEN {<<Cn([w |-> FALSE, n |-> yac], n1)>>} ELSE {})
Extras(s) ==
    LET n1 == Pool[s[1]]
        nk == Pool[s[Len(s)]] IN
    {<<>>, <<Ip4([w |-> FALSE, n |-> n1], "v4a")>>}
      \cup (IF Families = 2
            THEN {<<Ip6([w |-> FALSE, n |-> nk], "v6a")>>, <<Exc([w |-> FALSE, n |-> n1], "A")>>}
            ELSE {})
Reverse(s) == [i \in 1..Len(s) |-> s[Len(s) + 1 - i]]
\* The tables of one cycle shape s (an injective sequence of pool positions).
CycleShapes == UNION {Inj(k) : k \in 1..4}
CycleTablesOf(s) ==
    UNION {UNION {
        LET t == ld \o CycleEntries(s, mask) \o ex IN
        IF Families = 2 THEN {t, Reverse(t)} ELSE {t}
      : ld \in Leads(Pool[s[1]]), ex \in Extras(s)}
      : mask \in {mk \in SUBSET (1..Len(s)) : Families = 2 \/ Cardinality(mk) <= 1}}

\* --------------------------------------------------------- ladder family
\* Host y.x.a.c and its four rungs; every rung absent or carrying one of
\* eight answers; b.c (a CNAME target) has both families so that a followed
\* CNAME ends in addresses; entries in rung order or reversed.
Rungs == <<[w |-> FALSE, n |-> yxac], [w |-> TRUE, n |-> xac], [w |-> TRUE, n |-> ac], [w |-> TRUE, n |-> c]>>
RungAns(p) == {<<>>} \cup {<<e>> : e \in {Ip4(p, "v4a"), Ip6(p, "v6a"), Exc(p, "A"), Cn(p, bc), Self(p)}
                                           \cup (IF Families = 2
                                                 THEN {Ip4(p, "v4b"), Exc(p, "AAAA"), Cn(p, ed)}
                                                 ELSE {})}
LadderTail == <<Ip4([w |-> FALSE, n |-> bc], "v4b"), Ip6([w |-> FALSE, n |-> bc], "v6a")>>
\* The tables of one choice for the two upper rungs.
LadderShapes == {<<r1, r2>> : r1 \in RungAns(Rungs[1]), r2 \in RungAns(Rungs[2])}
LadderTablesOf(sh) ==
    UNION {LET t == sh[1] \o sh[2] \o r3 \o r4 IN
           IF t = <<>> THEN {}
           ELSE IF Families = 2 THEN {t \o LadderTail, LadderTail \o Reverse(t)}
           ELSE {t \o LadderTail}
           : r3 \in RungAns(Rungs[3]), r4 \in RungAns(Rungs[4])}

\* ----------------------------------------------------- long-chain family
(***************************************************************************)
(* "chains and cycles of any length": a chain l1 -> l2 -> ... -> lL of     *)
(* L in {1, 2, 7, 8, 9, 16, 33} CNAME entries that ends                    *)
(*   self     in a name rewritten to itself,                               *)
(*   cycle2/3 in a cycle of two / three further names (entered only after  *)
(*            L names and not containing the queried one),                 *)
(*   back     back at l1 (a cycle of length L),                            *)
(*   addr     in a name with addresses of both families,                   *)
(*   keyword  in a name with the "A" keyword,                              *)
(*   none     in a name the table does not mention,                        *)
(* entries in chain order or reversed; and rings: a lead-in chain of        *)
(* 0, 1, 2 or 9 names into a cycle t1 -> t2 -> ... -> tC -> t1 of          *)
(* C in {7, 8, 9, 10, 16, 17, 33} names (a long cycle entered from a       *)
(* queried name outside it; a query for t1 or t9 is on the cycle).  The    *)
(* tables are written down directly, not enumerated.  Queries: l1, l2, l5, *)
(* l8, l9, l33, t1, t2, t3, t9.                                            *)
(***************************************************************************)
ChainLens == {1, 2, 7, 8, 9, 16, MaxChain}
ChainEnds == {"self", "cycle2", "cycle3", "back", "addr", "keyword", "none"}
RingLeads == {0, 1, 2, 9}
RingLens == {7, 8, 9, 10, 16, 17, MaxChain}
ChainShapes == {<<L, e>> : L \in ChainLens, e \in ChainEnds}
                 \cup {<<L, "ring", C>> : L \in RingLeads, C \in RingLens}
ExactPat(n) == [w |-> FALSE, n |-> n]
RingTable(L, C) ==
    [i \in 1..L |-> Cn(ExactPat(LN(i)), IF i < L THEN LN(i + 1) ELSE TN(1))]
      \o [i \in 1..C |-> Cn(ExactPat(TN(i)), IF i < C THEN TN(i + 1) ELSE TN(1))]
ChainTablesOf(sh) ==
    IF sh[2] = "ring" THEN {RingTable(sh[1], sh[3]), Reverse(RingTable(sh[1], sh[3]))} ELSE
    LET L == sh[1]
        e == sh[2]
        lead == [i \in 1..L |-> Cn(ExactPat(LN(i)), IF i < L THEN LN(i + 1)
                                               ELSE IF e = "back" THEN LN(1) ELSE TN(1))]
        tail == CASE e = "self"    -> <<Cn(ExactPat(TN(1)), TN(1))>>
                  [] e = "cycle2"  -> <<Cn(ExactPat(TN(1)), TN(2)), Cn(ExactPat(TN(2)), TN(1))>>
                  [] e = "cycle3"  -> <<Cn(ExactPat(TN(1)), TN(2)), Cn(ExactPat(TN(2)), TN(3)), Cn(ExactPat(TN(3)), TN(1))>>
                  [] e = "addr"    -> <<Ip4(ExactPat(TN(1)), "v4a"), Ip6(ExactPat(TN(1)), "v6a")>>
                  [] e = "keyword" -> <<Exc(ExactPat(TN(1)), "A")>>
                  [] OTHER         -> <<>>
        t == lead \o tail
    IN {t, Reverse(t)}

\* --------------------------------------------------------- verdict table
Verdicts(t) == [qq \in Queries |-> Outcomes(t, qq.h, qq.t)]

M(t, h)  == MatchIdx(t, h)
CN(t, h) == {i \in M(t, h) : IsCname(t[i])}
Better(t, j, i) == \/ ~t[j].w /\ t[i].w
                   \/ t[j].w /\ t[i].w /\ Len(t[j].n) > Len(t[i].n)
FirstHops(t, h, qt) == {s.cs.h : s \in {x \in StepResults(t, h, qt, ChaseInit(h), {}) : ~x.done}}
Range(t) == {t[i] : i \in DOMAIN t}

(***************************************************************************)
(* The clauses of the statement, each as a predicate of one table t, one   *)
(* query (h, qt) and its admissible outcomes O.  P_x is the clause, A_x    *)
(* its antecedent (collected into wit for the vacuity guard).              *)
(***************************************************************************)
\* A name the table does not mention is not touched.
A_Unmatched(t, h, qt) == M(t, h) = {}
P_Unmatched(t, h, qt, O) == A_Unmatched(t, h, qt) => O = {Pass}

P_WellFormed(t, h, qt, O) ==
    /\ O # {}
    /\ \A o \in O :
         /\ o.r = "pass" => o = Pass
         /\ o.r = "rw" /\ o.up => o.ips = {} /\ o.canon # NoName
         /\ o.ips # {} => Fam(qt) # "none"

\* CNAME entries take precedence over address entries: when a CNAME entry
\* matches the queried name, no answer consists of records for that name.
A_CnameBeatsAddress(t, h, qt) == CN(t, h) # {} /\ \E i \in M(t, h) : HasValueFor(t[i], qt)
P_CnameBeatsAddress(t, h, qt, O) ==
    CN(t, h) # {} => \A o \in O : o.r = "rw" => o.canon # NoName

\* Within the CNAME kind: the name followed first belongs to an entry that no
\* other matching CNAME entry beats (exact over wildcard, longer wildcard over
\* shorter).
A_ShadowCname(t, h, qt) == \E i, j \in CN(t, h) : Better(t, j, i)
P_ShadowCname(t, h, qt, O) ==
    FirstHops(t, h, qt) \subseteq
        {t[i].t : i \in {k \in CN(t, h) : ~\E j \in CN(t, h) : Better(t, j, k)}}

\* Within the address kind: an answered address never comes from an entry
\* that a better entry with something to say about this type shadows.
A_ExactShadowsWildcard(t, h, qt) ==
    CN(t, h) = {} /\ \E i, j \in M(t, h) : /\ t[i].k = Fam(qt) /\ t[i].w
                                           /\ HasValueFor(t[j], qt) /\ ~t[j].w
A_MostSpecificWildcard(t, h, qt) ==
    CN(t, h) = {} /\ \E i, j \in M(t, h) : /\ t[i].k = Fam(qt) /\ t[i].w
                                           /\ HasValueFor(t[j], qt) /\ t[j].w
                                           /\ Len(t[j].n) > Len(t[i].n)
P_Shadowing(t, h, qt, O) ==
    \A o \in O : o.canon = NoName =>
        \A ip \in o.ips :
            \E i \in M(t, h) : /\ t[i].k = Fam(qt) /\ t[i].ip = ip
                               /\ ~\E j \in M(t, h) : HasValueFor(t[j], qt) /\ Better(t, j, i)
\* ... and all exact addresses of the family are answered together.
A_ExactAll(t, h, qt) ==
    /\ CN(t, h) = {}
    /\ \E i \in M(t, h) : ~t[i].w /\ t[i].k = Fam(qt)
    /\ ~\E i \in M(t, h) : ~t[i].w /\ t[i].k = qt /\ IsExc(t[i])
P_ExactAll(t, h, qt, O) ==
    A_ExactAll(t, h, qt) =>
        O = {Rw(NoName, {t[i].ip : i \in {j \in M(t, h) : ~t[j].w /\ t[j].k = Fam(qt)}}, FALSE)}

\* An exact address entry shadows the wildcard address entries also for the
\* type it says nothing about ("within one kind": CNAME or address).
A_ExactOtherFamily(t, h, qt) ==
    /\ CN(t, h) = {} /\ Fam(qt) # "none"
    /\ \E i \in M(t, h) : ~t[i].w /\ ~IsCname(t[i])
    /\ ~\E i \in M(t, h) : ~t[i].w /\ HasValueFor(t[i], qt)
    /\ \E j \in M(t, h) : t[j].w /\ HasValueFor(t[j], qt)
P_ExactOtherFamily(t, h, qt, O) == A_ExactOtherFamily(t, h, qt) => O = {Rw(NoName, {}, FALSE)}
\* All entries of the one wildcard pattern that matches answer together
\* (duplicates, any entry order).
A_WildAll(t, h, qt) ==
    /\ CN(t, h) = {} /\ Fam(qt) # "none"
    /\ \A i \in M(t, h) : t[i].w
    /\ \E i, j \in M(t, h) : i # j
    /\ \A i, j \in M(t, h) : t[i].n = t[j].n
P_WildAll(t, h, qt, O) ==
    A_WildAll(t, h, qt) =>
        O = IF \E i \in M(t, h) : IsExc(t[i]) /\ t[i].k = qt THEN {Pass}
            ELSE {Rw(NoName, {t[i].ip : i \in {j \in M(t, h) : t[j].k = Fam(qt)}}, FALSE)}
\* An exception met on a canonical name does not undo the CNAME entries that
\* led there: a name with a CNAME entry that is not an exception itself never
\* passes through unless CNAMEs can meet again (a cycle).
A_LateException(t, h, qt) ==
    /\ CN(t, h) # {} /\ ~\E i \in CnameWinners(t, h) : IsSelf(t[i], h)
    /\ \E i \in CnameWinners(t, h) : \E j \in M(t, t[i].t) :
           IsSelf(t[j], t[i].t) \/ (IsExc(t[j]) /\ t[j].k = qt)
P_LateException(t, h, qt, O) ==
    (CN(t, h) # {} /\ ~(\E i \in CnameWinners(t, h) : IsSelf(t[i], h)) /\ Pass \in O) =>
        \E e \in Range(t) : IsCname(e) /\ \E e2 \in Range(t) : IsCname(e2) /\ ~IsSelf(e2, e.t) /\ Matches(e2, e.t)

\* 'name to itself', 'A' and 'AAAA' entries are pass-through exceptions.
A_SelfPasses(t, h, qt) ==
    CN(t, h) # {} /\ \A i \in CnameWinners(t, h) : IsSelf(t[i], h)
P_SelfPasses(t, h, qt, O) == A_SelfPasses(t, h, qt) => O = {Pass}
A_KeywordPasses(t, h, qt) ==
    CN(t, h) = {} /\ \E i \in M(t, h) : ~t[i].w /\ t[i].k = qt /\ IsExc(t[i])
P_KeywordPasses(t, h, qt, O) == A_KeywordPasses(t, h, qt) => O = {Pass}
A_WildKeywordPasses(t, h, qt) ==
    /\ CN(t, h) = {}
    /\ \E i \in M(t, h) :
         /\ t[i].w /\ t[i].k = qt /\ IsExc(t[i])
         /\ \A j \in M(t, h) \ {i} : Better(t, i, j)
P_WildKeywordPasses(t, h, qt, O) == A_WildKeywordPasses(t, h, qt) => O = {Pass}
\* ... and nothing else lets a name of the table through: a pass-through
\* needs this type's keyword, a self entry, or CNAMEs that can meet again.
P_PassNeedsException(t, h, qt, O) ==
    M(t, h) # {} /\ Pass \in O =>
        \E e \in Range(t) :
            \/ IsExc(e) /\ e.k = qt
            \/ IsCname(e) /\ e.t = PatName(e)
            \/ IsCname(e) /\ \E e2 \in Range(t) : IsCname(e2) /\ Matches(e2, e.t)

\* Never an address that is not in the table for the finally resolved name
\* and requested family.
P_AddressesFromTable(t, h, qt, O) ==
    \A o \in O : \A ip \in o.ips :
        \E i \in M(t, FinalName(o, h)) : t[i].k = Fam(qt) /\ t[i].ip = ip

\* A name matched by the table but without a value for the requested type
\* gets an empty successful answer, not the upstream's ...
A_MatchedNoValue(t, h, qt) ==
    M(t, h) # {} /\ CN(t, h) = {} /\ ~\E i \in M(t, h) : HasValueFor(t[i], qt)
P_MatchedNoValue(t, h, qt, O) == A_MatchedNoValue(t, h, qt) => O = {Rw(NoName, {}, FALSE)}
\* ... also when it is the canonical name: the upstream is consulted for a
\* canonical name only if the table does not mention it or an exception or
\* cycle stopped the evaluation there.
P_UpstreamOnlyForUnknown(t, h, qt, O) ==
    \A o \in O :
        /\ o.r = "rw" /\ o.up =>
             \/ M(t, o.canon) = {}
             \/ \E i \in M(t, o.canon) : IsCname(t[i]) \/ (IsExc(t[i]) /\ t[i].k = qt)
        /\ o.r = "rw" /\ ~o.up /\ o.ips = {} => M(t, FinalName(o, h)) # {}

ClauseNames == <<"Unmatched", "CnameBeatsAddress", "ShadowCname", "ExactShadowsWildcard",
                 "MostSpecificWildcard", "ExactAll", "SelfPasses", "KeywordPasses",
                 "WildKeywordPasses", "PassNeedsException", "AddressesFromTable",
                 "MatchedNoValue", "CanonNoValue", "ExactOtherFamily", "WildAll", "LateException">>

Witness(t, v) ==
    LET Ex(A(_, _, _)) == \E qq \in Queries : A(t, qq.h, qq.t) IN
    {n \in {ClauseNames[i] : i \in DOMAIN ClauseNames} :
        CASE n = "Unmatched" -> Ex(A_Unmatched)
          [] n = "CnameBeatsAddress" -> Ex(A_CnameBeatsAddress)
          [] n = "ShadowCname" -> Ex(A_ShadowCname)
          [] n = "ExactShadowsWildcard" -> Ex(A_ExactShadowsWildcard)
          [] n = "MostSpecificWildcard" -> Ex(A_MostSpecificWildcard)
          [] n = "ExactAll" -> Ex(A_ExactAll)
          [] n = "SelfPasses" -> Ex(A_SelfPasses)
          [] n = "KeywordPasses" -> Ex(A_KeywordPasses)
          [] n = "WildKeywordPasses" -> Ex(A_WildKeywordPasses)
          [] n = "PassNeedsException" ->
               \E qq \in Queries : M(t, qq.h) # {} /\ Pass \in v[qq]
          [] n = "AddressesFromTable" ->
               \E qq \in Queries : \E o \in v[qq] : o.ips # {} /\ o.canon # NoName
          [] n = "ExactOtherFamily" -> Ex(A_ExactOtherFamily)
          [] n = "WildAll" -> Ex(A_WildAll)
          [] n = "LateException" -> Ex(A_LateException)
          [] n = "MatchedNoValue" -> Ex(A_MatchedNoValue)
          [] n = "CanonNoValue" ->
               \E qq \in Queries : \E o \in v[qq] :
                   o.r = "rw" /\ o.canon # NoName /\ o.ips = {} /\ ~o.up}

\* The invariants TLC checks (cfg: INVARIANTS): every clause for every query
\* of the current table.
\* (vt is the verdict table of tab in every stage but "hist", where the table
\* is being edited and has not been evaluated yet.)
All(P(_, _, _, _)) == tab # <<>> /\ stage # "hist" => \A qq \in Queries : P(tab, qq.h, qq.t, vt[qq])
Unmatched            == All(P_Unmatched)
WellFormed           == All(P_WellFormed)
CnameBeatsAddress    == All(P_CnameBeatsAddress)
ExactShadowsWildcardCname == All(P_ShadowCname)
ExactShadowsWildcard == All(P_Shadowing) /\ All(P_ExactAll) /\ All(P_ExactOtherFamily)
MostSpecificWildcard == All(P_Shadowing) /\ All(P_WildAll)
SelfAndTypeExceptionsPassThrough ==
    /\ All(P_SelfPasses) /\ All(P_KeywordPasses) /\ All(P_WildKeywordPasses)
    /\ All(P_PassNeedsException) /\ All(P_LateException)
AddressesComeFromTableForFinalName == All(P_AddressesFromTable)
MatchedButNoValue    == All(P_MatchedNoValue) /\ All(P_UpstreamOnlyForUnknown)

\* The order of the table is immaterial to the specification (positions tell
\* duplicates apart, nothing else): every reordering of an entry-built table
\* has the same verdicts.  (The family tables are emitted in the orders in
\* which TLC evaluated them and do not rely on this.)
Orderings(t) ==
    LET n == Len(t) IN
    {[i \in 1..n |-> t[p[i]]] : p \in {f \in [1..n -> 1..n] : \A i, j \in 1..n : i # j => f[i] # f[j]}}
PermutationInvariant ==
    Perms /\ stage = "table" /\ tab # <<>> => \A t2 \in Orderings(tab) : Verdicts(t2) = vt

\* --------------------------------------------------------------- vectors
EncName(n) == IF n = NoName THEN 0 ELSE NameIdx[n]
EncEntry(e) == <<IF e.w THEN 1 ELSE 0, NameIdx[e.n], e.k, e.ip, EncName(e.t)>>
EncOut(o) == <<o.r, EncName(o.canon), o.ips, o.up>>
\* Only the queries for names the table matches are listed; for every other
\* name the verdict is {Pass} (invariant Unmatched) and the harness checks
\* that too.
EncVerdicts(t, v) ==
    {<<NameIdx[qq.h], qq.t, {EncOut(o) : o \in v[qq]}>> : qq \in {x \in Queries : M(t, x.h) # {}}}
\* The outcomes when every CNAME answer of t is written in another letter
\* case and read verbatim (RewritesCore: deviation "case", together with the
\* other deviations).  The harness replays every table with a CNAME entry a
\* second time in that spelling; v is what must come out, vc serves to
\* attribute a disagreement to the finding about letter case.
\* For the attribution of disagreements to findings: where admitting one
\* deviation ("tie", "exact", "late"; "all" = all three) changes the admissible
\* set of a query, that set.  Cheap guards keep TLC from evaluating every query
\* several times for tables where the deviation cannot matter.
AddrIdx(t) == {i \in DOMAIN t : ~IsCname(t[i])}
Guard(t, f) ==
    CASE f = "tie"   -> \E i, j \in AddrIdx(t) : i # j /\ t[i].w /\ t[j].w /\ t[i].n = t[j].n
      [] f = "exact" -> \E i, j \in AddrIdx(t) : ~t[i].w /\ t[j].w /\ Matches(t[j], t[i].n)
      [] f = "late"  -> /\ \E i \in DOMAIN t : IsCname(t[i])
                        /\ \E i \in DOMAIN t : IsExc(t[i]) \/ (IsCname(t[i]) /\ (t[i].t = PatName(t[i]) \/ Matches(t[i], t[i].t)))
      [] OTHER -> FALSE
EncLoose(t, v) ==
    LET fs == {f \in Deviations : Guard(t, f)}
        One(f, L) == {<<NameIdx[qq.h], qq.t, f, {EncOut(o) : o \in OutcomesL(t, qq.h, qq.t, L)}>>
                        : qq \in {x \in Queries : M(t, x.h) # {} /\ OutcomesL(t, x.h, x.t, L) # v[x]}}
    IN UNION {One(f, {f}) : f \in fs} \cup (IF Cardinality(fs) > 1 THEN One("all", fs) ELSE {})
HasCname(t) == \E i \in DOMAIN t : IsCname(t[i])
EncCaseVerdicts(t) ==
    IF ~HasCname(t) THEN {}
    ELSE LET et == [i \in DOMAIN t |-> Estrange(t[i])] IN
         {<<NameIdx[qq.h], qq.t, {EncOut(UnmarkOut(o)) : o \in OutcomesL(et, qq.h, qq.t, Deviations)}>>
            : qq \in {x \in Queries : M(t, x.h) # {}}}
\* o = 1: replay the table in this order only (family tables); o = 0: the
\* table stands for all its orderings (entry-built tables).
Emit(t, v, w, o) ==
    IF Mode = "gen" /\ Len(t) >= EmitFrom
    THEN PrintT(<<"@@V", ToJson([t |-> [i \in DOMAIN t |-> EncEntry(t[i])],
                                 v |-> EncVerdicts(t, v), vc |-> EncCaseVerdicts(t), vk |-> EncLoose(t, v),
                                 w |-> w, o |-> o])>>)
    ELSE TRUE
\* Serve as a table for the pipeline harness: for each kind of outcome and
\* each behaviour of the upstream towards the name it is asked for, which name
\* is asked ("h0" the queried one, "canon", "none"), whether the CNAME record
\* and table addresses are in the answer, whose upstream records are appended,
\* and the reply code.  Evaluated from Serve on symbolic names.
ServeTable ==
    LET h0 == <<"h0">>
        k  == <<"canon">>
        Sym(n) == IF n = NoName THEN "none" ELSE n[1]
        Row(kind, o, m) ==
            LET e == Serve(o, h0, "A", LAMBDA n : m) IN
            [kind |-> kind, mode |-> m,
             ask |-> IF e.ask = {} THEN "none" ELSE Sym((CHOOSE a \in e.ask : TRUE)[1]),
             cname |-> e.cname # NoName, ips |-> e.ips # {}, fromup |-> Sym(e.fromup), rcode |-> e.rcode,
             cnameopt |-> e.cnameopt]
    IN UNION {{Row("pass", Pass, m), Row("up", Rw(k, {}, TRUE), m), Row("local", Rw(k, {"i"}, FALSE), m)}
              : m \in UpModes}
Header == PrintT(<<"@@V", ToJson([hdr |-> 1, names |-> NameSeq,
                                  qnames |-> {NameIdx[n] : n \in QNames},
                                  clauses |-> ClauseNames, serve |-> ServeTable])>>)

\* --------------------------------------------------------------- machine
NoQ == [h |-> NoName, t |-> "A"]

SetTable(t, st) ==
    /\ tab' = t
    /\ vt' = Verdicts(t)
    /\ wit' = Witness(t, vt')
    /\ stage' = st
    /\ Emit(t, vt', wit', 0)
    /\ UNCHANGED <<q, cs, out>>

Init == /\ stage = (IF Mode = "hist" THEN "hist" ELSE "table")
        /\ tab = <<>> /\ last = 1 /\ vt = <<>> /\ wit = {}
        /\ q = NoQ /\ cs = NoChase /\ out = Pass
        /\ Header

ShardOK(i) == IF Shard = 0 THEN TRUE ELSE i % 7 = Shard - 1

\* Tables are built entry by entry in non-decreasing EntrySeq order: one
\* representative of every multiset of at most MaxLen entries.  Outcomes does
\* not depend on the order of the table (PermutationInvariant), so the
\* verdict table of the representative is that of every ordering; the
\* harness replays all orderings.
AddEntry == /\ stage = "table" /\ Len(tab) < MaxLen
            /\ \E i \in last..Len(EntrySeq) :
                 /\ tab = <<>> => ShardOK(i)
                 /\ last' = i
                 /\ SetTable(Append(tab, EntrySeq[i]), "table")

\* The families, fanned out in two steps (shape, then table) so that TLC's
\* workers share the work; the shape is parked in cs.visited.
PickShape  == /\ Families > 0 /\ stage = "table" /\ tab = <<>>
              /\ \/ /\ Families \in {1, 2}
                    /\ \E s \in CycleShapes : cs' = [NoChase EXCEPT !.visited = {<<"cycle", s>>}]
                 \/ /\ Families \in {1, 2}
                    /\ Mode = "gen"     \* termination is about cycles: no ladders in "live"
                    /\ \E s \in LadderShapes : cs' = [NoChase EXCEPT !.visited = {<<"ladder", s>>}]
                 \/ /\ Families = 3
                    /\ \E s \in ChainShapes : cs' = [NoChase EXCEPT !.visited = {<<"chain", s>>}]
              /\ stage' = "shape"
              /\ UNCHANGED <<tab, last, vt, wit, q, out>>
PickFamily == /\ stage = "shape"
              /\ \E sh \in cs.visited :
                   \E t \in (IF sh[1] = "cycle" THEN CycleTablesOf(sh[2])
                             ELSE IF sh[1] = "chain" THEN ChainTablesOf(sh[2])
                             ELSE LadderTablesOf(sh[2])) :
                     /\ tab' = t /\ vt' = Verdicts(t) /\ wit' = Witness(t, vt')
                     /\ stage' = "family" /\ cs' = NoChase
                     /\ Emit(t, vt', wit', 1)
                     /\ UNCHANGED <<last, q, out>>

\* The evaluation of one query, step by step.
PickQuery == /\ Mode = "live" /\ stage \in {"table", "family"} /\ tab # <<>>
             /\ \E qq \in Queries : q' = qq /\ cs' = ChaseInit(qq.h)
             /\ stage' = "chase"
             /\ UNCHANGED <<tab, last, vt, wit, out>>

ChaseStep == /\ stage = "chase"
             /\ \E s \in StepResults(tab, q.h, q.t, cs, {}) :
                  IF s.done THEN stage' = "done" /\ out' = s.out /\ cs' = cs
                  ELSE stage' = "chase" /\ cs' = s.cs /\ out' = out
             /\ UNCHANGED <<tab, last, vt, wit, q>>

\* ------------------------------------------------------------ edit machine
(***************************************************************************)
(* One table that lives on and is edited through the three API calls and   *)
(* saved to the configuration file (which must not change it), in any      *)
(* order, any number of times (Mode = "hist").  TLC explores every     *)
(* table of at most MaxLen entries over HEntrySeq reachable by edits and   *)
(* emits every edge [src, act, a, b, ok, dst]; Describe evaluates the      *)
(* table reached (all statement invariants are therefore checked after     *)
(* EVERY edit history) and emits its verdict table.  The harness walks     *)
(* edge-covering tours on one live filter and asks every query again after *)
(* every edit: what the code answers may depend on the current table only. *)
(***************************************************************************)
pA == [w |-> FALSE, n |-> ac]
pB == [w |-> FALSE, n |-> bc]
pX == [w |-> FALSE, n |-> xac]
pW == [w |-> TRUE, n |-> ac]
HEntrySeq == <<Ip4(pA, "v4a"), Ip4(pA, "v4b"), Ip6(pA, "v6a"), Ip6(pA, "v6m"), Exc(pA, "A"), Cn(pA, bc),
               Cn(pX, ac), Ip4(pW, "v4b"), Cn(pW, bc), Cn(pB, ac)>>
HEntries == {HEntrySeq[i] : i \in DOMAIN HEntrySeq}
\* One entry that is not in the table (for the edits that change nothing).
Absent(t) == LET k == CHOOSE i \in DOMAIN HEntrySeq :
                        /\ HEntrySeq[i] \notin Range(t)
                        /\ \A j \in DOMAIN HEntrySeq : HEntrySeq[j] \notin Range(t) => i <= j
             IN HEntrySeq[k]
EncTab(t) == [i \in DOMAIN t |-> EncEntry(t[i])]
EmitEdge(act, a, b, ok, dst) ==
    PrintT(<<"@@V", ToJson([k |-> "edge", src |-> EncTab(tab), act |-> act, a |-> EncEntry(a),
                            b |-> b, ok |-> ok, dst |-> EncTab(dst)])>>)

HAdd == /\ stage = "hist" /\ Len(tab) < MaxLen
        /\ \E e \in HEntries :
             /\ tab' = TabAdd(tab, e)
             /\ EmitEdge("add", e, <<>>, TRUE, tab')
        /\ UNCHANGED <<stage, last, vt, wit, q, cs, out>>
HDelete == /\ stage = "hist"
           /\ \E e \in Range(tab) \cup {Absent(tab)} :
                /\ tab' = TabDelete(tab, e)
                /\ EmitEdge("del", e, <<>>, TRUE, tab')
           /\ UNCHANGED <<stage, last, vt, wit, q, cs, out>>
HUpdate == /\ stage = "hist"
           /\ \E old \in Range(tab) \cup {Absent(tab)}, new \in HEntries :
                LET r == TabUpdate(tab, old, new) IN
                /\ r.ok \/ new = HEntrySeq[1]      \* one failing update per table is enough
                /\ tab' = r.tab
                /\ EmitEdge("upd", old, EncEntry(new), r.ok, tab')
           /\ UNCHANGED <<stage, last, vt, wit, q, cs, out>>
\* Saving the configuration: an edge from every table to itself.
HSave == /\ stage = "hist"
         /\ tab' = TabSave(tab)
         /\ EmitEdge("save", HEntrySeq[1], <<>>, TRUE, tab')
         /\ UNCHANGED <<stage, last, vt, wit, q, cs, out>>
Describe == /\ stage = "hist"
            /\ stage' = "described"
            /\ vt' = Verdicts(tab)
            /\ wit' = Witness(tab, vt')
            /\ PrintT(<<"@@V", ToJson([k |-> "state", t |-> EncTab(tab), v |-> EncVerdicts(tab, vt'),
                                        vk |-> EncLoose(tab, vt')])>>)
            /\ UNCHANGED <<tab, last, q, cs, out>>

\* The verdicts of a table reached by edits are those of the table itself:
\* nothing of the history is an argument of Outcomes.
HistoryIndependent == stage = "described" => vt = Verdicts(tab)

Next == AddEntry \/ PickShape \/ PickFamily \/ PickQuery \/ ChaseStep
          \/ HAdd \/ HDelete \/ HUpdate \/ HSave \/ Describe

Spec == Init /\ [][Next]_vars /\ WF_vars(ChaseStep)

\* ------------------------------------------------------------ termination
\* Evaluation always terminates, even on CNAME cycles.
Terminates == (stage = "chase") ~> (stage = "done")
\* The variant: every step that does not finish adds a name to visited ...
VariantGrows ==
    [][stage = "chase" /\ stage' = "chase" =>
         cs.visited \subseteq cs'.visited /\ Cardinality(cs'.visited) = Cardinality(cs.visited) + 1]_vars
\* ... and visited holds the queried name plus answers of the table only.
VariantBounded ==
    stage = "chase" => /\ Cardinality(cs.visited) <= Len(tab) + 1
                       /\ cs.visited \subseteq {q.h} \cup {tab[i].t : i \in DOMAIN tab}
\* The step machine and the recursive definition used for the vectors agree.
MachineAgrees == stage = "done" => out \in vt[q]
=============================================================================
