\* Negative configuration: the seeded fault "noreport" of Persist.tla must violate ReportsRunning.
SPECIFICATION Spec
CONSTANTS
    Deep = FALSE
    Bug = "noreport"
    DoEmit = FALSE
INVARIANTS ReportsRunning
VIEW View
