SPECIFICATION Spec
CONSTANTS
  U <- UKinds
  W = 4
VIEW view
INVARIANTS TypeOK UniqueOwner Precedence OwnSettingsOnlyWhenOptedOut ResolvesToOwnerOrNone
PROPERTY RejectedLeavesUnchanged
