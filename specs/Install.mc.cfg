SPECIFICATION Spec
CONSTANT DoEmit = FALSE
INVARIANTS TypeOK Consistent CredentialsRequired RedirectedBefore ReadOnly FailedChangesNothing OnlyConfigureInstalls ClosedAfterInstall OnlyWipeReopens RetryPossible RestartKeeps
