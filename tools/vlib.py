"""Shared machinery for the AdGuard Home model-based checks.

Every check module in /verif/checks exposes run(ctx).  The contract
(DESIGN.md section 2.5):

  exit 0  property held on everything explored (KNOWN-FINDING lines allowed)
  exit 1  reproduced disagreement not listed in KNOWN_FINDINGS.jsonl
          (+ stdout line "VIOLATION property=<id> replay=<path>")
  exit 2  inconclusive (tool failure, timeout, vacuity, harness build failure)
"""
import hashlib
import json
import os
import re
import shutil
import subprocess
import sys
import time

VERIF = os.path.dirname(os.path.dirname(os.path.abspath(__file__)))
REPO = os.environ.get("VERIF_REPO", "/repo")
SPECS = os.path.join(VERIF, "specs")
HARNESS = os.path.join(VERIF, "harness")
TLA_JAR = "/opt/veriftools/tla/tla2tools.jar:/opt/veriftools/tla/CommunityModules-deps.jar"


class Inconclusive(Exception):
    pass


def go_env(extra=None):
    env = dict(os.environ)
    env["GOFLAGS"] = "-mod=mod"
    env["GOPROXY"] = "off"
    env.pop("GOSUMDB", None)
    env["GOTOOLCHAIN"] = "auto"
    env.pop("GOEXPERIMENT", None)
    if extra:
        env.update(extra)
    return env


class Ctx:
    def __init__(self, prop, tier, seed):
        self.prop = prop
        self.tier = tier
        self.seed = seed
        self.t0 = time.time()
        self.work = os.path.join(VERIF, ".work", prop)
        shutil.rmtree(self.work, ignore_errors=True)
        os.makedirs(self.work, exist_ok=True)
        self.replays = os.path.join(VERIF, "replays", prop)
        self.violations = []      # unlisted, reproduced
        self.known_hits = {}      # key -> what
        self.tlc_states = 0
        self.tlc_distinct = 0
        self.tlc_runs = []
        self.cov = {}
        self.assumptions = []
        self.notes = []

    # ------------------------------------------------------------------ util
    @property
    def quick(self):
        return self.tier == "quick"

    def log(self, *a):
        print("[%s %6.1fs]" % (self.prop, time.time() - self.t0), *a, flush=True)

    def path(self, *p):
        return os.path.join(self.work, *p)

    # ------------------------------------------------------------------- TLC
    def tlc(self, module, cfg, workers=8, timeout=900, simulate=None, depth=None,
            coverage=False, extra_files=(), deadlock=False, expect_violation=False,
            java_opts=None, seed=None, heap="6g", allow_fail=False):
        """Run TLC on specs/<module>.tla with specs/<cfg> in a scratch copy.

        Returns dict(out=str, generated=int, distinct=int, vectors=[...],
        violated=str|None, ok=bool).
        """
        name = "%s_%s_%d" % (module, os.path.basename(cfg).replace(".cfg", ""), len(self.tlc_runs))
        d = self.path("tlc_" + name)
        shutil.rmtree(d, ignore_errors=True)
        os.makedirs(d)
        for f in os.listdir(SPECS):
            if f.endswith(".tla"):
                shutil.copy(os.path.join(SPECS, f), d)
        shutil.copy(os.path.join(SPECS, cfg), os.path.join(d, "run.cfg"))
        for src, dst in extra_files:
            shutil.copy(src, os.path.join(d, dst))
        # TLC creates an (empty) tlc-* directory in java.io.tmpdir per run: keep it
        # inside the scratch directory of the check instead of littering /tmp.
        os.makedirs(os.path.join(d, "jtmp"), exist_ok=True)
        cmd = ["java", "-Djava.io.tmpdir=" + os.path.join(d, "jtmp"), "-XX:+UseParallelGC", "-Xss512m", "-Xmx" + heap]
        if java_opts:
            cmd += java_opts
        cmd += ["-cp", TLA_JAR, "tlc2.TLC", "-metadir", os.path.join(d, "meta"),
                "-workers", str(workers), "-config", "run.cfg"]
        if not deadlock:
            cmd += ["-deadlock"]
        if coverage:
            cmd += ["-coverage", "1"]
        if simulate:
            cmd += ["-simulate", simulate]
            if depth:
                cmd += ["-depth", str(depth)]
            cmd += ["-seed", str(self.seed if seed is None else seed)]
        cmd += [module + ".tla"]
        t = time.time()
        outp = os.path.join(d, "tlc.out")
        try:
            with open(outp, "w") as fh:
                p = subprocess.run(cmd, cwd=d, stdout=fh, stderr=subprocess.STDOUT, timeout=timeout)
        except subprocess.TimeoutExpired:
            if simulate:
                pass
            else:
                raise Inconclusive("TLC timeout on %s/%s" % (module, cfg))
            p = None
        out = open(outp, errors="replace").read()
        res = {"out": out, "dir": d, "wall": time.time() - t, "module": module, "cfg": cfg}
        m = re.findall(r"(\d+) states generated, (\d+) distinct states found", out)
        if m:
            res["generated"], res["distinct"] = int(m[-1][0]), int(m[-1][1])
        else:
            res["generated"], res["distinct"] = 0, 0
        res["vectors"] = parse_vectors(out)
        viol = None
        mm = re.search(r"Invariant (\S+) is violated", out)
        if mm:
            viol = mm.group(1)
        elif "is violated" in out or "Temporal properties were violated" in out:
            viol = "property"
        elif re.search(r"Deadlock reached", out):
            viol = "deadlock"
        elif "Assumption" in out and "is false" in out:
            viol = "assumption"
        res["violated"] = viol
        rc = p.returncode if p is not None else 0
        res["rc"] = rc
        err = ("Error:" in out) and viol is None
        res["ok"] = (rc == 0 and viol is None and not err)
        self.tlc_states += res["generated"]
        self.tlc_distinct += res["distinct"]
        self.tlc_runs.append({"module": module, "cfg": cfg, "generated": res["generated"],
                              "distinct": res["distinct"], "wall_s": round(res["wall"], 1),
                              "violated": viol})
        self.log("TLC %s/%s: %d generated, %d distinct, %d vectors, %.1fs%s" % (
            module, cfg, res["generated"], res["distinct"], len(res["vectors"]), res["wall"],
            (" VIOLATED " + str(viol)) if viol else ""))
        if not res["ok"] and not expect_violation and not allow_fail:
            tail = "\n".join(out.splitlines()[-40:])
            raise Inconclusive("TLC failed on %s/%s (rc=%s, violated=%s):\n%s" % (module, cfg, rc, viol, tail))
        if coverage:
            res["zero_cov"] = re.findall(r"^\s*(\|*\s*line \d+, col \d+ to line \d+, col \d+ of module \S+): 0$", out, re.M)
        return res

    def sany(self, module):
        p = subprocess.run(["java", "-cp", TLA_JAR, "tla2sany.SANY", module + ".tla"], cwd=SPECS,
                           capture_output=True, text=True, timeout=120)
        if p.returncode != 0 or "error" in p.stdout.lower().replace("errors: 0", ""):
            if "Semantic processing" not in p.stdout or "*** Errors" in p.stdout or "Abort" in p.stdout:
                raise Inconclusive("SANY failed for %s:\n%s" % (module, p.stdout[-2000:]))

    # -------------------------------------------------------------------- Go
    def go_test(self, pkg, files, run, env=None, race=False, tags=None, timeout=1500,
                synctest=False, args=(), go_timeout="20m", extra_overlay=None):
        """Compile the overlay harness into /repo/<pkg> and run the selected test.

        files: harness file names under harness/<pkg basename path>/.
        Returns (rc, output).  Build failure -> Inconclusive.
        """
        overlay = {}
        hdir = os.path.join(HARNESS, pkg)
        for f in files:
            overlay[os.path.join(REPO, pkg, f)] = os.path.join(hdir, f)
        if extra_overlay:
            overlay.update(extra_overlay)
        ov = self.path("overlay_%s.json" % hashlib.md5((pkg + run).encode()).hexdigest()[:8])
        with open(ov, "w") as fh:
            json.dump({"Replace": overlay}, fh)
        e = go_env(env)
        e["VERIF_SEED"] = str(self.seed)
        e["VERIF_TIER"] = self.tier
        if synctest:
            e["GOEXPERIMENT"] = "synctest"
        cmd = ["go", "test", "-overlay", ov, "-vet=off", "-count=1", "-run", run,
               "-timeout", go_timeout]
        if race:
            cmd.append("-race")
        if tags:
            cmd += ["-tags", tags]
        cmd += ["./" + pkg]
        if args:
            cmd += ["-args"] + list(args)
        t = time.time()
        try:
            p = subprocess.run(cmd, cwd=REPO, env=e, capture_output=True, text=True, timeout=timeout)
        except subprocess.TimeoutExpired:
            raise Inconclusive("go test timeout in %s (%s)" % (pkg, run))
        out = p.stdout + p.stderr
        self.log("go test %s -run %s: rc=%d %.1fs" % (pkg, run, p.returncode, time.time() - t))
        if "[build failed]" in out or "[setup failed]" in out or re.search(r"^# github.com/AdguardTeam", out, re.M) and "FAIL" in out and "--- FAIL" not in out and "panic" not in out:
            raise Inconclusive("harness build failed in %s:\n%s" % (pkg, out[-3000:]))
        if "no tests to run" in out:
            raise Inconclusive("harness test %s not found in %s" % (run, pkg))
        return p.returncode, out

    # ------------------------------------------------------------- reporting
    def disagreement(self, key, record, what=None):
        """Register a reproduced disagreement.  key is the narrow classification
        used to match KNOWN_FINDINGS.jsonl; None means unclassified."""
        kf = known_findings().get((self.prop, key)) if key else None
        if kf and kf.get("status") == "open":
            if key not in self.known_hits:
                self.known_hits[key] = kf.get("what", what or key)
            return "known"
        # A broken tree can disagree on hundreds of thousands of vectors: only
        # the first 200 are written out as replay files (all are counted).
        self.n_disagreements = getattr(self, "n_disagreements", 0) + 1
        if self.n_disagreements > 200:
            return "violation"
        os.makedirs(self.replays, exist_ok=True)
        blob = json.dumps(record, sort_keys=True, default=str)
        h = hashlib.sha1(blob.encode()).hexdigest()[:12]
        p = os.path.join(self.replays, "%s.json" % h)
        with open(p, "w") as fh:
            json.dump({"property": self.prop, "key": key, "what": what, "record": record}, fh, indent=1, default=str)
        if len(self.violations) < 50:
            self.violations.append((key, p, what))
        return "violation"

    def finish(self, level, coverage, assumptions=None, vacuous=None):
        """Write evidence, print verdict lines, return exit code."""
        if vacuous:
            raise Inconclusive("vacuous: " + vacuous)
        cov = dict(coverage)
        cov.setdefault("states", self.tlc_distinct)
        cov.setdefault("transitions", self.tlc_states)
        cov["tlc_runs"] = self.tlc_runs
        cov["known_findings_hit"] = sorted(self.known_hits)
        ev = {
            "property_id": self.prop, "tier": self.tier, "seed": self.seed, "level": level,
            "coverage": cov, "assumptions": (assumptions or []) + self.assumptions,
            "wall_s": round(time.time() - self.t0, 2), "violations": len(self.violations),
        }
        os.makedirs(os.path.join(VERIF, "evidence"), exist_ok=True)
        with open(os.path.join(VERIF, "evidence", self.prop + ".json"), "w") as fh:
            json.dump(ev, fh, indent=1, default=str)
        for k, w in sorted(self.known_hits.items()):
            print("KNOWN-FINDING: property=%s %s: %s" % (self.prop, k, w))
        if self.violations:
            seen = set()
            for key, p, what in self.violations:
                if (key, what) in seen:
                    continue
                seen.add((key, what))
                if len(seen) > 8:
                    print("... %d further violations not shown" % (len(self.violations) - 8))
                    break
                print("VIOLATION property=%s replay=%s  # %s %s" % (self.prop, p, key or "", what or ""))
            return 1
        self.log("OK (%s, seed %d, %.1fs)" % (self.tier, self.seed, time.time() - self.t0))
        return 0


_kf = None


def known_findings():
    global _kf
    if _kf is None:
        _kf = {}
        import glob
        files = [os.path.join(VERIF, "KNOWN_FINDINGS.jsonl")] + sorted(glob.glob(os.path.join(VERIF, "known_findings", "*.jsonl")))
        for p in files:
            if not os.path.exists(p):
                continue
            for line in open(p):
                line = line.strip()
                if not line or line.startswith("#"):
                    continue
                r = json.loads(line)
                _kf[(r["property"], r["key"])] = r
    return _kf


_vec_re = re.compile(r'^<<"@@V", "(.*)">>$')


def parse_vectors(out):
    vs = []
    for line in out.splitlines():
        m = _vec_re.match(line)
        if m:
            s = m.group(1)
            try:
                vs.append(json.loads(json.loads('"' + s + '"')))
            except Exception:
                s2 = s.replace('\\"', '"').replace("\\\\", "\\")
                vs.append(json.loads(s2))
    return vs


def write_ndjson(path, rows):
    with open(path, "w") as fh:
        for r in rows:
            fh.write(json.dumps(r, sort_keys=True) + "\n")


def read_ndjson(path):
    rows = []
    if not os.path.exists(path):
        return rows
    for line in open(path, errors="replace"):
        line = line.strip()
        if line:
            rows.append(json.loads(line))
    return rows


def main(argv):
    if len(argv) < 3:
        print("usage: check <Cxx> <quick|thorough> | check <Cxx> --replay <path>")
        return 2
    prop = argv[1]
    tier = argv[2]
    replay = None
    if tier == "--replay":
        replay = argv[3]
        tier = "quick"
    tier = os.environ.get("VERIF_TIER_OVERRIDE", tier)
    if tier not in ("quick", "thorough"):
        print("bad tier", tier)
        return 2
    try:
        seed = int(os.environ.get("VERIF_SEED", "1"))
    except ValueError:
        seed = 1
    sys.path.insert(0, os.path.join(VERIF, "checks"))
    ctx = Ctx(prop, tier, seed)
    try:
        mod = __import__(prop.lower())
        if replay:
            rc = mod.replay(ctx, replay)
        else:
            rc = mod.run(ctx)
    except Inconclusive as e:
        if ctx.violations:
            # A reproduced violation takes precedence over a later inconclusive
            # step: report what was found, with whatever coverage exists.
            print("NOTE property=%s: a later step was inconclusive (%s)" % (prop, str(e).splitlines()[0][:300]))
            try:
                rc = ctx.finish("model_checking", {"traces_validated_against_impl": 0, "evaluations": 1, "distinct_nontrivial": 2,
                                                   "rule": "run ended early: reproduced violations reported, a later step was inconclusive",
                                                   "samples": [str(v[2])[:300] for v in ctx.violations[:3]], "exhaustive": False})
            except Exception:
                for key, p_, what in ctx.violations[:8]:
                    print("VIOLATION property=%s replay=%s  # %s %s" % (prop, p_, key or "", what or ""))
                rc = 1
        else:
            print("INCONCLUSIVE property=%s: %s" % (prop, e))
            rc = 2
    except subprocess.TimeoutExpired as e:
        print("INCONCLUSIVE property=%s: timeout %s" % (prop, e))
        rc = 2
    finally:
        if not os.environ.get("VERIF_KEEP"):
            shutil.rmtree(ctx.work, ignore_errors=True)
    return rc
