CONSTANT Design = "asbuilt"
SPECIFICATION Spec
INVARIANTS NoIgnoredLogged
