package home

// C13, loader half: "... produces a document stamped with the current schema
// version, which the current configuration loader accepts whenever the input
// was valid under its own schema".  The repository's golden inputs of package
// configmigrate are the valid documents; each is written to a scratch
// AdGuardHome.yaml and loaded through the real parseConfig (upgrade, write
// back, yaml.Unmarshal into configuration, validateConfig).

import (
	"bytes"
	"encoding/json"
	"fmt"
	"os"
	"path/filepath"
	"strconv"
	"testing"

	"github.com/AdguardTeam/AdGuardHome/internal/configmigrate"
	yaml "gopkg.in/yaml.v3"
)

func zzC13LoaderGolden(v int) (body []byte, err error) {
	last := int(configmigrate.LastSchemaVersion)
	dir, file := v+1, "input.yml"
	switch {
	case v == last:
		dir, file = last, "output.yml"
	case v == 27:
		dir = 29
	}

	name := filepath.Join("..", "configmigrate", "testdata", "TestMigrateConfig_Migrate", "v"+strconv.Itoa(dir), file)
	body, err = os.ReadFile(name)
	if err != nil {
		return nil, err
	}

	body = bytes.ReplaceAll(body, []byte("USERFILTERSPATH"), []byte("/zzverif/data/userfilters/*"))
	body = bytes.ReplaceAll(body, []byte("FILEPATH"), []byte("/path/to/file.txt"))
	if v == 27 {
		body = bytes.ReplaceAll(body, []byte("schema_version: 28"), []byte("schema_version: 27"))
	}

	return body, nil
}

func zzC13LoadOne(t *testing.T, v int, defaults []byte) (what string) {
	body, err := zzC13LoaderGolden(v)
	if err != nil {
		t.Fatalf("golden %d: %v", v, err)
	}

	return zzC13LoadBody(t, v, body, defaults, true)
}

// zzC13LoadBody loads one document of schema v through the real parseConfig.
// golden enables the checks that only hold for the repository's golden files.
func zzC13LoadBody(t *testing.T, v int, body, defaults []byte, golden bool) (what string) {
	var err error

	dir := t.TempDir()
	confPath := filepath.Join(dir, "AdGuardHome.yaml")
	if err = os.WriteFile(confPath, body, 0o600); err != nil {
		t.Fatal(err)
	}

	oldConf, oldCtx := config, globalContext
	defer func() { config, globalContext = oldConf, oldCtx }()

	config = &configuration{}
	if err = yaml.Unmarshal(defaults, config); err != nil {
		t.Fatalf("restoring defaults: %v", err)
	}
	config.fileData = nil
	globalContext.workDir = dir
	globalContext.confFilePath = confPath

	defer func() {
		if r := recover(); r != nil {
			what = fmt.Sprintf("loader panics: %v", r)
		}
	}()

	if err = parseConfig(); err != nil {
		return "parseConfig: " + err.Error()
	}

	last := configmigrate.LastSchemaVersion
	switch {
	case config.SchemaVersion != last:
		return fmt.Sprintf("loaded schema_version %d", config.SchemaVersion)
	case !golden:
		// Nothing more is known about the values.
	case config.HTTPConfig.Address.Port() != 3000:
		return fmt.Sprintf("loaded http.address %s, the golden documents bind port 3000", config.HTTPConfig.Address)
	case len(config.Users) != 1 || config.Users[0].Name != "testuser":
		return fmt.Sprintf("loaded %d users", len(config.Users))
	}

	onDisk, err := os.ReadFile(confPath)
	if err != nil {
		return "reading back: " + err.Error()
	}
	stamp := struct {
		V uint `yaml:"schema_version"`
	}{}
	if err = yaml.Unmarshal(onDisk, &stamp); err != nil || stamp.V != last {
		return fmt.Sprintf("file on disk stamped %d (%v)", stamp.V, err)
	}
	if uint(v) == last && !bytes.Equal(onDisk, body) {
		return "a current file was rewritten"
	}

	return ""
}

func TestZZVerifC13Loader(t *testing.T) {
	w := zzNewWriter(t, "VERIF_OUT")
	defer w.close()

	defaults, err := yaml.Marshal(config)
	if err != nil {
		t.Fatal(err)
	}

	for v := 0; v <= int(configmigrate.LastSchemaVersion); v++ {
		what := zzC13LoadOne(t, v, defaults)
		if what != "" {
			// Reproduce once more before reporting.
			if again := zzC13LoadOne(t, v, defaults); again == what {
				w.put(map[string]any{"kind": "bad", "v": v, "what": what})

				continue
			}
		}
		w.put(map[string]any{"kind": "pass", "v": v})
	}

	// Valid documents of the record-list families, rendered by the harness
	// of package configmigrate.
	if os.Getenv("VERIF_IN") == "" {
		return
	}

	type doc struct {
		Devs any    `json:"devs"`
		Body string `json:"body"`
		ID   int    `json:"id"`
		V    int    `json:"v"`
	}
	zzReadNDJSON(t, "VERIF_IN", func(line []byte) {
		d := &doc{}
		if err = json.Unmarshal(line, d); err != nil {
			t.Fatalf("bad document line: %v", err)
		}

		what := zzC13LoadBody(t, d.V, []byte(d.Body), defaults, false)
		if what != "" && zzC13LoadBody(t, d.V, []byte(d.Body), defaults, false) == what {
			w.put(map[string]any{"kind": "bad", "family": true, "id": d.ID, "v": d.V, "devs": d.Devs,
				"what": what, "input": d.Body})

			return
		}
		w.put(map[string]any{"kind": "pass", "family": true, "id": d.ID, "v": d.V})
	})
}
