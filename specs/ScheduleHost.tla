---------------------------- MODULE ScheduleHost ----------------------------
(***************************************************************************)
(* Direction A of C18 on the host's real time zones.                       *)
(*                                                                         *)
(* cases.ndjson is written by the orchestrator (checks/c18.py) from the    *)
(* integer offset tables that the Go harness extracted from the host's tz  *)
(* database (TestZZVerifC18Scan): one line per (zone, focus instant), the  *)
(* table restricted to the window around the focus, plus seeded random     *)
(* schedules.  Everything else -- shapes, probe instants, Off, wall clock, *)
(* Contains, the invariants -- is Schedule.tla / ScheduleCore.tla          *)
(* unchanged, now in real units (tick = 1 s, sub-tick = 1 ns).  TLC        *)
(* computes every expected verdict; the Go side only replays.              *)
(***************************************************************************)
EXTENDS Schedule

HostCases == ndJsonDeserialize("cases.ndjson")      \* a sequence, one case per line
=============================================================================
