----------------------------- MODULE TLSSettings -----------------------------
(***************************************************************************)
(* G08 (B) -- the encryption settings of the admin API.                    *)
(*                                                                         *)
(*   GET  /control/tls/status                                              *)
(*   POST /control/tls/validate                                            *)
(*   POST /control/tls/configure                                           *)
(*                                                                         *)
(* Written from openapi/openapi.yaml (schema TlsConfig: the meaning of     *)
(* valid_cert / valid_chain / valid_key / valid_pair / warning_validation /*)
(* private_key_saved / serve_plain_dns; responses 200 "TLS configuration   *)
(* and its status", 400 "Invalid configuration or unavailable port", 500   *)
(* "Error occurred while applying configuration"), AGHTechDoc.md ("TLS":   *)
(* certificate_path "if set, certificate_chain must be empty", the example *)
(* status of a self-signed certificate in force: valid_chain false with a  *)
(* warning), CHANGELOG.md ("Validation process for the DNS-over-TLS,       *)
(* DNS-over-QUIC, and HTTPS ports", "The TLS private key previously saved  *)
(* as a string isn't shown in API responses anymore", "The TLS             *)
(* initialization errors preventing AdGuard Home from starting ...         *)
(* Instead, AdGuard Home disables encryption"), and the comments of tls.go *)
(* ("Let self-signed certs through", "plain DNS is required in case        *)
(* encryption protocols are disabled").                                    *)
(*                                                                         *)
(* Certificates and keys are abstract: an id names a leaf with known       *)
(* properties (Parses, Trusted, TimeOK, Covers); the key with the same id  *)
(* is the matching one.  A request says where the material comes from      *)
(* (inline base64 / file path / both / undecodable base64 / "the key you   *)
(* have saved").  The system state is ONE record st = [cur, disk, serving];*)
(* Out(s, lab) is the SET of admissible outcomes [code, st] of a label,    *)
(* Fields(...) the admissible values of the status fields of a reply.      *)
(* Where the documentation is silent the sets have several members:        *)
(*   - a complete, matching pair whose chain fails for its dates or its    *)
(*     names may be applied (with the warning) or refused; one that fails  *)
(*     only because its issuer is unknown IS applied (documented);         *)
(*   - disabled settings that carry half a pair may be stored or refused;  *)
(*   - when the certificate does not parse, evaluation may stop before the *)
(*     key is looked at (valid_key free);                                  *)
(*   - the status fields of settings that are not enabled are free.        *)
(* What is NOT free: anything refused leaves st as it was; enabled         *)
(* settings are applied only with a complete valid pair; the result always *)
(* serves DNS somehow (plain, or encrypted with a DoT/DoQ port).           *)
(***************************************************************************)
EXTENDS Naturals, Sequences, FiniteSets, TLC, Json

CONSTANT DoEmit

VARIABLE st
vars == <<st>>

\* ------------------------------------------------------------- material
CertIds == {"A", "C", "B", "X", "Y", "N"}   \* "G": no PEM at all; "M": file missing
Parses(c)    == c \in CertIds
Trusted(c)   == c # "B"                      \* B is self-signed
TimeOK(c)    == c \notin {"X", "Y"}          \* X expired, Y not yet valid
Covers(c, n) == n = "" \/ (IF c = "N" THEN n = "other" ELSE n = "good")
ChainOK(c, n) == Parses(c) /\ Trusted(c) /\ TimeOK(c) /\ Covers(c, n)
KeyParses(k) == k \in CertIds

Has(x) == x # "none"
Mismatch(c, k) == Has(c) /\ Has(k) /\ Parses(c) /\ KeyParses(k) /\ c # k
MClass(c, k) ==
    IF (Has(c) /\ ~Parses(c)) \/ (Has(k) /\ ~KeyParses(k)) \/ Mismatch(c, k) THEN "invalid"
    ELSE IF Has(c) /\ Has(k) THEN "complete"
    ELSE IF Has(c) \/ Has(k) THEN "partial"
    ELSE "empty"

\* The status fields of a reply that evaluated (c, k) for server name n: for
\* each field the set of admissible values.
Fields(c, k, n) ==
    LET stop == Has(c) /\ ~Parses(c) IN
    [valid_cert  |-> {Has(c) /\ Parses(c)},
     valid_chain |-> {Has(c) /\ ChainOK(c, n)},
     valid_key   |-> IF stop THEN BOOLEAN ELSE {Has(k) /\ KeyParses(k)},
     valid_pair  |-> {Has(c) /\ Has(k) /\ Parses(c) /\ KeyParses(k) /\ c = k},
     warning     |-> {(Has(c) /\ ~ChainOK(c, n)) \/ (Has(k) /\ ~KeyParses(k)) \/ Mismatch(c, k)},
     leaf        |-> {IF Has(c) /\ Parses(c) THEN c ELSE "none"},
     \* "status never returns the private key" -- nor does any other reply
     key_returned |-> {FALSE}]
FreeFields == [valid_cert |-> BOOLEAN, valid_chain |-> BOOLEAN, valid_key |-> BOOLEAN,
               valid_pair |-> BOOLEAN, warning |-> BOOLEAN, leaf |-> CertIds \cup {"none"},
               key_returned |-> {FALSE}]
NoFields == [none |-> TRUE]

\* ------------------------------------------------------------- settings
\* Fixed surroundings of the arena: the web interface listens on w0, plain DNS
\* on d1 (both held by the server itself), pb is taken by a foreign process.
WebPort == "w0"
DnsPort == "d1"
Busy    == {"pb"}

Empty == [enabled |-> FALSE, name |-> "", https |-> "zero", dot |-> "zero", doq |-> "zero",
          csrc |-> "none", cert |-> "none", ksrc |-> "none", key |-> "none", plain |-> TRUE]

\* The key a request means: its own, or the one saved inline before.
KeyOf(r, cur) == IF r.ksrc = "saved"
                 THEN (IF cur.ksrc = "inline" THEN [ksrc |-> "inline", key |-> cur.key] ELSE [ksrc |-> "none", key |-> "none"])
                 ELSE IF r.ksrc = "none" THEN [ksrc |-> "none", key |-> "none"]
                 ELSE [ksrc |-> r.ksrc, key |-> r.key]
CertOf(r) == IF r.csrc = "none" THEN "none" ELSE r.cert

Asked(r, cur) ==
    [enabled |-> r.enabled, name |-> r.name, https |-> r.https, dot |-> r.dot, doq |-> r.doq,
     csrc |-> r.csrc, cert |-> CertOf(r), ksrc |-> KeyOf(r, cur).ksrc, key |-> KeyOf(r, cur).key,
     plain |-> IF r.plain = "null" THEN cur.plain ELSE r.plain = "true"]

\* What the HTTPS server serves for settings in force.
Serving(x) == IF x.enabled /\ x.https # "zero" /\ MClass(x.cert, x.key) = "complete"
              THEN [on |-> TRUE, cert |-> x.cert] ELSE [on |-> FALSE, cert |-> "none"]

\* DNS must be served somehow.
ServesDNS(x) == x.plain \/ (x.enabled /\ (x.dot # "zero" \/ x.doq # "zero"))

\* ------------------------------------------------------------- requests
\* "plain DNS is required in case encryption protocols are disabled": what is
\* asked for must leave DNS served somehow.  validate has to say so for
\* disabled settings (the documented message); for enabled settings without a
\* DoT / DoQ port it may (the documentation names the rule only for the
\* disabled case); configure refuses both.
NoDNSLeft(r, s) == /\ r.json /\ r.csrc \notin {"both", "badb64"} /\ r.ksrc \notin {"both", "badb64"}
                   /\ ~ServesDNS(Asked(r, s.cur))

\* Requests that are refused with 400 before any material is looked at.
RefusedBase(r, s) ==
    \/ ~r.json
    \/ r.csrc \in {"both", "badb64"} \/ r.ksrc \in {"both", "badb64"}
    \/ /\ r.enabled
       /\ \/ r.https # "zero" /\ r.https \in {WebPort, DnsPort}
          \/ r.dot # "zero" /\ r.dot \in {WebPort, DnsPort}
          \/ r.https # "zero" /\ r.https = r.dot
          \/ r.doq # "zero" /\ r.doq = DnsPort
          \* a port that the server does not hold itself must be free (a port
          \* taken by a foreign process is never held by the server, whatever
          \* settings were stored while encryption was disabled)
          \/ r.https \in Busy \/ r.dot \in Busy \/ r.doq \in Busy

Refused400(r, s) == RefusedBase(r, s) \/ NoDNSLeft(r, s)

\* A port that is asked for in a new role while another listener of the server
\* itself still holds it (HTTPS moved onto the current DoT port ...): the
\* request may be refused as "port not available" or processed -- the
\* documentation only says that an unavailable port is a 400.
OwnPorts(s) == IF s.disk.enabled THEN {s.disk.https, s.disk.dot, s.disk.doq} \ {"zero"} ELSE {}
MayRefuse400(r, s) ==
    /\ r.json /\ r.enabled
    /\ \/ r.https # s.disk.https /\ r.https \in OwnPorts(s)
       \/ r.dot # s.disk.dot /\ r.dot \in OwnPorts(s)
       \/ r.doq # s.disk.doq /\ r.doq \in OwnPorts(s)

\* May / must the evaluated settings x be put in force?
Applies(x) ==
    LET m == MClass(x.cert, x.key) IN
    CASE m = "invalid"  -> {FALSE}
      [] m = "complete" -> IF ChainOK(x.cert, x.name) \/ (TimeOK(x.cert) /\ Covers(x.cert, x.name))
                           THEN {TRUE} ELSE {TRUE, FALSE}
      [] m = "partial"  -> IF x.enabled THEN {FALSE} ELSE {TRUE, FALSE}
      [] m = "empty"    -> IF x.enabled THEN {FALSE} ELSE {TRUE}

InForce(x) == [cur |-> x, disk |-> x, serving |-> Serving(x)]

Configure(s, r) ==
    IF Refused400(r, s) THEN {[code |-> 400, st |-> s]}
    ELSE (IF MayRefuse400(r, s) THEN {[code |-> 400, st |-> s]} ELSE {}) \cup
         LET x == Asked(r, s.cur)
             m == MClass(x.cert, x.key) IN
         \* enabling without a usable pair: refused, however it is said
         IF x.enabled /\ m \in {"partial", "empty"} THEN {[code |-> c, st |-> s] : c \in {200, 400, 422, 500}}
         ELSE {[code |-> 200, st |-> IF a THEN InForce(x) ELSE s] : a \in Applies(x)}

Validate(s, r) == IF RefusedBase(r, s) \/ (NoDNSLeft(r, s) /\ ~r.enabled)
                  THEN {[code |-> 400, st |-> s]}
                  ELSE {[code |-> 200, st |-> s]}
                       \cup (IF MayRefuse400(r, s) \/ NoDNSLeft(r, s) THEN {[code |-> 400, st |-> s]} ELSE {})

\* The status fields a validate / configure reply (code 200) carries.
ReplyFields(s, r) == LET x == Asked(r, s.cur) IN Fields(x.cert, x.key, x.name)
StatusFields(s)   == IF s.cur.enabled THEN Fields(s.cur.cert, s.cur.key, s.cur.name) ELSE FreeFields

Restarted(s) == [cur |-> s.disk, disk |-> s.disk, serving |-> Serving(s.disk)]

\* ------------------------------------------------------ request universe
B0 == [json |-> TRUE, enabled |-> TRUE, name |-> "good", https |-> "p1", dot |-> "zero", doq |-> "zero",
       csrc |-> "inline", cert |-> "A", ksrc |-> "inline", key |-> "A", plain |-> "null"]
NoMat == [B0 EXCEPT !.csrc = "none", !.cert = "none", !.ksrc = "none", !.key = "none"]

Shapes ==
    [okA         |-> B0,
     okC         |-> [B0 EXCEPT !.cert = "C", !.key = "C"],
     okApath     |-> [B0 EXCEPT !.csrc = "path", !.ksrc = "path"],
     okAp2       |-> [B0 EXCEPT !.https = "p2"],
     okAdot      |-> [B0 EXCEPT !.dot = "p2"],
     okAnoName   |-> [B0 EXCEPT !.name = ""],
     plainTrue   |-> [B0 EXCEPT !.plain = "true"],
     plainOffDot |-> [B0 EXCEPT !.dot = "p2", !.plain = "false"],
     selfB       |-> [B0 EXCEPT !.cert = "B", !.key = "B"],
     selfBnoName |-> [B0 EXCEPT !.cert = "B", !.key = "B", !.name = ""],
     expired     |-> [B0 EXCEPT !.cert = "X", !.key = "X"],
     notYet      |-> [B0 EXCEPT !.cert = "Y", !.key = "Y"],
     nameOther   |-> [B0 EXCEPT !.name = "other"],
     certN       |-> [B0 EXCEPT !.cert = "N", !.key = "N"],
     certNother  |-> [B0 EXCEPT !.cert = "N", !.key = "N", !.name = "other"],
     mismatch    |-> [B0 EXCEPT !.key = "C"],
     garbageCert |-> [B0 EXCEPT !.cert = "G"],
     garbageKey  |-> [B0 EXCEPT !.key = "G"],
     garbageKeyPath |-> [B0 EXCEPT !.csrc = "path", !.ksrc = "path", !.key = "G"],
     missingCert |-> [B0 EXCEPT !.csrc = "path", !.cert = "M", !.ksrc = "path"],
     bothCert    |-> [B0 EXCEPT !.csrc = "both"],
     bothKey     |-> [B0 EXCEPT !.ksrc = "both"],
     badB64Cert  |-> [B0 EXCEPT !.csrc = "badb64"],
     badB64Key   |-> [B0 EXCEPT !.ksrc = "badb64"],
     savedKeyA   |-> [B0 EXCEPT !.ksrc = "saved", !.key = "none"],
     savedKeyC   |-> [B0 EXCEPT !.cert = "C", !.ksrc = "saved", !.key = "none"],
     noMaterial  |-> NoMat,
     certOnly    |-> [B0 EXCEPT !.ksrc = "none", !.key = "none"],
     keyOnly     |-> [B0 EXCEPT !.csrc = "none", !.cert = "none"],
     httpsEqDot  |-> [B0 EXCEPT !.dot = "p1"],
     httpsEqWeb  |-> [B0 EXCEPT !.https = "w0"],
     httpsEqDns  |-> [B0 EXCEPT !.https = "d1"],
     dotEqDns    |-> [B0 EXCEPT !.dot = "d1"],
     doqEqDns    |-> [B0 EXCEPT !.doq = "d1"],
     httpsBusy   |-> [B0 EXCEPT !.https = "pb"],
     dotBusy     |-> [B0 EXCEPT !.dot = "pb"],
     doqBusy     |-> [B0 EXCEPT !.doq = "pb"],
     disableKeep |-> [B0 EXCEPT !.enabled = FALSE],
     disableKeepSaved |-> [B0 EXCEPT !.enabled = FALSE, !.ksrc = "saved", !.key = "none"],
     disableKeepPath  |-> [B0 EXCEPT !.enabled = FALSE, !.csrc = "path", !.ksrc = "path"],
     disableBare |-> [NoMat EXCEPT !.enabled = FALSE, !.name = "", !.https = "zero"],
     disablePlainOff |-> [NoMat EXCEPT !.enabled = FALSE, !.name = "", !.https = "zero", !.plain = "false"],
     disableMismatch |-> [B0 EXCEPT !.enabled = FALSE, !.key = "C"],
     disableCertOnly |-> [B0 EXCEPT !.enabled = FALSE, !.ksrc = "none", !.key = "none"],
     \* ports are not looked at while encryption is disabled ...
     disableBusyHttps |-> [B0 EXCEPT !.enabled = FALSE, !.https = "pb"],
     disableBusyDoq   |-> [B0 EXCEPT !.enabled = FALSE, !.doq = "pb"],
     malformed   |-> [B0 EXCEPT !.json = FALSE]]

ShapeNames == DOMAIN Shapes

\* ---------------------------------------------------------------- labels
Labels(s) == {[act |-> "status"], [act |-> "restart"]}
             \cup {[act |-> a, shape |-> n] : a \in {"validate", "configure"}, n \in ShapeNames}

Req(lab) == Shapes[lab.shape]

\* Outcomes and reply fields of a call with an arbitrary request record (the
\* trace specification feeds requests from a larger universe).
OutR(s, act, r) ==
    CASE act = "status"    -> {[code |-> 200, st |-> s]}
      [] act = "restart"   -> {[code |-> 0, st |-> Restarted(s)]}
      [] act = "validate"  -> Validate(s, r)
      [] act = "configure" -> Configure(s, r)

FieldsR(s, act, r) ==
    CASE act = "status"  -> StatusFields(s)
      [] act = "restart" -> NoFields
      [] OTHER -> IF Refused400(r, s) THEN NoFields
                  ELSE LET x == Asked(r, s.cur) IN
                       \* a configure that refuses to enable settings without a
                       \* pair may say why in warning_validation
                       IF act = "configure" /\ x.enabled /\ MClass(x.cert, x.key) \in {"partial", "empty"}
                       THEN [ReplyFields(s, r) EXCEPT !.warning = BOOLEAN]
                       ELSE ReplyFields(s, r)

ReqOf(lab) == IF lab.act \in {"validate", "configure"} THEN Req(lab) ELSE B0
Out(s, lab)      == OutR(s, lab.act, ReqOf(lab))
FieldsOf(s, lab) == FieldsR(s, lab.act, ReqOf(lab))

\* ------------------------------------------------------------- behaviour
Init0 == InForce(Empty)
Init == st = Init0

Obs(s) == [cur |-> s.cur, disk |-> s.disk, serving |-> s.serving, running |-> TRUE]

Vector(s, lab) ==
    [m |-> "tls", src |-> Obs(s), act |-> lab.act,
     shape |-> IF lab.act \in {"validate", "configure"} THEN lab.shape ELSE "",
     args |-> IF lab.act \in {"validate", "configure"} THEN Req(lab) ELSE [none |-> TRUE],
     \* what a 200 reply of validate / configure echoes and status reports
     saved |-> lab.act = "status" /\ s.cur.ksrc = "inline",
     fields |-> FieldsOf(s, lab),
     outs |-> {[code |-> o.code, dst |-> Obs(o.st)] : o \in Out(s, lab)}]

EmitAll == /\ \A lab \in Labels(st) : PrintT(<<"@@V", ToJson(Vector(st, lab))>>)
           /\ (st = Init0 => PrintT(<<"@@V", ToJson([m |-> "init", src |-> Obs(Init0)])>>))
           /\ UNCHANGED vars

Step == \E lab \in Labels(st) : \E o \in Out(st, lab) : st' = o.st

Next == (DoEmit /\ EmitAll) \/ Step

Spec == Init /\ [][Next]_vars

\* ------------------------------------------------------------ invariants
TypeOK == /\ st.cur.enabled \in BOOLEAN /\ st.cur.plain \in BOOLEAN
          /\ st.cur.cert \in CertIds \cup {"none"} /\ st.cur.key \in CertIds \cup {"none"}
          /\ st.serving.on \in BOOLEAN

\* "settings survive restart through the written config"
DiskAgrees      == st.disk = st.cur
RestartPreserves == Restarted(st).cur = st.cur /\ Restarted(st).serving = st.serving
\* Whatever is in force could be started from (CHANGELOG #5189): enabled
\* settings have a complete, matching pair; DNS is served somehow.
EnabledHasPair  == st.cur.enabled => MClass(st.cur.cert, st.cur.key) = "complete"
AlwaysServesDNS == ServesDNS(st.cur)
ServingMatches  == st.serving = Serving(st.cur)
\* "disabling TLS keeps the stored certificate but stops serving"
DisabledNotServing == ~st.cur.enabled => ~st.serving.on

OverOuts(P(_, _)) == \A lab \in Labels(st) : \A o \in Out(st, lab) : P(lab, o)

\* "validate never changes state"; neither does status.
ReadOnly == OverOuts(LAMBDA lab, o : lab.act \in {"status", "validate"} => o.st = st)
\* "a rejected configure leaves the previous settings fully in force"
RejectedChangesNothing == OverOuts(LAMBDA lab, o : lab.act = "configure" /\ o.code # 200 => o.st = st)
\* "configure applies only settings that validate"
AppliedOnlyIfValid ==
    OverOuts(LAMBDA lab, o : lab.act = "configure" /\ o.st # st =>
                LET x == Asked(Req(lab), st.cur) IN
                /\ o.st = InForce(x) /\ ~Refused400(Req(lab), st)
                /\ MClass(x.cert, x.key) # "invalid"
                /\ (x.enabled => MClass(x.cert, x.key) = "complete"))
\* configure and validate answer the same request with the same code class and
\* the same status fields (FieldsOf does not look at the verb).
SameVerdict == \A n \in {x \in ShapeNames : ~MayRefuse400(Shapes[x], st) /\ ~NoDNSLeft(Shapes[x], st)} :
                  LET v == Out(st, [act |-> "validate", shape |-> n])
                      c == Out(st, [act |-> "configure", shape |-> n]) IN
                  (\E o \in v : o.code = 400) <=> (\A o \in c : o.code = 400)
\* Disabling with the material of the settings in force keeps it stored.
DisableKeepsMaterial ==
    st.cur.enabled /\ st.cur.plain /\ st.cur.csrc = "inline" /\ st.cur.ksrc = "inline" /\ st.cur.cert = "A" =>
        \A o \in Out(st, [act |-> "configure", shape |-> "disableKeepSaved"]) :
            o.code = 200 /\ o.st.cur.cert = st.cur.cert /\ o.st.cur.key = st.cur.key /\ ~o.st.serving.on
=============================================================================
