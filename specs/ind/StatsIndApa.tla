---------------------------- MODULE StatsIndApa ----------------------------
(***************************************************************************)
(* Apalache front end of StatsInd.tla.  The window geometry comes from     *)
(* StatsIndApa.cfg (= Stats.mc.cfg); MaxLive is an arbitrary natural.      *)
(* IndInit: an arbitrary state (arbitrary integer counters, at most MaxLim *)
(* buckets, at most MaxLim * NCats * 2 ledger keys) satisfying IndInv.     *)
(***************************************************************************)
EXTENDS StatsInd, Apalache

\* (ConstOK for the constants given by the cfg file is an ASSUME that TLC
\* checks in StatsRefA/B with the same values.)
CInit == MaxLive \in Nat

IndInit ==
    /\ lead \in 0..(MaxLim + DayLen)
    /\ phase \in 0..(DayLen - 1)
    /\ up \in BOOLEAN
    /\ enabled \in BOOLEAN
    /\ limit \in Limits
    /\ cur = Gen(2)
    /\ db = Gen(4)
    /\ ledger = Gen(16)
    /\ IndInv
=============================================================================
