module c11routes

go 1.21
