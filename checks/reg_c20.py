PROPERTY = "C20"
ENTRY = {
        "text": "QLogFile.tla states the property from its statement (cursor over the concatenated log; admissible outcome sets for absent timestamps; "
                "the reader's documented too-late fallback as a named action) and QLogFileProps checks its sentences as invariants over all histories; "
                "QLogFileAlg.tla transcribes qlogfile.go's byte arithmetic (position, bufferStart, re-initialisation rule, probe window, binary-search loop and guards) "
                "and TLC checks exhaustively that it refines the abstract reader for scaled constants (MaxEntry 4, BufSize 12, all files of 0..6 lines of lengths 1..3 incl. the 0-byte file, every target; negative controls: a line as long as the limit, and the code without the empty-file guard, must both violate the refinement). "
                "Binding: (A1) every log of the abstract universe -- incl. every record layout (key order x client address x time form, 72) on logs of three lines -- rendered with real line lengths, the real qLogFile/qLogReader put into every abstract state and every action performed, "
                "each observed edge looked up in the relation TLC emitted; (A2) every alignment class the scaled universe distinguishes (buffer start / probe-window edge relative to the line, x line-length class) realised by a solved real-size file and found again in the logged positions, plus TLC-enumerated layouts read as fractions of the real limits rendered as files around the 32 KiB probe window "
                "and below/around/above the 1.6 MB buffer, op logs validated by TLC against the abstract reader; (B) the logged position/bufferStart/depth of the single-file level validated "
                "against the algorithm spec with the real constants.  Every call runs under a watchdog.",
        "design_ref": "DESIGN.md section 4 C20",
        "note": "Returned lines are retained as returned and recognised at the end of each case (the sequence of values as a whole is what the statement describes). Trusted: TLC, the harness's line renderer/recogniser and cursor projection, lossless run-length encoding of read results. "
                "Files are well-formed (newline-terminated non-empty lines shorter than 16 KiB, strictly increasing timestamps). "
                "Reads on a reader that was never positioned are outside the statement and not exercised; a seek that reports an error must leave the cursor unchanged (file level and two-file reader). "
                "The reader level is validated against the abstract spec only (its fallthrough loop is proved against the file-level outcomes by TLC as a lemma).",
        "technique": "TLA+ refinement (algorithm => abstract) checked by TLC; edge-relation replay into real code + TLC trace validation at abstract and algorithm level",
    }
