PROPERTY = "C14"
ENTRY = {
        "text": "AtomicFileCore.tla is a small POSIX file-system model with an explicit durable side (per inode: the contents the disk may hold; "
                "for the destination path: the inodes it may durably be bound to) and the property as predicates InstantOK (old or new at this "
                "instant), CrashSafe (every outcome of a power failure now leaves a complete version) and ReadOK (a concurrent reader saw old or "
                "new). AtomicFile.tla: TLC checks exhaustively (3 successive saves x 0..2 chunks, 2 power failures anywhere, concurrent reader) "
                "that the protocol temp-in-same-file-system -> write -> fsync -> close -> rename satisfies them and that six wrong protocols "
                "(no fsync, rename before fsync, O_TRUNC in place, unlink first, copy-back after EXDEV, write after fsync) violate them. "
                "Binding: the real save paths (config via PUT /control/profile/update and via parseConfig's schema upgrade; lease DB via the "
                "DHCP static-lease/reset handlers and via the leases.db migration; filter file via POST /control/filtering/refresh against a "
                "local HTTP server; 0 B .. 32 MiB, up to 20 successive saves) run in child processes under strace -f; the system-call logs are "
                "validated line by line by TraceAtomicFile.tla (every call must be an enabled model action; InstantOK and CrashSafe after every "
                "call = crash injected after every prefix). A concurrent reader polls the path during 200/400 back-to-back saves per writer; "
                "its observations are validated by the same module.",
        "design_ref": "DESIGN.md section 4 C14",
        "note": "Trusted: TLC, strace's view of the child's system calls, the durability model D1-D3 (kernel below fsync trusted), the harness's "
                "byte-level check of the file found after each save. After a power failure an EARLIER complete version than the previous one is "
                "admitted (no writer fsyncs the directory; the statement is read as 'always a complete version, never empty/truncated/mixed'). "
                "Writes through mmap would not be seen. Unix only (the Windows fallback of aghrenameio is not exercised).",
        "technique": "TLA+ file-system/crash model checked by TLC; TLC trace validation of strace logs of the real writers with crash injection after every system call",
    }
