package filtering

// C06 conformance harness, filtering level.
//
// Direction A (TestZZVerifC06Replay): every vector produced by TLC from
// specs/Rewrites.tla is one rewrite table together with the admissible
// outcomes of every query; the table is given to the real filtering.New in
// every ordering, every query goes through the real CheckHost, and the
// projected result (rewritten or not, canonical name, address set) must be in
// the admissible set.
//
// Direction B (TestZZVerifC06Trace): random tables of 10-20 entries with
// multi-level wildcards over a larger name universe; table, query and
// projected result are logged for specs/TraceRewrites.tla.
//
// Histories (TestZZVerifC06History, TestZZVerifC06HistTrace): ONE filter lives
// on while its table is edited through the real HTTP handlers (add, delete,
// update in place); after every edit every query is asked again.  Direction A
// walks the edges emitted by the edit machine of Rewrites.tla, direction B
// logs random edit sequences on larger tables for TraceRewrites.tla.
//
// Every call of the code under test runs under a watchdog: a table whose
// queries do not finish is re-run query by query with a longer bound, and only
// a query that exceeds that bound too is reported as non-termination.

import (
	"bytes"
	"encoding/json"
	"fmt"
	"math/rand"
	"net/http"
	"net/http/httptest"
	"net/netip"
	"sort"
	"strings"
	"sync"
	"testing"
	"time"

	"github.com/miekg/dns"
)

// ------------------------------------------------------------ abstract side

// zzC06Entry is an abstract table entry; names are label sequences.
type zzC06Entry struct {
	W  bool     `json:"w"`
	N  []string `json:"n"`
	K  string   `json:"k"`
	IP string   `json:"ip"`
	T  []string `json:"t"`
	// MC: the answer (a canonical name) is written with every label in
	// another letter case than the lower-case form.
	MC bool `json:"mc"`
	// DS is the spelling variant of the pattern (normalised by the code).
	DS int `json:"ds,omitempty"`
}

// zzC06Out is an abstract outcome.
type zzC06Out struct {
	R     string   `json:"r"`
	Canon []string `json:"canon"`
	IPs   []string `json:"ips"`
	Up    bool     `json:"up"`
}

// zzC06Verdict is the admissible set for one query.
type zzC06Verdict struct {
	H    []string
	QT   string
	Outs []zzC06Out
}

// zzC06Vec is a decoded vector.
type zzC06Vec struct {
	Tab     []zzC06Entry
	Ordered bool
	Verd    map[string]*zzC06Verdict // key: name "|" qtype
	// VerdC are the outcomes when the CNAME answers are written in another
	// letter case and read verbatim (nil: the table has no CNAME entry); they
	// only serve to attribute a disagreement to the finding about letter case.
	VerdC map[string]*zzC06Verdict
	// VerdK, likewise, are the outcomes when one known deviation ("tie",
	// "exact", "late", or "all" of them) is admitted, where that differs.
	VerdK map[string]map[string][]zzC06Out
}

type zzC06Header struct {
	Names  [][]string `json:"names"`
	QNames []int      `json:"qnames"`
}

type zzC06RawVec struct {
	Hdr int               `json:"hdr"`
	T   []json.RawMessage `json:"t"`
	V   []json.RawMessage `json:"v"`
	VC  []json.RawMessage `json:"vc"`
	VK  []json.RawMessage `json:"vk"`
	O   int               `json:"o"`
}

func zzC06Key(h []string, qt string) (k string) { return strings.Join(h, ".") + "|" + qt }

// zzC06Decode turns the compact TLC encoding (names as positions in the
// header's name list, tuples as arrays) into the abstract structures.
func zzC06Decode(hdr *zzC06Header, raw *zzC06RawVec) (v *zzC06Vec, err error) {
	name := func(i int) (n []string) {
		if i <= 0 || i > len(hdr.Names) {
			return []string{}
		}

		return hdr.Names[i-1]
	}

	v = &zzC06Vec{Ordered: raw.O == 1}
	for _, rt := range raw.T {
		var tup []any
		if err = json.Unmarshal(rt, &tup); err != nil || len(tup) != 5 {
			return nil, fmt.Errorf("bad entry %s: %v", rt, err)
		}

		v.Tab = append(v.Tab, zzC06Entry{
			W:  tup[0].(float64) == 1,
			N:  name(int(tup[1].(float64))),
			K:  tup[2].(string),
			IP: tup[3].(string),
			T:  name(int(tup[4].(float64))),
		})
	}

	if v.Verd, err = zzC06DecodeVerdicts(name, raw.V); err != nil {
		return nil, err
	}

	if len(raw.VC) > 0 {
		if v.VerdC, err = zzC06DecodeVerdicts(name, raw.VC); err != nil {
			return nil, err
		}
	}

	v.VerdK = map[string]map[string][]zzC06Out{}
	for _, rk := range raw.VK {
		// [name, qtype, deviation, outcomes]
		var tup []json.RawMessage
		var flag string
		if err = json.Unmarshal(rk, &tup); err != nil || len(tup) != 4 || json.Unmarshal(tup[2], &flag) != nil {
			return nil, fmt.Errorf("bad vk %s: %v", rk, err)
		}

		three, _ := json.Marshal([]json.RawMessage{tup[0], tup[1], tup[3]})
		var m map[string]*zzC06Verdict
		if m, err = zzC06DecodeVerdicts(name, []json.RawMessage{three}); err != nil {
			return nil, err
		}

		for k, vd := range m {
			if v.VerdK[k] == nil {
				v.VerdK[k] = map[string][]zzC06Out{}
			}

			v.VerdK[k][flag] = vd.Outs
		}
	}

	return v, nil
}

func zzC06DecodeVerdicts(
	name func(i int) (n []string),
	raws []json.RawMessage,
) (m map[string]*zzC06Verdict, err error) {
	m = map[string]*zzC06Verdict{}
	for _, rv := range raws {
		var tup []json.RawMessage
		if err = json.Unmarshal(rv, &tup); err != nil || len(tup) != 3 {
			return nil, fmt.Errorf("bad verdict %s: %v", rv, err)
		}

		var hi int
		var qt string
		var outs [][]any
		if err = json.Unmarshal(tup[0], &hi); err != nil {
			return nil, err
		} else if err = json.Unmarshal(tup[1], &qt); err != nil {
			return nil, err
		} else if err = json.Unmarshal(tup[2], &outs); err != nil {
			return nil, err
		}

		vd := &zzC06Verdict{H: name(hi), QT: qt}
		for _, o := range outs {
			out := zzC06Out{R: o[0].(string), Canon: name(int(o[1].(float64))), Up: o[3].(bool), IPs: []string{}}
			for _, ip := range o[2].([]any) {
				out.IPs = append(out.IPs, ip.(string))
			}

			sort.Strings(out.IPs)
			vd.Outs = append(vd.Outs, out)
		}

		m[zzC06Key(vd.H, qt)] = vd
	}

	return m, nil
}

var zzC06PassOnly = []zzC06Out{{R: "pass", Canon: []string{}, IPs: []string{}, Up: true}}

// ------------------------------------------------------------ concrete side

// zzC06Labels renders the abstract labels of Rewrites.tla.  "xa" must be the
// concatenation of the renderings of "x" and "a" (a look-alike of a
// subdomain).  Unknown labels (direction B) stand for themselves.
var zzC06Labels = map[string]string{
	"c": "com", "d": "org", "a": "host", "b": "other", "x": "www", "y": "sub", "e": "ext",
	"xa": "wwwhost", "*": "*",
}

func zzC06Name(ls []string) (s string) {
	parts := make([]string, len(ls))
	for i, l := range ls {
		if r, ok := zzC06Labels[l]; ok {
			parts[i] = r
		} else {
			parts[i] = l
		}
	}

	return strings.Join(parts, ".")
}

// zzC06Conc holds the seeded concretisation choices of one run.
type zzC06Conc struct {
	ips map[string]string // abstract address -> concrete
	rev map[string]string // concrete -> abstract
}

func zzC06NewConc(seed int64) (c *zzC06Conc) {
	rng := rand.New(rand.NewSource(seed))
	c = &zzC06Conc{ips: map[string]string{}, rev: map[string]string{}}
	a := 1 + rng.Intn(100)
	c.ips["v4a"] = fmt.Sprintf("192.0.2.%d", a)
	c.ips["v4b"] = fmt.Sprintf("198.51.100.%d", 101+rng.Intn(100))
	c.ips["v6a"] = fmt.Sprintf("2001:db8::%x", 1+rng.Intn(0xfffe))
	c.ips["v6b"] = fmt.Sprintf("2001:db8:1::%x", 1+rng.Intn(0xfffe))
	zzC06RareAddrs(c.ips, rng)
	zzC06Cur = c

	return c
}

// zzC06RareAddrs completes the seeded choice of concrete addresses with the
// rare but legal ones: "v6m" is always an IPv4-mapped IPv6 address (an AAAA
// value: the family of an entry is that of the text written), and in some runs
// "v6a" is the loopback or the unspecified address and "v4b" is 0.0.0.0.
func zzC06RareAddrs(ips map[string]string, rng *rand.Rand) {
	ips["v6m"] = fmt.Sprintf("::ffff:203.0.113.%d", 1+rng.Intn(200))
	switch rng.Intn(4) {
	case 1:
		ips["v6a"] = "::1"
	case 2:
		ips["v6a"] = "::"
	}

	if rng.Intn(3) == 0 {
		ips["v4b"] = "0.0.0.0"
	}
}

// zzC06SpellIP writes an address in another legal spelling: IPv6 in upper-case
// hex, in the full form without zero compression, or both; an IPv4-mapped
// address with an upper-case prefix, a hexadecimal tail or an uncompressed
// prefix.  IPv4 has only one spelling.
func zzC06SpellIP(canonical string, variant int) (s string) {
	a, err := netip.ParseAddr(canonical)
	if err != nil || a.Is4() {
		return canonical
	}

	if variant < 0 {
		variant = -variant
	}

	s = canonical
	switch {
	case a.Is4In6():
		b := a.As16()
		switch variant % 4 {
		case 1:
			s = "::FFFF:" + a.Unmap().String()
		case 2:
			s = fmt.Sprintf("::ffff:%x:%x", uint16(b[12])<<8|uint16(b[13]), uint16(b[14])<<8|uint16(b[15]))
		case 3:
			s = "0:0:0:0:0:ffff:" + a.Unmap().String()
		}
	default:
		switch variant % 4 {
		case 1:
			s = strings.ToUpper(canonical)
		case 2:
			s = a.StringExpanded()
		case 3:
			s = strings.ToUpper(a.StringExpanded())
		}
	}

	if b, perr := netip.ParseAddr(s); perr != nil || b != a {
		// Not a spelling of the same address after all.
		return canonical
	}

	return s
}

func (c *zzC06Conc) ip(a string) (s string) {
	if s, ok := c.ips[a]; ok {
		return s
	}

	return a
}

// abs is the canonical text of an observed address.  Observed and expected
// addresses are compared in this form (see concrete): the abstract ids of the
// vectors are made concrete, literal addresses (traces) stand for themselves.
func (c *zzC06Conc) abs(a netip.Addr) (s string) {
	return a.String()
}

// concrete maps expected addresses (abstract ids or literals) to canonical
// concrete text, sorted.
func (c *zzC06Conc) concrete(ips []string) (r []string) {
	r = []string{}
	for _, ip := range ips {
		t := c.ip(ip)
		if a, err := netip.ParseAddr(t); err == nil {
			t = a.String()
		}

		r = append(r, t)
	}

	sort.Strings(r)

	return r
}

// zzC06Cur is the concretisation of the running test (one per process).
var zzC06Cur *zzC06Conc

// zzC06OtherCase writes a name so that every label differs in case from its
// lower-case form (every label of the harness's names starts with a letter or
// is "*"): all upper case, or the first letter of every label.
func zzC06OtherCase(name string, variant int) (s string) {
	if variant%2 == 0 {
		return strings.ToUpper(name)
	}

	ls := strings.Split(name, ".")
	for i, l := range ls {
		if l != "" {
			ls[i] = strings.ToUpper(l[:1]) + l[1:]
		}
	}

	return strings.Join(ls, ".")
}

// zzC06Rewrite renders one entry the way it is written in the configuration
// file or sent to the API: pattern (in spelling variant e.DS), answer text.
func (c *zzC06Conc) rewrite(e *zzC06Entry) (rw *LegacyRewrite) {
	dom := zzC06Spell(zzC06Name(e.N), e.DS)
	if e.W {
		dom = "*." + dom
	}

	ans := ""
	switch e.K {
	case "ip4", "ip6":
		ans = zzC06SpellIP(c.ip(e.IP), e.DS)
	case "A", "AAAA":
		ans = e.K
	default:
		ans = zzC06Name(e.T)
		if e.MC {
			ans = zzC06OtherCase(ans, len(e.T)+len(e.N)+e.DS)
		}
	}

	return &LegacyRewrite{Domain: dom, Answer: ans}
}

// zzC06Spell applies a request-side spelling variant to a name.
func zzC06Spell(s string, variant int) (r string) {
	switch variant % 3 {
	case 1:
		return strings.ToUpper(s)
	case 2:
		b := []byte(s)
		for i := range b {
			if i%2 == 0 && b[i] >= 'a' && b[i] <= 'z' {
				b[i] -= 'a' - 'A'
			}
		}

		return string(b)
	default:
		return s
	}
}

var zzC06QTypes = map[string]uint16{"A": dns.TypeA, "AAAA": dns.TypeAAAA, "TXT": dns.TypeTXT}

// zzC06Got is the projection of a real result.
type zzC06Got struct {
	R      string   `json:"r"`
	Canon  string   `json:"canon"`
	IPs    []string `json:"ips"`
	Reason string   `json:"reason,omitempty"`
	Err    string   `json:"err,omitempty"`
}

func (c *zzC06Conc) project(res *Result, err error) (g zzC06Got) {
	g.IPs = []string{}
	if err != nil {
		return zzC06Got{R: "error", Err: err.Error(), IPs: g.IPs}
	}

	switch res.Reason {
	case Rewritten:
		g.R = "rw"
		// Names are compared case-insensitively.
		g.Canon = strings.ToLower(res.CanonName)
		seen := map[string]bool{}
		for _, ip := range res.IPList {
			a := c.abs(ip)
			if !seen[a] {
				seen[a] = true
				g.IPs = append(g.IPs, a)
			}
		}

		sort.Strings(g.IPs)
	case NotFilteredNotFound:
		g.R = "pass"
	default:
		g.R = "other"
		g.Reason = res.Reason.String()
	}

	return g
}

func zzC06Admissible(outs []zzC06Out, g *zzC06Got) (ok bool) {
	for i := range outs {
		o := &outs[i]
		if o.R != g.R {
			continue
		} else if o.R == "pass" {
			return true
		}

		want := zzC06Cur.concrete(o.IPs)
		if zzC06Name(o.Canon) != g.Canon || len(want) != len(g.IPs) {
			continue
		}

		same := true
		for j := range want {
			same = same && want[j] == g.IPs[j]
		}

		if same {
			return true
		}
	}

	return false
}

// zzC06Filter builds the real filter for a table in the given order.
func (c *zzC06Conc) filter(dataDir string, tab []zzC06Entry, order []int) (d *DNSFilter, err error) {
	conf := &Config{DataDir: dataDir}
	for _, i := range order {
		conf.Rewrites = append(conf.Rewrites, c.rewrite(&tab[i]))
	}

	if d, err = New(conf, nil); err != nil {
		return nil, err
	}

	if len(order) > 0 && (len(tab)+len(order)+order[0])%2 == 1 {
		// Half of the filters have their configuration saved before they are
		// asked, the way package home does it: WriteDiskConfig into the very
		// *Config the filter was created with.  Saving is not an edit.
		d.WriteDiskConfig(conf)
	}

	return d, nil
}

var zzC06Setts = &Settings{ProtectionEnabled: true, FilteringEnabled: true}

// zzC06Watch runs f under a watchdog.
func zzC06Watch(bound time.Duration, f func()) (finished bool) {
	done := make(chan struct{})
	go func() {
		defer close(done)
		f()
	}()

	tm := time.NewTimer(bound)
	defer tm.Stop()

	select {
	case <-done:
		return true
	case <-tm.C:
		return false
	}
}

// zzC06Perms returns the distinct orderings of a table (all of them for an
// unordered vector, the given one otherwise).
func zzC06Perms(tab []zzC06Entry, ordered bool) (perms [][]int) {
	n := len(tab)
	id := make([]int, n)
	for i := range id {
		id[i] = i
	}

	if ordered || n > 4 {
		return [][]int{id}
	}

	seen := map[string]bool{}
	var rec func(k int)
	rec = func(k int) {
		if k == n {
			key := ""
			for _, i := range id {
				key += fmt.Sprintf("%v;", tab[i])
			}

			if !seen[key] {
				seen[key] = true
				perms = append(perms, append([]int{}, id...))
			}

			return
		}

		for i := k; i < n; i++ {
			id[k], id[i] = id[i], id[k]
			rec(k + 1)
			id[k], id[i] = id[i], id[k]
		}
	}
	rec(0)

	return perms
}

type zzC06Query struct {
	h  []string
	qt string
}

// zzC06Runner replays vectors.
type zzC06Runner struct {
	conc    *zzC06Conc
	dataDir string
	w       *zzWriter
	mu      sync.Mutex
	tables  int
	orders  int
	evals   int
	bad     int
	hangs   int
	flaky   int
	stop    bool
	// devs counts the disagreements explained by each known deviation.
	devs map[string]int
}

func (r *zzC06Runner) put(v any) {
	r.mu.Lock()
	defer r.mu.Unlock()
	r.w.put(v)
}

func (r *zzC06Runner) count(f func()) {
	r.mu.Lock()
	defer r.mu.Unlock()
	f()
}

// one evaluates a single query on a fresh filter, alone, under the long
// watchdog; used to reproduce a disagreement in isolation.
func (r *zzC06Runner) one(
	tab []zzC06Entry,
	order []int,
	q zzC06Query,
	variant int,
	bound time.Duration,
) (g zzC06Got, conc string, finished bool) {
	conc = zzC06Spell(zzC06Name(q.h), variant)
	var res zzC06Got
	finished = zzC06Watch(bound, func() {
		d, err := r.conc.filter(r.dataDir, tab, order)
		if err != nil {
			res = zzC06Got{R: "error", Err: err.Error(), IPs: []string{}}

			return
		}
		defer d.Close()

		cres, err := d.CheckHost(conc, zzC06QTypes[q.qt], zzC06Setts)
		res = r.conc.project(&cres, err)
	})
	if finished {
		g = res
	}

	return g, conc, finished
}

func (r *zzC06Runner) concreteTable(tab []zzC06Entry, order []int) (lines []string) {
	for _, i := range order {
		rw := r.conc.rewrite(&tab[i])
		lines = append(lines, rw.Domain+" -> "+rw.Answer)
	}

	return lines
}

// zzC06Wanted is what the specification admits (letter case is immaterial).
func zzC06Wanted(v *zzC06Vec, q zzC06Query, _ bool) (outs []zzC06Out) {
	vd, ok := v.Verd[zzC06Key(q.h, q.qt)]
	if !ok {
		return zzC06PassOnly
	}

	return vd.Outs
}

// zzC06Deviation attributes a result that the specification does not admit
// to the known deviation that does: "case" (cased pass only), "tie", "exact",
// "late", "all"; "" if none does.
func zzC06Deviation(v *zzC06Vec, q zzC06Query, cased bool, g *zzC06Got) (dev string) {
	k := zzC06Key(q.h, q.qt)
	for _, f := range []string{"tie", "exact", "late"} {
		if outs, ok := v.VerdK[k][f]; ok && zzC06Admissible(outs, g) {
			return f
		}
	}

	if outs, ok := v.VerdK[k]["all"]; ok && zzC06Admissible(outs, g) {
		return "all"
	}

	// Only what no combination of the other deviations explains is put down
	// to the letter case.
	if vc, ok := v.VerdC[k]; cased && ok && zzC06Admissible(vc.Outs, g) {
		return "case"
	}

	return ""
}

// zzC06CaseVariant is the table with every CNAME answer in another letter
// case and the patterns in seeded spellings.
func zzC06CaseVariant(tab []zzC06Entry, idx int) (ct []zzC06Entry) {
	ct = append([]zzC06Entry{}, tab...)
	for i := range ct {
		ct[i].DS = idx + i
		ct[i].MC = ct[i].K == "cname"
	}

	return ct
}

// table replays one vector in every ordering; qs are the queries of the
// universe the vector belongs to.
func (r *zzC06Runner) table(v *zzC06Vec, idx int, qs []zzC06Query) {
	perms := zzC06Perms(v.Tab, v.Ordered)
	nev := 0
	npass := len(perms)
	if v.VerdC != nil {
		// One more pass: the table as given, CNAME answers in another case.
		npass++
	}

	for pi := 0; pi < npass; pi++ {
		tab, cased := v.Tab, pi >= len(perms)
		var order []int
		if cased {
			tab = zzC06CaseVariant(v.Tab, idx)
			order = make([]int, len(tab))
			for i := range order {
				order[i] = i
			}
		} else {
			order = perms[pi]
		}

		got := make([]zzC06Got, len(qs))
		spell := make([]int, len(qs))
		for i := range qs {
			spell[i] = idx + pi + i
		}

		// The goroutine works on its own slice: if the watchdog fires it
		// may still be running.
		res := make(chan []zzC06Got, 1)
		fin := zzC06Watch(5*time.Second, func() {
			mine := make([]zzC06Got, len(qs))
			d, err := r.conc.filter(r.dataDir, tab, order)
			if err != nil {
				for i := range mine {
					mine[i] = zzC06Got{R: "error", Err: err.Error(), IPs: []string{}}
				}
				res <- mine

				return
			}
			defer d.Close()

			for i, q := range qs {
				cres, cerr := d.CheckHost(zzC06Spell(zzC06Name(q.h), spell[i]), zzC06QTypes[q.qt], zzC06Setts)
				mine[i] = r.conc.project(&cres, cerr)
			}
			res <- mine
		})
		if fin {
			got = <-res
		}

		hung := false
		for i, q := range qs {
			want := zzC06Wanted(v, q, cased)
			nev++
			if fin && zzC06Admissible(want, &got[i]) {
				continue
			}

			stop := false
			r.count(func() { stop = r.stop })
			if stop {
				break
			}

			// A disagreement that one of the known deviations explains is
			// reproduced and recorded for the first few of each kind only;
			// the others are counted.
			dev := ""
			if fin {
				dev = zzC06Deviation(v, q, cased, &got[i])
			}

			if dev != "" {
				over := false
				r.count(func() {
					r.devs[dev]++
					over = r.devs[dev] > 20
				})
				if over {
					continue
				}
			}

			// Reproduce alone, on a fresh filter, with a long bound.
			g2, conc, fin2 := r.one(tab, order, q, spell[i], 20*time.Second)
			rec := map[string]any{
				"tab": tab, "order": order, "table": r.concreteTable(tab, order), "cased": cased,
				"h": q.h, "qt": q.qt, "query": conc, "want": want, "seed": zzSeed(),
			}
			if fin2 {
				rec["deviation"] = zzC06Deviation(v, q, cased, &g2)
			}
			switch {
			case !fin2:
				// Confirmed non-termination.  The goroutine keeps spinning:
				// leave this table, and stop the replay after the second one.
				rec["kind"], rec["got"] = "hang", "no result within 20s"
				hung = true
				r.count(func() {
					r.hangs++
					r.stop = r.stop || r.hangs >= 2
				})
			case zzC06Admissible(want, &g2):
				if !fin {
					// The table as a whole did not finish in time, but this
					// query does and is right.
					continue
				}

				rec["kind"], rec["got"], rec["first"] = "flaky", g2, got[i]
				r.count(func() { r.flaky++ })
			default:
				rec["kind"], rec["got"] = "bad", g2
				r.count(func() { r.bad++ })
			}

			r.put(rec)
			if hung {
				break
			}
		}

		if hung {
			break
		}
	}

	r.count(func() {
		r.tables++
		r.orders += npass
		r.evals += nev
	})
}

// TestZZVerifC06Replay is direction A.
func TestZZVerifC06Replay(t *testing.T) {
	w := zzNewWriter(t, "VERIF_OUT")
	defer w.close()

	r := &zzC06Runner{conc: zzC06NewConc(zzSeed()), dataDir: t.TempDir(), w: w, devs: map[string]int{}}

	work := make(chan func(), 64)
	wg := &sync.WaitGroup{}
	for i := 0; i < 6; i++ {
		wg.Add(1)
		go func() {
			defer wg.Done()
			for f := range work {
				f()
			}
		}()
	}

	var hdr *zzC06Header
	var qs []zzC06Query
	n := 0
	zzReadNDJSON(t, "VERIF_IN", func(line []byte) {
		raw := &zzC06RawVec{}
		if err := json.Unmarshal(line, raw); err != nil {
			t.Fatalf("bad vector: %v", err)
		}

		if raw.Hdr == 1 {
			// A header starts a new universe: names and query names.
			hdr = &zzC06Header{}
			if err := json.Unmarshal(line, hdr); err != nil {
				t.Fatalf("bad header: %v", err)
			}

			qs = nil
			for _, qi := range hdr.QNames {
				for _, qt := range []string{"A", "AAAA", "TXT"} {
					qs = append(qs, zzC06Query{h: hdr.Names[qi-1], qt: qt})
				}
			}

			return
		} else if hdr == nil {
			t.Fatalf("vector before header")
		}

		v, err := zzC06Decode(hdr, raw)
		if err != nil {
			t.Fatalf("decoding: %v", err)
		}

		stop := false
		r.count(func() { stop = r.stop })
		if stop {
			return
		}

		n++
		idx, myqs := n, qs
		work <- func() { r.table(v, idx, myqs) }
	})
	close(work)
	wg.Wait()

	w.put(map[string]any{
		"kind": "summary", "vectors": n, "tables": r.tables, "orderings": r.orders, "evals": r.evals,
		"bad": r.bad, "hangs": r.hangs, "flaky": r.flaky, "aborted": r.stop, "deviations": r.devs,
	})
}

// ---------------------------------------------------------------- direction B

var (
	zzC06BLabels = []string{"k", "m", "z", "srv", "n1", "dev", "p-q"}
	zzC06BTLDs   = []string{"net", "lan", "io"}
	zzC06BV4     = []string{"10.0.0.1", "10.0.0.2", "172.16.5.9", "203.0.113.200", "0.0.0.0"}
	zzC06BV6     = []string{"fd00::1", "fd00::2", "2001:db8:ffff::53", "::ffff:10.1.2.3", "::1", "::"}
)

func zzC06BPick(rng *rand.Rand, ss []string) (s string) { return ss[rng.Intn(len(ss))] }

func zzC06BName(rng *rand.Rand) (n []string) {
	depth := rng.Intn(3)
	for i := 0; i < depth; i++ {
		n = append(n, zzC06BPick(rng, zzC06BLabels))
	}

	return append(append(n, zzC06BPick(rng, zzC06BLabels)), zzC06BPick(rng, zzC06BTLDs))
}

func zzC06BSub(rng *rand.Rand, n []string) (s []string) {
	for i := 0; i <= rng.Intn(2); i++ {
		s = append(s, zzC06BPick(rng, zzC06BLabels))
	}

	return append(s, n...)
}

// zzC06BTable draws a table of 10-20 entries whose patterns and answers are
// related: a pool of names, their sub- and super-domains, wildcards over them,
// CNAMEs that mostly stay inside the pool (chains and cycles), duplicates.
func zzC06BTable(rng *rand.Rand) (tab []zzC06Entry, pool [][]string) {
	for i := 0; i < 4+rng.Intn(4); i++ {
		n := zzC06BName(rng)
		pool = append(pool, n)
		if rng.Intn(2) == 0 {
			pool = append(pool, zzC06BSub(rng, n))
		}

		if len(n) > 2 && rng.Intn(2) == 0 {
			pool = append(pool, n[1:])
		}
	}

	pick := func() (n []string) { return pool[rng.Intn(len(pool))] }
	size := 10 + rng.Intn(11)
	for len(tab) < size {
		if len(tab) > 0 && rng.Intn(12) == 0 {
			// Duplicate of a pattern with another (or the same) answer below.
			e := tab[rng.Intn(len(tab))]
			tab = append(tab, zzC06Entry{W: e.W, N: e.N})
		} else {
			tab = append(tab, zzC06Entry{W: rng.Intn(5) < 2, N: pick()})
		}

		e := &tab[len(tab)-1]
		e.T = []string{}
		e.DS = rng.Intn(3)
		switch k := rng.Intn(20); {
		case k < 5:
			e.K, e.IP = "ip4", zzC06BPick(rng, zzC06BV4)
		case k < 8:
			e.K, e.IP = "ip6", zzC06BPick(rng, zzC06BV6)
		case k < 9:
			e.K = "A"
		case k < 10:
			e.K = "AAAA"
		case k < 11:
			// The pattern itself.
			e.K = "cname"
			if e.W {
				e.T = append([]string{"*"}, e.N...)
			} else {
				e.T = e.N
			}
		case k < 17:
			e.K, e.T = "cname", pick()
		case k < 19:
			e.K, e.T = "cname", zzC06BSub(rng, pick())
		default:
			e.K, e.T = "cname", zzC06BName(rng)
		}

		// A quarter of the canonical names are written in another case.
		e.MC = e.K == "cname" && rng.Intn(4) == 0
	}

	if rng.Intn(4) == 0 {
		tab, pool = zzC06BLongChain(rng, tab, pool)
	}

	return tab, pool
}

// zzC06BLongChain adds a chain of 7 to 33 CNAME entries over fresh names that
// ends in a self entry, a cycle of two or three further names, back at its
// head, in an address, or in a name the table does not mention -- or a short
// lead-in into a cycle of 7 to 33 names; the entries
// are scattered over the table and head, a name in the middle, the name
// entered after eight links and the tail join the pool of query names.
func zzC06BLongChain(rng *rand.Rand, tab []zzC06Entry, pool [][]string) (t2 []zzC06Entry, p2 [][]string) {
	base := zzC06BName(rng)
	name := func(kind string, i int) (n []string) {
		return append([]string{fmt.Sprintf("%s%d", kind, i)}, base...)
	}

	cn := func(from, to []string) (e zzC06Entry) {
		return zzC06Entry{N: from, K: "cname", T: to, DS: rng.Intn(3)}
	}

	if rng.Intn(2) == 0 {
		// A ring: a lead-in of 1, 2 or 9 names into a cycle of 7 to 33 names,
		// i.e. a long cycle entered from a queried name outside it.
		l := []int{1, 2, 9}[rng.Intn(3)]
		c := []int{7, 8, 9, 10, 16, 17, 33}[rng.Intn(7)]
		for i := 1; i <= l; i++ {
			to := name("h", i+1)
			if i == l {
				to = name("g", 1)
			}

			tab = append(tab, cn(name("h", i), to))
		}

		for i := 1; i <= c; i++ {
			tab = append(tab, cn(name("g", i), name("g", i%c+1)))
		}

		rng.Shuffle(len(tab), func(i, j int) { tab[i], tab[j] = tab[j], tab[i] })
		pool = append(pool, name("h", 1), name("h", 1), name("h", (l+1)/2), name("g", 1), name("g", c/2))

		return tab, pool
	}

	l := []int{7, 8, 9, 16, 33}[rng.Intn(5)]
	end := rng.Intn(6)

	for i := 1; i <= l; i++ {
		to := name("h", i+1)
		if i == l {
			to = name("g", 1)
			if end == 3 {
				to = name("h", 1)
			}
		}

		tab = append(tab, cn(name("h", i), to))
	}

	switch end {
	case 0:
		tab = append(tab, cn(name("g", 1), name("g", 1)))
	case 1:
		tab = append(tab, cn(name("g", 1), name("g", 2)), cn(name("g", 2), name("g", 1)))
	case 2:
		tab = append(tab, cn(name("g", 1), name("g", 2)), cn(name("g", 2), name("g", 3)), cn(name("g", 3), name("g", 1)))
	case 4:
		tab = append(tab, zzC06Entry{N: name("g", 1), K: "ip4", IP: zzC06BV4[0], T: []string{}})
	default:
		// Back at the head (3), or the tail is not in the table (5).
	}

	rng.Shuffle(len(tab), func(i, j int) { tab[i], tab[j] = tab[j], tab[i] })
	pool = append(pool, name("h", 1), name("h", 1), name("h", 2), name("h", 9), name("h", l), name("g", 1), name("g", 2))

	return tab, pool
}

type zzC06BObs struct {
	H     []string `json:"h"`
	QT    string   `json:"qt"`
	R     string   `json:"r"`
	Canon []string `json:"canon"`
	IPs   []string `json:"ips"`
	Query string   `json:"query"`
}

// TestZZVerifC06Trace is direction B.
func TestZZVerifC06Trace(t *testing.T) {
	w := zzNewWriter(t, "VERIF_OUT")
	defer w.close()

	rng := rand.New(rand.NewSource(zzSeed()))
	conc := zzC06NewConc(zzSeed())
	dataDir := t.TempDir()
	ntab := 150
	if zzGetenv("VERIF_TIER") == "thorough" {
		ntab = 1500
	}

	others := []uint16{dns.TypeTXT, dns.TypeMX, dns.TypeHTTPS, dns.TypeSRV}
	hangs := 0
	for ti := 0; ti < ntab && hangs < 3; ti++ {
		tab, pool := zzC06BTable(rng)
		order := make([]int, len(tab))
		for i := range order {
			order[i] = i
		}

		type query struct {
			h     []string
			qt    string
			typ   uint16
			spell int
		}

		qs := make([]query, 40)
		for i := range qs {
			q := &qs[i]
			switch k := rng.Intn(10); {
			case k < 3:
				q.h = pool[rng.Intn(len(pool))]
			case k < 5:
				e := tab[rng.Intn(len(tab))]
				q.h = e.N
				if e.W {
					q.h = zzC06BSub(rng, e.N)
				}
			case k < 7:
				q.h = zzC06BSub(rng, pool[rng.Intn(len(pool))])
			case k < 8:
				// Look-alike: the first label of a pool name with a prefix.
				n := pool[rng.Intn(len(pool))]
				q.h = append([]string{"x" + n[0]}, n[1:]...)
			case k < 9:
				if e := tab[rng.Intn(len(tab))]; e.K == "cname" && len(e.T) > 0 && e.T[0] != "*" {
					q.h = e.T
				} else {
					q.h = zzC06BName(rng)
				}
			default:
				q.h = zzC06BName(rng)
			}

			switch rng.Intn(3) {
			case 0:
				q.qt, q.typ = "A", dns.TypeA
			case 1:
				q.qt, q.typ = "AAAA", dns.TypeAAAA
			default:
				q.qt, q.typ = "TXT", others[rng.Intn(len(others))]
			}

			q.spell = rng.Intn(3)
		}

		var obs []zzC06BObs
		res := make(chan []zzC06BObs, 1)
		run := func(qs []query, bound time.Duration) (out []zzC06BObs, fin bool) {
			fin = zzC06Watch(bound, func() {
				mine := make([]zzC06BObs, len(qs))
				d, err := conc.filter(dataDir, tab, order)
				if err != nil {
					panic(err)
				}
				defer d.Close()

				for i, q := range qs {
					name := zzC06Spell(zzC06Name(q.h), q.spell)
					cres, cerr := d.CheckHost(name, q.typ, zzC06Setts)
					g := conc.project(&cres, cerr)
					o := zzC06BObs{H: q.h, QT: q.qt, R: g.R, Canon: []string{}, IPs: g.IPs, Query: name}
					if g.Canon != "" {
						o.Canon = strings.Split(g.Canon, ".")
					}

					mine[i] = o
				}
				res <- mine
			})
			if fin {
				out = <-res
			}

			return out, fin
		}

		var fin bool
		if obs, fin = run(qs, 5*time.Second); !fin {
			// Query by query with the long bound.
			// Query by query with the long bound; the trace ends at the first
			// confirmed non-termination.
			obs = []zzC06BObs{}
			for i := range qs {
				one, ok := run(qs[i:i+1], 20*time.Second)
				if ok {
					obs = append(obs, one[0])

					continue
				}

				hangs = 3
				name := zzC06Spell(zzC06Name(qs[i].h), qs[i].spell)
				obs = append(obs, zzC06BObs{
					H: qs[i].h, QT: qs[i].qt, R: "hang", Canon: []string{}, IPs: []string{}, Query: name,
				})

				break
			}
		}

		lines := []string{}
		for i := range tab {
			rw := conc.rewrite(&tab[i])
			lines = append(lines, rw.Domain+" -> "+rw.Answer)
		}

		w.put(map[string]any{"lvl": "filt", "tab": tab, "qs": obs, "table": lines})
	}
}

// ---------------------------------------------------------------------- probe

// zzC06ProbeIn is one (table, query) to evaluate alone: used to reproduce a
// rejected trace observation in isolation and by ./check C06 --replay.
type zzC06ProbeIn struct {
	Tab   []zzC06Entry `json:"tab"`
	H     []string     `json:"h"`
	QT    string       `json:"qt"`
	Query string       `json:"query"`
	// Want are admissible outcomes (direction A records) ...
	Want []zzC06Out `json:"want"`
	// ... or Expect are admissible projections (trace records).
	Expect []struct {
		R     string   `json:"r"`
		Canon []string `json:"canon"`
		IPs   []string `json:"ips"`
	} `json:"expect"`
}

// TestZZVerifC06Probe evaluates every input line alone on a fresh filter.
func TestZZVerifC06Probe(t *testing.T) {
	w := zzNewWriter(t, "VERIF_OUT")
	defer w.close()

	conc := zzC06NewConc(zzSeed())
	dataDir := t.TempDir()
	i := 0
	zzReadNDJSON(t, "VERIF_IN", func(line []byte) {
		in := &zzC06ProbeIn{}
		if err := json.Unmarshal(line, in); err != nil {
			t.Fatalf("bad probe: %v", err)
		}

		i++
		if in.Query == "" {
			in.Query = zzC06Name(in.H)
		}

		want := in.Want
		for _, e := range in.Expect {
			ips := append([]string{}, e.IPs...)
			sort.Strings(ips)
			want = append(want, zzC06Out{R: e.R, Canon: e.Canon, IPs: ips})
		}

		order := make([]int, len(in.Tab))
		for j := range order {
			order[j] = j
		}

		typ := zzC06QTypes[in.QT]
		var got zzC06Got
		fin := zzC06Watch(20*time.Second, func() {
			d, err := conc.filter(dataDir, in.Tab, order)
			if err != nil {
				got = zzC06Got{R: "error", Err: err.Error(), IPs: []string{}}

				return
			}
			defer d.Close()

			res, err := d.CheckHost(in.Query, typ, zzC06Setts)
			got = conc.project(&res, err)
		})
		if !fin {
			w.put(map[string]any{"i": i, "admissible": false, "hang": true, "got": "no result within 20s"})

			return
		}

		exp := []map[string]any{}
		for _, o := range want {
			exp = append(exp, map[string]any{"r": o.R, "canon": zzC06Name(o.Canon), "ips": o.IPs})
		}

		w.put(map[string]any{
			"i": i, "admissible": zzC06Admissible(want, &got), "hang": false, "got": got, "expected": exp,
		})
	})
}

// ------------------------------------------------------------------ histories

// zzC06Live is one filter that lives on while its table is edited through the
// HTTP handlers the filter registers itself.
type zzC06Live struct {
	conc *zzC06Conc
	d    *DNSFilter
	// conf is the object the filter was created with; as in package home it is
	// also what the configuration is written into on every save.
	conf  *Config
	h     map[string]http.HandlerFunc
	saves int
}

// save writes the configuration the way home.(*configuration).write does.
func (l *zzC06Live) save() {
	l.saves++
	l.d.WriteDiskConfig(l.conf)
}

func zzC06NewLive(conc *zzC06Conc, dataDir string) (l *zzC06Live, err error) {
	l = &zzC06Live{conc: conc, h: map[string]http.HandlerFunc{}}
	conf := &Config{
		DataDir: dataDir,
		// home.onConfigModified -> config.write -> filters.WriteDiskConfig.
		ConfigModified: func() { l.save() },
		HTTPRegister: func(method, url string, h http.HandlerFunc) {
			l.h[method+" "+url] = h
		},
	}

	l.conf = conf
	if l.d, err = New(conf, nil); err != nil {
		return nil, err
	}

	l.d.RegisterFilteringHandlers()
	for _, k := range []string{
		"POST /control/rewrite/add", "POST /control/rewrite/delete", "PUT /control/rewrite/update",
		"GET /control/rewrite/list",
	} {
		if l.h[k] == nil {
			return nil, fmt.Errorf("handler %q is not registered", k)
		}
	}

	return l, nil
}

func (l *zzC06Live) call(key string, body any) (code int, resp string) {
	b, _ := json.Marshal(body)
	parts := strings.SplitN(key, " ", 2)
	r := httptest.NewRequest(parts[0], parts[1], bytes.NewReader(b))
	r.Header.Set("Content-Type", "application/json")
	w := httptest.NewRecorder()
	l.h[key](w, r)

	return w.Code, w.Body.String()
}

type zzC06RWJSON struct {
	Domain string `json:"domain"`
	Answer string `json:"answer"`
}

func (l *zzC06Live) rw(e *zzC06Entry) (j zzC06RWJSON) {
	rw := l.conc.rewrite(e)

	return zzC06RWJSON{Domain: rw.Domain, Answer: rw.Answer}
}

// zzC06Step is one edit.
type zzC06Step struct {
	Act string     `json:"act"`
	A   zzC06Entry `json:"a"`
	B   zzC06Entry `json:"b"`
	// QS are the queries asked after the step (probe input only).
	QS [][]json.RawMessage `json:"qs,omitempty"`
}

func (st *zzC06Step) text(l *zzC06Live) (s string) {
	a := l.rw(&st.A)
	if st.Act == "save" {
		return "save"
	}

	s = st.Act + " " + a.Domain + " -> " + a.Answer
	if st.Act == "upd" {
		b := l.rw(&st.B)
		s += " => " + b.Domain + " -> " + b.Answer
	}

	return s
}

// edit performs the step through the API; ok is whether the call succeeded.
func (l *zzC06Live) edit(st *zzC06Step) (ok bool, err error) {
	var code int
	var body string
	switch st.Act {
	case "save":
		l.save()

		return true, nil
	case "add":
		code, body = l.call("POST /control/rewrite/add", l.rw(&st.A))
	case "del":
		code, body = l.call("POST /control/rewrite/delete", l.rw(&st.A))
	case "upd":
		code, body = l.call("PUT /control/rewrite/update", map[string]any{"target": l.rw(&st.A), "update": l.rw(&st.B)})
	default:
		return false, fmt.Errorf("bad act %q", st.Act)
	}

	switch code {
	case http.StatusOK:
		return true, nil
	case http.StatusBadRequest:
		return false, nil
	default:
		return false, fmt.Errorf("%s: unexpected status %d %s", st.Act, code, body)
	}
}

func (l *zzC06Live) list() (rws []zzC06RWJSON, err error) {
	code, body := l.call("GET /control/rewrite/list", nil)
	if code != http.StatusOK {
		return nil, fmt.Errorf("list: %d %s", code, body)
	}

	err = json.Unmarshal([]byte(body), &rws)

	return rws, err
}

// sameList: the API lists exactly tab (patterns normalised to lower case).
func (l *zzC06Live) sameList(tab []zzC06Entry) (err error) {
	got, err := l.list()
	if err != nil {
		return err
	} else if len(got) != len(tab) {
		return fmt.Errorf("list has %d entries, want %d", len(got), len(tab))
	}

	for i := range tab {
		w := l.rw(&tab[i])
		// (the letter case in which a canonical name is stored is immaterial)
		if got[i].Domain != strings.ToLower(w.Domain) || !strings.EqualFold(got[i].Answer, w.Answer) {
			return fmt.Errorf("list differs at %d: %v, want %v", i, got[i], w)
		}
	}

	return nil
}

// ask evaluates all queries on the live filter under the watchdog.
func (l *zzC06Live) ask(qs []zzC06Query, base int, bound time.Duration) (got []zzC06Got, fin bool) {
	res := make(chan []zzC06Got, 1)
	fin = zzC06Watch(bound, func() {
		mine := make([]zzC06Got, len(qs))
		for i, q := range qs {
			cres, cerr := l.d.CheckHost(zzC06Spell(zzC06Name(q.h), base+i), zzC06QTypes[q.qt], zzC06Setts)
			mine[i] = l.conc.project(&cres, cerr)
		}
		res <- mine
	})
	if fin {
		got = <-res
	}

	return got, fin
}

type zzC06HistLine struct {
	Hdr int               `json:"hdr"`
	K   string            `json:"k"`
	ID  int               `json:"id"`
	T   []json.RawMessage `json:"t"`
	V   []json.RawMessage `json:"v"`
	VK  []json.RawMessage `json:"vk"`
	Act string            `json:"act"`
	A   json.RawMessage   `json:"a"`
	B   json.RawMessage   `json:"b"`
	OK  bool              `json:"ok"`
	Dst int               `json:"dst"`
}

func zzC06DecodeEntry(hdr *zzC06Header, raw json.RawMessage) (e zzC06Entry, err error) {
	var tup []any
	if err = json.Unmarshal(raw, &tup); err != nil {
		return e, err
	} else if len(tup) == 0 {
		return zzC06Entry{N: []string{}, T: []string{}}, nil
	} else if len(tup) != 5 {
		return e, fmt.Errorf("bad entry %s", raw)
	}

	name := func(i int) (n []string) {
		if i <= 0 || i > len(hdr.Names) {
			return []string{}
		}

		return hdr.Names[i-1]
	}

	return zzC06Entry{
		W: tup[0].(float64) == 1, N: name(int(tup[1].(float64))), K: tup[2].(string), IP: tup[3].(string),
		T: name(int(tup[4].(float64))),
	}, nil
}

func zzC06QueryPairs(qs []zzC06Query) (ps [][]any) {
	for _, q := range qs {
		ps = append(ps, []any{q.h, q.qt})
	}

	return ps
}

// zzC06Rehearse replays a history (edits with all queries after each) on a
// fresh filter and evaluates the last query alone: the isolation run for a
// disagreement that may depend on the history.
func zzC06Rehearse(
	conc *zzC06Conc,
	dataDir string,
	hist []zzC06Step,
	qs []zzC06Query,
	q zzC06Query,
	spell int,
) (g zzC06Got, conc2 string, fin bool, err error) {
	l, err := zzC06NewLive(conc, dataDir)
	if err != nil {
		return g, "", true, err
	}

	conc2 = zzC06Spell(zzC06Name(q.h), spell)
	var res zzC06Got
	fin = zzC06Watch(30*time.Second, func() {
		for i := range hist {
			if _, eerr := l.edit(&hist[i]); eerr != nil {
				res = zzC06Got{R: "error", Err: eerr.Error(), IPs: []string{}}

				return
			}

			if i < len(hist)-1 {
				for j, x := range qs {
					_, _ = l.d.CheckHost(zzC06Spell(zzC06Name(x.h), i+j), zzC06QTypes[x.qt], zzC06Setts)
				}
			}
		}

		cres, cerr := l.d.CheckHost(conc2, zzC06QTypes[q.qt], zzC06Setts)
		res = conc.project(&cres, cerr)
	})
	if fin {
		g = res
		l.d.Close()
	}

	return g, conc2, fin, nil
}

// TestZZVerifC06History is direction A for histories: the walk computed by the
// orchestrator over the edges of the edit machine (Rewrites.tla, Mode "hist")
// is performed on one live filter; after every edit the listed table must be
// the destination table and every query must be admissible for it.
func TestZZVerifC06History(t *testing.T) {
	w := zzNewWriter(t, "VERIF_OUT")
	defer w.close()

	conc := zzC06NewConc(zzSeed())
	dataDir := t.TempDir()

	var hdr *zzC06Header
	var qs []zzC06Query
	states := map[int]*zzC06Vec{}
	var l *zzC06Live
	var hist []zzC06Step
	steps, resets, evals, bad, hangs, flaky, setup := 0, 0, 0, 0, 0, 0, 0
	devs := map[string]int{}
	stop := false
	zzReadNDJSON(t, "VERIF_IN", func(line []byte) {
		if stop {
			return
		}

		ln := &zzC06HistLine{}
		if err := json.Unmarshal(line, ln); err != nil {
			t.Fatalf("bad line: %v", err)
		}

		switch {
		case ln.Hdr == 1:
			hdr = &zzC06Header{}
			if err := json.Unmarshal(line, hdr); err != nil {
				t.Fatalf("bad header: %v", err)
			}

			for _, qi := range hdr.QNames {
				for _, qt := range []string{"A", "AAAA", "TXT"} {
					qs = append(qs, zzC06Query{h: hdr.Names[qi-1], qt: qt})
				}
			}

			return
		case ln.K == "state":
			v, err := zzC06Decode(hdr, &zzC06RawVec{T: ln.T, V: ln.V, VK: ln.VK, O: 1})
			if err != nil {
				t.Fatalf("decoding state: %v", err)
			}

			states[ln.ID] = v

			return
		case ln.K == "reset":
			if l != nil {
				l.d.Close()
			}

			var err error
			if l, err = zzC06NewLive(conc, dataDir); err != nil {
				t.Fatalf("new filter: %v", err)
			}

			hist = nil
			resets++

			return
		case ln.K != "step":
			t.Fatalf("bad line kind %q", ln.K)
		}

		st := zzC06Step{Act: ln.Act}
		var err error
		if st.A, err = zzC06DecodeEntry(hdr, ln.A); err != nil {
			t.Fatalf("decoding a: %v", err)
		} else if st.B, err = zzC06DecodeEntry(hdr, ln.B); err != nil {
			t.Fatalf("decoding b: %v", err)
		}

		dst := states[ln.Dst]
		if dst == nil || l == nil {
			t.Fatalf("step before its state or before a reset")
		}

		steps++
		hist = append(hist, st)
		ok, err := l.edit(&st)
		if err == nil && ok != ln.OK {
			err = fmt.Errorf("%s: succeeded=%v, the model says %v", st.text(l), ok, ln.OK)
		}

		if err == nil {
			err = l.sameList(dst.Tab)
		}

		if err != nil {
			// The model of the API is not what the code does: not a verdict
			// about rewrites.
			setup++
			stop = true
			w.put(map[string]any{"kind": "setup", "err": err.Error(), "step": st.text(l)})

			return
		}

		got, fin := l.ask(qs, steps, 5*time.Second)
		for i, q := range qs {
			want := zzC06Wanted(dst, q, false)
			evals++
			if fin && zzC06Admissible(want, &got[i]) {
				continue
			}

			// (known deviations: the first few of each kind are reproduced
			// and recorded, the others counted)
			dev := ""
			if fin {
				dev = zzC06Deviation(dst, q, false, &got[i])
			}

			if dev != "" {
				devs[dev]++
				if devs[dev] > 20 {
					continue
				}
			}

			// Reproduce: the same history on a fresh filter, this query last.
			g2, name, fin2, rerr := zzC06Rehearse(conc, dataDir, hist, qs, q, steps+i)
			if rerr != nil {
				t.Fatalf("rehearsing: %v", rerr)
			}

			texts := []string{}
			for j := range hist {
				texts = append(texts, hist[j].text(l))
			}

			rec := map[string]any{
				"steps": hist, "history": texts, "qs": zzC06QueryPairs(qs), "h": q.h, "qt": q.qt, "query": name,
				"want": want, "table": l.concreteTab(dst.Tab), "seed": zzSeed(),
			}
			if fin2 {
				rec["deviation"] = zzC06Deviation(dst, q, false, &g2)
			}

			switch {
			case !fin2:
				hangs++
				rec["kind"], rec["got"] = "hang", "no result within 30s"
			case zzC06Admissible(want, &g2):
				if !fin {
					continue
				}

				flaky++
				rec["kind"], rec["got"], rec["first"] = "flaky", g2, got[i]
			default:
				rec["kind"], rec["got"] = "bad", g2
				if rec["deviation"] == "" {
					bad++
				}
			}

			w.put(rec)
			if !fin2 || bad >= 10 {
				stop = true

				return
			}
		}

		if !fin {
			// The filter is spinning: it cannot be edited any more.
			stop = true
		}
	})

	w.put(map[string]any{
		"kind": "summary", "steps": steps, "resets": resets, "evals": evals, "bad": bad, "hangs": hangs,
		"flaky": flaky, "setup_errors": setup, "aborted": stop, "deviations": devs,
	})
}

func (l *zzC06Live) concreteTab(tab []zzC06Entry) (lines []string) {
	lines = []string{}
	for i := range tab {
		rw := l.rw(&tab[i])
		lines = append(lines, rw.Domain+" -> "+rw.Answer)
	}

	return lines
}

// zzC06HistProbeIn is a history to rehearse and a final query with what is
// admissible for it.
type zzC06HistProbeIn struct {
	Steps  []zzC06Step         `json:"steps"`
	QS     [][]json.RawMessage `json:"qs"`
	H      []string            `json:"h"`
	QT     string              `json:"qt"`
	Query  string              `json:"query"`
	Want   []zzC06Out          `json:"want"`
	Expect []struct {
		R     string   `json:"r"`
		Canon []string `json:"canon"`
		IPs   []string `json:"ips"`
	} `json:"expect"`
}

func zzC06PairsToQueries(ps [][]json.RawMessage) (qs []zzC06Query, err error) {
	for _, p := range ps {
		q := zzC06Query{}
		if len(p) != 2 {
			return nil, fmt.Errorf("bad query pair")
		} else if err = json.Unmarshal(p[0], &q.h); err != nil {
			return nil, err
		} else if err = json.Unmarshal(p[1], &q.qt); err != nil {
			return nil, err
		}

		qs = append(qs, q)
	}

	return qs, nil
}

// TestZZVerifC06HistProbe rehearses every input line on a fresh filter: the
// edits, the queries that were asked after each of them, the final query.
func TestZZVerifC06HistProbe(t *testing.T) {
	w := zzNewWriter(t, "VERIF_OUT")
	defer w.close()

	conc := zzC06NewConc(zzSeed())
	dataDir := t.TempDir()
	i := 0
	zzReadNDJSON(t, "VERIF_IN", func(line []byte) {
		in := &zzC06HistProbeIn{}
		if err := json.Unmarshal(line, in); err != nil {
			t.Fatalf("bad probe: %v", err)
		}

		i++
		if in.Query == "" {
			in.Query = zzC06Name(in.H)
		}

		want := in.Want
		for _, e := range in.Expect {
			ips := append([]string{}, e.IPs...)
			sort.Strings(ips)
			want = append(want, zzC06Out{R: e.R, Canon: e.Canon, IPs: ips})
		}

		common, err := zzC06PairsToQueries(in.QS)
		if err != nil {
			t.Fatalf("bad probe queries: %v", err)
		}

		l, err := zzC06NewLive(conc, dataDir)
		if err != nil {
			t.Fatalf("new filter: %v", err)
		}

		var got zzC06Got
		fin := zzC06Watch(30*time.Second, func() {
			for j := range in.Steps {
				st := &in.Steps[j]
				if _, eerr := l.edit(st); eerr != nil {
					got = zzC06Got{R: "error", Err: eerr.Error(), IPs: []string{}}

					return
				}

				qs := common
				if len(st.QS) > 0 {
					qs, _ = zzC06PairsToQueries(st.QS)
				}

				if j < len(in.Steps)-1 {
					for _, x := range qs {
						_, _ = l.d.CheckHost(zzC06Name(x.h), zzC06QTypes[x.qt], zzC06Setts)
					}
				}
			}

			res, cerr := l.d.CheckHost(in.Query, zzC06QTypes[in.QT], zzC06Setts)
			got = conc.project(&res, cerr)
		})
		if !fin {
			w.put(map[string]any{"i": i, "admissible": false, "hang": true, "got": "no result within 30s"})

			return
		}

		l.d.Close()
		exp := []map[string]any{}
		for _, o := range want {
			exp = append(exp, map[string]any{"r": o.R, "canon": zzC06Name(o.Canon), "ips": o.IPs})
		}

		w.put(map[string]any{
			"i": i, "admissible": zzC06Admissible(want, &got), "hang": false, "got": got, "expected": exp,
		})
	})
}

// zzC06Abstract reads an entry back from what the API lists.
func zzC06Abstract(rw zzC06RWJSON) (e zzC06Entry) {
	e = zzC06Entry{N: []string{}, T: []string{}}
	dom := rw.Domain
	if strings.HasPrefix(dom, "*.") {
		e.W, dom = true, dom[2:]
	}

	e.N = strings.Split(dom, ".")
	switch rw.Answer {
	case "A", "AAAA":
		e.K = rw.Answer

		return e
	}

	if a, err := netip.ParseAddr(rw.Answer); err == nil {
		e.K, e.IP = "ip6", a.String()
		if a.Is4() {
			e.K = "ip4"
		}

		return e
	}

	e.K, e.T = "cname", strings.Split(rw.Answer, ".")

	return e
}

// zzC06BEntry draws one entry over the pool (lower case: histories vary the
// table, not the spelling).
func zzC06BEntry(rng *rand.Rand, pool [][]string) (e zzC06Entry) {
	pick := func() (n []string) { return pool[rng.Intn(len(pool))] }
	e = zzC06Entry{W: rng.Intn(5) < 2, N: pick(), T: []string{}}
	switch k := rng.Intn(20); {
	case k < 6:
		e.K, e.IP = "ip4", zzC06BPick(rng, zzC06BV4)
	case k < 9:
		e.K, e.IP = "ip6", zzC06BPick(rng, zzC06BV6)
	case k < 10:
		e.K = "A"
	case k < 11:
		e.K = "AAAA"
	case k < 12:
		e.K = "cname"
		if e.W {
			e.T = append([]string{"*"}, e.N...)
		} else {
			e.T = e.N
		}
	case k < 18:
		e.K, e.T = "cname", pick()
	default:
		e.K, e.T = "cname", zzC06BSub(rng, pick())
	}

	return e
}

// TestZZVerifC06HistTrace is direction B for histories: random edit sequences
// (add, delete, update in place; existing and absent targets) on one live
// filter with 8-16 entries; after every edit a dozen queries, half of which
// were asked before.  Logged: the edit, whether the call succeeded, the table
// the API lists afterwards, the observations.
func TestZZVerifC06HistTrace(t *testing.T) {
	w := zzNewWriter(t, "VERIF_OUT")
	defer w.close()

	rng := rand.New(rand.NewSource(zzSeed() + 104729))
	conc := zzC06NewConc(zzSeed())
	dataDir := t.TempDir()
	runs, edits := 4, 60
	if zzGetenv("VERIF_TIER") == "thorough" {
		runs, edits = 20, 120
	}

	type query struct {
		h     []string
		qt    string
		spell int
	}

	for r := 0; r < runs; r++ {
		l, err := zzC06NewLive(conc, dataDir)
		if err != nil {
			t.Fatalf("new filter: %v", err)
		}

		pool := [][]string{}
		for i := 0; i < 5; i++ {
			n := zzC06BName(rng)
			pool = append(pool, n, zzC06BSub(rng, n))
		}

		w.put(map[string]any{"lvl": "hist", "ev": "reset", "qs": []any{}, "list": []any{}})
		var asked []query
		cur := []zzC06Entry{}
		for i := 0; i < edits; i++ {
			st := zzC06Step{A: zzC06BEntry(rng, pool), B: zzC06BEntry(rng, pool)}
			switch k := rng.Intn(10); {
			case len(cur) >= 8 && rng.Intn(8) == 0:
				st.Act = "save"
			case len(cur) < 8 || k < 3 && len(cur) < 16:
				st.Act = "add"
				if len(cur) > 0 && rng.Intn(8) == 0 {
					st.A = cur[rng.Intn(len(cur))]
				}
			case k < 5:
				st.Act = "del"
				if rng.Intn(5) > 0 {
					st.A = cur[rng.Intn(len(cur))]
				}
			default:
				st.Act = "upd"
				if rng.Intn(8) > 0 {
					st.A = cur[rng.Intn(len(cur))]
				}

				if rng.Intn(3) == 0 {
					// Same pattern, another answer.
					st.B.W, st.B.N = st.A.W, st.A.N
					if st.B.K == "cname" && len(st.B.T) > 0 && st.B.T[0] == "*" {
						st.B.K, st.B.IP, st.B.T = "ip4", zzC06BV4[0], []string{}
					}
				}
			}

			ok, eerr := l.edit(&st)
			if eerr != nil {
				t.Fatalf("edit: %v", eerr)
			}

			rws, lerr := l.list()
			if lerr != nil {
				t.Fatalf("list: %v", lerr)
			}

			cur = cur[:0]
			for _, rw := range rws {
				cur = append(cur, zzC06Abstract(rw))
			}

			qs := []query{}
			for j := 0; j < 12; j++ {
				if j < 6 && len(asked) > 0 {
					qs = append(qs, asked[rng.Intn(len(asked))])

					continue
				}

				q := query{qt: []string{"A", "AAAA", "TXT"}[rng.Intn(3)], spell: rng.Intn(3)}
				switch k := rng.Intn(6); {
				case k < 2:
					q.h = pool[rng.Intn(len(pool))]
				case k < 4 && len(cur) > 0:
					e := cur[rng.Intn(len(cur))]
					q.h = e.N
					if e.W {
						q.h = zzC06BSub(rng, e.N)
					}
				case k < 5:
					q.h = zzC06BSub(rng, pool[rng.Intn(len(pool))])
				default:
					q.h = zzC06BName(rng)
				}

				qs = append(qs, q)
				asked = append(asked, q)
				if len(asked) > 60 {
					asked = asked[1:]
				}
			}

			obs := []zzC06BObs{}
			res := make(chan []zzC06BObs, 1)
			fin := zzC06Watch(20*time.Second, func() {
				mine := []zzC06BObs{}
				for _, q := range qs {
					name := zzC06Spell(zzC06Name(q.h), q.spell)
					cres, cerr := l.d.CheckHost(name, zzC06QTypes[q.qt], zzC06Setts)
					g := conc.project(&cres, cerr)
					o := zzC06BObs{H: q.h, QT: q.qt, R: g.R, Canon: []string{}, IPs: g.IPs, Query: name}
					if g.Canon != "" {
						o.Canon = strings.Split(g.Canon, ".")
					}

					mine = append(mine, o)
				}
				res <- mine
			})
			if fin {
				obs = <-res
			} else {
				obs = append(obs, zzC06BObs{
					H: qs[0].h, QT: qs[0].qt, R: "hang", Canon: []string{}, IPs: []string{},
					Query: zzC06Name(qs[0].h),
				})
			}

			w.put(map[string]any{
				"lvl": "hist", "ev": st.Act, "a": st.A, "b": st.B, "ok": ok, "list": cur, "qs": obs,
				"text": st.text(l),
			})
			if !fin {
				return
			}
		}

		l.d.Close()
	}
}
