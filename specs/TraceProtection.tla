-------------------------- MODULE TraceProtection --------------------------
(***************************************************************************)
(* Direction B for G04.  Each line of the trace is one step of a seeded    *)
(* random timed history driven through the real handlers (POST             *)
(* /control/protection, POST /control/dns_config, GET /control/dns_info,   *)
(* GET /control/status), Server.handleDNSRequest, the write-back worker    *)
(* and restarts through the YAML configuration; time in milliseconds since *)
(* the origin of the history; pause durations from 1 ms to days, "big"     *)
(* (representable, beyond every horizon) and "huge" (not representable).   *)
(* A line carries the action, the reply and the projected stored state     *)
(* (flag, deadline, worker pending; and what the file holds) before and    *)
(* after it; it is accepted iff Protection.tla's own outcome operators     *)
(* admit it.  Consecutive lines must be continuous (pre = previous post,   *)
(* clock advanced by ticks only), so accepting every line of a history is  *)
(* accepting the history.                                                  *)
(*                                                                         *)
(* An observation (info / status / query) with ran = TRUE was made with    *)
(* the real worker goroutine free to run: if the observation started the   *)
(* worker, the worker has run to completion and the line is the            *)
(* composition of the observation and the worker step.                     *)
(***************************************************************************)
EXTENDS Integers, Sequences, FiniteSets, TLC, Json

Trace == ndJsonDeserialize("trace.ndjson")

\* How the harness writes "forever" (a deadline beyond its horizon).
Horizon == 2000000000

\* Protection.tla's operators; its state variables are not used here.
P == INSTANCE Protection WITH MaxD <- 0, MaxTick <- 1, Kinds <- {}, AsBuilt <- {},
                              mode <- "", until <- 0, pend <- FALSE, clock <- 0, g <- <<>>, out <- <<>>

VARIABLES l, bad, off

\* The stored pair of the code -> a state of the spec.  A set flag together
\* with a deadline still ahead, a deadline before the origin or one that is
\* no instant of the trace have no counterpart.  (Once the deadline is
\* reached the flag beside it has no say any more: the pair stands for the
\* pause that is over, whatever the flag.)
Valid(o, now) == (o.u = 0 \/ (o.u > 0 /\ (~o.en \/ o.u <= now)))
St(o) == [mode  |-> IF o.u # 0 THEN "paused" ELSE IF o.en THEN "on" ELSE "off",
          until |-> IF o.u = Horizon THEN P!Forever ELSE o.u,
          pend  |-> o.w]

U(u) == IF u = Horizon THEN P!Forever ELSE u

Dur(L) == IF L.dk = "big" THEN P!Big ELSE IF L.dk = "huge" THEN P!Huge ELSE L.d

\* After an observation that left the spec in `mid`: nothing more, or (ran)
\* the worker has run if this observation started it.
Follows(pre, mid, post, ran, now) ==
    IF ran /\ ~pre.pend /\ mid.pend THEN post \in P!WorkerOutcomes(mid, now)
    ELSE post = mid

LineOk(i) ==
    LET L    == Trace[i]
        pre  == St(L.pre)
        post == St(L.post)
    IN
    /\ Valid(L.pre, L.now) /\ Valid(L.post, L.now)
    \* What the file holds is what memory holds: a restart changes nothing.
    /\ L.disk.en = L.post.en /\ L.disk.u = L.post.u
    /\ CASE L.k = "reset"   -> pre = post /\ ~pre.pend /\ pre.mode \in {"on", "off"} /\ L.now = 0
         [] L.k = "set"     -> \E o \in P!SetOutcomes(pre, L.en, Dur(L), L.now) : o.res = L.res /\ o.st = post
         [] L.k = "flag"    -> \E o \in P!FlagOutcomes(pre, L.en, L.now) : o.res = L.res /\ o.st = post
         [] L.k = "info"    -> \E o \in P!InfoOutcomes(pre, L.now) :
                                   o.en = L.ren /\ o.until = U(L.ru) /\ Follows(pre, o.st, post, L.ran, L.now)
         [] L.k = "status"  -> \E o \in P!StatusOutcomes(pre, L.now) :
                                   o.en = L.ren /\ o.rem = U(L.ru) /\ Follows(pre, o.st, post, L.ran, L.now)
         [] L.k = "query"   -> \E o \in P!QueryOutcomes(pre, L.kind, L.now) :
                                   o.res = L.res /\ Follows(pre, o.st, post, L.ran, L.now)
         [] L.k = "worker"  -> pre.pend /\ post \in P!WorkerOutcomes(pre, L.now)
         [] L.k = "restart" -> post = P!RestartOutcome(pre)
         [] L.k = "tick"    -> L.d >= 1 /\ post = pre
         [] OTHER           -> FALSE
    /\ (i > 1 /\ L.k # "reset" =>
          LET Q == Trace[i - 1] IN
          /\ Q.tr = L.tr
          /\ L.pre = Q.post
          /\ L.now = Q.now + (IF L.k = "tick" THEN L.d ELSE 0))
    /\ (i = 1 => L.k = "reset")

\* Only the first rejected line of a history is recorded: after it the
\* history is off the specification (its later lines start from a state the
\* specification does not have), and the orchestrator ends the history there.
Init == l = 1 /\ bad = {} /\ off = -1
Next == /\ l <= Len(Trace)
        /\ LET ok == LineOk(l) \/ Trace[l].tr = off IN
           /\ bad' = IF ok THEN bad ELSE bad \cup {l}
           /\ off' = IF ok THEN off ELSE Trace[l].tr
        /\ l' = l + 1
        /\ (l' = Len(Trace) + 1 => PrintT(<<"@@V", ToJson([n |-> Len(Trace), bad |-> bad'])>>))
Spec == Init /\ [][Next]_<<l, bad, off>>
=============================================================================
