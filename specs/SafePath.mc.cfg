SPECIFICATION Spec
CONSTANT Mode = "mc"
INVARIANTS SafeInv OnlyTheNamedFile NoForeignScheme SpellingIrrelevant MemoOK
PROPERTIES PatternsFixedAtStart
