"""C13 -- config upgrade: no panic, reaches the current schema, path-independent.

Loop (DESIGN.md section 4 C13, notes/C13.md):
  1. harness abs(): golden inputs of /repo -> baselines.ndjson (cells)
  2. TLC Migrate.tla: every (version, single deviation) [+ pairs in thorough];
     invariants of the statement on the spec; one vector per document with the
     admissible outcome set
  3. harness replay: real Migrator.Migrate one-shot and split at k, panics
     recovered, result matched against the admissible shapes
  4. direction B: seeded multi-deviation documents proposed by the harness,
     evaluated by TraceMigrate.tla, replayed the same way
  5. loader acceptance of the upgraded golden documents (package home)
"""
import json
import os
import random
import re
import vlib

PKG = "internal/configmigrate"
FILES = ["zz_verif_common_test.go", "zz_verif_c13_test.go"]
HOME_PKG = "internal/home"
HOME_FILES = ["zz_verif_common_test.go", "zz_verif_c13_test.go"]
LAST = 29

FLOAT_KINDS = {"fdot", "fexp", "ftag", "fnegzero"}
ML_KINDS = {"tabml", "nlonly", "nl2", "leadnl", "mllist"}
SECTIONS = {"coredns", "dns", "dhcp", "dhcp.dhcpv4", "clients", "querylog", "statistics", "http", "log",
            "filtering", "os"}


def classify(rec):
    """Narrow key of a reproduced disagreement, or None."""
    if (rec.get("symptom") == "panic" and "assignment to entry in nil map" in rec.get("got", "")
            and any(d["d"] == "null" and d["k"] in SECTIONS for d in rec.get("devs", []))):
        return "null-section-nil-map-panic"
    if (rec.get("symptom") == "panic" and "assignment to entry in nil map" in rec.get("got", "")
            and rec.get("devs") in ([{"k": "@doc", "d": "null"}], [{"k": "@doc", "d": "tilde"}])):
        return "null-document-nil-map-panic"
    kinds = {d["d"] for d in rec.get("devs") or []}
    text = rec.get("what", "") + " " + rec.get("got", "")
    if (kinds & FLOAT_KINDS and rec.get("symptom") in ("unexpected-error", "path-dependent")
            and "float64" in text):
        return "integral-float-path-dependent"
    if "indnl" in kinds and rec.get("symptom") in ("shape", "path-dependent"):
        return "guard-passes-lossy-indented-block-scalar"
    if kinds & ML_KINDS and (rec.get("symptom") in ("unparsable", "shape")
                             or (rec.get("symptom") == "path-dependent" and "parsing config file" in text)):
        return "unreadable-block-scalar"
    return None


def baselines(ctx):
    """abs() of the golden files and, in the same go test run, the seeded
    direction-B proposals."""
    out, tprop = ctx.path("baselines.ndjson"), ctx.path("c13_trace.ndjson")
    rc, o = ctx.go_test(PKG, FILES, "^(TestZZVerifC13Baselines|TestZZVerifC13Trace)$",
                        env={"VERIF_OUT": out, "VERIF_OUT2": tprop, "VERIF_N": "250" if ctx.quick else "1500"})
    rows = vlib.read_ndjson(out)
    props = vlib.read_ndjson(tprop)
    if rc != 0 or len(rows) != LAST + 1:
        raise vlib.Inconclusive("C13 baseline extraction failed:\n" + o[-3000:])
    if len(props) < 50:
        raise vlib.Inconclusive("C13 trace driver did not complete:\n" + o[-3000:])
    return out, rows, tprop, props


def action_counts(out):
    """{action: generated} from TLC's -coverage output (last report)."""
    counts = {}
    for m in re.finditer(r"^<(\w+) line \d+, col \d+ to line \d+, col \d+ of module \w+>: (\d+):(\d+)", out, re.M):
        counts[m.group(1)] = int(m.group(3))
    return counts


def pick_ks(vec, rng, tier):
    ks = [k for k in vec.get("ks", []) if vec["start"] < k < LAST]
    if not ks:
        return []
    # Below schema 5 every path hashes a password (60 ms): fewer splits there.
    bcrypt = vec["start"] < 5
    if tier == "quick":
        n = (1 if rng.random() < 0.25 else 0) if bcrypt else 3
    else:
        # every split point for a seeded third of the documents, six for the
        # others (the spec establishes path independence for every mixture of
        # partial runs; on the real code a deviation only interacts with the
        # few steps that read its key)
        n = 2 if bcrypt else (len(ks) if rng.random() < 0.34 else 6)
    if n == 0:
        return []
    if len(ks) <= n:
        return ks
    sel = {ks[0]} if tier == "quick" else set()
    sel.update(rng.sample(ks, n - len(sel)))
    return sorted(sel)


def replay_vectors(ctx, vectors, tag):
    vin, vout = ctx.path("c13_%s_in.ndjson" % tag), ctx.path("c13_%s_out.ndjson" % tag)
    vlib.write_ndjson(vin, vectors)
    rc, out = ctx.go_test(PKG, FILES, "^TestZZVerifC13Replay$", env={"VERIF_IN": vin, "VERIF_OUT": vout},
                          timeout=1500)
    rows = vlib.read_ndjson(vout)
    summ = [r for r in rows if r.get("kind") == "summary"]
    if rc != 0 or not summ:
        raise vlib.Inconclusive("C13 replay harness did not complete:\n" + out[-3000:])
    return rows, summ[0]


def report(ctx, rows, by_id, bases, stats):
    for r in rows:
        k = r.get("kind")
        if k == "bad":
            vec = by_id[r["id"]]
            rec = dict(r)
            rec["vec"] = vec
            rec["base"] = bases.get(vec["v"])
            key = classify(r)
            res = ctx.disagreement(key, rec, "%s: v=%d devs=%s split=%s: %s" % (
                r.get("symptom"), r["v"], json.dumps(r["devs"]), r.get("k"), r.get("what")))
            if res == "known":
                stats["truncated_by_known_finding"] += 1
        elif k == "flaky":
            stats["flaky"] += 1
        elif k == "skip":
            stats["skipped"] += 1


def run(ctx):
    rng = random.Random(ctx.seed)
    stats = {"truncated_by_known_finding": 0, "flaky": 0, "skipped": 0}
    bl, blrows, tprop, props = baselines(ctx)
    extra = [(bl, "baselines.ndjson")]

    # ---- direction A: exhaustive single deviations
    # -coverage costs about a third more TLC time: the thorough tier runs
    # with it; the quick tier infers the same from the emitted vectors (a
    # "base" line is printed by PickBase only, a "vec" line by PickSingle only,
    # and both are reachable only through PickVer and PickKey).
    # One TLC run does Migrate.tla's own enumeration and evaluates the
    # direction-B proposals (TraceMigrate.tla EXTENDS Migrate; AllSpec).
    gen = ctx.tlc("TraceMigrate", "TraceMigrate.all.cfg", workers=10 if ctx.quick else 8, timeout=1500,
                  coverage=not ctx.quick, extra_files=extra + [(tprop, "trace.ndjson")])
    if not ctx.quick:
        acts = action_counts(gen["out"])
        for a in ("PickVer", "PickKey", "PickBase", "PickSingle"):
            if acts.get(a, 0) == 0:
                raise vlib.Inconclusive("vacuous: action %s never taken (%s)" % (a, acts))
    vectors = gen["vectors"]
    bases = {v["v"]: v for v in vectors if v["kind"] == "base"}
    docs = sorted([v for v in vectors if v["kind"] == "doc"], key=lambda v: (v["v"], json.dumps(v["devs"])))
    if len(docs) < LAST + 8:
        raise vlib.Inconclusive("too few document-level vectors: %d" % len(docs))
    fams = sorted([v for v in vectors if v["kind"] == "fam"], key=lambda v: (v["v"], json.dumps(v["devs"])))
    if len(fams) < 500 or any(v["err"] or (len(v["oks"]) != 1 and v["start"] != LAST) for v in fams):
        raise vlib.Inconclusive("client-list families: %d vectors, some not valid" % len(fams))
    singles = [v for v in vectors if v["kind"] == "vec"]
    if len(bases) != LAST + 1 or len(singles) < 3000:
        raise vlib.Inconclusive("too few vectors: %d bases, %d deviations" % (len(bases), len(singles)))
    envs = [v for v in singles if v["devs"][0]["k"].startswith("@env.")]
    if len(envs) < 50:
        raise vlib.Inconclusive("too few environment vectors: %d" % len(envs))
    if not any(v["err"] for v in singles) or not any(len(v["oks"]) > 1 for v in singles):
        raise vlib.Inconclusive("vacuous: no vector admits an error / several outcomes")

    singles.sort(key=lambda v: (v["v"], json.dumps(v["devs"])))
    replayed_singles = singles
    if ctx.quick:
        # Below schema 5 every upgrade path hashes a password (bcrypt, 60 ms).
        # A deviation of a key that only steps >= 6 concern is enumerated
        # again on the golden files of schema 5..; the quick tier replays a
        # seeded 15 % of those documents (the thorough tier all of them).
        early = {"schema_version", "auth_name", "auth_pass", "users", "coredns", "dns", "dns.bootstrap_dns",
                 "clients", "zz_extra", "dns.zz_extra"}
        replayed_singles = [v for v in singles if v["start"] >= 5 or v["devs"][0]["k"] in early
                            or v["devs"][0]["k"].startswith("@env.")
                            or v["devs"][0]["k"].startswith("cl0") or rng.random() < 0.15]
    allv = sorted(bases.values(), key=lambda v: v["v"]) + docs + fams + replayed_singles

    # ---- pairs (thorough): all generated for v >= 5, a seeded sample below
    npairs = 0
    if not ctx.quick:
        pr = ctx.tlc("Migrate", "Migrate.pairs.cfg", workers=6, timeout=1500, extra_files=extra)
        pairs = sorted([v for v in pr["vectors"] if v["kind"] == "vec"],
                       key=lambda v: (v["v"], json.dumps(v["devs"])))
        if len(pairs) < 1000:
            raise vlib.Inconclusive("too few pair vectors: %d" % len(pairs))
        low = [v for v in pairs if v["start"] < 5]
        high = [v for v in pairs if v["start"] >= 5]
        rng.shuffle(low)
        sel = high + low[:600]
        for v in sel:
            v["pair"] = True
        npairs = len(sel)
        allv += sel

    # ---- direction B: proposals from the harness, evaluated by TraceMigrate
    tvecs = [v for v in vectors if v["kind"] == "trace"]
    want = {(p["v"], json.dumps(p["devs"], sort_keys=True)) for p in props}
    got = {(v["v"], json.dumps(v["devs"], sort_keys=True)) for v in tvecs}
    if want != got:
        raise vlib.Inconclusive("TraceMigrate evaluated %d of %d proposed documents" % (len(got & want), len(want)))
    tvecs.sort(key=lambda v: (v["v"], json.dumps(v["devs"])))
    for v in tvecs:
        v["trace"] = True
    allv += tvecs

    for i, v in enumerate(allv):
        v["id"] = i
        if v.get("pair") or v.get("trace"):
            ks = [k for k in v.get("ks", []) if v["start"] < k < LAST]
            v["ks"] = sorted(rng.sample(ks, min(len(ks), 1 if v["start"] < 5 else 3)))
        elif v["devs"] and v["devs"][0]["k"].startswith("@env."):
            # the environment matters to steps 1 and 2: split between and after them
            v["ks"] = [k for k in (1, 2) if v["start"] < k]
        else:
            v["ks"] = pick_ks(v, rng, ctx.tier)
    by_id = {v["id"]: v for v in allv}

    rows, summ = replay_vectors(ctx, allv, "a")
    report(ctx, rows, by_id, bases, stats)

    # ---- loader acceptance of upgraded golden documents
    # ... and of every valid document of the record-list families (clients of
    # different shapes in every order, filters in every order, users /
    # rewrites / allow-list filters with records of different shapes).
    def family(v):
        if v["kind"] == "fam":
            return True
        return (v["kind"] == "vec" and len(v["devs"]) == 1 and not v["err"] and len(v["oks"]) == 1
                and (v["devs"][0]["d"] == "recs" or v["devs"][0]["d"].startswith("perm")))
    famdocs = [v for v in allv if family(v)]
    if ctx.quick:
        # parseConfig works on package globals (no parallelism): the quick
        # tier loads a seeded half of the client families (all of them are
        # replayed and shape-checked above), the thorough tier all.
        famdocs = [v for v in famdocs if v["kind"] != "fam" or rng.random() < 0.5]
    loader, loader_fam = loader_check(ctx, famdocs, by_id, bases)

    if stats["skipped"] > len(allv) // 10:
        raise vlib.Inconclusive("too many skipped vectors: %d" % stats["skipped"])

    def nontrivial(v):
        return v["kind"] == "fam" or v["kind"] in ("vec", "doc") and (v["err"] or len(v["oks"]) > 1 or v["start"] != v["v"])

    samples = [{k: singles[i][k] for k in ("v", "devs", "err", "start")} | {"n_admissible_shapes": len(singles[i]["oks"])}
               for i in (0, len(singles) // 2, len(singles) - 1)]
    samples.append({"trace_proposal": props[0]})
    cov = {
        "traces_validated_against_impl": summ["n"],
        "evaluations": summ["paths"],
        "vectors_generated": len(vectors) + (npairs and len(pairs)) + len(tvecs),
        "vectors_replayed": summ["n"],
        "single_deviation_vectors": len(singles), "single_deviation_vectors_replayed": len(replayed_singles),
        "baseline_vectors": len(bases), "document_level_vectors": len(docs),
        "pair_vectors_replayed": npairs, "trace_documents": len(tvecs),
        "migrate_calls_paths": summ["paths"],
        "distinct_nontrivial": sum(1 for v in allv if nontrivial(v)),
        "rule": "one vector per (golden version, deviation set); evaluations = real one-shot and split upgrade paths "
                "run; non-trivial = the spec admits an error or several result shapes, or the stamp deviates "
                "(a null/mistyped/absent key that a later step reads)",
        "loader_accepted": loader, "loader_accepted_family_documents": loader_fam,
        "client_family_vectors": len(fams), "environment_vectors": len(envs),
        # Every enumerated document is replayed in both tiers; the split
        # points are all replayed only for documents starting at schema >= 5
        # in the thorough tier (below 5 every path costs a bcrypt hash).
        "exhaustive": False,
        "exhaustive_documents": "thorough: every single-deviation document and baseline is replayed, pair documents "
                                "starting below schema 5 are a seeded sample of 600; quick: below schema 5 a seeded "
                                "15 % of the documents whose deviation only steps >= 6 concern",
        "split_points": "thorough: all k for a seeded third of the documents starting at schema >= 5 and 6 seeded k "
                        "for the others, 2 seeded k below schema 5; "
                        "quick: 3 seeded k (one k for a quarter of the documents below schema 5)",
        "samples": samples,
    }
    cov.update(stats)
    return ctx.finish("model_checking", cov, assumptions=[
        "TLC; abs()/conc()/eval of symbolic cells in zz_verif_c13_test.go; golden inputs of the repository define "
        "'valid under its own schema' (schema 27 has no golden file: derived from the schema-28 input)",
        "value-level behaviour of single steps not modelled: QUIC port defaulting (step 10) is not compared; "
        "the client list is tracked element-wise for up to three elements (families of 2-3 clients of "
        "different shapes in every order); other record lists are opaque values compared by deep equality",
        "loader acceptance is checked by the harness (real home.parseConfig) for the golden documents and for every "
        "valid document of the record-list families, not decided by the spec"])


def loader_check(ctx, famdocs, by_id, bases):
    hdir = os.path.join(vlib.HARNESS, HOME_PKG)
    if not os.path.exists(os.path.join(hdir, "zz_verif_c13_test.go")):
        return None, None
    env = {"VERIF_OUT": ctx.path("c13_loader.ndjson")}
    if famdocs:
        vin, rendered = ctx.path("c13_fam_in.ndjson"), ctx.path("c13_fam_docs.ndjson")
        vlib.write_ndjson(vin, famdocs)
        rc, o = ctx.go_test(PKG, FILES, "^TestZZVerifC13Render$", env={"VERIF_IN": vin, "VERIF_OUT": rendered})
        if rc != 0 or len(vlib.read_ndjson(rendered)) < len(famdocs) * 9 // 10:
            raise vlib.Inconclusive("C13 render harness did not complete:\n" + o[-3000:])
        env["VERIF_IN"] = rendered
    rc, o = ctx.go_test(HOME_PKG, HOME_FILES, "^TestZZVerifC13Loader$", env=env, timeout=1200)
    rows = vlib.read_ndjson(env["VERIF_OUT"])
    if rc != 0 or not rows:
        raise vlib.Inconclusive("C13 loader harness did not complete:\n" + o[-3000:])
    n = nfam = 0
    for r in rows:
        if r.get("kind") == "bad":
            rec = dict(r)
            if r.get("family"):
                rec["vec"] = by_id.get(r["id"])
                rec["base"] = bases.get(r["v"])
                rec["symptom"] = "loader-rejects"
            ctx.disagreement(None, rec, "loader-rejects: v=%s devs=%s: the upgraded valid document is rejected "
                             "by the configuration loader: %s" % (r.get("v"), json.dumps(r.get("devs")), r.get("what")))
        elif r.get("kind") == "pass":
            if r.get("family"):
                nfam += 1
            else:
                n += 1
    if famdocs and nfam + sum(1 for r in rows if r.get("kind") == "bad" and r.get("family")) < len(famdocs) * 9 // 10:
        raise vlib.Inconclusive("loader saw %d of %d family documents" % (nfam, len(famdocs)))
    return n, nfam


def replay(ctx, path):
    rec = json.load(open(path))["record"]
    if "vec" not in rec:
        print(json.dumps(rec, indent=1))
        return 1
    vec = dict(rec["vec"])
    vec["ks"] = [rec["k"]] if rec.get("k") else vec.get("ks", [])
    vecs = [vec]
    if rec.get("base") and vec["kind"] != "base":
        vecs.insert(0, rec["base"])
    rows, summ = replay_vectors(ctx, vecs, "r")
    bad = [r for r in rows if r.get("kind") in ("bad", "flaky") and r["id"] == vec["id"]]
    print(json.dumps({"input": {"v": vec["v"], "devs": vec["devs"], "split": rec.get("k")},
                      "expected": {"error_admissible": vec["err"], "admissible_shapes": len(vec["oks"])},
                      "observed": [{"symptom": b.get("symptom"), "what": b.get("what"), "got": b.get("got")}
                                   for b in bad] or "admissible"}, indent=1))
    return 1 if bad else 0
