SPECIFICATION SpecNamed
CONSTANTS Urls = {"u1", "u2"}
          Names = {"n1"}
          Sides = {"b"}
          Served = {"cA"}
          UserSets = {{}}
          Switch = FALSE
          Bad = FALSE
          Aimless = TRUE
          MaxId = 2
          BlankPolicies = {FALSE}
          Forget = TRUE
INVARIANTS InvUniqueIdsStrict
