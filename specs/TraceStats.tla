----------------------------- MODULE TraceStats -----------------------------
(***************************************************************************)
(* Direction B for C09, sequential part.  A seeded Go driver runs long      *)
(* histories against the real statistics module with REAL constants (all   *)
(* five result categories, limits from 1 hour to 90 days, so both the      *)
(* hourly and the daily rendering, clock gaps of thousands of hours,       *)
(* restarts, limit changes, clears) and logs one NDJSON line per call.     *)
(* This module replays the log through Stats.tla's own actions (DoUpdate,  *)
(* DoTick, DoFlush, ...) and asks ObsOK, Stats.tla's admissibility         *)
(* predicate, about every logged API reply.  The invariants of Stats.tla   *)
(* are evaluated in every state of the replay as well.                     *)
(*                                                                         *)
(* Several histories are concatenated; an "new" line starts the next one.  *)
(* A rejected reply does not stop the replay (Read has no effect): its     *)
(* line number is collected in `bad` and printed at the end.               *)
(*                                                                         *)
(* Line format: [ev, k, ph, en, units, len, tot, nz], every field always   *)
(* present.  ev \in new(k = limit, ph = hour % 24, en) | update(k = cat) | *)
(* tick(k) | flush | flushfail | close | open | limit(k) | enable(k) | clear | read.   *)
(***************************************************************************)
EXTENDS Stats

Trace == ndJsonDeserialize("trace.ndjson")

\* Real constants (TraceStats.cfg): limits in hours up to a year.
TLimits == 1..8760
\* The API has hourly/daily series for: filtered, safe browsing, parental.
SeriesCats == <<2, 3, 5>>

VARIABLES l, bad
tvars == <<vars, l, bad>>

New(e) == /\ lead' = 0 /\ phase' = e.ph /\ up' = TRUE /\ enabled' = (e.en = 1)
          /\ limit' = e.k /\ cur' = Zero /\ db' = EmptyFn /\ ledger' = EmptyFn

Apply(e) ==
    \/ e.ev = "new"    /\ New(e)
    \/ e.ev = "update" /\ DoUpdate(e.k)
    \/ e.ev = "tick"   /\ DoTick(e.k)
    \/ e.ev = "flush"  /\ DoFlush
    \/ e.ev = "flushfail" /\ DoFlushFails
    \/ e.ev = "close"  /\ DoClose
    \/ e.ev = "open"   /\ DoOpen
    \/ e.ev = "limit"  /\ DoSetLimit(e.k)
    \/ e.ev = "enable" /\ DoSetEnabled(e.k = 1)
    \/ e.ev = "clear"  /\ DoClear
    \/ e.ev = "read"   /\ up /\ UNCHANGED vars

\* The first line of a trace is always "new", which overwrites all of this.
TInit == /\ lead = 0 /\ phase = 0 /\ up = TRUE /\ enabled = TRUE /\ limit = 1
         /\ cur = Zero /\ db = EmptyFn /\ ledger = EmptyFn
         /\ l = 1 /\ bad = {}

TNext == /\ l <= Len(Trace)
         /\ Apply(Trace[l])
         /\ bad' = IF Trace[l].ev = "read" /\ ~ObsOK(Trace[l], SeriesCats) THEN bad \cup {l} ELSE bad
         /\ l' = l + 1
         /\ (l' = Len(Trace) + 1 => PrintT(<<"@@V", ToJson([n |-> Len(Trace), bad |-> bad'])>>))

TSpec == TInit /\ [][TNext]_tvars
=============================================================================
