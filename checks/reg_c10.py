PROPERTY = "C10"
ENTRY = {
        "text": "Dhcp4.tla (the intended lease table: ONE set of leases keyed by address, written from the statement; every action "
                "Discover / Request(selecting, init-reboot, renew) / Decline / Release / Expire / Add-, Update-, RemoveStatic / Restart is the SET of admissible "
                "outcomes) is explored by TLC over all histories of a small universe (3 clients x pool of 2 resp. 3 + one in-subnet address outside the pool + gateway + "
                "off-subnet address, 3 host names); 11 invariants of the statement are checked on it and one line per reachable state lists the admissible outcomes of "
                "every action instance.  The Go harness walks the real server (dhcpd.Create, v4Server.packetHandler with real dhcpv4 packets, the static-lease HTTP "
                "handlers, real leases.json, restart = Create on the same directory) through every abstract state it can reach, executes every action instance there and "
                "after every step looks reply + projected state (lease slice, both indexes, bitset, Leases(), HostByIP/IPByHost, leases.json) up in that table.  "
                "Long random histories over a larger universe (7 clients, pool of 10) are recorded and decided line by line by TraceDhcp4.tla, which instantiates Dhcp4's operators.",
        "design_ref": "DESIGN.md section 4 C10",
        "note": "Trusted: TLC; conc()/abs() of zz_verif_c10_test.go; expiry is simulated by setting Lease.Expiry to a past instant and storing the database "
                "(not a virtual clock); ICMP conflict detection off (no blocklisted leases); sockets not used (packetHandler level).  "
                "Where the statement is silent the spec admits several outcomes (which free address, which host name, NAK vs. silence, what DECLINE does besides dropping the lease, "
                "refusing vs. evicting when a reservation collides with another client's dynamic lease).  Six findings on the unchanged tree are listed in known_findings/C10.jsonl.",
        "technique": "TLA+ spec of the lease table explored exhaustively by TLC; state-graph walk of the real server against TLC's outcome table + TLC trace validation of long random histories",
    }
