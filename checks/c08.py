"""C08 -- ignored names/clients and un-anonymised addresses never reach the query log or statistics.

specs/IgnoreAnon.tla (+ IgnoreAnonCore.tla) is model-checked by TLC (the
intended mechanism satisfies the statement's invariants; the as-built mechanism
and the strict search-time clause are shown violated) and enumerates 600
scripts (configuration x two reconfigurations, 114 queries each) with the
statement's verdict tables.  Direction A replays scripts against the real
wiring of package home; direction B validates recorded random server lives with
TraceIgnoreAnon.tla.
"""
import collections
import concurrent.futures
import json
import os
import random
import re

import vlib

PKG = "internal/home"
FILES = ["zz_verif_common_test.go", "zz_verif_c08_test.go"]

K_LOG = "C08:ignored-client-by-ip-logged-when-anonymised"
K_CNT = "C08:ignored-client-by-ip-counted-when-anonymised"
K_SEARCH = "C08:log-api-returns-ignored-client-by-ip-when-anonymised"
K_MEM = "C08:log-api-memory-entries-not-refiltered"
K_ZONE = "C08:ignored-client-by-zoned-ipv6-counted-in-statistics"
K_MAPPED = "C08:client-identified-by-4in6-address-never-ignored"

ADDR_KINDS = ("ip", "cidr", "mac")
ACTIONS = ["EmitUniverse", "Pick", "RegistryCall", "Record1", "Flush1", "Reconf1", "Record2", "Flush2", "Reconf2", "Record3", "Reconf3"]
EXPECTED_VIOLATIONS = [
    # cfg, invariant that must be reported violated, what it demonstrates
    ("IgnoreAnon.asbuiltlog.cfg", "NoIgnoredLogged", "as-built lookup-after-anonymisation logs ignored clients"),
    ("IgnoreAnon.asbuiltcnt.cfg", "NoIgnoredCounted", "as-built lookup-after-anonymisation counts ignored clients"),
    ("IgnoreAnon.asbuiltsearch.cfg", "SearchNames", "as-built search does not re-filter memory entries"),
    ("IgnoreAnon.strict.cfg", "SearchClientsStrict", "no mechanism can hide anonymised entries of a client ignored by address"),
]


# ------------------------------------------------------------ classification
def classify_a(b):
    """Direction A disagreement -> known-finding key (narrow) or None."""
    fam = b.get("clientFam", "")
    excess = b.get("seen", 0) - b.get("max", 0)
    # ("no:S:A" is left to the search-time finding: an entry stored anonymised
    # cannot be re-identified whatever the spelling of the identifier.)
    client_only = b.get("v", "") in ("no:R:C", "no:R:A", "no:S:C")
    if fam == "z6" and b.get("client") == "ip":
        # The persistent client is identified by a zoned link-local address:
        # the statistics (and only they) do not find it.
        if b.get("kind") == "count-exceeded" and 0 < excess <= b.get("nC", 0):
            return K_ZONE
    if fam == "m4" and b.get("client") == "ip":
        # Identified by the IPv4-mapped spelling: found neither by the query
        # log nor by the statistics, whatever the reason is NOT a name.
        if b.get("kind") == "ignored-present" and client_only:
            return K_MAPPED
        if b.get("kind") == "count-exceeded" and 0 < excess <= b.get("nC", 0):
            return K_MAPPED
    if b.get("kind") == "ignored-present":
        v = b.get("v", "")
        addr_client = b.get("anon") and b.get("client") in ADDR_KINDS
        if v == "no:R:A" and addr_client:
            # Recorded although the ONLY reason to ignore is a client flag, and the
            # client is identified by address bits that anonymisation removes.
            return K_LOG
        if v == "no:S:A" and addr_client:
            # "anon" = the entry was recorded while anonymisation was on.
            return K_SEARCH
        if v.startswith("no:S:") and b.get("store") == "mem":
            return K_MEM
        return None
    if b.get("kind") == "count-exceeded":
        excess = b.get("seen", 0) - b.get("max", 0)
        if b.get("anon") and b.get("client") in ADDR_KINDS and 0 < excess <= b.get("nA", 0):
            return K_CNT
        return None
    return None


def classify_b(code, line):
    addr_client = line["rec"]["anon"] and line["rec"]["client"]["kind"] in ADDR_KINDS
    parts = code.split(":")
    if parts[0] in ("api0", "file", "api1") and len(parts) >= 5:
        verdict = ":".join(parts[2:])
        if verdict == "no:R:A" and addr_client:
            return K_LOG
        if parts[0] == "api1" and verdict == "no:S:A" and addr_client:
            return K_SEARCH
        if parts[0] == "api1" and parts[1] == "mem" and verdict.startswith("no:S:"):
            return K_MEM
        return None
    if parts[0] == "cntA" and addr_client:
        return K_CNT
    return None


def describe_a(b):
    if b.get("kind") == "ignored-present":
        return "%s: entry present in %s (%s) although the spec says %s: %s" % (
            b["obs"], b.get("store"), "anon on" if b.get("anon") else "anon off", b.get("v"), b.get("concrete"))
    if b.get("kind") == "count-exceeded":
        return "%s: statistics counter %s = %s exceeds what non-ignored queries account for (%s)" % (
            b["obs"], b.get("group"), b.get("seen"), b.get("max", 0))
    if b.get("kind") == "not-anonymised":
        return "%s: address not anonymised in %s: %s %s" % (b["obs"], b.get("store"), b.get("group", ""), b.get("concrete", ""))
    return json.dumps(b)


# ------------------------------------------------------------------- pieces
def tlc_part(ctx):
    """Half 1 + vector generation.  Returns (universe, scripts)."""
    with concurrent.futures.ThreadPoolExecutor(max_workers=5) as ex:
        # Quick: two list rotations and the pair-covering toggle plans (328
        # scripts); thorough: all rotations and every toggle plan (1622).
        gencfg = "IgnoreAnon.genquick.cfg" if ctx.quick else "IgnoreAnon.gen.cfg"
        fgen = ex.submit(ctx.tlc, "IgnoreAnon", gencfg, workers=4 if ctx.quick else 6, timeout=1200, coverage=True)
        fexp = [(cfg, inv, why, ex.submit(ctx.tlc, "IgnoreAnon", cfg, workers=1, timeout=600, expect_violation=True, heap="2g"))
                for cfg, inv, why in EXPECTED_VIOLATIONS]
        gen = fgen.result()
        demos = []
        for cfg, inv, why, f in fexp:
            r = f.result()
            if r["violated"] != inv:
                raise vlib.Inconclusive("%s: expected invariant %s to be violated (%s), TLC says %r" % (cfg, inv, why, r["violated"]))
            demos.append({"cfg": cfg, "violated": inv, "shows": why})
    # Vacuity: every action taken.
    taken = {m.group(1): int(m.group(2)) for m in re.finditer(r"^<(\w+) line \d+, col \d+ to line \d+, col \d+ of module IgnoreAnon>: (\d+):\d+", gen["out"], re.M)}
    missing = [a for a in ACTIONS if taken.get(a, 0) == 0]
    if missing:
        raise vlib.Inconclusive("vacuous: actions never taken: %s" % missing)
    uni = [v for v in gen["vectors"] if v.get("kind") == "universe"]
    scripts = [v for v in gen["vectors"] if v.get("kind") == "script"]
    if len(uni) != 1 or len(scripts) < 100:
        raise vlib.Inconclusive("too few vectors: %d universe, %d scripts" % (len(uni), len(scripts)))
    scripts.sort(key=lambda v: json.dumps(v["par"], sort_keys=True))
    for i, s in enumerate(scripts):
        s["id"] = i
    # Vacuity of the tables: every kind of verdict must occur, and every ordered
    # pair of (anonymise, log enabled, statistics enabled) states must occur as
    # a reconfiguration step through either endpoint.
    seen = collections.Counter()
    steps = set()
    for s in scripts:
        for t in [s["log"], s["cnt"]] + list(s["api"]):
            for x in t:
                seen[x["v"]] += 1
        sw = [(k["anon"], k["qlogOn"], k["statsOn"]) for k in s["k"]]
        steps.update((s["par"]["ep"], sw[i], sw[i + 1]) for i in range(2))
    need = ["any", "no:R:N", "no:R:C", "no:R:A", "no:R:NC", "no:S:N", "no:S:C", "no:S:A"]
    lack = [v for v in need if not seen[v]]
    if lack:
        raise vlib.Inconclusive("vacuous tables: verdicts never produced: %s" % lack)
    if sum(1 for x in scripts if x["hist"]) < 7:
        raise vlib.Inconclusive("vacuous: no registry histories enumerated")
    if len(steps) != 128:
        raise vlib.Inconclusive("vacuous: only %d of 128 (endpoint, switch state, switch state) steps enumerated" % len(steps))
    return uni[0], scripts, demos, dict(seen)


def steady(s):
    return len({(k["anon"], k["qlogOn"], k["statsOn"]) for k in s["k"]}) == 1 and s["par"]["ep"] == "put" and s["k"][0]["qlogOn"] and s["k"][0]["statsOn"]


def select(ctx, scripts):
    if not ctx.quick:
        return list(scripts)
    # Quick: every toggle plan of the (pair-covering) universe, plus a seeded
    # sample of the steady scripts that still contains every client variant
    # with anonymisation on and off.
    rng = random.Random(ctx.seed)
    groups = collections.defaultdict(list)
    sel = []
    for s in scripts:
        if steady(s) and not s["hist"]:
            groups[(json.dumps(s["par"]["client"], sort_keys=True), s["k"][0]["anon"])].append(s)
        else:
            sel.append(s)
    for k in sorted(groups):
        sel += rng.sample(groups[k], min(len(groups[k]), 4))
    return sel


def go_run(ctx, uni, sel, trace_insts=None, want_replay=True, want_trace=True):
    vin, vout, tout = ctx.path("c08_in.ndjson"), ctx.path("c08_out.ndjson"), ctx.path("c08_trace.ndjson")
    for p in (vout, tout):
        if os.path.exists(p):
            os.remove(p)
    vlib.write_ndjson(vin, [uni] + sel)
    work = ctx.path("gowork")
    os.makedirs(work, exist_ok=True)
    env = {"VERIF_WORKDIR": work}
    run = []
    if want_replay:
        env.update({"VERIF_IN": vin, "VERIF_OUT": vout})
        run.append("Replay")
    if want_trace:
        env["VERIF_OUT_TRACE"] = tout
        run.append("Trace")
        if trace_insts is not None:
            env["VERIF_C08_INST"] = ",".join(str(i) for i in sorted(trace_insts))
    rc, out = ctx.go_test(PKG, FILES, "^TestZZVerifC08(%s)$" % "|".join(run), env=env, timeout=1500)
    if rc != 0:
        raise vlib.Inconclusive("C08 harness did not complete:\n" + out[-3000:])
    return vlib.read_ndjson(vout) if want_replay else [], vlib.read_ndjson(tout) if want_trace else []


def trace_check(ctx, tpath_rows):
    p = ctx.path("c08_trace_in.ndjson")
    vlib.write_ndjson(p, tpath_rows)
    r = ctx.tlc("TraceIgnoreAnon", "TraceIgnoreAnon.cfg", workers=1, extra_files=[(p, "trace.ndjson")], timeout=900)
    if not r["vectors"]:
        raise vlib.Inconclusive("trace spec produced no verdict")
    verdict = r["vectors"][-1]
    if verdict["n"] != len(tpath_rows):
        raise vlib.Inconclusive("trace spec consumed %s of %d lines" % (verdict["n"], len(tpath_rows)))
    return verdict


def line_sig(line):
    if line["t"] == "q":
        return (line["inst"], json.dumps(line["q"], sort_keys=True))
    return (line["inst"], "stats")


# ---------------------------------------------------------------------- run
def run(ctx):
    uni, scripts, demos, verdict_hist = tlc_part(ctx)
    sel = select(ctx, scripts)
    byid = {s["id"]: s for s in scripts}
    rows, trows = go_run(ctx, uni, sel)

    # ---- direction A
    summ = [r for r in rows if r.get("kind") == "summary"]
    srows = [r for r in rows if r.get("kind") == "script"]
    if not summ or len(srows) != len(sel):
        raise vlib.Inconclusive("replay harness incomplete: %d of %d scripts" % (len(srows), len(sel)))
    errors = [r for r in srows if r.get("error")]
    if len(errors) > max(2, len(sel) // 50):
        raise vlib.Inconclusive("%d scripts could not be run, e.g. %s" % (len(errors), errors[0]["error"]))
    checked = sum(r["checked"] for r in srows)
    lost = sum(r["lost"] for r in srows)
    unknown = sum(r["unknown"] for r in srows)
    flaky = sum(r["flaky"] for r in srows)
    if checked == 0:
        raise vlib.Inconclusive("nothing was compared")
    n_unlisted = 0
    kinds = collections.Counter()
    for r in rows:
        if r.get("kind") != "bad":
            continue
        b = r["bad"]
        key = classify_a(b)
        kinds[key or "UNLISTED:" + b.get("kind", "?")] += 1
        if key is None or vlib.known_findings().get((ctx.prop, key), {}).get("status") != "open":
            n_unlisted += 1
            if n_unlisted > 30:
                continue
            rec = {"dir": "A", "bad": b, "script": byid[r["id"]], "universe": uni}
        else:
            rec = {"dir": "A", "bad": b, "script_id": r["id"]}
        ctx.disagreement(key, rec, describe_a(b))

    # ---- direction B
    if not trows:
        raise vlib.Inconclusive("trace driver produced nothing")
    verdict = trace_check(ctx, trows)
    tbad = [(x["l"], x["c"]) for x in verdict["bad"]]
    tlost = verdict["lost"]
    reproduced, tflaky = [], 0
    if tbad:
        # Reproduce: run the instances concerned once more, validate again; a
        # line counts only if the same query gets the same code again.
        insts = {trows[l - 1]["inst"] for l, _ in tbad}
        _, trows2 = go_run(ctx, uni, [], trace_insts=insts, want_replay=False)
        again = set()
        if trows2:
            v2 = trace_check(ctx, trows2)
            again = {(line_sig(trows2[x["l"] - 1]), x["c"]) for x in v2["bad"]}
        for l, c in tbad:
            if (line_sig(trows[l - 1]), c) in again:
                reproduced.append((l, c))
            else:
                tflaky += 1
    for l, c in reproduced:
        line = trows[l - 1]
        key = classify_b(c, line)
        kinds[key or "UNLISTED:trace:" + c] += 1
        slim = {k: v for k, v in line.items() if k not in ("qs",)} if line["t"] == "s" else line
        if key is None or vlib.known_findings().get((ctx.prop, key), {}).get("status") != "open":
            n_unlisted += 1
            if n_unlisted > 30:
                continue
            slim = line
        ctx.disagreement(key, {"dir": "B", "code": c, "line": slim, "seed": ctx.seed, "tier": ctx.tier},
                         "trace line %d rejected by TraceIgnoreAnon (%s): %s" % (l, c, line.get("concrete", "statistics of instance %s" % line["inst"])))

    # Binding demonstration for the trace spec: a recorded line whose reported
    # address is corrupted (filler bits set although anonymisation is on) must
    # be rejected.
    demo_line = next((dict(r) for r in trows if r["t"] == "q" and r["rec"]["anon"] and r["api0"]), None)
    binding = {"mutations": "13 code mutations, all caught: notes/C08.md"}
    if demo_line is not None:
        demo_line["api0addr"] = dict(demo_line["api0addr"], rest=1)
        dv = trace_check(ctx, [demo_line])
        if "anon:api0" not in {x["c"] for x in dv["bad"]}:
            raise vlib.Inconclusive("TraceIgnoreAnon accepted a corrupted line (un-anonymised address)")
        binding["corrupted_trace_line_rejected"] = True

    # An entry that is present although it must not be is evidence on its own.
    # "Nothing forbidden was seen" is only worth something if the observation
    # channel works: entries the spec expects must have been seen.
    if not ctx.violations:
        if lost > checked // 200 or unknown > checked // 100:
            samples = [r.get("lost_samples") for r in srows if r.get("lost_samples")][:3]
            raise vlib.Inconclusive("observation channel unreliable: %d expected entries missing, %d unattributable entries of %d comparisons, e.g. %s" % (lost, unknown, checked, samples))
        if tlost > len(trows) // 100 + 1:
            raise vlib.Inconclusive("trace: %d expected entries missing in %d lines" % (tlost, len(trows)))

    # ---- evidence
    nontrivial = 0
    for s in sel:
        qs = set()
        for ti, t in enumerate([s["log"], s["cnt"]] + list(s["api"])):
            qs.update(tuple(x["q"]) + (ti,) for x in t)
        nontrivial += len(qs)
    qlines = [r for r in trows if r["t"] == "q"]
    samples = [
        {"script": {k: sel[0][k] for k in ("par", "k", "anonrep")}, "log_table_excerpt": sel[0]["log"][:6], "api_k3_table_excerpt": sel[0]["api"][2][:6]},
        {"script_result": srows[0]},
        {"trace_line": {k: qlines[0][k] for k in ("q", "api0", "file", "api1", "store", "concrete", "api0addr")}},
    ]
    cov = {
        "traces_validated_against_impl": len(sel) + len(trows),
        "scripts_generated": len(scripts), "scripts_replayed": len(sel),
        "queries_per_script": 204, "evaluations": checked + len(trows),
        "distinct_nontrivial": nontrivial,
        "rule": "one script per reachable terminal state of IgnoreAnon.tla (configuration x toggle plan x endpoint, 3 recorded rounds, 3 reconfigurations); an evaluation is one "
                "(observation point, query) or (observation point, counter) comparison; non-trivial = the spec demands absence or admits both "
                "(verdict other than 'yes') for that (script, query, table); trace lines are random server lives validated by TraceIgnoreAnon.tla",
        "comparisons_absent_as_required": sum(r["absent_ok"] for r in srows),
        "comparisons_present_as_expected": sum(r["present"] for r in srows),
        "expected_entries_missing": lost, "unattributable_entries": unknown, "flaky": flaky + tflaky,
        "scripts_failed_to_run": len(errors),
        "trace_lines": len(trows), "trace_lines_rejected_reproduced": len(reproduced), "trace_expected_missing": tlost,
        "verdicts_in_tables": verdict_hist, "disagreements_by_class": dict(kinds),
        "design_level_demonstrations": demos, "binding_demo": binding, "truncated_by_known_finding": 0,
        "toggle_plan_scripts_replayed": sum(1 for x in sel if not steady(x)),
        "registry_history_scripts_replayed": sum(1 for x in sel if x["hist"]),
        "exhaustive": len(sel) == len(scripts), "samples": samples,
    }
    return ctx.finish("model_checking", cov, assumptions=[
        "TLC; conc()/abs() of zz_verif_c08_test.go (address embedding, rule texts, question-type tags that attribute entries to queries)",
        "my reading of the ignore-rule family (plain = that name, ||n^ = name and subdomains, *.n = proper subdomains, |.^ = root) as validated on the unchanged tree",
        "the wiring mirrors initDNS piece by piece (real clients container and glue, querylog, stats, IPMut, dnsforward server); config-file writing, web mux/auth and TLS manager are replaced by local stubs; the DHCP lease table is a stub",
        "IPv6, 4-in-6 and ClientID clients are driven through Server.ServeHTTP with a trusted-proxy header, IPv4 ones over real UDP",
    ])


# ------------------------------------------------------------------- replay
def replay(ctx, path):
    rec = json.load(open(path))["record"]
    if rec.get("dir") == "A":
        if "script" not in rec:
            uni, scripts, _, _ = tlc_part(ctx)
            script = [s for s in scripts if s["id"] == rec["script_id"]][0]
        else:
            uni, script = rec["universe"], rec["script"]
        rows, _ = go_run(ctx, uni, [script], want_trace=False)
        bads = [r["bad"] for r in rows if r.get("kind") == "bad"]
        sig = lambda b: (b.get("obs"), b.get("kind"), b.get("store"), tuple(b.get("q") or ()), b.get("v"), b.get("group"))
        hit = [b for b in bads if sig(b) == sig(rec["bad"])]
        print(json.dumps({"expected": "spec verdict %s" % (rec["bad"].get("v") or "counter <= %s" % rec["bad"].get("max")),
                          "observed": hit or "admissible", "other_disagreements_in_script": len(bads) - len(hit)}, indent=1))
        return 1 if hit else 0
    line = rec["line"]
    # The driver derives an instance from (seed, tier, index).
    ctx.seed = int(rec.get("seed", ctx.seed))
    ctx.tier = rec.get("tier", ctx.tier)
    _, trows = go_run(ctx, {"kind": "universe"}, [], trace_insts={line["inst"]}, want_replay=False)
    if not trows:
        raise vlib.Inconclusive("instance %s could not be re-run" % line["inst"])
    v = trace_check(ctx, trows)
    want = (line_sig(line) if line["t"] == "q" else (line["inst"], "stats"), rec["code"])
    got = {(line_sig(trows[x["l"] - 1]), x["c"]) for x in v["bad"]}
    print(json.dumps({"expected": "line accepted by TraceIgnoreAnon", "observed": "rejected again (%s)" % rec["code"] if want in got else "accepted"}, indent=1))
    return 1 if want in got else 0
