---------------------------- MODULE TraceAccess ----------------------------
(***************************************************************************)
(* Direction B for C03.  trace.ndjson is a behaviour of the real server    *)
(* recorded by TestZZVerifC03Trace over a universe larger than the         *)
(* exhaustive one (8-bit addresses, CIDRs of every length, six ClientIDs,  *)
(* names of up to six labels, up to 11 list entries and 4 patterns):       *)
(*                                                                         *)
(*   {"k":"set", allowed, disallowed, hosts, reported}                     *)
(*                                     one POST /control/access/set        *)
(*   {"k":"load", allowed, disallowed, hosts, reported}                    *)
(*                                     one reconfiguration of the live     *)
(*                                     server from a configuration that    *)
(*                                     carries the lists (LoadConfig)      *)
(*   {"k":"req", areq, lvl, out [, d]}           one DNS request           *)
(*                                                                         *)
(* Every line must be a step of Access.tla: a "set" line is SetLists       *)
(* (disjoint lists, nothing observed), a "req" line is Request(r, out)     *)
(* with out \in Outcomes(cfg, r) -- AccessCore's own operator -- and, for  *)
(* requests that went through a real transport (lvl = "transport"), the    *)
(* observers moved by exactly Effect(out).  Requests with lvl = "handler"  *)
(* were given to the pre-request hook directly, so there is no pipeline    *)
(* behind them and nothing to observe.                                     *)
(*                                                                         *)
(* A line that is not such a step is collected in bad (and the observer    *)
(* state is resynchronised so that one bad line does not taint the rest);  *)
(* the verdict is printed with the last line.  Run with -workers 1.        *)
(***************************************************************************)
EXTENDS AccessCore, TLC, Json, SequencesExt

Trace == ndJsonDeserialize("trace.ndjson")

VARIABLES l, cfg, obs, bad
tvars == <<l, cfg, obs, bad>>

\* The configuration in force after the step: the lists as given, except that
\* a loaded configuration with an empty blocked-hosts list means the defaults.
CfgOf(ln) == [allowed    |-> ToSet(ln.allowed),
              disallowed |-> ToSet(ln.disallowed),
              hosts      |-> IF ln.k = "load" THEN EffectiveHosts(ToSet(ln.hosts))
                             ELSE ToSet(ln.hosts)]

\* What GET /control/access/list reported right after the step, abstracted by
\* the harness (strings it did not post itself are parsed as patterns).
ReportedOf(ln) == [allowed    |-> ToSet(ln.reported.allowed),
                   disallowed |-> ToSet(ln.reported.disallowed),
                   hosts      |-> ToSet(ln.reported.hosts)]

ReqOf(ln) == [addr |-> ln.areq.addr, form |-> ln.areq.form, id |-> ln.areq.id,
              idcase |-> ln.areq.idcase, name |-> ln.areq.name,
              spell |-> ln.areq.spell, qtype |-> ln.areq.qtype, proto |-> ln.areq.proto]

Moved(e) == [up |-> e, filt |-> e, qlog |-> e, stats |-> e]

\* The logged step is a Request step of Access.tla.
ReqOk(ln) ==
    /\ ln.out \in Outcomes(cfg, ReqOf(ln))
    /\ (ln.lvl = "transport" => ln.d = Moved(Effect(ln.out)))

\* The logged step is a SetLists step of Access.tla (the API accepted it, so
\* the lists must have been disjoint).
\* and the API reports exactly the configuration that is now in force.
SetOk(ln) == /\ ToSet(ln.allowed) \cap ToSet(ln.disallowed) = {}
             /\ ReportedOf(ln) = CfgOf(ln)

Init == /\ l = 1
        /\ cfg = [allowed |-> {}, disallowed |-> {}, hosts |-> {}]
        /\ obs = Moved(0)
        /\ bad = {}

Next ==
    /\ l <= Len(Trace)
    /\ LET ln == Trace[l] IN
         IF ln.k \in {"set", "load"}
         THEN /\ cfg' = CfgOf(ln)
              /\ bad' = IF SetOk(ln) THEN bad ELSE bad \cup {l}
              /\ obs' = obs
         ELSE /\ cfg' = cfg
              /\ bad' = IF ReqOk(ln) THEN bad ELSE bad \cup {l}
              /\ obs' = IF ln.lvl = "transport"
                        THEN [x \in DOMAIN obs |-> obs[x] + ln.d[x]]
                        ELSE obs
    /\ l' = l + 1
    /\ (l' = Len(Trace) + 1 =>
          PrintT(<<"@@V", ToJson([n |-> Len(Trace), bad |-> bad', obs |-> obs'])>>))

Spec == Init /\ [][Next]_tvars
=============================================================================
