#!/usr/bin/env python3
"""reseed_all.py [-j N] <Cxx>... : final regression over every stored seeded change of the given properties against
the CURRENT /repo HEAD: the patch is applied (3-way) in a scratch worktree /tmp/final-<cxx>, the property's quick
check is run with VERIF_REPO, and the result is stored under meta["final"] = {head, exit, applies, lines}.
A patch that no longer applies (the code it edits was changed by a later fix) is recorded as such, not as a miss.
Properties run in parallel (-j), the changes of one property sequentially (a check's work dir is per property)."""
import glob, json, os, subprocess, sys, time
from concurrent.futures import ThreadPoolExecutor
sys.path.insert(0, os.path.dirname(os.path.abspath(__file__)))
import seeded
args = sys.argv[1:]
j = 4
if args and args[0] == "-j":
    j = int(args[1]); args = args[2:]
head = subprocess.run(["git", "-C", "/repo", "rev-parse", "--short", "HEAD"], capture_output=True, text=True).stdout.strip()

def one(prop):
    wt = "/tmp/final-%s" % prop.lower()
    subprocess.run(["git", "-C", "/repo", "worktree", "remove", "--force", wt], capture_output=True)
    subprocess.run(["git", "-C", "/repo", "worktree", "add", "--detach", wt, "HEAD"], capture_output=True)
    out = []
    ids = sorted(glob.glob("/verif/seeded/%s-*" % prop), key=lambda d: int(d.rsplit("-", 1)[1]))
    for d in ids:
        mp = os.path.join(d, "meta.json")
        if not os.path.exists(mp):
            continue
        meta = json.load(open(mp))
        seeded.reset(wt)
        patch = os.path.join(d, "patch.diff")
        rc, o = seeded.sh("git apply --3way --whitespace=nowarn %s" % patch, wt)
        if rc != 0 or "with conflicts" in o or seeded.sh("git diff --name-only --diff-filter=U", wt)[1].strip():
            seeded.reset(wt)
            subprocess.run(["git", "-C", wt, "reset", "-q", "--hard"], capture_output=True)
            meta["final"] = {"head": head, "applies": False, "note": "the patch no longer applies: the code it edits was changed by a later fix"}
        else:
            rc, o = seeded.sh("go build ./...", wt)
            if rc != 0:
                meta["final"] = {"head": head, "applies": True, "builds": False}
            else:
                t = time.time()
                env = dict(os.environ, VERIF_REPO=wt)
                rc, o = seeded.sh(["./check", prop, "quick"], "/verif", timeout=3600, env=env)
                lines = [l for l in o.splitlines() if l.startswith(("VIOLATION", "INCONCLUSIVE"))]
                meta["final"] = {"head": head, "applies": True, "exit": rc, "wall_s": round(time.time() - t, 1), "lines": [l[:300] for l in lines[:2]]}
            subprocess.run(["git", "-C", wt, "reset", "-q", "--hard"], capture_output=True)
            seeded.reset(wt)
        json.dump(meta, open(mp, "w"), indent=1)
        f = meta["final"]
        out.append("%s final: %s" % (meta["id"], "n/a (patch no longer applies)" if not f.get("applies") else ("build fails" if f.get("builds") is False else "exit %s" % f.get("exit"))))
        print(out[-1], flush=True)
    subprocess.run(["git", "-C", "/repo", "worktree", "remove", "--force", wt], capture_output=True)
    return out

with ThreadPoolExecutor(max_workers=j) as ex:
    list(ex.map(one, args))
