package filtering

// C19, front door: the same property observed through DNSFilter.CheckHost,
// which is where host names arrive in whatever letter case the client used.
// A real hashprefix.Checker (safe browsing in even walks, parental control
// in odd ones) talks to a recording mock lookup service; every CheckHost call
// becomes one line of a trace in the format of specs/TraceHashPrefix.tla
// (prefixes and hashes from this file's own SHA-256 of the LOWER-CASE
// domains: that is what the service's database is made of).  No expiry here
// (real clock, entry life time far beyond the run time); expiry is exercised
// at package level by harness/internal/filtering/hashprefix.

import (
	"crypto/sha256"
	"encoding/hex"
	"errors"
	"math/rand"
	"sort"
	"strconv"
	"strings"
	"testing"
	"time"

	"github.com/AdguardTeam/AdGuardHome/internal/filtering/hashprefix"
	"github.com/miekg/dns"
	"golang.org/x/net/publicsuffix"
)

const zzC19Suffix = "pc.dns.adguard.com."

type zzC19Hash = [sha256.Size]byte

type zzC19AbsHash struct {
	P string `json:"p"`
	R string `json:"r"`
}

type zzC19AbsName struct {
	L   []string       `json:"l"`
	Cut int            `json:"cut"`
	Opt int            `json:"opt"`
	H   []zzC19AbsHash `json:"h"`
}

type zzC19TraceLine struct {
	A   string         `json:"a"`
	T   int            `json:"t"`
	DB  []zzC19AbsHash `json:"db"`
	Add []zzC19AbsHash `json:"add"`
	Del []zzC19AbsHash `json:"del"`
	D   int            `json:"d"`
	N   zzC19AbsName   `json:"n"`
	Q   []string       `json:"q"`
	V   bool           `json:"v"`
	OK  bool           `json:"ok"`
	F   bool           `json:"f"`
	X   bool           `json:"x"`
	E   bool           `json:"e"`
	// not read by the trace spec
	Why  string   `json:"why,omitempty"`
	Host string   `json:"host,omitempty"`
	QN   []string `json:"qn,omitempty"`
	W    int      `json:"w"`
	Via  string   `json:"via,omitempty"`
}

func zzC19NewLine(a string, w int) (l zzC19TraceLine) {
	return zzC19TraceLine{
		A: a, W: w, DB: []zzC19AbsHash{}, Add: []zzC19AbsHash{}, Del: []zzC19AbsHash{}, Q: []string{}, OK: true,
		N: zzC19AbsName{L: []string{}, H: []zzC19AbsHash{}},
	}
}

func zzC19Abs(h zzC19Hash) (a zzC19AbsHash) {
	return zzC19AbsHash{P: hex.EncodeToString(h[:2]), R: hex.EncodeToString(h[2:])}
}

func zzC19AbsAll(hs []zzC19Hash) (as []zzC19AbsHash) {
	as = []zzC19AbsHash{}
	for _, h := range hs {
		as = append(as, zzC19Abs(h))
	}

	return as
}

// zzC19Svc is the mock lookup service: returns every hash of db under the
// prefixes named in the question; records the questions.
type zzC19Svc struct {
	db map[zzC19Hash]bool
	// tempt are hashes the service lists only while they are in db; over-long
	// malformed strings are derived from the others.
	tempt []zzC19Hash
	n     int
	reqs  []*dns.Msg
	// fail makes Exchange return an error (the spec's LookupFails).
	fail bool
	// errReply makes Exchange answer with SERVFAIL / REFUSED / NOTIMP and no
	// records (the spec's ErrorReply).
	errReply bool
}

func (s *zzC19Svc) Address() (addr string) { return "zzc19.mock" }
func (s *zzC19Svc) Close() (err error)     { return nil }

func zzC19ParseQuestion(name string) (prefs []string, ok bool) {
	name = strings.ToLower(name)
	if !strings.HasSuffix(name, zzC19Suffix) {
		return nil, false
	}

	head := strings.TrimSuffix(name, zzC19Suffix)
	if head == "" {
		return nil, true
	}

	if !strings.HasSuffix(head, ".") {
		return nil, false
	}

	for _, l := range strings.Split(strings.TrimSuffix(head, "."), ".") {
		if len(l) != 4 {
			return nil, false
		}

		if _, err := hex.DecodeString(l); err != nil {
			return nil, false
		}

		prefs = append(prefs, l)
	}

	return prefs, true
}

func (s *zzC19Svc) Exchange(req *dns.Msg) (resp *dns.Msg, err error) {
	s.reqs = append(s.reqs, req.Copy())
	if s.fail {
		return nil, errors.New("zzc19: lookup service: i/o timeout")
	}

	if s.errReply {
		s.n++
		rcodes := []int{dns.RcodeServerFailure, dns.RcodeRefused, dns.RcodeNotImplemented}

		return (&dns.Msg{}).SetRcode(req, rcodes[s.n%len(rcodes)]), nil
	}

	resp = (&dns.Msg{}).SetReply(req)
	if len(req.Question) != 1 {
		return resp, nil
	}

	prefs, _ := zzC19ParseQuestion(req.Question[0].Name)
	want := map[string]bool{}
	for _, p := range prefs {
		want[p] = true
	}

	var strs []string
	for h := range s.db {
		if want[hex.EncodeToString(h[:2])] {
			strs = append(strs, hex.EncodeToString(h[:]))
		}
	}
	sort.Strings(strs)
	strs = append(strs, "not a hash")
	// Malformed strings that START with a complete unlisted hash: only a
	// string EQUAL to a full hash is one.
	for _, h := range s.tempt {
		if s.db[h] || !want[hex.EncodeToString(h[:2])] {
			continue
		}

		x := hex.EncodeToString(h[:])
		s.n++
		switch s.n % 5 {
		case 0:
			strs = append(strs, x+"00")
		case 1:
			strs = append(strs, x+" ")
		case 2:
			strs = append(strs, x+x)
		case 3:
			strs = append(strs, x+" malware")
		default:
			strs = append(strs, x[:32], x[32:])
		}
	}
	resp.Answer = append(resp.Answer, &dns.TXT{
		Hdr: dns.RR_Header{Name: req.Question[0].Name, Rrtype: dns.TypeTXT, Class: dns.ClassINET, Ttl: 60},
		Txt: strs,
	})

	return resp, nil
}

func (s *zzC19Svc) zzC19Observe(host string, chain []zzC19Hash) (prefs, qnames []string, ok bool, why string) {
	ok = true
	prefs = []string{}
	seen := map[string]bool{}
	for _, req := range s.reqs {
		var parts []string
		for _, q := range req.Question {
			parts = append(parts, q.Name)
			qnames = append(qnames, q.Name)
		}
		for _, sec := range [][]dns.RR{req.Answer, req.Ns, req.Extra} {
			for _, rr := range sec {
				parts = append(parts, rr.String())
			}
		}
		all := strings.ToLower(strings.Join(parts, "\n"))

		if len(req.Question) != 1 {
			ok, why = false, strconv.Itoa(len(req.Question))+" questions in one request"

			continue
		}

		ps, good := zzC19ParseQuestion(req.Question[0].Name)
		if !good {
			ok, why = false, "question is not <hex4>. ... <suffix>: "+req.Question[0].Name
		}
		for _, p := range ps {
			if !seen[p] {
				seen[p] = true
				prefs = append(prefs, p)
			}
		}
		for _, l := range strings.Split(strings.ToLower(host), ".") {
			if len(l) >= 6 && !strings.Contains(zzC19Suffix, l) && strings.Contains(all, l) {
				ok, why = false, "label "+l+" of the name found in the request"
			}
		}
		for _, h := range chain {
			if strings.Contains(all, hex.EncodeToString(h[:3])) {
				ok, why = false, "more than two bytes of a hash found in the request"
			}
		}
	}
	s.reqs = s.reqs[:0]
	sort.Strings(prefs)

	return prefs, qnames, ok, why
}

func zzC19Chain(labels []string) (chain []zzC19Hash) {
	for k := 1; k <= len(labels) && k <= 4; k++ {
		chain = append(chain, sha256.Sum256([]byte(strings.Join(labels[len(labels)-k:], "."))))
	}

	return chain
}

// zzC19PSL: see the function of the same name in the hashprefix harness.
func zzC19PSL(labels []string) (cut, opt int) {
	name := strings.Join(labels, ".")
	ps, icann := publicsuffix.PublicSuffix(name)
	n := strings.Count(ps, ".") + 1
	if icann {
		return n, 0
	}

	if n == 1 {
		return 0, 1
	}

	pl := strings.Split(ps, ".")
	for k := len(pl) - 1; k >= 1; k-- {
		s := strings.Join(pl[len(pl)-k:], ".")
		if ps2, ic2 := publicsuffix.PublicSuffix(s); ic2 && ps2 == s {
			return 0, k
		}
	}

	return 0, 1
}

func zzC19RandLabel(rng *rand.Rand) (l string) {
	const first = "abcdefghijklmnopqrstuvwxyz"
	const rest = "abcdefghijklmnopqrstuvwxyz0123456789"
	n := 7 + rng.Intn(6)
	b := make([]byte, n)
	b[0] = first[rng.Intn(len(first))]
	for i := 1; i < n; i++ {
		b[i] = rest[rng.Intn(len(rest))]
	}

	return string(b)
}

// zzC19MixCase is the concretisation variant this file exists for.
func zzC19MixCase(rng *rand.Rand, s string) (m string) {
	b := []byte(s)
	switch rng.Intn(4) {
	case 0:
		return s
	case 1:
		return strings.ToUpper(s)
	default:
		for i, c := range b {
			if c >= 'a' && c <= 'z' && rng.Intn(2) == 0 {
				b[i] = c - 'a' + 'A'
			}
		}

		return string(b)
	}
}

var zzC19Suffixes = []string{
	"com", "org", "io", "co.uk", "com.au", "k12.ma.us", "github.io", "blogspot.com", "dyndns.org", "local",
}

func TestZZVerifC19Front(t *testing.T) {
	out := zzNewWriter(t, "VERIF_OUT")
	defer out.close()

	nWalks, nSteps := 12, 80
	if zzGetenv("VERIF_TIER") == "thorough" {
		nWalks, nSteps = 60, 200
	}
	only, maxSteps := -1, -1
	if s := zzGetenv("VERIF_ONLY_WALK"); s != "" {
		only, _ = strconv.Atoi(s)
		maxSteps, _ = strconv.Atoi(zzGetenv("VERIF_MAX_STEPS"))
	}

	for w := 0; w < nWalks; w++ {
		if only >= 0 && w != only {
			continue
		}

		rng := rand.New(rand.NewSource(zzSeed()*7919 + int64(w)*104729 + 3))

		// A pool of families of names sharing parents.
		var pool [][]string
		for f := 0; f < 6; f++ {
			cur := append([]string{zzC19RandLabel(rng)}, strings.Split(zzC19Suffixes[rng.Intn(len(zzC19Suffixes))], ".")...)
			pool = append(pool, cur)
			for d := rng.Intn(7); d > 0; d-- {
				cur = append([]string{zzC19RandLabel(rng)}, cur...)
				if rng.Intn(2) == 0 {
					pool = append(pool, cur)
				}
			}
			pool = append(pool, cur)
		}

		var listable []zzC19Hash
		seen := map[zzC19Hash]bool{}
		for _, labels := range pool {
			for _, h := range zzC19Chain(labels) {
				if !seen[h] {
					seen[h] = true
					listable = append(listable, h)
					var f zzC19Hash
					_, _ = rng.Read(f[:])
					f[0], f[1] = h[0], h[1]
					listable = append(listable, f)
				}
			}
		}

		svc := &zzC19Svc{db: map[zzC19Hash]bool{}, tempt: listable}
		for _, h := range listable {
			if rng.Intn(3) == 0 {
				svc.db[h] = true
			}
		}

		chk := hashprefix.New(&hashprefix.Config{
			Upstream:    svc,
			ServiceName: "zzc19",
			TXTSuffix:   zzC19Suffix,
			CacheTime:   10 * time.Hour,
			CacheSize:   100000,
		})
		conf := &Config{}
		setts := &Settings{ProtectionEnabled: true}
		via, reason := "CheckHost/safebrowsing", FilteredSafeBrowsing
		if w%2 == 0 {
			conf.SafeBrowsingEnabled, conf.SafeBrowsingChecker = true, chk
			setts.SafeBrowsingEnabled = true
		} else {
			conf.ParentalEnabled, conf.ParentalControlChecker = true, chk
			setts.ParentalEnabled = true
			via, reason = "CheckHost/parental", FilteredParental
		}
		d, err := New(conf, nil)
		if err != nil {
			t.Fatalf("c19: New: %v", err)
		}

		reset := zzC19NewLine("reset", w)
		reset.T = 10
		var cur []zzC19Hash
		for h := range svc.db {
			cur = append(cur, h)
		}
		sort.Slice(cur, func(i, j int) bool { return string(cur[i][:]) < string(cur[j][:]) })
		reset.DB = zzC19AbsAll(cur)
		out.put(reset)

		for i := 0; i < nSteps && (maxSteps < 0 || i < maxSteps); i++ {
			if rng.Intn(8) == 0 {
				l := zzC19NewLine("db", w)
				h := listable[rng.Intn(len(listable))]
				if svc.db[h] {
					delete(svc.db, h)
					l.Del = append(l.Del, zzC19Abs(h))
				} else {
					svc.db[h] = true
					l.Add = append(l.Add, zzC19Abs(h))
				}
				out.put(l)

				continue
			}

			labels := pool[rng.Intn(len(pool))]
			lower := strings.Join(labels, ".")
			host := zzC19MixCase(rng, lower)
			svc.fail = rng.Intn(9) == 0
			failing := svc.fail
			// Error replies only in walks 2, 3 (mod 4), i.e. with either
			// service, for one lookup in six.
			svc.errReply = !failing && w%4 >= 2 && rng.Intn(6) == 0
			errReply := svc.errReply
			res, cerr := d.CheckHost(host, dns.TypeA, setts)
			svc.fail, svc.errReply = false, false
			prefs, qn, ok, why := svc.zzC19Observe(host, zzC19Chain(labels))
			l := zzC19NewLine("check", w)
			cut, opt := zzC19PSL(labels)
			l.N = zzC19AbsName{L: labels, Cut: cut, Opt: opt, H: zzC19AbsAll(zzC19Chain(labels))}
			l.Q, l.OK, l.Why, l.Host, l.QN, l.Via = prefs, ok, why, host, qn, via
			l.V = res.IsFiltered && res.Reason == reason
			l.F, l.X, l.E = failing, errReply, cerr != nil
			if cerr != nil {
				l.Why += " error: " + cerr.Error()
			} else if res.IsFiltered != l.V {
				l.OK, l.Why = false, "filtered for another reason: "+res.Reason.String()
			}
			out.put(l)
		}

		d.Close()
	}
}
