package dnsforward

// C02 conformance harness.
//
// Direction A (TestZZVerifC02Replay): every line of VERIF_IN is one
// configuration of specs/DnsPipeline.tla (SpecGen02) with the verdict table
// over (query type x upstream answer section): the mock upstream returns the
// concretised answer section, the query goes through
// Server.handleDNSRequest, and the projected outcome (delivered unchanged /
// replaced by the blocking-mode response, reason, original answer kept for
// the query log) must be admissible.
//
// Direction B (TestZZVerifC02Trace): seeded larger configurations and answer
// sections (CNAME chains, several addresses, HTTPS hints with several
// addresses, up to 5 records) recorded for specs/TraceDnsPipeline.tla.

import (
	"encoding/json"
	"math/rand"
	"os"
	"path/filepath"
	"strconv"
	"testing"
)

type zzC02Line struct {
	Kind    string           `json:"kind"`
	I       int              `json:"i"`
	RRs     []zzC0102RR      `json:"rrs"`
	Answers [][]int          `json:"answers"`
	QName   []string         `json:"qname"`
	Cfg     zzC0102Cfg       `json:"cfg"`
	Tab     []zzC02Entry     `json:"tab"`
}

// zzC02Entry is one entry of a configuration's table: the answer section
// number K (1-based index into the header's list), the query type and the
// admissible outcomes.
type zzC02Entry struct {
	K   int          `json:"k"`
	Qt  string       `json:"qt"`
	Out []zzC0102Out `json:"out"`
}

type zzC02Bad struct {
	Kind     string       `json:"kind"`
	I        int          `json:"i"`
	Q        int          `json:"q"`
	Qtype    string       `json:"qtype"`
	Ans      []zzC0102RR  `json:"ans"`
	Got      zzC0102Out   `json:"got"`
	Want     []zzC0102Out `json:"want"`
	Concrete string       `json:"concrete"`
	Lists    any          `json:"lists"`
}

func TestZZVerifC02Replay(t *testing.T) {
	idx, n, done := zzC0102Shard(t, "TestZZVerifC02Replay")
	if done {
		return
	}

	w := zzNewWriter(t, "VERIF_OUT")
	defer w.close()

	dir := zzC0102WorkDir(t)
	var hdr zzC02Line
	lineNo, cfgs, evals, bad := 0, 0, 0, 0
	zzReadNDJSON(t, "VERIF_IN", func(b []byte) {
		var l zzC02Line
		if err := json.Unmarshal(b, &l); err != nil {
			t.Fatalf("bad vector: %v", err)
		}

		if l.Kind == "hdr02" {
			hdr = l

			return
		}

		lineNo++
		if lineNo%n != idx {
			return
		}

		rng := rand.New(rand.NewSource(zzSeed()*1000003 + int64(l.I)))
		d := filepath.Join(dir, strconv.Itoa(l.I))
		z, err := zzC0102Build(&l.Cfg, d, rng)
		if err != nil {
			w.put(map[string]any{"kind": "skip", "i": l.I, "err": err.Error()})

			return
		}
		defer func() { z.close(); _ = os.RemoveAll(d) }()

		cfgs++
		for _, e := range l.Tab {
			req := &zzC0102Req{Name: hdr.QName, Qtype: e.Qt, Client: "c1"}
			ix := hdr.Answers[e.K-1]
			ans := make([]zzC0102RR, len(ix))
			for j, r := range ix {
				ans[j] = hdr.RRs[r-1]
			}

			o := z.query(req, ans, rng, "")
			evals++
			if zzC0102Admissible(o.Out, e.Out) {
				continue
			}

			o2 := z.query(req, ans, rng, "")
			if zzC0102Admissible(o2.Out, e.Out) {
				w.put(map[string]any{"kind": "flaky", "i": l.I, "q": e.K, "first": o, "second": o2})

				continue
			}

			bad++
			if bad <= 200 {
				w.put(zzC02Bad{
					Kind: "bad", I: l.I, Q: e.K, Qtype: e.Qt, Ans: zzC0102FullRRs(ans),
					Got: o2.Out, Want: e.Out, Concrete: o2.Concrete, Lists: z.texts,
				})
			}
		}

		if cfgs <= 2 && len(hdr.RRs) >= 3 {
			ans := []zzC0102RR{hdr.RRs[0], hdr.RRs[2]}
			o := z.query(&zzC0102Req{Name: hdr.QName, Qtype: "A", Client: "c1"}, ans, rng, "")
			w.put(map[string]any{"kind": "sample", "i": l.I, "lists": z.texts, "ans": ans, "obs": o})
		}
	})

	w.put(map[string]any{"kind": "summary", "shard": idx, "configs": cfgs, "evals": evals, "bad": bad})
}

// ---------------------------------------------------------------- direction B

var zzC02V4 = []string{"i1", "i2", "sent4"}
var zzC02V6 = []string{"i6", "j6", "sent6"}

func zzC02RandRule(rng *rand.Rand, names [][]string, id int) (r zzC0102Rule) {
	r = zzC0102Rule{
		ID: id, Dt: "none", Cl: "none", Da: [][]string{},
		Place: []string{"allow", "block", "block", "custom", "custom", "offblock"}[rng.Intn(6)],
		Kind:  []string{"block", "block", "allow"}[rng.Intn(3)],
		Imp:   rng.Intn(4) == 0,
	}

	if rng.Intn(2) == 0 {
		tok := append(append([]string{}, zzC02V4[:2]...), zzC02V6[:2]...)[rng.Intn(4)]
		r.Tgt = zzC0102Host{IsIP: true, N: []string{tok}}
		r.Pat = []string{"domain", "exact"}[rng.Intn(2)]
	} else {
		r.Tgt = zzC0102Host{N: names[rng.Intn(len(names))]}
		r.Pat = []string{"domain", "domain", "exact", "wild"}[rng.Intn(4)]
		if rng.Intn(8) == 0 {
			r.Kind, r.Pat, r.Imp = "hosts", "exact", false
			r.IP = []string{"r1", "r6", "null4"}[rng.Intn(3)]

			return r
		}
	}

	if rng.Intn(5) == 0 {
		r.Cl = []string{"only", "except"}[rng.Intn(2)]
		r.Clv = []string{"ip", "cidr", "name"}[rng.Intn(3)]
	}

	if rng.Intn(6) == 0 {
		r.Da = append(r.Da, names[rng.Intn(len(names))])
	}

	return r
}

func TestZZVerifC02Trace(t *testing.T) {
	w := zzNewWriter(t, "VERIF_OUT")
	defer w.close()

	nCfg, _ := strconv.Atoi(os.Getenv("VERIF_N"))
	if nCfg == 0 {
		nCfg = 100
	}

	only := zzC0102Only()
	dir := zzC0102WorkDir(t)
	for ci := 0; ci < nCfg; ci++ {
		if only != nil && !only[ci] {
			continue
		}

		rng := rand.New(rand.NewSource(zzSeed()*104729 + int64(ci)))
		qname := zzC01RandName(rng, 3)
		t1 := zzC01RandName(rng, 4)
		names := [][]string{qname, t1, append([]string{"cdn"}, t1...), zzC01RandName(rng, 3), t1[len(t1)-1:]}

		cfg := zzC0102Cfg{Rules: []zzC0102Rule{}}
		for i, nr := 0, rng.Intn(13); i < nr; i++ {
			cfg.Rules = append(cfg.Rules, zzC02RandRule(rng, names, i+1))
		}
		cfg.Mode = []string{"default", "refused", "nxdomain", "null_ip", "custom_ip"}[rng.Intn(5)]
		cfg.Prot = []string{"on", "on", "on", "on", "off", "paused", "expired"}[rng.Intn(7)]
		cfg.Filt = rng.Intn(6) != 0
		cfg.Svc = "none"
		cfg.AAAAOff = rng.Intn(4) == 0
		cfg.Client = zzC0102Client{Known: rng.Intn(2) == 0, Filt: true, Svc: "inherit"}
		if cfg.Client.Known {
			cfg.Client.UseOwn = rng.Intn(2) == 0
			cfg.Client.Filt = rng.Intn(3) != 0
		}

		d := filepath.Join(dir, "t"+strconv.Itoa(ci))
		z, err := zzC0102Build(&cfg, d, rng)
		if err != nil {
			t.Fatalf("building %s: %v", zzC0102JSON(cfg), err)
		}

		w.put(map[string]any{"ev": "cfg", "ci": ci, "cfg": cfg, "lists": z.texts})
		for qi := 0; qi < 30; qi++ {
			var ans []zzC0102RR
			for k, na := 0, rng.Intn(6); k < na; k++ {
				switch rng.Intn(6) {
				case 0, 1:
					ans = append(ans, zzC0102RR{T: "CNAME", N: names[1+rng.Intn(3)]})
				case 2:
					ans = append(ans, zzC0102RR{T: "A", A: zzC02V4[rng.Intn(3)]})
				case 3:
					ans = append(ans, zzC0102RR{T: "AAAA", A: zzC02V6[rng.Intn(3)]})
				case 4:
					rr := zzC0102RR{T: "HTTPS"}
					for j, m := 0, rng.Intn(3); j < m; j++ {
						rr.H4 = append(rr.H4, zzC02V4[rng.Intn(3)])
					}
					for j, m := 0, rng.Intn(3); j < m; j++ {
						rr.H6 = append(rr.H6, zzC02V6[rng.Intn(3)])
					}
					ans = append(ans, rr)
				default:
					ans = append(ans, zzC0102RR{T: "TXT"})
				}
			}

			qts := []string{"A", "HTTPS", "AAAA"}
			if cfg.AAAAOff {
				qts = qts[:2]
			}
			req := zzC0102Req{Name: qname, Qtype: qts[rng.Intn(len(qts))], Client: []string{"c1", "c1", "c2"}[rng.Intn(3)]}
			o := z.query(&req, ans, rng, "")
			w.put(map[string]any{"ev": "q", "req": req, "ans": zzC0102FullRRs(ans), "obs": o.Out, "concrete": o.Concrete})
		}

		z.close()
		_ = os.RemoveAll(d)
	}
}
