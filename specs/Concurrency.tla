---------------------------- MODULE Concurrency ----------------------------
(***************************************************************************)
(* C05 -- live reconfiguration while DNS requests are served.              *)
(*                                                                         *)
(* The shared state of the server is abstracted to a set of configuration  *)
(* cells.  A DNS request is a multi-step process (the stage list of        *)
(* handleDNSRequest); every stage reads some cells.  Every admin API       *)
(* operation and every background worker writes some cells (admin          *)
(* operations are mutually serialised by the control lock of the HTTP      *)
(* layer, so each is one atomic action here).  The lock protocol itself is *)
(* LockOrder.tla's subject; this module states WHICH (writer, reader       *)
(* stage) pairs can overlap in time on a common cell -- the "conflict      *)
(* pairs".  The conformance harness must execute every conflict pair with  *)
(* real goroutines under the race detector (that is how the stress         *)
(* scenario families are derived, not guessed), and the spec fixes what an *)
(* in-flight request may observe: each stage sees, for each cell, either   *)
(* the version before or the version after a concurrent write -- never a   *)
(* torn value -- and always completes.                                     *)
(***************************************************************************)
EXTENDS Naturals, FiniteSets, Sequences, TLC, Json

Cells == {"access", "clients", "leases", "userRules", "filterLists", "engines", "rewrites",
          "blockedSvc", "protection", "safeSearch", "qlogConf", "qlogBuf", "statsConf",
          "statsUnit", "fconf"}

Stages == <<"Before", "Initial", "FilterBefore", "Upstream", "FilterAfter", "Log">>

\* Cells read (or, for the log/statistics buffers, appended to) by each stage.
StageCells ==
    [Before       |-> {"access"},
     Initial      |-> {"clients", "leases", "fconf", "safeSearch", "blockedSvc"},
     FilterBefore |-> {"rewrites", "engines", "protection", "fconf", "leases"},
     Upstream     |-> {"clients"},
     FilterAfter  |-> {"engines", "protection"},
     Log          |-> {"qlogConf", "qlogBuf", "statsConf", "statsUnit", "clients", "access", "leases"}]

\* Admin API operations (names = scenario families of the harness).
AdminWrites ==
    [Clients         |-> {"clients"},
     Access          |-> {"access"},
     UserRules       |-> {"userRules", "engines"},
     FilterLists     |-> {"filterLists", "engines", "fconf"},
     Rewrites        |-> {"rewrites"},
     BlockedServices |-> {"blockedSvc"},
     Protection      |-> {"protection"},
     SafeSearch      |-> {"safeSearch", "fconf"},
     QueryLogConf    |-> {"qlogConf", "qlogBuf"},
     StatsConf       |-> {"statsConf", "statsUnit"},
     DHCPLeases      |-> {"leases"}]

\* Background workers.
WorkerWrites ==
    [FilterRefresh   |-> {"filterLists", "engines"},
     StatsFlush      |-> {"statsUnit"},
     QLogFlush       |-> {"qlogBuf"},
     ProtectionTimer |-> {"protection"}]

\* Every admin operation ends by serialising the whole configuration
\* (config.write): a reader of every cell.
ConfigWriteReads == Cells

AdminOps == DOMAIN AdminWrites
Workers  == DOMAIN WorkerWrites
Reqs     == {"q1", "q2"}

VARIABLES ver,      \* cell -> version number (bumped by each write)
          stage,    \* request -> index into Stages, Len(Stages)+1 = answered
          seen,     \* request -> cell -> version observed by the stage that read it
          budget,   \* remaining writes (bounds the model)
          overlap   \* set of <<writer, stage>> pairs that actually overlapped on a cell
vars == <<ver, stage, seen, budget, overlap>>

Init == /\ ver = [c \in Cells |-> 0]
        /\ stage = [r \in Reqs |-> 1]
        /\ seen = [r \in Reqs |-> [c \in Cells |-> 0]]
        /\ budget = 2
        /\ overlap = {}

InFlight(r) == stage[r] > 1 /\ stage[r] <= Len(Stages)

\* A write happening while request r is in flight overlaps with every LATER
\* (or current) stage of r that touches one of the written cells.
NewOverlaps(w, cells) ==
    {<<w, Stages[i]>> : i \in {j \in 1..Len(Stages) :
        /\ StageCells[Stages[j]] \cap cells # {}
        /\ \E r \in Reqs : stage[r] <= j /\ stage[r] >= 1}}

Write(w, cells) ==
    /\ budget > 0
    /\ budget' = budget - 1
    /\ ver' = [c \in Cells |-> IF c \in cells THEN ver[c] + 1 ELSE ver[c]]
    /\ overlap' = overlap \cup NewOverlaps(w, cells)
    /\ UNCHANGED <<stage, seen>>

Admin(op)  == Write(op, AdminWrites[op])
Worker(wk) == Write(wk, WorkerWrites[wk])

\* One stage of one request: reads its cells atomically with respect to any
\* single cell (the guarantee the locks are there to give), then advances.
Step(r) ==
    /\ stage[r] <= Len(Stages)
    /\ LET s == Stages[stage[r]] IN
       seen' = [seen EXCEPT ![r] = [c \in Cells |-> IF c \in StageCells[s] THEN ver[c] ELSE @[c]]]
    /\ stage' = [stage EXCEPT ![r] = @ + 1]
    /\ UNCHANGED <<ver, budget, overlap>>

Done == \A r \in Reqs : stage[r] = Len(Stages) + 1
Next == \/ \E op \in AdminOps : Admin(op)
        \/ \E wk \in Workers : Worker(wk)
        \/ \E r \in Reqs : Step(r)
        \/ (Done /\ UNCHANGED vars)
Spec == Init /\ [][Next]_vars /\ \A r \in Reqs : WF_vars(Step(r))

\* ---------------------------------------------------------------- properties
TypeOK == /\ \A c \in Cells : ver[c] \in 0..2
          /\ \A r \in Reqs : stage[r] \in 1..(Len(Stages) + 1)
\* What a request observed is a version that existed: never torn, never from
\* the future.
ObservedVersionsExist == \A r \in Reqs, c \in Cells : seen[r][c] <= ver[c]
\* No admin operation or worker can prevent a request from being answered.
EveryRequestAnswered == \A r \in Reqs : <>(stage[r] = Len(Stages) + 1)

\* ------------------------------------------------- scenario-family derivation
\* Static conflict pairs: (writer, stage) sharing a cell.  Emitted once, from
\* the initial state, for the orchestrator; the dynamic `overlap' variable
\* shows each of them is reachable as a real overlap (checked by AllReached).
ConflictPairs ==
    {<<w, s>> \in (AdminOps \cup Workers) \X {Stages[i] : i \in 1..Len(Stages)} :
        LET cells == IF w \in AdminOps THEN AdminWrites[w] ELSE WorkerWrites[w]
        IN StageCells[s] \cap cells # {}}
FamilyOf == [w \in AdminOps \cup Workers |->
               {s \in {Stages[i] : i \in 1..Len(Stages)} : <<w, s>> \in ConflictPairs}]
\* The persist step that ends every admin operation (config.write) is a reader of
\* every cell (ConfigWriteReads).  Admin operations exclude each other (the control
\* lock), so the only writers that can overlap with it are the background workers:
\* each worker whose cells it reads is one more scenario family ("Persist": the
\* persist step of an admin operation against the worker's own write-back step).
PersistPairs == {w \in Workers : WorkerWrites[w] \cap ConfigWriteReads # {}}
EmitFamilies ==
    PrintT(<<"@@V", ToJson([families |-> [w \in AdminOps \cup Workers |-> FamilyOf[w]],
                            persist |-> PersistPairs,
                            pairs |-> Cardinality(ConflictPairs)])>>)
ASSUME EmitFamilies
\* Overlaps recorded dynamically are always static conflict pairs.
OverlapSound == overlap \subseteq ConflictPairs
=============================================================================
