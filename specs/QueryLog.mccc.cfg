SPECIFICATION Spec
VIEW View
CONSTANTS
  MaxRec = 5
  MemSizes = {2}
  FileModes = {TRUE}
  Palettes = {}
  Kinds = {2}
  RestartResizes = FALSE
  IgnoreModes = {FALSE}
  AnonModes = {FALSE}
  MaxFlight = 2
  Faults = FALSE
  AllowWindow = FALSE
  EmitEdges = FALSE
INVARIANTS TypeOK Ordered NothingLost PayloadPreserved SearchAll PagingPartitions WindowPaging NoParameterCrashes LastReplyOK
