------------------------------ MODULE TraceAuth ------------------------------
(***************************************************************************)
(* Direction B for the session half of C12.  Each line is one step of a    *)
(* seeded random history (login, request with a cookie, logout, clock      *)
(* advance, restart = close and reopen sessions.db) against the real       *)
(* handlers, with the production session lifetime (30 days) and other      *)
(* lifetimes, five token names, time in seconds.  A line carries the reply *)
(* and the live content of memory and of the file before and after the     *)
(* step; it is accepted iff Auth.tla's own effect operators admit it.      *)
(***************************************************************************)
EXTENDS Integers, Sequences, FiniteSets, TLC, Json

Trace == ndJsonDeserialize("trace.ndjson")

AU == INSTANCE Auth WITH Tokens <- {}, TTLSet <- {}, MaxTick <- 1,
                         ttl <- 0, mem <- <<>>, db <- <<>>, clock <- 0,
                         issued <- {}, loggedOut <- {}, expired <- {}, lo <- <<>>, out <- <<>>

VARIABLES l, bad

Store(o) == [mem |-> [t \in DOMAIN o.mem |-> o.mem[t]], db |-> [t \in DOMAIN o.db |-> o.db[t]]]
Same(s1, s2) ==
    /\ DOMAIN s1.mem = DOMAIN s2.mem /\ DOMAIN s1.db = DOMAIN s2.db
    /\ \A t \in DOMAIN s1.mem : s1.mem[t] = s2.mem[t]
    /\ \A t \in DOMAIN s1.db : s1.db[t] = s2.db[t]

EmptyStore(s) == (\A t \in DOMAIN s.mem : s.mem[t] = 0) /\ (\A t \in DOMAIN s.db : s.db[t] = 0)

LineOk(i) ==
    LET L    == Trace[i]
        pre  == Store(L.pre)
        post == Store(L.post)
    IN
    /\ L.ttl >= 1
    /\ CASE L.k = "reset"   -> EmptyStore(pre) /\ EmptyStore(post) /\ L.now = 0
         [] L.k = "login"   ->
                /\ L.t \in DOMAIN pre.mem /\ pre.mem[L.t] = 0 /\ pre.db[L.t] = 0
                /\ L.res = "ok"
                /\ Same(AU!LoginEffect(pre, L.t, L.now, L.ttl), post)
         [] L.k = "use"     ->
                /\ L.t \in DOMAIN pre.mem
                /\ \E o \in AU!UseEffects(pre, L.t, L.now, L.ttl) : o.res = L.res /\ Same(o.st, post)
         [] L.k = "logout"  -> L.t \in DOMAIN pre.mem /\ Same(AU!LogoutEffect(pre, L.t), post)
         [] L.k = "tick"    -> L.d >= 1 /\ Same(AU!TickEffect(pre, L.now), post)
         [] L.k = "restart" -> Same(AU!RestartEffect(pre, L.now), post)
         [] OTHER           -> FALSE
    /\ (i > 1 /\ L.k # "reset" =>
          LET P == Trace[i - 1] IN
          /\ P.tr = L.tr /\ P.ttl = L.ttl
          /\ L.pre = P.post
          /\ L.now = P.now + (IF L.k = "tick" THEN L.d ELSE 0))
    /\ (i = 1 => L.k = "reset")

Init == l = 1 /\ bad = {}
Next == /\ l <= Len(Trace)
        /\ bad' = IF LineOk(l) THEN bad ELSE bad \cup {l}
        /\ l' = l + 1
        /\ (l' = Len(Trace) + 1 => PrintT(<<"@@V", ToJson([n |-> Len(Trace), bad |-> bad'])>>))
Spec == Init /\ [][Next]_<<l, bad>>
=============================================================================
