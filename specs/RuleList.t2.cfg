SPECIFICATION Spec
CONSTANTS MaxLines = 4
          Shapes <- ShapesCore
          Endings <- EndingsLFCR
INVARIANTS Statement
