------------------------ MODULE TraceScheduleHolder ------------------------
(***************************************************************************)
(* Direction B for the schedules in effect (ScheduleHolder.tla): each line *)
(* of trace.ndjson is one request to one of two holders "g" and "c" --     *)
(* act = "put" (update API), "null" (update API without a schedule),       *)
(* "yaml" / "json" (restart from a configuration document decoded on top   *)
(* of the defaults), "yamlnone" (such a document without a schedule: the   *)
(* empty schedule) -- with a random document (any zone of the host,        *)
(* random ranges in ms + ns, valid or not), followed by reading back BOTH  *)
(* holders and asking both Contains at random instants.  Logged: h, act,   *)
(* the document (tz, w, wn), the reply ok, and per holder what was read    *)
(* back (tz, w, wn) and probes <<second, UTC offset of the zone in effect  *)
(* at that second, answer>>.                                               *)
(*                                                                         *)
(* The step is judged with ScheduleCore!DecodeOutcomes from the state the   *)
(* previous line OBSERVED (so that one bad step is one rejected line); the *)
(* other holder must read back exactly as before; the probes are judged    *)
(* with ScheduleCore!Contains on the logged offset.  "reset" lines start   *)
(* two new servers.                                                        *)
(***************************************************************************)
EXTENDS Integers, Sequences, FiniteSets, TLC, Json

MS == INSTANCE ScheduleCore WITH TPD <- 86400000, TPM <- 60000, SUB <- 1000000, WD0 <- 4
RS == INSTANCE ScheduleCore WITH TPD <- 86400, TPM <- 60, SUB <- 1000000000, WD0 <- 4

Trace == ndJsonDeserialize("trace.ndjson")

VARIABLES l, live, bad

Holders == {"g", "c"}
OtherH(h) == IF h = "g" THEN "c" ELSE "g"

Week4(w, wn) == [d \in 0 .. 6 |-> [s |-> w[d + 1][1], e |-> w[d + 1][2], sn |-> wn[d + 1][1], en |-> wn[d + 1][2]]]
Doc(i) == [tz |-> Trace[i].tz, w |-> Week4(Trace[i].w, Trace[i].wn)]
ObsOf(i, h) == IF h = "g" THEN Trace[i].g ELSE Trace[i].c
Got(i, h) == [tz |-> ObsOf(i, h).tz, w |-> Week4(ObsOf(i, h).w, ObsOf(i, h).wn)]
Boot   == [tz |-> "Local", w |-> [d \in 0 .. 6 |-> [s |-> 0, e |-> 0, sn |-> 0, en |-> 0]]]

SecWeek(w) == [x \in 0 .. 6 |-> [s |-> w[x].s \div 1000, e |-> w[x].e \div 1000]]
ProbesOk(i, h, val) ==
    \A j \in DOMAIN ObsOf(i, h).probes :
        LET p == ObsOf(i, h).probes[j] IN
        /\ p[3] \in {0, 1}               \* 2: the question was not answered at all (panic)
        /\ RS!Contains(SecWeek(val.w), [base |-> p[2], trans |-> <<>>], [s |-> p[1], n |-> 0]) <=> (p[3] = 1)

\* What the request may do to the holder it is addressed to.
Outcomes(i) ==
    IF Trace[i].act \in {"null", "yamlnone"} THEN {[ok |-> TRUE, val |-> Boot]}
    ELSE MS!DecodeOutcomes(live[Trace[i].h], Doc(i))

\* The observed step is one of the admissible outcomes, read back unchanged,
\* Contains answers for exactly that schedule -- and the other holder is
\* exactly as it was.
StepOk(i) ==
    LET h == Trace[i].h IN
    /\ \E o \in Outcomes(i) :
          /\ o.ok = (Trace[i].ok = 1)
          /\ Got(i, h) = o.val
          /\ ProbesOk(i, h, o.val)
    /\ Got(i, OtherH(h)) = live[OtherH(h)]
    /\ ProbesOk(i, OtherH(h), live[OtherH(h)])

Init == l = 1 /\ live = [h \in Holders |-> Boot] /\ bad = {}
Next == /\ l <= Len(Trace)
        /\ IF Trace[l].k = "reset"
           THEN live' = [h \in Holders |-> Boot] /\ bad' = bad
           ELSE /\ bad' = IF StepOk(l) THEN bad ELSE bad \cup {l}
                /\ live' = [h \in Holders |-> Got(l, h)]
        /\ l' = l + 1
        /\ (l' = Len(Trace) + 1 => PrintT(<<"@@V", ToJson([n |-> Len(Trace), bad |-> bad'])>>))
Spec == Init /\ [][Next]_<<l, live, bad>>
=============================================================================
