SPECIFICATION GenSpec
CONSTANTS
  MaxLines = 3
  LenClasses = {"t", "h", "m"}
  LayoutSet <- Layouts
